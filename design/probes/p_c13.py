import numpy as np, logging, tempfile, os, itertools
logging.disable(logging.CRITICAL)
import mici
from mici.states import ChainState
from mici.samplers import _get_per_chain_rngs
from mici.adapters import DualAveragingStepSizeAdapter, OnlineVarianceMetricAdapter
from mici.stagers import WarmUpStager, WindowedWarmUpStager
def nld(q): return 0.5*np.sum(q**2) + 0.1*np.sum(q**4)
def gnld(q): return q + 0.4*q**3
def make(seed, kind):
    system = mici.systems.EuclideanMetricSystem(nld, grad_neg_log_dens=gnld)
    integ = mici.integrators.LeapfrogIntegrator(system, step_size=0.4)
    rng = np.random.default_rng(seed)
    if kind == 'static': s = mici.samplers.StaticMetropolisHMC(system, integ, rng, n_step=3)
    elif kind == 'dyn': s = mici.samplers.DynamicMultinomialHMC(system, integ, rng, max_tree_depth=4)
    else: s = mici.samplers.DynamicSliceHMC(system, integ, rng, max_tree_depth=4)
    return system, integ, s
inits = [np.array([0.1, -0.2]), np.array([1.0, 0.5]), np.array([-1., 2.])]
def reference(kind, n_main, n_chain):
    """re-derive the main-stage chain by hand (no adapters): same per-chain rngs, same transitions"""
    system, integ, s = make(7, kind)
    states = [s._preprocess_init_state(i.copy()) for i in inits[:n_chain]]
    rngs = _get_per_chain_rngs(s.rng, n_chain)
    out = []
    for st, rng in zip(states, rngs):
        pos, ham, nstep, acc = [], [], [], []
        for it in range(n_main):
            for key, t in s.transitions.items():
                st, stats = t.sample(st, rng)
            pos.append(st.pos.copy()); ham.append(system.h(st)); nstep.append(stats['n_step']); acc.append(stats['accept_stat'])
        out.append((np.array(pos), np.array(ham), np.array(nstep), np.array(acc), st))
    return out
bad = []
for kind in ('static', 'dyn', 'slice'):
  for n_chain in (1, 3):
    for n_main in (0, 1, 5):
      ref = reference(kind, n_main, n_chain)
      for force_memmap, n_process in ((False, 1), (True, 1), (False, 2)):
        with tempfile.TemporaryDirectory() as d:
          for mpath in (None, d):
            if mpath is not None and not (force_memmap or n_process > 1): continue
            system, integ, s = make(7, kind)
            try:
                o = s.sample_chains(0, n_main, [i.copy() for i in inits[:n_chain]], adapters=[], display_progress=False, n_process=n_process, force_memmap=force_memmap, memmap_path=mpath)
            except Exception as e:
                bad.append((kind, n_chain, n_main, force_memmap, n_process, 'EXC', type(e).__name__, str(e)[:60])); continue
            for c in range(n_chain):
                p, h, ns, ac, fst = ref[c]
                ok = (o.traces['pos'][c].shape == (n_main, 2) and np.array_equal(np.asarray(o.traces['pos'][c]), p.reshape(n_main, 2)) and np.array_equal(np.asarray(o.traces['hamiltonian'][c]), h)
                      and np.array_equal(np.asarray(o.statistics['n_step'][c]), ns) and np.array_equal(np.asarray(o.statistics['accept_stat'][c]), ac)
                      and np.array_equal(o.final_states[c].pos, fst.pos) and np.array_equal(o.final_states[c].mom, fst.mom))
                if not ok: bad.append((kind, n_chain, n_main, force_memmap, n_process, mpath is not None, c))
print('mismatches:', len(bad)); print(bad[:10])
