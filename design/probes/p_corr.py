import numpy as np, math, subprocess, re, sys
from fractions import Fraction
exec(open('/tmp/probe/p_c01.py').read().split("rng = np.random.default_rng(0)")[0])
rng = np.random.default_rng(11)
n = 24; lo = -12; maxd = 2
ws = [Fraction(int(rng.integers(1, 20)), int(rng.integers(1, 20))) for _ in range(n)]
hs = [-math.log(float(w)) for w in ws]
table = {}
for a in range(lo, lo+n):
    for b in range(a+1, lo+n):
        if rng.uniform() < 0.2: table[(a,b)] = True
bad = (-2, 3)
starts = list(range(-3, 4))
def qs(fr): return f"({fr.numerator}#{fr.denominator})"
def zlit(z): return f"({z})%Z"
def fun_table(pairs, default, val):
    s = "fun z => "
    for k, v in pairs: s += f"if Z.eqb z {zlit(k)} then {val(v)} else "
    return s + default
coq = ["Require Import trans.", "From Coq Require Import QArith ZArith List Bool.", "Import ListNotations.", "Open Scope Q_scope."]
coq.append("Definition WT : Z -> Q := " + fun_table([(lo+i, w) for i, w in enumerate(ws)], "0", qs) + ".")
coq.append("Definition OKE : Z -> bool := fun z => negb (" + " || ".join(f"Z.eqb z {zlit(b)}" for b in bad) + ").")
coq.append("Definition CR : Z -> Z -> bool := fun a b => " + (" || ".join(f"(Z.eqb a {zlit(a)} && Z.eqb b {zlit(b)})" for (a,b) in table) or "false") + ".")
coq.append("Definition OB : orbit := {| wt := WT; okE := OKE; div := fun _ => false; crit := CR; wfun := WT |}.")
coq.append("Fixpoint prn (j : Z) (l : list (out * Q)) : Q := match l with [] => 0 | (o, q) :: r => (if Z.eqb (next o) j then q else 0) + prn j r end.")
coq.append("Fixpoint exn (l : list (out * Q)) : Q := match l with [] => 0 | (o, q) :: r => q * (inject_Z (Z.of_nat (o_nstep o))) + exn r end.")
for extra in ("false", "true"):
    for i in starts:
        js = list(range(i-4, i+5))
        coq.append(f"Eval vm_compute in (let d := to_dist (sample OB false {extra} (WT {zlit(i)}) {maxd} {zlit(i)}) 1 in (Qred (exn d), map (fun j => Qred (prn j d)) [{'; '.join(zlit(j) for j in js)}])).")
open('/tmp/probe/coq/cases.v', 'w').write("\n".join(coq) + "\n")
r = subprocess.run("cd /tmp/probe/coq && coqc cases.v", shell=True, capture_output=True, text=True)
if r.returncode: print(r.stderr[-2000:]); sys.exit(1)
outs = re.findall(r"= \(([^,]*?),\s*\[(.*?)\]\)\s*:", r.stdout.replace("\n", " "))
def parseq(t):
    t = t.strip(); 
    if '#' in t: a, b = t.split('#'); return Fraction(int(a.strip().strip('()')), int(b.strip().strip('()')))
    return Fraction(int(t.strip('()')))
idx = 0; maxerr = 0; maxerr_n = 0
system = OrbitSystem(hs, lo)
for extra in (False, True):
    for i in starts:
        exn_c, lst = outs[idx]; idx += 1
        probs_c = [parseq(t) for t in lst.split(';')]
        def mk(start):
            integ = OrbitIntegrator(bad)
            t = MultinomialDynamicIntegrationTransition(system, integ, max_tree_depth=maxd, termination_criterion=crit_factory(table), do_extra_subtree_checks=extra)
            return t, ChainState(pos=np.array([float(start)]), mom=np.array([float(start)]), dir=1)
        res = enumerate_transition(mk, i)
        js = list(range(i-4, i+5))
        for j, pc in zip(js, probs_c):
            pp = sum(p for p, e, _ in res if e == j)
            maxerr = max(maxerr, abs(pp - float(pc)))
        en = sum(p*st['n_step'] for p, e, st in res)
        maxerr_n = max(maxerr_n, abs(en - float(parseq(exn_c))))
print('cases', idx, 'max |P_py - P_coq| =', maxerr, ' max |E n_step diff| =', maxerr_n)
