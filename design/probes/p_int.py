import numpy as np
import mici, mici.systems as S, mici.integrators as I, mici.states as St
from mici.states import ChainState
# C06: implicit leapfrog time scale on separable quadratic system (Riemannian with constant diag metric)
def nld(q): return 0.5*np.sum(q**2)
def gnld(q): return q
sysr = S.DiagonalRiemannianMetricSystem(nld, lambda q: np.ones_like(q), vjp_metric_diagonal_func=lambda q: (lambda v: np.zeros_like(q)), grad_neg_log_dens=gnld)
for cls in (I.ImplicitLeapfrogIntegrator, I.ImplicitMidpointIntegrator):
    for eps in (0.1, 0.05):
        integ = cls(sysr, eps)
        st = ChainState(pos=np.array([1.0]), mom=np.array([0.0]), dir=1)
        s2 = integ.step(st)
        # exact: q = cos t, p = -sin t
        print(cls.__name__, eps, s2.pos, s2.mom, 'exact(eps)', np.cos(eps), -np.sin(eps), 'exact(2eps)', np.cos(2*eps), -np.sin(2*eps))
syse = S.EuclideanMetricSystem(nld, grad_neg_log_dens=gnld)
for eps in (0.1,):
    integ = I.LeapfrogIntegrator(syse, eps)
    st = ChainState(pos=np.array([1.0]), mom=np.array([0.0]), dir=1)
    s2 = integ.step(st); print('leapfrog', s2.pos, s2.mom)
# C05/C09 Gaussian system
sysg = S.GaussianEuclideanMetricSystem(lambda q: 0.25*np.sum(q**4), grad_neg_log_dens=lambda q: q**3, metric=np.array([2.0, 3.0]))
st = ChainState(pos=np.array([1.0, 2.0]), mom=np.array([0.5, -1.0]), dir=1)
print('dh_dpos', sysg.dh_dpos(st), 'dh1+dh2', sysg.dh1_dpos(st)+sysg.dh2_dpos(st))
a = sysg.dh2_dpos(st); st.pos = np.array([5.0, 6.0]); print('stale dh2_dpos', sysg.dh2_dpos(st), 'fresh', st.pos)
try:
    sysg2 = S.GaussianEuclideanMetricSystem(lambda q: 0.25*np.sum(q**4), grad_neg_log_dens=lambda q: q**3)
    st = ChainState(pos=np.array([1.0, 2.0]), mom=np.array([0.5, -1.0]), dir=1)
    sysg2.h2_flow(st, 0.1); print(st.pos)
except Exception as e: print('implicit identity h2_flow ERR', type(e).__name__, e)
