import numpy as np, itertools, math
from fractions import Fraction
import mici
from mici.states import ChainState
from mici.transitions import (MultinomialDynamicIntegrationTransition, SliceDynamicIntegrationTransition,
    MetropolisStaticIntegrationTransition, MetropolisRandomIntegrationTransition)
from mici.errors import ConvergenceError

class OrbitSystem:
    def __init__(self, hs, lo): self.hs, self.lo = hs, lo
    def h(self, state): 
        i = int(state.pos[0]); return self.hs[i - self.lo]
class OrbitIntegrator:
    def __init__(self, bad_edges=()): self.step_size = 1.0; self.bad = set(bad_edges)
    def step(self, state):
        s = state.copy(); i = int(s.pos[0]); j = i + int(s.dir)
        if (min(i,j)) in self.bad: raise ConvergenceError('bad edge')
        s.pos = np.array([float(j)]); s.mom = np.array([float(j)]); return s

class ScriptRng:
    """Enumerates all branches: uniform() returns values decided by a script of booleans for comparisons."""
    def __init__(self, script): self.script = list(script); self.pos = 0; self.log = []
    def uniform(self):
        return _U(self)
    def integers(self, lo, hi):
        raise NotImplementedError
class _U:
    # object returned by uniform(); comparison u < p consumes a scripted boolean and records p
    def __init__(self, rng): self.rng = rng
    def __lt__(self, p):
        pv = float(p.val) if hasattr(p, 'log_val') else float(p)
        r = self.rng
        if r.pos < len(r.script): b = r.script[r.pos]
        else: b = None
        r.pos += 1
        if b is None: raise NeedMore(pv)
        r.log.append((pv, b)); return b
class NeedMore(Exception): pass

def enumerate_transition(make_trans, start, slice_u=None):
    """returns dict end_index -> prob, plus list of (prob, stats)"""
    results = []
    stack = [[]]
    while stack:
        script = stack.pop()
        rng = ScriptRng(script)
        trans, state = make_trans(start)
        try:
            new_state, stats = trans.sample(state, rng)
        except NeedMore:
            stack.append(script + [True]); stack.append(script + [False]); continue
        p = 1.0
        for pv, b in rng.log:
            pv = min(max(pv, 0.0), 1.0) if not math.isnan(pv) else 0.0
            p *= pv if b else (1 - pv)
        results.append((p, int(new_state.pos[0]), stats))
    return results

def crit_factory(table):
    def crit(system, s1, s2, sum_mom):
        return table.get((int(s1.pos[0]), int(s2.pos[0])), False)
    return crit

def check(kind, hs, lo, maxd, crit_table, extra, bad=(), max_delta_h=1000.):
    system = OrbitSystem(hs, lo); hi = lo + len(hs) - 1
    span = 2**maxd
    js = range(lo + 2*span, hi - 2*span + 1)
    tot = {j: 0.0 for j in js}
    w = lambda i: math.exp(-hs[i-lo])
    for i in range(lo, hi+1):
        pass
    for j in js:
        acc = 0.0
        for i in range(j - span + 1, j + span):
            def mk(start):
                integ = OrbitIntegrator(bad)
                t = kind(system, integ, max_tree_depth=maxd, termination_criterion=crit_factory(crit_table), do_extra_subtree_checks=extra, max_delta_h=max_delta_h)
                return t, ChainState(pos=np.array([float(start)]), mom=np.array([float(start)]), dir=1)
            res = enumerate_transition(mk, i)
            assert abs(sum(p for p,_,_ in res) - 1) < 1e-12
            acc += w(i) * sum(p for p, e, _ in res if e == j)
        tot[j] = acc / w(j)
    return tot

rng = np.random.default_rng(0)
n = 40; lo = -20
for trial in range(3):
    hs = list(rng.uniform(0, 3, size=n))
    table = {}
    for a in range(lo, lo+n):
        for b in range(a+1, lo+n):
            if rng.uniform() < 0.15: table[(a,b)] = True
    for extra in (False, True):
        print('multinomial', trial, extra, {j: round(v, 12) for j, v in check(MultinomialDynamicIntegrationTransition, hs, lo, 3, table, extra).items() if abs(v-1)>1e-9} or 'all 1')
    print('multinomial bad edges', {j: round(v, 12) for j, v in check(MultinomialDynamicIntegrationTransition, hs, lo, 3, table, True, bad=(-3, 5)).items() if abs(v-1)>1e-9} or 'all 1')
    print('multinomial divergence thr 1.0', {j: round(v, 6) for j, v in check(MultinomialDynamicIntegrationTransition, hs, lo, 2, table, True, max_delta_h=1.0).items() if abs(v-1)>1e-9} or 'all 1')
