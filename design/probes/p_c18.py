import numpy as np, collections
import mici
from mici.states import ChainState
calls = collections.Counter()
def nld(q): calls['nld'] += 1; return 0.5*q@q
def g1(q): calls['grad'] += 1; return q
def g2(q): calls['grad'] += 1; return q, 0.5*q@q
for gname, g in (('grad-only', g1), ('grad+val', g2)):
    system = mici.systems.EuclideanMetricSystem(nld, grad_neg_log_dens=g)
    integ = mici.integrators.LeapfrogIntegrator(system, 0.3)
    rng = np.random.default_rng(0)
    for n in (1, 4, 9):
        t = mici.transitions.MetropolisStaticIntegrationTransition(system, integ, n_step=n)
        cc = collections.Counter()
        st = ChainState(pos=np.array([0.3, -0.4]), mom=np.array([1.0, 0.2]), dir=1, _call_counts=cc)
        calls.clear(); st2, stats = t.sample(st, rng)
        first = dict(calls)
        calls.clear(); st2.mom = system.sample_momentum(st2, rng); st3, stats2 = t.sample(st2, rng)
        print(gname, 'metropolis n', n, 'first', first, 'second', dict(calls), 'accepted', st2 is not st)
    t = mici.transitions.MultinomialDynamicIntegrationTransition(system, integ, max_tree_depth=4)
    for rep in range(3):
        st = ChainState(pos=np.array([0.3, -0.4]), mom=np.array([1.0, 0.2]), dir=1)
        calls.clear(); st2, stats = t.sample(st, rng)
        c1 = dict(calls); calls.clear(); st2.mom = system.sample_momentum(st2, rng); st3, stats3 = t.sample(st2, rng)
        print(gname, 'nuts n_step', stats['n_step'], c1, 'second n_step', stats3['n_step'], dict(calls))
