import numpy as np, itertools
import mici.matrices as mm
rng = np.random.default_rng(1)
def spd(n):
    a = rng.standard_normal((n, n)); return a @ a.T + n*np.eye(n)
n, k = 5, 2
F = rng.standard_normal((n, k))*0.3
P = mm.DensePositiveDefiniteMatrix(spd(n))
K = mm.DensePositiveDefiniteMatrix(spd(k)*0.1)
for sign in (1, -1):
    for cls in (mm.SquareLowRankUpdateMatrix, mm.SymmetricLowRankUpdateMatrix, mm.PositiveDefiniteLowRankUpdateMatrix):
        if cls is mm.SquareLowRankUpdateMatrix:
            m = cls(mm.DenseRectangularMatrix(F), mm.DenseRectangularMatrix(F.T), P, K, sign=sign)
        else:
            m = cls(mm.DenseRectangularMatrix(F), P, K, sign=sign)
        dense = P.array + sign * F @ K.array @ F.T
        print(cls.__name__, sign, 'array', np.abs(m.array-dense).max(),
              'inv', np.abs(m.inv.array - np.linalg.inv(dense)).max(),
              'logdet', abs(m.log_abs_det - np.linalg.slogdet(dense)[1]),
              'diag', np.abs(m.diagonal - np.diag(dense)).max(), 'eig min', np.linalg.eigvalsh(dense).min())
        if hasattr(m, 'sqrt'):
            s = m.sqrt.array
            print('   sqrt', np.abs(s @ s.T - dense).max())
            # grads
            def f_ld(Fv): return np.linalg.slogdet(P.array + sign*Fv@K.array@Fv.T)[1]
            v = rng.standard_normal(n)
            def f_q(Fv): return v @ np.linalg.solve(P.array + sign*Fv@K.array@Fv.T, v)
            def num_grad(f, x, h=1e-6):
                g = np.zeros_like(x)
                for idx in np.ndindex(*x.shape):
                    xp = x.copy(); xp[idx]+=h; xm = x.copy(); xm[idx]-=h
                    g[idx] = (f(xp)-f(xm))/(2*h)
                return g
            print('   grad_ld', np.abs(m.grad_log_abs_det - num_grad(f_ld, F)).max(), ' grad_q', np.abs(m.grad_quadratic_form_inv(v) - num_grad(f_q, F)).max())
