import numpy as np
exec(open('/tmp/probe/p_num.py').read().split("print('--- C05 derivative checks')")[0])
import mici.adapters as A, mici.transitions as T
class BasisRng:
    def __init__(self, k=None, vec=None): self.k, self.vec = k, vec
    def _v(self, shape):
        n = shape if isinstance(shape, int) else shape[0]
        if self.vec is not None: return self.vec.copy()
        e = np.zeros(n); e[self.k] = 1.0; return e
    def standard_normal(self, shape): return self._v(shape)
    def normal(self, size): return self._v(size)
print('--- C08')
for name, s in systems.items():
    constrained = 'constr' in name
    d = Dc if constrained else D
    q = on_manifold_point() if constrained else rng.standard_normal(d)
    st = ChainState(pos=q.copy(), mom=None, dir=1)
    L = np.column_stack([s.sample_momentum(st, BasisRng(k)) for k in range(d)])
    z = rng.standard_normal(d); lin = np.abs(s.sample_momentum(st, BasisRng(vec=z)) - L@z).max()
    M = s.metric.array if hasattr(s.metric, 'array') else s.metric(st).array
    if constrained:
        J = s.jacob_constr(st); Minv = np.linalg.inv(M); G = J@Minv@J.T
        target = M - J.T@np.linalg.solve(G, J)
    else: target = M
    print(name, 'linear', float(f'{lin:.1e}'), 'cov err', float(f'{np.abs(L@L.T-target).max():.1e}'))
# partial refresh
s = systems['euclid_dense']
for c in (0.0, 0.3, 1.0):
    t = T.CorrelatedMomentumTransition(s, c)
    p0 = rng.standard_normal(D); n = rng.standard_normal(D)
    st = ChainState(pos=rng.standard_normal(D), mom=p0.copy(), dir=1)
    class R: 
        def standard_normal(self, shape): return n.copy()
    st2, _ = t.sample(st, R())
    Ls = s.metric.sqrt.array if hasattr(s.metric.sqrt,'array') else None
    print('refresh c', c, np.abs(st2.mom - (np.sqrt(1-c*c)*p0 + c*(s.metric.sqrt@n))).max())
print('--- C17')
ad = A.OnlineVarianceMetricAdapter(); adc = A.OnlineCovarianceMetricAdapter()
X = rng.standard_normal((23, 3))*np.array([1,5,0.1]) + np.array([0, 1e3, -5])
class Tr: 
    class system:
        metric=None
        @staticmethod
        def sample_momentum(state, rng): return np.zeros(3)
def run(adapter, splits):
    states = []
    for chunk in np.split(X, splits):
        stt = adapter.initialize(ChainState(pos=chunk[0].copy(), mom=None, dir=1), None)
        for x in chunk: adapter.update(stt, ChainState(pos=x.copy(), mom=None, dir=1), {}, None)
        states.append(stt)
    tr = Tr(); cs = [ChainState(pos=X[0].copy(), mom=np.zeros(3), dir=1) for _ in states]
    adapter.finalize(states if len(states)>1 else states[0], cs if len(states)>1 else cs[0], tr, [None]*len(states) if len(states)>1 else None)
    return tr.system.metric
n = len(X)
var = X.var(0, ddof=1); reg = var*n/(5+n) + 1e-3*5/(5+n)
cov = np.cov(X.T); regc = cov*n/(5+n) + np.eye(3)*1e-3*5/(5+n)
for splits in ([], [1], [3, 10], [22], [5,6,7,20]):
    m = run(ad, splits); mc = run(adc, splits)
    print(splits, 'var relerr', np.abs(1/m.diagonal/reg-1).max(), 'cov relerr', np.abs(np.linalg.inv(mc.array)/regc-1).max())
