import numpy as np, math
from decimal import Decimal, getcontext
getcontext().prec = 60
from mici.utils import log1m_exp, log1p_exp, log_sum_exp, log_diff_exp, LogRepFloat
def ref_log1m_exp(v):
    d = Decimal(v); return float((1 - d.exp()).ln())
for v in (-1e-3, -1e-8, -1e-12, -1e-15, -0.5, -0.7, -1.0, -50.0):
    r = ref_log1m_exp(v); g = log1m_exp(v)
    print('log1m_exp', v, g, r, 'relerr', abs(g-r)/abs(r))
for v in (1e-3, 30., 700., 800., -800., -30.):
    d = Decimal(v); r = float((1+d.exp()).ln()); g = log1p_exp(v); print('log1p_exp', v, g, r, abs(g-r)/abs(r) if r else abs(g-r))
print(log_diff_exp(1.0, 1.0-1e-12), float(((Decimal(1.0).exp()-Decimal(1.0-1e-12).exp()).ln())))
print(log_sum_exp(-math.inf, 3.0), log_sum_exp(3.0, -math.inf), log_sum_exp(math.inf, 1.0))
a = LogRepFloat(0.0); b = LogRepFloat(0.0)
try: print('0/0', (a/b).log_val)
except Exception as e: print('err', e)
print('0+0', (a+b).log_val, '0-0', (a-b).log_val)
import mici.matrices as mm
rng = np.random.default_rng(0)
L = np.tril(rng.standard_normal((3,3))) + 2*np.eye(3)
for sign in (1,-1):
    m = mm.TriangularFactoredDefiniteMatrix(L, sign=sign, factor_is_lower=True)
    v = rng.standard_normal(3)
    def f(Lv): return v @ np.linalg.solve(sign*Lv@Lv.T, v)
    def fld(Lv): return np.linalg.slogdet(sign*Lv@Lv.T)[1]
    def num_grad(f, x, h=1e-6):
        g = np.zeros_like(x)
        for idx in np.ndindex(*x.shape):
            if idx[0] < idx[1]: continue
            xp = x.copy(); xp[idx]+=h; xm = x.copy(); xm[idx]-=h
            g[idx] = (f(xp)-f(xm))/(2*h)
        return g
    print('TriFac sign', sign, 'grad_q err', np.abs(m.grad_quadratic_form_inv(v)-num_grad(f, L)).max(), 'grad_ld err', np.abs(m.grad_log_abs_det - num_grad(fld, L)).max(),
      'inv err', np.abs(m.inv.array - np.linalg.inv(sign*L@L.T)).max())
    d = mm.DenseDefiniteMatrix(sign*L@L.T, is_posdef=(sign==1))
    S = sign*L@L.T
    def fq(M): return v@np.linalg.solve(M, v)
    def fl(M): return np.linalg.slogdet(M)[1]
    def num_grad_full(f, x, h=1e-6):
        g = np.zeros_like(x)
        for idx in np.ndindex(*x.shape):
            xp = x.copy(); xp[idx]+=h; xm = x.copy(); xm[idx]-=h
            g[idx] = (f(xp)-f(xm))/(2*h)
        return g
    print(' Dense sign', sign, np.abs(d.grad_quadratic_form_inv(v)-num_grad_full(fq,S)).max(), np.abs(d.grad_log_abs_det-num_grad_full(fl,S)).max(), 'inv', np.abs(d.inv.array-np.linalg.inv(S)).max())
F = rng.standard_normal((4,2)); P = mm.PositiveDiagonalMatrix(np.array([1.,2.,3.,4.]))
a = mm.SymmetricLowRankUpdateMatrix(mm.DenseRectangularMatrix(F), P, sign=1); b = mm.SymmetricLowRankUpdateMatrix(mm.DenseRectangularMatrix(F), P, sign=-1)
print('lowrank eq across sign', a == b, hash(a)==hash(b), np.abs(a.array-b.array).max())
