import numpy as np, gc
import mici
from mici.states import ChainState
st = ChainState(pos=np.array([1.0, 2.0]), mom=np.array([0.5, 0.5]), dir=1)
hits = 0
for trial in range(20):
    a = mici.systems.EuclideanMetricSystem(lambda q: 1.0*np.sum(q**2), grad_neg_log_dens=lambda q: 2*q)
    ida = id(a); va = a.neg_log_dens(st)
    del a; gc.collect()
    b = mici.systems.EuclideanMetricSystem(lambda q: 100.0*np.sum(q**2), grad_neg_log_dens=lambda q: 200*q)
    vb = b.neg_log_dens(st)
    fresh = b.neg_log_dens(ChainState(pos=st.pos.copy(), mom=st.mom.copy(), dir=1))
    if vb != fresh: hits += 1
    st = ChainState(pos=np.array([1.0, 2.0]), mom=np.array([0.5, 0.5]), dir=1)
print('stale due to id reuse:', hits, '/ 20')
