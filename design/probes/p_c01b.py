import numpy as np, math
exec(open('/tmp/probe/p_c01.py').read().split("rng = np.random.default_rng(0)")[0])
class ScriptRng2(ScriptRng):
    def __init__(self, script, u0): super().__init__(script); self.u0 = u0; self.first = True
    def uniform(self):
        if self.first and self.u0 is not None:
            self.first = False; return self.u0
        return _U(self)
    def integers(self, lo, hi):
        return self.n_step
def enum2(mk, start, u0, n_step=None):
    results = []; stack = [[]]
    while stack:
        script = stack.pop(); rng = ScriptRng2(script, u0); rng.n_step = n_step
        trans, state = mk(start)
        try: new_state, stats = trans.sample(state, rng)
        except NeedMore: stack.append(script+[True]); stack.append(script+[False]); continue
        p = 1.0
        for pv, b in rng.log:
            pv = min(max(pv, 0.0), 1.0) if not math.isnan(pv) else 0.0
            p *= pv if b else (1-pv)
        results.append((p, int(new_state.pos[0]), int(new_state.dir), stats))
    return results
def check_slice(hs, lo, maxd, table, extra, bad=(), mdh=1000.):
    system = OrbitSystem(hs, lo); hi = lo+len(hs)-1; span = 2**maxd
    w = lambda i: math.exp(-hs[i-lo])
    out = {}
    for j in range(lo+2*span, hi-2*span+1):
        acc = 0.0
        win = range(j-2*span, j+2*span+1)
        bps = sorted(set([0.0] + [w(k) for k in win] + [w(k)*math.exp(mdh) for k in win if hs[k-lo] - mdh > -50]))
        for i in range(j-span+1, j+span):
            wi = w(i)
            for a, b in zip(bps[:-1], bps[1:]):
                if a >= wi: break
                b2 = min(b, wi); mid = 0.5*(a+b2)
                def mk(start):
                    integ = OrbitIntegrator(bad)
                    t = SliceDynamicIntegrationTransition(system, integ, max_tree_depth=maxd, termination_criterion=crit_factory(table), do_extra_subtree_checks=extra, max_delta_h=mdh)
                    return t, ChainState(pos=np.array([float(start)]), mom=np.array([float(start)]), dir=1)
                res = enum2(mk, i, mid/wi)
                assert abs(sum(r[0] for r in res)-1) < 1e-12
                acc += (b2-a) * sum(r[0] for r in res if r[1]==j)
        out[j] = acc / w(j)
    return out
def check_metro(hs, lo, n_step, bad=()):
    # extended state (index, dir); target w(i)/2 each dir
    system = OrbitSystem(hs, lo); hi = lo+len(hs)-1
    w = lambda i: math.exp(-hs[i-lo])
    out = {}
    for j in range(lo+2*n_step+1, hi-2*n_step):
      for dj in (1,-1):
        acc = 0.0
        for i in range(j-n_step, j+n_step+1):
          for di in (1,-1):
            def mk(start):
                integ = OrbitIntegrator(bad)
                t = MetropolisStaticIntegrationTransition(system, integ, n_step=n_step)
                return t, ChainState(pos=np.array([float(start)]), mom=np.array([float(start)]), dir=di)
            res = enum2(mk, i, None)
            acc += w(i) * sum(r[0] for r in res if r[1]==j and r[2]==dj)
        out[(j,dj)] = acc / w(j)
    return out
rng = np.random.default_rng(0); n = 40; lo = -20
for trial in range(2):
    hs = list(rng.uniform(0, 3, size=n)); table = {}
    for a in range(lo, lo+n):
        for b in range(a+1, lo+n):
            if rng.uniform() < 0.15: table[(a,b)] = True
    for extra in (False, True):
        print('slice', trial, extra, {j: round(v,9) for j,v in check_slice(hs, lo, 2, table, extra).items() if abs(v-1)>1e-9} or 'all 1')
    print('slice bad', {j: round(v,9) for j,v in check_slice(hs, lo, 2, table, True, bad=(-3,5)).items() if abs(v-1)>1e-9} or 'all 1')
    print('slice div 1.0', {j: round(v,9) for j,v in check_slice(hs, lo, 2, table, True, mdh=1.0).items() if abs(v-1)>1e-9} or 'all 1')
    print('metro', {j: round(v,9) for j,v in check_metro(hs, lo, 3).items() if abs(v-1)>1e-9} or 'all 1')
    print('metro bad', {j: round(v,9) for j,v in check_metro(hs, lo, 3, bad=(-3,5)).items() if abs(v-1)>1e-9} or 'all 1')
