import numpy as np, logging, collections
logging.disable(logging.CRITICAL)
import mici, mici.solvers as sol
from mici.states import ChainState
class Fault:
    def __init__(self): self.n = collections.Counter(); self.at = None
    def wrap(self, name, f):
        def g(q):
            self.n[name] += 1
            r = f(q)
            if self.at is not None and self.at[0] == name and self.n[name] == self.at[1]:
                kind = self.at[2]
                if kind == 'nan': return r * np.nan
                if kind == 'inf': return r * np.inf if np.all(r != 0) else r + np.inf
                if kind == 'ValueError': raise ValueError('injected')
                if kind == 'LinAlgError': raise np.linalg.LinAlgError('injected')
            return r
        return g
F = Fault()
def build(solver, trans_cls):
    system = mici.systems.DenseConstrainedEuclideanMetricSystem(
        F.wrap('nld', lambda q: 0.5*np.sum((q-0.3)**2)), F.wrap('constr', lambda q: np.array([np.sum(q**2)-1.0])),
        grad_neg_log_dens=F.wrap('grad', lambda q: q-0.3), jacob_constr=F.wrap('jac', lambda q: 2*q[None,:]), dens_wrt_hausdorff=True)
    integ = mici.integrators.ConstrainedLeapfrogIntegrator(system, step_size=0.3, projection_solver=solver)
    if trans_cls is mici.transitions.MetropolisStaticIntegrationTransition:
        t = trans_cls(system, integ, n_step=3)
    else:
        t = trans_cls(system, integ, max_tree_depth=3)
    return system, integ, t
res = collections.Counter(); examples = {}
for solver in (sol.solve_projection_onto_manifold_newton, sol.solve_projection_onto_manifold_quasi_newton, sol.solve_projection_onto_manifold_newton_with_line_search):
  for trans_cls in (mici.transitions.MetropolisStaticIntegrationTransition, mici.transitions.MultinomialDynamicIntegrationTransition):
    for name in ('nld','constr','grad','jac'):
      for kind in ('nan','inf','ValueError','LinAlgError'):
        for k in range(1, 25):
            F.n.clear(); F.at = None
            system, integ, t = build(solver, trans_cls)
            rng = np.random.default_rng(5)
            st = ChainState(pos=np.array([0.6, 0.8, 0.0]), mom=None, dir=1)
            st.mom = system.sample_momentum(st, rng)
            F.n.clear(); F.at = (name, k, kind)
            try:
                for it in range(3):
                    st, stats = t.sample(st, rng)
                    assert np.all(np.isfinite(st.pos)) and np.all(np.isfinite(st.mom)), 'nonfinite state'
                key = 'ok'
            except BaseException as e:
                key = 'ESC ' + type(e).__module__ + '.' + type(e).__name__
                examples.setdefault((key, name, kind), (solver.__name__, trans_cls.__name__, k, str(e)[:80]))
            res[(name, kind, key)] += 1
for k, v in sorted(res.items()): print(k, v)
for k, v in examples.items(): print(k, v)
