import numpy as np, logging, collections, warnings
warnings.filterwarnings('ignore')
logging.disable(logging.CRITICAL)
import mici, mici.solvers as sol, mici.systems as S, mici.integrators as I
from mici.states import ChainState
class Fault:
    def __init__(self): self.n = collections.Counter(); self.at = None
    def wrap(self, name, f):
        def g(q):
            self.n[name] += 1
            r = f(q)
            if self.at is not None and self.at[0] == name and self.n[name] == self.at[1]:
                kind = self.at[2]
                if kind == 'nan': return r * np.nan if not callable(r) else (lambda v: np.nan * r(v))
                if kind == 'inf': return r + np.inf if not callable(r) else (lambda v: np.inf + r(v))
                if kind == 'ValueError': raise ValueError('injected')
                if kind == 'LinAlgError': raise np.linalg.LinAlgError('injected')
            return r
        return g
F = Fault(); D = 2
Am = np.array([[2., .3],[.3, 1.]])
def build(which, integ_cls, trans_cls):
    nld = F.wrap('nld', lambda q: 0.5*q@Am@q + 0.1*np.sum(q**4)); g = F.wrap('grad', lambda q: Am@q + 0.4*q**3)
    if which == 'softabs':
        system = S.SoftAbsRiemannianMetricSystem(nld, grad_neg_log_dens=g, hess_neg_log_dens=F.wrap('hess', lambda q: Am + np.diag(1.2*q**2)),
            mtp_neg_log_dens=F.wrap('mtp', lambda q: (lambda m: 2.4*q*np.diag(m))))
    else:
        system = S.DiagonalRiemannianMetricSystem(nld, F.wrap('metric', lambda q: 1.0+q**2), vjp_metric_diagonal_func=F.wrap('vjp', lambda q: (lambda v: 2*q*v)), grad_neg_log_dens=g)
    integ = integ_cls(system, 0.1)
    t = trans_cls(system, integ, n_step=2) if trans_cls is mici.transitions.MetropolisStaticIntegrationTransition else trans_cls(system, integ, max_tree_depth=2)
    return system, integ, t
res = collections.Counter(); ex = {}
for which in ('softabs', 'diag'):
  names = ('nld','grad','hess','mtp') if which == 'softabs' else ('nld','grad','metric','vjp')
  for integ_cls in (I.ImplicitLeapfrogIntegrator, I.ImplicitMidpointIntegrator):
    for trans_cls in (mici.transitions.MetropolisStaticIntegrationTransition, mici.transitions.SliceDynamicIntegrationTransition):
      for name in names:
        for kind in ('nan','inf','ValueError','LinAlgError'):
          for k in range(1, 16):
            F.n.clear(); F.at = None
            system, integ, t = build(which, integ_cls, trans_cls)
            rng = np.random.default_rng(5)
            st = ChainState(pos=np.array([0.3, -0.5]), mom=None, dir=1); st.mom = system.sample_momentum(st, rng)
            F.n.clear(); F.at = (name, k, kind)
            try:
                for it in range(2):
                    st, stats = t.sample(st, rng)
                    assert np.all(np.isfinite(st.pos)) and np.all(np.isfinite(st.mom)), 'nonfinite state'
                key = 'ok'
            except BaseException as e:
                key = 'ESC ' + type(e).__module__ + '.' + type(e).__name__
                ex.setdefault((which, name, kind, key), (integ_cls.__name__, trans_cls.__name__, k, str(e)[:70]))
            res[(which, name, kind, key)] += 1
for k, v in sorted(res.items()):
    if k[3] != 'ok' and k[2] in ('nan','inf'): print(k, v, ex.get(k))
print('value-fault escapes:', sum(v for k,v in res.items() if k[3]!='ok' and k[2] in ('nan','inf')), 'exception-fault escapes:', sum(v for k,v in res.items() if k[3]!='ok' and k[2] not in ('nan','inf')), 'total', sum(res.values()))
for k, v in sorted(res.items()):
    if k[3] != 'ok' and k[2] not in ('nan','inf'): print(k, v, ex.get(k)[:3])
