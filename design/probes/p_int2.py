import numpy as np, traceback, logging
logging.disable(logging.CRITICAL)
import mici
from mici.states import ChainState
from mici.adapters import DualAveragingStepSizeAdapter, OnlineVarianceMetricAdapter
cnt = {'n': 0, 'at': None}
def nld(q):
    return 0.5*np.sum(q**2)
def gnld(q):
    cnt['n'] += 1
    if cnt['at'] is not None and cnt['n'] == cnt['at']:
        raise KeyboardInterrupt()
    return q
def make(fixed):
    system = mici.systems.EuclideanMetricSystem(nld, grad_neg_log_dens=gnld)
    integ = mici.integrators.LeapfrogIntegrator(system, step_size=0.5 if fixed else None)
    rng = np.random.default_rng(3)
    return system, integ, mici.samplers.StaticMetropolisHMC(system, integ, rng, n_step=2)
init = [np.array([0.1, -0.2]), np.array([1.0, 0.5]), np.array([-1., 2.])]
def run(at, n_warm, n_main, fixed, **kw):
    cnt['n'] = 0; cnt['at'] = at
    system, integ, s = make(fixed)
    return s.sample_chains(n_warm, n_main, [i.copy() for i in init], display_progress=False, **kw)
ref = run(None, 0, 6, True, adapters=[])
for at in (1, 2, 5, 9, 14, 20):
    try:
        o = run(at, 0, 6, True, adapters=[])
        ok = True
        for c, tr in enumerate(o.traces['pos']):
            filled = ~np.isnan(tr[:,0])
            k = filled.sum()
            ok &= np.array_equal(tr[:k], ref.traces['pos'][c][:k]) and not filled[k:].any()
        print('interrupt at', at, 'n final states', len(o.final_states), 'prefix ok', ok, [int((~np.isnan(t[:,0])).sum()) for t in o.traces['pos']], [int((s>=0).sum()) for s in o.statistics['n_step']])
    except BaseException as e:
        print('interrupt at', at, 'ESCAPED', type(e).__name__, e)
# interrupt during slow adaptive stage with variance adapter
for at in (30, 200):
    try:
        o = run(at, 40, 5, False, adapters=[DualAveragingStepSizeAdapter(), OnlineVarianceMetricAdapter()])
        print('adaptive interrupt at', at, 'returned; n final', len(o.final_states))
    except BaseException as e:
        print('adaptive interrupt at', at, 'ESCAPED', type(e).__name__, e)
esc = {}
for at in range(1, 700, 7):
    try:
        o = run(at, 40, 5, False, adapters=[DualAveragingStepSizeAdapter(), OnlineVarianceMetricAdapter()])
    except BaseException as e:
        esc.setdefault(type(e).__name__ + ':' + str(e)[:60], []).append(at)
print(esc)
