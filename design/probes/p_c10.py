import numpy as np, itertools, traceback, collections
import mici.matrices as mm
rng = np.random.default_rng(3)
def spd(n, scale=1.0):
    a = rng.standard_normal((n, n)); return scale*(a @ a.T / n + np.eye(n))
def orth(n): return np.linalg.qr(rng.standard_normal((n,n)))[0]
def make_leaf(n, kind):
    if kind == 'identity': return mm.IdentityMatrix(n), np.eye(n)
    if kind == 'pscaled': s = float(rng.uniform(0.5, 2)); return mm.PositiveScaledIdentityMatrix(s, n), s*np.eye(n)
    if kind == 'scaled': s = float(rng.choice([-1,1])*rng.uniform(0.5, 2)); return mm.ScaledIdentityMatrix(s, n), s*np.eye(n)
    if kind == 'pdiag': d = rng.uniform(0.5, 2, n); return mm.PositiveDiagonalMatrix(d), np.diag(d)
    if kind == 'diag': d = rng.uniform(0.5, 2, n)*rng.choice([-1,1], n); return mm.DiagonalMatrix(d), np.diag(d)
    if kind == 'tri':
        lower = bool(rng.integers(2)); a = rng.standard_normal((n,n)) + 3*np.eye(n); t = np.tril(a) if lower else np.triu(a)
        return mm.TriangularMatrix(a, lower=lower), t
    if kind == 'invtri':
        lower = bool(rng.integers(2)); a = rng.standard_normal((n,n)) + 3*np.eye(n); t = np.tril(a) if lower else np.triu(a)
        return mm.InverseTriangularMatrix(a, lower=lower), np.linalg.inv(t)
    if kind == 'trifac':
        lower = bool(rng.integers(2)); sign = int(rng.choice([-1,1])); a = rng.standard_normal((n,n)) + 3*np.eye(n); t = np.tril(a) if lower else np.triu(a)
        return mm.TriangularFactoredDefiniteMatrix(a, sign=sign, factor_is_lower=lower), sign*t@t.T
    if kind == 'trifacpd':
        lower = bool(rng.integers(2)); a = rng.standard_normal((n,n)) + 3*np.eye(n); t = np.tril(a) if lower else np.triu(a)
        return mm.TriangularFactoredPositiveDefiniteMatrix(a, factor_is_lower=lower), t@t.T
    if kind == 'densedef':
        pd = bool(rng.integers(2)); a = spd(n); a = a if pd else -a
        return mm.DenseDefiniteMatrix(a, is_posdef=pd), a
    if kind == 'densepd': a = spd(n); return mm.DensePositiveDefiniteMatrix(a), a
    if kind == 'densesq': a = rng.standard_normal((n,n)) + 2*np.eye(n); return mm.DenseSquareMatrix(a), a
    if kind == 'densesym': a = rng.standard_normal((n,n)); a = a + a.T + 3*np.eye(n); return mm.DenseSymmetricMatrix(a), a
    if kind == 'orth': q = orth(n); return mm.OrthogonalMatrix(q), q
    if kind == 'sorth': q = orth(n); s = float(rng.choice([-1,1])*rng.uniform(0.5,2)); return mm.ScaledOrthogonalMatrix(s, q), s*q
    if kind == 'eigsym': q = orth(n); e = rng.uniform(0.5,2,n)*rng.choice([-1,1],n); return mm.EigendecomposedSymmetricMatrix(q, e), (q*e)@q.T
    if kind == 'eigpd': q = orth(n); e = rng.uniform(0.5,2,n); return mm.EigendecomposedPositiveDefiniteMatrix(q, e), (q*e)@q.T
    if kind == 'softabs':
        a = rng.standard_normal((n,n)); a = a + a.T; c = float(rng.uniform(0.5, 2)); ev, evec = np.linalg.eigh(a)
        return mm.SoftAbsRegularizedPositiveDefiniteMatrix(a, c), (evec*(ev/np.tanh(ev*c)))@evec.T
    if kind == 'blockdiag':
        if n < 2: return make_leaf(n, 'densesq')
        k = int(rng.integers(1, n)); a, da = make_leaf(k, rng.choice(['densesq','tri','diag','orth'])); b, db = make_leaf(n-k, rng.choice(['densesq','pdiag','densesym']))
        import scipy.linalg as sla; return mm.SquareBlockDiagonalMatrix((a,b)), sla.block_diag(da, db)
    if kind == 'symblockdiag':
        if n < 2: return make_leaf(n, 'densesym')
        k = int(rng.integers(1, n)); a, da = make_leaf(k, rng.choice(['densesym','diag','eigsym'])); b, db = make_leaf(n-k, rng.choice(['densepd','pdiag','densesym']))
        import scipy.linalg as sla; return mm.SymmetricBlockDiagonalMatrix((a,b)), sla.block_diag(da, db)
    if kind == 'pdblockdiag':
        if n < 2: return make_leaf(n, 'densepd')
        k = int(rng.integers(1, n)); a, da = make_leaf(k, rng.choice(['densepd','pdiag','eigpd','trifacpd','pscaled'])); b, db = make_leaf(n-k, rng.choice(['densepd','pdiag','softabs']))
        import scipy.linalg as sla; return mm.PositiveDefiniteBlockDiagonalMatrix((a,b)), sla.block_diag(da, db)
    if kind == 'lowrank_sq':
        k = max(1, n//2); U = 0.3*rng.standard_normal((n,k)); V = 0.3*rng.standard_normal((k,n)); A, dA = make_leaf(n, rng.choice(['densesq','pdiag','densepd'])); C, dC = make_leaf(k, rng.choice(['densesq','pdiag']))
        return mm.SquareLowRankUpdateMatrix(mm.DenseRectangularMatrix(U), mm.DenseRectangularMatrix(V), A, C, sign=1), dA + U@dC@V
    if kind == 'lowrank_sym':
        k = max(1, n//2); U = 0.3*rng.standard_normal((n,k)); A, dA = make_leaf(n, rng.choice(['densesym','pdiag','densepd'])); C, dC = make_leaf(k, rng.choice(['densesym','pdiag']))
        return mm.SymmetricLowRankUpdateMatrix(mm.DenseRectangularMatrix(U), A, C, sign=1), dA + U@dC@U.T
    if kind == 'lowrank_pd':
        k = max(1, n//2); U = 0.3*rng.standard_normal((n,k)); A, dA = make_leaf(n, rng.choice(['pdiag','densepd','pscaled'])); C, dC = make_leaf(k, rng.choice(['densepd','pdiag']))
        return mm.PositiveDefiniteLowRankUpdateMatrix(mm.DenseRectangularMatrix(U), A, C, sign=1), dA + U@dC@U.T
    if kind == 'pdproduct':
        if n < 1: pass
        k = n + int(rng.integers(1,3)); R = rng.standard_normal((n,k)); P, dP = make_leaf(k, rng.choice(['pdiag','densepd']))
        return mm.DensePositiveDefiniteProductMatrix(R, P), R@dP@R.T
KINDS = ['identity','pscaled','scaled','pdiag','diag','tri','invtri','trifac','trifacpd','densedef','densepd','densesq','densesym','orth','sorth','eigsym','eigpd','softabs','blockdiag','symblockdiag','pdblockdiag','lowrank_sq','lowrank_sym','lowrank_pd','pdproduct']
def apply_op(m, d, op):
    if op == 'T': return m.T, d.T
    if op == 'inv': return m.inv, np.linalg.inv(d)
    if op == 'neg': return -m, -d
    if op == 'mul': s = float(rng.choice([-1,1])*rng.uniform(0.5,2)); return (m*s if rng.integers(2) else s*m), s*d
    if op == 'div': s = float(rng.choice([-1,1])*rng.uniform(0.5,2)); return m/s, d/s
    if op == 'sqrt': return m.sqrt, None
    if op == 'matmul':
        m2, d2 = make_leaf(d.shape[0], rng.choice(KINDS[:18])); return (m @ m2, d @ d2) if rng.integers(2) else (m2 @ m, d2 @ d)
def check(m, d, path, fails):
    n = d.shape[0]; tol = 1e-8*max(1, np.abs(d).max())
    def rec(name, err):
        if not (err < tol*10): fails[(type(m).__name__, name)].append((path, float(err)))
    try: rec('array', np.abs(np.asarray(m.array) - d).max())
    except Exception as e: fails[(type(m).__name__, 'array:EXC '+type(e).__name__)].append((path, str(e)[:60]))
    v = rng.standard_normal(n); V = rng.standard_normal((n,2)); W = rng.standard_normal((2,n))
    for name, f, ref in (('matvec', lambda: m@v, d@v), ('matmat', lambda: m@V, d@V), ('rvec', lambda: v@m, v@d), ('rmat', lambda: W@m, W@d), ('diag', lambda: m.diagonal, np.diag(d))):
        try: rec(name, np.abs(f() - ref).max())
        except Exception as e: fails[(type(m).__name__, name+':EXC '+type(e).__name__)].append((path, str(e)[:60]))
    if hasattr(m, 'log_abs_det'):
        try: rec('logdet', abs(m.log_abs_det - np.linalg.slogdet(d)[1]))
        except Exception as e: fails[(type(m).__name__, 'logdet:EXC '+type(e).__name__)].append((path, str(e)[:60]))
    if isinstance(m, mm.SymmetricMatrix):
        try:
            ev = np.sort(m.eigval); rec('eigval', np.abs(ev - np.sort(np.linalg.eigvalsh((d+d.T)/2))).max())
            E = m.eigvec; Ea = E.array if hasattr(E,'array') else E
            rec('eigvec', np.abs(Ea@np.diag(m.eigval)@Ea.T - d).max())
        except Exception as e: fails[(type(m).__name__, 'eig:EXC '+type(e).__name__)].append((path, str(e)[:60]))
        rec('symmetric', np.abs(d-d.T).max())
    if isinstance(m, mm.PositiveDefiniteMatrix):
        try: s = m.sqrt; sa = np.asarray(s.array); rec('sqrt', np.abs(sa@sa.T - d).max())
        except Exception as e: fails[(type(m).__name__, 'sqrt:EXC '+type(e).__name__)].append((path, str(e)[:60]))
        rec('posdef', max(0, -np.linalg.eigvalsh((d+d.T)/2).min()))
fails = collections.defaultdict(list); count = 0
for trial in range(1500):
    n = int(rng.choice([1,2,3,4])); kind = rng.choice(KINDS)
    try: m, d = make_leaf(n, kind)
    except Exception as e: fails[(kind, 'construct:EXC '+type(e).__name__)].append(((kind,n), str(e)[:80])); continue
    path = [(kind, n)]
    check(m, d, tuple(path), fails); count += 1
    for depth in range(int(rng.integers(0, 4))):
        ops = ['T','neg','mul','div','matmul']
        if isinstance(m, mm.InvertibleMatrix): ops.append('inv')
        op = rng.choice(ops)
        try: m, d = apply_op(m, d, op)
        except NotImplementedError: break
        except Exception as e: fails[(type(m).__name__, f'{op}:EXC '+type(e).__name__)].append((tuple(path), str(e)[:80])); break
        path.append(op)
        if np.linalg.cond(d) > 1e6: break
        check(m, d, tuple(path), fails); count += 1
print('checked', count)
for k, v in sorted(fails.items()): print(k, len(v), v[0])
