import numpy as np, logging
logging.disable(logging.CRITICAL)
import mici, mici.systems as S, mici.integrators as I, mici.solvers as sol, mici.matrices as mm
from mici.states import ChainState
from mici.errors import IntegratorError
rng = np.random.default_rng(7)
D = 3
A = rng.standard_normal((D,D)); Am = A@A.T/ D + np.eye(D)
def nld(q): return 0.5*q@Am@q + 0.1*np.sum(q**4)
def gnld(q): return Am@q + 0.4*q**3
def hess(q): return Am + np.diag(1.2*q**2)
def mtp(q):
    def f(m): return 2.4*q*np.diag(m)
    return f
# metrics
def metric_diag(q): return 1.0 + q**2
def vjp_diag(q): return lambda v: 2*q*v
systems = {}
ev = np.exp(0.3*rng.standard_normal(D)); Q_ = np.linalg.qr(rng.standard_normal((D,D)))[0]
Mdense = (Q_*ev)@Q_.T
systems['euclid_dense'] = S.EuclideanMetricSystem(nld, grad_neg_log_dens=gnld, metric=Mdense)
systems['gauss_dense'] = S.GaussianEuclideanMetricSystem(lambda q: 0.1*np.sum(q**4), grad_neg_log_dens=lambda q: 0.4*q**3, metric=Mdense)
systems['riem_diag'] = S.DiagonalRiemannianMetricSystem(nld, metric_diag, vjp_metric_diagonal_func=vjp_diag, grad_neg_log_dens=gnld)
systems['riem_scalar'] = S.ScalarRiemannianMetricSystem(nld, lambda q: 1+q@q, vjp_metric_scalar_func=lambda q: (lambda v: 2*q*v), grad_neg_log_dens=gnld)
def chol_f(q): return np.tril(np.eye(D) + 0.1*np.outer(q,q)) 
def vjp_chol(q):
    def f(v):
        v = np.tril(v); return 0.1*(v@q + v.T@q)
    return f
systems['riem_chol'] = S.CholeskyFactoredRiemannianMetricSystem(nld, chol_f, vjp_metric_chol_func=vjp_chol, grad_neg_log_dens=gnld)
def dense_f(q): return np.eye(D)*(1+q@q) + np.outer(q,q)
def vjp_dense(q):
    def f(v): return 2*q*np.trace(v) + (v+v.T)@q
    return f
systems['riem_dense'] = S.DenseRiemannianMetricSystem(nld, dense_f, vjp_metric_func=vjp_dense, grad_neg_log_dens=gnld)
systems['riem_softabs'] = S.SoftAbsRiemannianMetricSystem(nld, grad_neg_log_dens=gnld, hess_neg_log_dens=hess, mtp_neg_log_dens=mtp, softabs_coeff=1.5)
# constrained: two constraints in 4D
Dc = 4
def constr(q): return np.array([q@q - 1.0, q[0]*q[1] - 0.1*q[3]])
def jac(q): return np.array([2*q, [q[1], q[0], 0, -0.1]])
def mhp(q):
    def f(m):  # sum_ij m[i,j] hess[i,j,k]
        h0 = 2*np.eye(Dc); h1 = np.zeros((Dc,Dc)); h1[0,1]=h1[1,0]=1
        return m[0]@h0 + m[1]@h1
    return f
Mc = np.diag([1.,2.,0.5,1.5])
for hd in (True, False):
    systems[f'constr_h{hd}'] = S.DenseConstrainedEuclideanMetricSystem(lambda q: 0.5*np.sum((q-0.2)**2)+0.1*np.sum(q**4), constr, metric=Mc, dens_wrt_hausdorff=hd,
        grad_neg_log_dens=lambda q: (q-0.2)+0.4*q**3, jacob_constr=jac, mhp_constr=mhp)
systems['gauss_constr'] = S.GaussianDenseConstrainedEuclideanMetricSystem(lambda q: 0.1*np.sum(q**4), constr, metric=Mc, grad_neg_log_dens=lambda q: 0.4*q**3, jacob_constr=jac, mhp_constr=mhp)

def fd_grad(f, x, h=1e-6):
    g = np.zeros_like(x)
    for i in range(x.size):
        xp = x.copy(); xp[i]+=h; xm = x.copy(); xm[i]-=h; g[i] = (f(xp)-f(xm))/(2*h)
    return g
def on_manifold_point():
    from scipy.optimize import fsolve
    q0 = rng.standard_normal(Dc)
    # newton project
    for _ in range(100):
        c = constr(q0); J = jac(q0); q0 = q0 - J.T@np.linalg.solve(J@J.T, c)
    return q0
print('--- C05 derivative checks')
for name, s in systems.items():
    constrained = 'constr' in name
    d = Dc if constrained else D
    q = on_manifold_point() if constrained else rng.standard_normal(d)
    p = rng.standard_normal(d)
    st = ChainState(pos=q.copy(), mom=p.copy(), dir=1)
    def h_at(qq, pp, which='h'):
        return getattr(s, which)(ChainState(pos=qq.copy(), mom=pp.copy(), dir=1))
    errs = {}
    errs['dh1_dpos'] = np.abs(s.dh1_dpos(st) - fd_grad(lambda x: h_at(x,p,'h1'), q)).max()
    errs['dh2_dpos'] = np.abs(s.dh2_dpos(st) - fd_grad(lambda x: h_at(x,p,'h2'), q)).max()
    errs['dh2_dmom'] = np.abs(s.dh2_dmom(st) - fd_grad(lambda x: h_at(q,x,'h2'), p)).max()
    errs['dh_dpos'] = np.abs(s.dh_dpos(st) - fd_grad(lambda x: h_at(x,p,'h'), q)).max()
    errs['dh_dmom'] = np.abs(s.dh_dmom(st) - fd_grad(lambda x: h_at(q,x,'h'), p)).max()
    errs['h=h1+h2'] = abs(s.h(st) - s.h1(st) - s.h2(st))
    print(name, {k: float(f'{v:.1e}') for k,v in errs.items()})
print('--- C02/C03/C04/C06 integrator checks')
def mk_state(name, s):
    constrained = 'constr' in name
    d = Dc if constrained else D
    q = on_manifold_point() if constrained else 0.5*rng.standard_normal(d)
    st = ChainState(pos=q.copy(), mom=None, dir=1)
    st.mom = s.sample_momentum(st, rng)
    return st
def integrators_for(name, s, eps):
    if 'constr' in name:
        return {f'CLF_{sv.__name__[31:]}_n{n}': I.ConstrainedLeapfrogIntegrator(s, eps, n_inner_step=n, projection_solver=sv)
                for sv in (sol.solve_projection_onto_manifold_newton, sol.solve_projection_onto_manifold_quasi_newton, sol.solve_projection_onto_manifold_newton_with_line_search) for n in (1,3)}
    if 'riem' in name:
        return {'ILF': I.ImplicitLeapfrogIntegrator(s, eps), 'IMP': I.ImplicitMidpointIntegrator(s, eps),
                'ILF_steff': I.ImplicitLeapfrogIntegrator(s, eps, fixed_point_solver=sol.solve_fixed_point_steffensen)}
    return {'LF': I.LeapfrogIntegrator(s, eps), 'BCSS2': I.BCSSTwoStageIntegrator(s, eps), 'BCSS3': I.BCSSThreeStageIntegrator(s, eps), 'BCSS4': I.BCSSFourStageIntegrator(s, eps),
            'SC_free': I.SymmetricCompositionIntegrator(s, (0.2, 0.3, 0.1, 0.15), step_size=eps, initial_h1_flow_step=False), 'IMP': I.ImplicitMidpointIntegrator(s, eps)}
def ref_flow(s, st, T, constrained, nsub=2000):
    # high accuracy reference: many tiny steps of 2nd order scheme via Richardson? use same-family integrator w/ tiny step -- independent: RK4 on Hamilton eqs for unconstrained
    q, p = st.pos.copy(), st.mom.copy()
    def f(q, p):
        ss = ChainState(pos=q.copy(), mom=p.copy(), dir=1)
        return s.dh_dmom(ss), -(s.dh1_dpos(ss) + s.dh2_dpos(ss))
    h = T/nsub
    for _ in range(nsub):
        k1q,k1p = f(q,p); k2q,k2p = f(q+0.5*h*k1q, p+0.5*h*k1p); k3q,k3p = f(q+0.5*h*k2q, p+0.5*h*k2p); k4q,k4p = f(q+h*k3q, p+h*k3p)
        q = q + h/6*(k1q+2*k2q+2*k3q+k4q); p = p + h/6*(k1p+2*k2p+2*k3p+k4p)
    return q, p
for name, s in systems.items():
    constrained = 'constr' in name
    st0 = mk_state(name, s)
    for iname, integ in integrators_for(name, s, 0.05).items():
        out = {}
        try:
            st = st0
            for _ in range(5): st = integ.step(st)
            fwd = st
            st = st.copy(); st.dir *= -1
            for _ in range(5): st = integ.step(st)
            out['rev'] = max(np.abs(st.pos-st0.pos).max(), np.abs(st.mom-st0.mom).max())
            if constrained:
                out['c'] = np.abs(s.constr(fwd)).max(); out['Jv'] = np.abs(s.jacob_constr(fwd)@s.dh_dmom(fwd)).max()
            else:
                # symplecticity via FD jacobian of one step
                d = st0.pos.size; z0 = np.concatenate([st0.pos, st0.mom]); J = np.zeros((2*d,2*d)); hh=1e-5
                def stepz(z):
                    r = integ.step(ChainState(pos=z[:d].copy(), mom=z[d:].copy(), dir=1)); return np.concatenate([r.pos, r.mom])
                for k in range(2*d):
                    e = np.zeros(2*d); e[k]=hh; J[:,k] = (stepz(z0+e)-stepz(z0-e))/(2*hh)
                Om = np.block([[np.zeros((d,d)), np.eye(d)],[-np.eye(d), np.zeros((d,d))]])
                out['sympl'] = np.abs(J.T@Om@J-Om).max()
                # order: compare with reference flow
                errs = []
                for eps in (0.08, 0.04, 0.02):
                    integ.step_size = eps
                    r = integ.step(st0); qr, pr = ref_flow(s, st0, eps, False, 200)
                    errs.append(max(np.abs(r.pos-qr).max(), np.abs(r.mom-pr).max()))
                integ.step_size = 0.05
                out['ord'] = [round(float(np.log2(errs[i]/errs[i+1])),2) for i in range(2)]; out['err'] = float(f'{errs[-1]:.1e}')
        except IntegratorError as e:
            out['ERR'] = type(e).__name__
        print(name, iname, {k: (float(f'{v:.1e}') if isinstance(v, float) else v) for k,v in out.items()})
