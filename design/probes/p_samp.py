import numpy as np, sys, traceback
import mici
from mici.states import ChainState
def nld(q): return 0.5*np.sum(q**2)
def gnld(q): return q
def make(seed=1, cls=mici.samplers.DynamicMultinomialHMC, **kw):
    system = mici.systems.EuclideanMetricSystem(nld, grad_neg_log_dens=gnld)
    integ = mici.integrators.LeapfrogIntegrator(system, step_size=0.5 if kw.pop('fixed', False) else None)
    rng = np.random.default_rng(seed)
    return system, integ, cls(system, integ, rng, **kw)
init = [np.array([0.1, -0.2]), np.array([1.0, 0.5]), np.array([-1., 2.])]
def run(n_warm, n_main, fixed=False, **kw):
    system, integ, s = make(fixed=fixed)
    out = s.sample_chains(n_warm, n_main, [i.copy() for i in init], display_progress=False, **kw)
    return out, integ
if __name__ == '__main__':
    # n_process None
    try:
        out, _ = run(0, 3, n_process=None, adapters=[]); print('n_process None OK')
    except Exception as e: print('n_process=None ERR', type(e).__name__, e)
    o1, i1 = run(10, 5, n_process=1)
    o2, i2 = run(10, 5, n_process=2)
    print('seq vs par (warmup) equal pos:', all(np.array_equal(a,b) for a,b in zip(o1.traces['pos'], o2.traces['pos'])), 'step sizes', i1.step_size, i2.step_size)
    o1, i1 = run(0, 5, fixed=True, n_process=1, adapters=[])
    o2, i2 = run(0, 5, fixed=True, n_process=2, adapters=[])
    print('seq vs par (no warmup) equal pos:', all(np.array_equal(a,b) for a,b in zip(o1.traces['pos'], o2.traces['pos'])))
    # zero-length stage
    from mici.stagers import WindowedWarmUpStager
    for nw in (1, 3, 5, 8, 20):
        try:
            o, integ = run(nw, 3, stager=WindowedWarmUpStager(), trace_warm_up=True)
            print('windowed nw', nw, 'final step', integ.step_size, 'step_size stat', o.statistics['step_size'][0])
        except Exception as e: print('windowed nw', nw, 'ERR', type(e).__name__, e)
    st = WindowedWarmUpStager().stages(5, 3, {'integration_transition': []}, None)
    print({k: v.n_iter for k, v in st.items()})
