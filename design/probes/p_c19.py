import numpy as np, copy, pickle, itertools, collections
exec(open('/tmp/probe/p_c10.py').read().split("def apply_op")[0])
res = collections.defaultdict(list)
for kind in KINDS:
    for n in (1, 3):
        m, d = make_leaf(n, kind)
        # writeable parameter arrays reachable from __dict__
        for k, v in m.__dict__.items():
            if isinstance(v, np.ndarray) and v.flags.writeable: res['writeable:'+type(m).__name__].append(k)
        # equality / hash / copies
        for name, c in (('copy', copy.copy(m)), ('deepcopy', copy.deepcopy(m)), ('pickle', pickle.loads(pickle.dumps(m)))):
            try:
                if not (c == m and hash(c) == hash(m)): res['copyneq:'+type(m).__name__].append(name)
            except Exception as e: res['copyexc:'+type(m).__name__].append((name, type(e).__name__, str(e)[:50]))
        # lazy order: all permutations of attribute accesses on fresh deep copies
        attrs = [a for a in ('T','inv','sqrt','eigval','eigvec','array','diagonal','log_abs_det') if hasattr(type(m), a)]
        attrs = [a for a in attrs if not (a in ('eigval','eigvec') and not isinstance(m, mm.SymmetricMatrix))]
        base = None
        for perm in itertools.islice(itertools.permutations(attrs), 60):
            mc = pickle.loads(pickle.dumps(m)); out = {}
            try:
                for a in perm:
                    v = getattr(mc, a)
                for a in attrs:
                    v = getattr(mc, a); out[a] = np.asarray(v.array if isinstance(v, mm.Matrix) else v).copy()
            except Exception as e:
                res['lazyexc:'+type(m).__name__].append((perm, type(e).__name__)); break
            if base is None: base = out
            else:
                for a in attrs:
                    if not np.array_equal(base[a], out[a]): res['lazyorder:'+type(m).__name__].append((perm, a, float(np.abs(base[a]-out[a]).max())))
for k, v in sorted(res.items()): print(k, len(v), v[:3])
