import numpy as np, signal
import mici, mici.solvers as sol, mici.systems as S
from mici.states import ChainState
# G16: zero initial window -> hang
from mici.stagers import WindowedWarmUpStager
def handler(signum, frame): raise TimeoutError()
signal.signal(signal.SIGALRM, handler)
for kw in (dict(n_init_slow_window_iter=0, n_init_fast_stage_iter=10, n_final_fast_stage_iter=10), dict(slow_window_multiplier=0.5)):
    signal.alarm(3)
    try:
        st = WindowedWarmUpStager(**kw).stages(1000, 10, {'t': []}, None); print(kw, 'terminated', [s.n_iter for s in st.values()][:12])
    except TimeoutError: print(kw, 'HANG (>3s)')
    except MemoryError: print(kw, 'MemoryError')
    finally: signal.alarm(0)
# G14: line search mismatch; constraint c(q) = g(q[0]) smooth-ish piecewise via steep tanh blend
x0, e0, s = 1.0, 1.0, 1.0       # at x0: g=e0, slope s  (x>=x0 branch)
r, s2 = -3.0, None
x1 = x0 - 2**-9 * e0/s
s2 = 1.0
k = 1e6
def blend(x): return 0.5*(1+np.tanh(k*(x - (x0 - 2**-10*e0/s))))   # switches between x1 and x0
def g(x): b = blend(x); return b*(e0 + (x-x0)*s) + (1-b)*(s2*(x-r))
def dg(x):
    h = 1e-9; return (g(x+h)-g(x-h))/(2*h)
calls = []
system = S.DenseConstrainedEuclideanMetricSystem(lambda q: 0.0, lambda q: np.array([g(q[0])]), grad_neg_log_dens=lambda q: 0*q,
     jacob_constr=lambda q: np.array([[dg(q[0]), 0.0]]))
state_prev = ChainState(pos=np.array([x0, 0.0]), mom=np.array([0.0, 0.3]), dir=1)
# fake "previous on-manifold state": we only need jacob at prev; use prev pos = x0 (jacobian [s,0])
state = ChainState(pos=np.array([x0, 0.0]), mom=np.array([0.0, 0.3]), dir=1)
dt = 0.5
try:
    out = sol.solve_projection_onto_manifold_newton_with_line_search(state, state_prev, dt, system)
    dpos = out.pos - np.array([x0, 0.0]); dmom = out.mom - np.array([0.0, 0.3])
    # Lagrange form: dpos = dt*Minv J^T lam, dmom = J^T lam  => dmom = dpos/dt (M = I)
    print('converged pos', out.pos, 'c', g(out.pos[0]), 'dpos/dt', dpos/dt, 'dmom', dmom, 'mismatch', np.abs(dpos/dt - dmom).max())
except Exception as e:
    print('ERR', type(e).__name__, e)
