From Coq Require Import QArith List Bool Lia Lqa.
Open Scope Q_scope.

(* One-dimensional rendering of the projection solvers' arithmetic (the bookkeeping is dimension free):
   constraint c : Q -> Q, Newton direction computed by an arbitrary function dmu (it only matters that the
   SAME dmu is used for the position and for the multiplier), linear map D (dpos_dmom).                      *)
Section LS.
Variable c : Q -> Q.
Variable dmu_of : Q -> Q.          (* delta_mu as a function of the current position *)
Variable D : Q.
Variables ctol ptol : Q.
Definition Qabs' (x : Q) := if Qlt_le_dec x 0 then - x else x.

(* Newton / quasi-Newton:  mu += delta_mu ; pos -= D delta_mu *)
Fixpoint newton (iters : nat) (pos mu : Q) : option (Q * Q) :=
  match iters with O => None | S k =>
    let dm := dmu_of pos in let dp := D * dm in
    if Qlt_le_dec (Qabs' (c pos)) ctol then (if Qlt_le_dec (Qabs' dp) ptol then Some (pos, mu) else newton k (pos - dp) (mu + dm))
    else newton k (pos - dp) (mu + dm) end.
Theorem newton_lagrange_form iters : forall pos mu pos0 r,
  pos == pos0 - D * mu -> newton iters pos mu = Some r -> fst r == pos0 - D * snd r /\ Qabs' (c (fst r)) < ctol.
Proof.
  induction iters as [|k IH]; intros pos mu pos0 r Hinv H; cbn [newton] in H; [discriminate|].
  destruct (Qlt_le_dec (Qabs' (c pos)) ctol).
  - destruct (Qlt_le_dec (Qabs' (D * dmu_of pos)) ptol).
    + inversion H; subst r; cbn [fst snd]. split; auto.
    + eapply IH; [|exact H]. set (dm := dmu_of pos). assert (E : D * (mu + dm) == D * mu + D * dm) by ring. rewrite E. lra.
  - eapply IH; [|exact H]. set (dm := dmu_of pos). assert (E : D * (mu + dm) == D * mu + D * dm) by ring. rewrite E. lra.
Qed.

(* line search as written: delta_pos = -D delta_mu; for up to n tries: pos = pos_curr + step*delta_pos; if the error
   decreased: break; step *= 0.5.   afterwards: mu += step * delta_mu  (step has been halved once more if no try succeeded) *)
Fixpoint search (tries : nat) (pos_curr dpos err step : Q) (last : Q) : Q * Q :=   (* (position, step) after the loop *)
  match tries with O => (last, step) | S k =>
    let p := pos_curr + step * dpos in
    if Qlt_le_dec (Qabs' (c p)) err then (p, step) else search k pos_curr dpos err (step * (1#2)) p end.
Definition ls_iter (tries : nat) (pos mu : Q) : Q * Q :=
  let dm := dmu_of pos in let dpos := - (D * dm) in
  let '(p, step) := search tries pos dpos (Qabs' (c pos)) 1 pos in (p, mu + step * dm).

End LS.

(* the invariant pos = pos0 - D mu is broken when every backtracking try fails: concrete witness with 2 tries *)
Example linesearch_mu_mismatch :
  let c := fun x : Q => if Qlt_le_dec x 1 then x + 3 else x in      (* |c| does not decrease along the search *)
  let dmu_of := fun _ : Q => 2 in
  let '(p, mu) := ls_iter c dmu_of (1#2) 2 1 0 in
  ~ (p == 1 - (1#2) * mu).
Proof. vm_compute. intros H. discriminate. Qed.
