"""Prototype of translator T4: dependency / MRO tables from src/mici/systems.py (Python ast, fail-closed)."""
import ast, sys, json
SRC = '/repo/src/mici/systems.py'
tree = ast.parse(open(SRC).read())
classes = {}
for node in tree.body:
    if not isinstance(node, ast.ClassDef): continue
    bases = []
    for b in node.bases:
        if isinstance(b, ast.Name): bases.append(b.id)
        elif isinstance(b, ast.Attribute): bases.append(b.attr)
        else: raise SystemExit(f'Untranslatable base at line {b.lineno}')
    methods = {}
    for item in node.body:
        if not isinstance(item, ast.FunctionDef): continue
        params = [a.arg for a in item.args.args]
        decl, aux, cached = None, [], False
        for dec in item.decorator_list:
            if isinstance(dec, ast.Call) and isinstance(dec.func, ast.Name) and dec.func.id in ('cache_in_state', 'cache_in_state_with_aux'):
                cached = True
                def strs(n):
                    if isinstance(n, ast.Constant) and isinstance(n.value, str): return [n.value]
                    if isinstance(n, (ast.Tuple, ast.List)): return [s for e in n.elts for s in strs(e)]
                    raise SystemExit(f'Untranslatable decorator arg line {n.lineno}')
                if dec.func.id == 'cache_in_state': decl = [s for a in dec.args for s in strs(a)]
                else: decl = strs(dec.args[0]); aux = strs(dec.args[1])
            elif isinstance(dec, ast.Name) and dec.id in ('abstractmethod', 'property'): pass
            else: raise SystemExit(f'Unknown decorator line {dec.lineno}')
        if 'state' not in params: continue
        reads, calls, super_calls = set(), set(), set()
        for n in ast.walk(item):
            if isinstance(n, ast.Attribute) and isinstance(n.value, ast.Name) and n.value.id == 'state':
                reads.add(n.attr)
            if isinstance(n, ast.Call) and isinstance(n.func, ast.Attribute):
                f = n.func
                passes_state = any(isinstance(a, ast.Name) and a.id == 'state' for a in n.args)
                if isinstance(f.value, ast.Name) and f.value.id == 'self' and passes_state: calls.add(f.attr)
                if isinstance(f.value, ast.Call) and isinstance(f.value.func, ast.Name) and f.value.func.id == 'super' and passes_state: super_calls.add(f.attr)
        abstract = any(isinstance(d, ast.Name) and d.id == 'abstractmethod' for d in item.decorator_list)
        methods[item.name] = dict(decl=decl, aux=aux, cached=cached, reads=sorted(reads), calls=sorted(calls), super_calls=sorted(super_calls), abstract=abstract, line=item.lineno)
    classes[node.name] = dict(bases=bases, methods=methods)
# C3 linearisation
def c3(cls):
    def merge(seqs):
        res = []
        seqs = [list(s) for s in seqs if s]
        while seqs:
            for s in seqs:
                h = s[0]
                if not any(h in t[1:] for t in seqs): break
            else: raise SystemExit('inconsistent MRO')
            res.append(h); seqs = [[x for x in t if x != h] for t in seqs]; seqs = [t for t in seqs if t]
        return res
    bs = [b for b in classes[cls]['bases'] if b in classes]
    return [cls] + merge([c3(b) for b in bs] + [bs])
def resolve(cls, meth, after=None):
    mro = c3(cls)
    if after is not None: mro = mro[mro.index(after)+1:]
    for c in mro:
        if meth in classes[c]['methods']: return c
    return None
VARS = {'pos', 'mom', 'dir'}
def closure_reads(cls, meth, seen=None, start_after=None):
    seen = seen or set()
    owner = resolve(cls, meth, start_after)
    if owner is None or (owner, meth) in seen: return set()
    seen.add((owner, meth))
    m = classes[owner]['methods'][meth]
    r = set(m['reads']) & VARS
    for c in m['calls']: r |= closure_reads(cls, c, seen)
    for c in m['super_calls']: r |= closure_reads(cls, c, seen, start_after=owner)
    return r
concrete = [c for c in classes if not any(m['abstract'] and resolve(c, n) == o for o in c3(c) for n, m in classes[o]['methods'].items())]
print('concrete classes:', concrete)
viol = []
for cls in concrete:
    for o in c3(cls):
        for name, m in classes[o]['methods'].items():
            if not m['cached'] or resolve(cls, name) != o: continue
            reads = closure_reads(cls, name)
            if not reads <= set(m['decl']): viol.append((cls, f'{o}.{name}', 'declared', m['decl'], 'reads', sorted(reads)))
            for a in m['aux']:
                ra = closure_reads(cls, a)
                if not ra <= set(m['decl']): viol.append((cls, f'{o}.{name}', 'aux', a, 'reads', sorted(ra), 'declared', m['decl']))
print('dependency soundness violations:')
for v in viol: print('  ', v)
# method resolution table for the Hamiltonian interface
iface = ['h','h1','h2','dh1_dpos','dh2_dpos','dh2_dmom','dh_dpos','dh_dmom','h1_flow','h2_flow','sample_momentum']
for cls in concrete:
    print(cls, {m: resolve(cls, m) for m in iface if resolve(cls, m)})
