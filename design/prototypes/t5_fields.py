"""Prototype of translator T5: which attributes each matrix class reads in equality, hashing and dense-array construction."""
import ast
SRC = '/repo/src/mici/matrices.py'
tree = ast.parse(open(SRC).read())
classes = {n.name: n for n in tree.body if isinstance(n, ast.ClassDef)}
def bases(c): return [b.id for b in classes[c].bases if isinstance(b, ast.Name) and b.id in classes]
def c3(cls):
    def merge(seqs):
        res = []; seqs = [list(s) for s in seqs if s]
        while seqs:
            for s in seqs:
                h = s[0]
                if not any(h in t[1:] for t in seqs): break
            else: raise SystemExit('inconsistent MRO')
            res.append(h); seqs = [[x for x in t if x != h] for t in seqs]; seqs = [t for t in seqs if t]
        return res
    bs = bases(cls)
    return [cls] + merge([c3(b) for b in bs] + [bs])
def find(cls, name):
    for c in c3(cls):
        for it in classes[c].body:
            if isinstance(it, ast.FunctionDef) and it.name == name: return c, it
    return None, None
PROPS = {}   # property name -> attribute(s) it exposes, per class (simple `return self._x` properties)
def self_attrs(fn, cls, seen=None):
    """attributes of self read by fn, following simple properties and helper methods of the same object"""
    seen = seen or set(); out = set()
    for n in ast.walk(fn):
        if isinstance(n, ast.Attribute) and isinstance(n.value, ast.Name) and n.value.id == 'self':
            a = n.attr
            owner, f = find(cls, a)
            if f is not None and (owner, a) not in seen and a not in ('array', 'T', 'transpose', 'inv', 'sqrt'):
                seen.add((owner, a)); out |= self_attrs(f, cls, seen)
            elif f is None: out.add(a)
            else: out.add(a)
    return out
abstract = lambda f: any(isinstance(d, ast.Attribute) and d.attr == 'abstractmethod' for d in f.decorator_list)
rows = []
for cls in classes:
    o_eq, f_eq = find(cls, '_check_equality'); o_h, f_h = find(cls, '_compute_hash')
    o_a, f_a = find(cls, '_construct_array')
    if f_a is None or abstract(f_a): o_a, f_a = find(cls, 'array')
    if f_eq is None or abstract(f_eq) or f_a is None or abstract(f_a): continue
    eq = {a for a in self_attrs(f_eq, cls) if not a.startswith('__')}
    hs = {a for a in self_attrs(f_h, cls)} if f_h and not abstract(f_h) else set()
    ar = {a for a in self_attrs(f_a, cls)}
    norm = lambda s: {x.lstrip('_') for x in s} - {'shape', 'array', 'matrices' if False else ''}
    eqn, hsn, arn = norm(eq), norm(hs), norm(ar)
    missing = {a for a in arn if a not in eqn and a not in ('array',) } if 'array' not in eqn else set()
    rows.append((cls, sorted(eqn), sorted(hsn), sorted(arn), sorted(missing)))
for cls, eq, hs, ar, miss in rows:
    flag = '  <-- array depends on fields not compared' if miss else ''
    print(f'{cls:45s} eq={eq} hash={hs} array={ar}{flag} {miss if miss else ""}')
