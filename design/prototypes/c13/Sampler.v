From Coq Require Import List Bool Arith Lia.
Import ListNotations.

(* Bookkeeping of _sample_chain + the stage loop for one chain (sequential mode), with an interrupt
   that may arrive inside the transition or inside the trace function of some iteration.            *)
Section S.
Variables St Rng Stat V : Type.
Variable trans : St -> Rng -> St * Stat * Rng.      (* one full iteration of all transitions *)
Variable tr : St -> V.                               (* trace function *)
Inductive phase := InTrans | InTrace.
(* rows: None = fill value *)
Record arrs := { stats : nat -> option Stat; traces : nat -> option V }.
Definition upd {A} (f : nat -> option A) (i : nat) (a : A) := fun j => if Nat.eqb j i then Some a else f j.
Definition empty : arrs := {| stats := fun _ => None; traces := fun _ => None |}.

(* run iterations it .. it+n-1 of a stage writing at offset off; intr = global iteration index and phase of the interrupt *)
Fixpoint chain (n : nat) (it : nat) (off : nat) (intr : option (nat * phase)) (s : St) (r : Rng) (a : arrs)
  : St * Rng * arrs * bool (* interrupted *) :=
  match n with
  | O => (s, r, a, false)
  | S n' =>
      match intr with
      | Some (k, InTrans) => if Nat.eqb k it then (s, r, a, true) else
          let '(s', st, r') := trans s r in
          chain n' (S it) off intr s' r' {| stats := upd (stats a) (off + it) st; traces := upd (traces a) (off + it) (tr s') |}
      | Some (k, InTrace) =>
          let '(s', st, r') := trans s r in
          if Nat.eqb k it then (s', r', {| stats := upd (stats a) (off + it) st; traces := traces a |}, true) else
          chain n' (S it) off intr s' r' {| stats := upd (stats a) (off + it) st; traces := upd (traces a) (off + it) (tr s') |}
      | None =>
          let '(s', st, r') := trans s r in
          chain n' (S it) off intr s' r' {| stats := upd (stats a) (off + it) st; traces := upd (traces a) (off + it) (tr s') |}
      end
  end.

(* the mathematical chain: state and statistics after k iterations *)
Fixpoint iter (k : nat) (s : St) (r : Rng) : St * Rng :=
  match k with O => (s, r) | S k' => let '(s', _, r') := trans s r in iter k' s' r' end.
Definition stat_at (k : nat) (s : St) (r : Rng) : Stat := let '(s', r') := iter k s r in snd (fst (trans s' r')).
Definition state_after (k : nat) (s : St) (r : Rng) : St := fst (iter k s r).

(* uninterrupted run: every row of the stage holds the chain's state / statistics; rows outside are untouched *)
Theorem rows_are_states n : forall it off s r a,
  let '(s', r', a', b) := chain n it off None s r a in
  b = false /\ (s', r') = iter n s r /\
  (forall j, (j < n)%nat -> traces a' (off + it + j) = Some (tr (state_after (S j) s r)) /\ stats a' (off + it + j) = Some (stat_at j s r)) /\
  (forall x, (x < off + it \/ off + it + n <= x)%nat -> traces a' x = traces a x /\ stats a' x = stats a x).
Proof.
  induction n as [|n IH]; intros it off s r a; cbn [chain].
  - repeat split; auto; intros; lia.
  - destruct (trans s r) as [[s1 st1] r1] eqn:T.
    specialize (IH (S it) off s1 r1 {| stats := upd (stats a) (off + it) st1; traces := upd (traces a) (off + it) (tr s1) |}).
    destruct (chain n (S it) off None s1 r1 _) as [[[s' r'] a'] b]. destruct IH as (Hb & Hi & Hrows & Hout).
    repeat split; auto.
    + cbn [iter]. rewrite T. exact Hi.
    + destruct j as [|j].
      * destruct (Hout (off + it)%nat ltac:(lia)) as [H1 _]. replace (off + it + 0)%nat with (off + it)%nat by lia. rewrite H1. cbn [traces]. unfold upd. rewrite Nat.eqb_refl.
        unfold state_after. cbn [iter]. rewrite T. reflexivity.
      * destruct (Hrows j ltac:(lia)) as [H1 _]. replace (off + it + S j)%nat with (off + S it + j)%nat by lia. rewrite H1.
        unfold state_after. cbn [iter]. rewrite T. reflexivity.
    + destruct j as [|j].
      * destruct (Hout (off + it)%nat ltac:(lia)) as [_ H2]. replace (off + it + 0)%nat with (off + it)%nat by lia. rewrite H2. cbn [stats]. unfold upd. rewrite Nat.eqb_refl.
        unfold stat_at. cbn [iter]. rewrite T. reflexivity.
      * destruct (Hrows j ltac:(lia)) as [_ H2]. replace (off + it + S j)%nat with (off + S it + j)%nat by lia. rewrite H2.
        unfold stat_at. cbn [iter]. rewrite T. reflexivity.
    + destruct (Hout x ltac:(lia)) as [H1 _]. rewrite H1. cbn [traces]. unfold upd. destruct (Nat.eqb_spec x (off + it)); [lia|reflexivity].
    + destruct (Hout x ltac:(lia)) as [_ H2]. rewrite H2. cbn [stats]. unfold upd. destruct (Nat.eqb_spec x (off + it)); [lia|reflexivity].
Qed.

(* interrupted run: a consistent prefix *)
Theorem interrupt_prefix n : forall it off s r a d ph, (d < n)%nat ->
  let '(s', r', a', b) := chain n it off (Some (it + d, ph)) s r a in
  b = true /\
  s' = state_after (match ph with InTrans => d | InTrace => S d end) s r /\
  (forall j, (j < d)%nat -> traces a' (off + it + j) = Some (tr (state_after (S j) s r)) /\ stats a' (off + it + j) = Some (stat_at j s r)) /\
  traces a' (off + it + d) = traces a (off + it + d) /\
  stats a' (off + it + d) = (match ph with InTrans => stats a (off + it + d) | InTrace => Some (stat_at d s r) end) /\
  (forall x, (x < off + it \/ off + it + d < x)%nat -> traces a' x = traces a x /\ stats a' x = stats a x).
Proof.
  induction n as [|n IH]; intros it off s r a d ph Hd; [lia|]. cbn [chain].
  destruct d as [|d].
  - replace (it + 0)%nat with it by lia. destruct ph; rewrite Nat.eqb_refl.
    + repeat split; auto; intros; lia.
    + destruct (trans s r) as [[s1 st1] r1] eqn:T. repeat split; auto; try (intros; lia).
      * unfold state_after. cbn [iter]. rewrite T. reflexivity.
      * cbn [stats]. unfold upd. replace (off + it + 0)%nat with (off + it)%nat by lia. rewrite Nat.eqb_refl. unfold stat_at. cbn [iter]. rewrite T. reflexivity.
      * cbn [stats]. unfold upd. destruct (Nat.eqb_spec x (off + it)); [lia|reflexivity].
  - assert (E : Nat.eqb (it + S d) it = false) by (apply Nat.eqb_neq; lia).
    destruct (trans s r) as [[s1 st1] r1] eqn:T.
    assert (G : forall ph0, let '(s', r', a', b) := chain n (S it) off (Some (it + S d, ph0)) s1 r1 {| stats := upd (stats a) (off + it) st1; traces := upd (traces a) (off + it) (tr s1) |} in
        b = true /\ s' = state_after (match ph0 with InTrans => S d | InTrace => S (S d) end) s r /\
        (forall j, (j < S d)%nat -> traces a' (off + it + j) = Some (tr (state_after (S j) s r)) /\ stats a' (off + it + j) = Some (stat_at j s r)) /\
        traces a' (off + it + S d) = traces a (off + it + S d) /\
        stats a' (off + it + S d) = (match ph0 with InTrans => stats a (off + it + S d) | InTrace => Some (stat_at (S d) s r) end) /\
        (forall x, (x < off + it \/ off + it + S d < x)%nat -> traces a' x = traces a x /\ stats a' x = stats a x)).
    { intros ph0. specialize (IH (S it) off s1 r1 {| stats := upd (stats a) (off + it) st1; traces := upd (traces a) (off + it) (tr s1) |} d ph0 ltac:(lia)).
      replace (S it + d)%nat with (it + S d)%nat in IH by lia.
      destruct (chain n (S it) off (Some (it + S d, ph0)) s1 r1 _) as [[[s' r'] a'] b].
      destruct IH as (Hb & Hs & Hrows & Htr & Hst & Hout).
      assert (SA : forall m, state_after m s1 r1 = state_after (S m) s r) by (intros m; unfold state_after; cbn [iter]; rewrite T; reflexivity).
      assert (ST : forall m, stat_at m s1 r1 = stat_at (S m) s r) by (intros m; unfold stat_at; cbn [iter]; rewrite T; reflexivity).
      repeat split; auto.
      - rewrite Hs. destruct ph0; apply SA.
      - destruct j as [|j].
        + destruct (Hout (off + it)%nat ltac:(lia)) as [H1 _]. replace (off + it + 0)%nat with (off + it)%nat by lia. rewrite H1. cbn [traces]. unfold upd. rewrite Nat.eqb_refl. unfold state_after. cbn [iter]. rewrite T. reflexivity.
        + destruct (Hrows j ltac:(lia)) as [H1 _]. replace (off + it + S j)%nat with (off + S it + j)%nat by lia. rewrite H1, SA. reflexivity.
      - destruct j as [|j].
        + destruct (Hout (off + it)%nat ltac:(lia)) as [_ H2]. replace (off + it + 0)%nat with (off + it)%nat by lia. rewrite H2. cbn [stats]. unfold upd. rewrite Nat.eqb_refl. unfold stat_at. cbn [iter]. rewrite T. reflexivity.
        + destruct (Hrows j ltac:(lia)) as [_ H2]. replace (off + it + S j)%nat with (off + S it + j)%nat by lia. rewrite H2, ST. reflexivity.
      - replace (off + it + S d)%nat with (off + S it + d)%nat by lia. rewrite Htr. cbn [traces]. unfold upd. destruct (Nat.eqb_spec (off + S it + d) (off + it)); [lia|reflexivity].
      - replace (off + it + S d)%nat with (off + S it + d)%nat by lia. rewrite Hst. destruct ph0; [|rewrite ST; reflexivity]. cbn [stats]. unfold upd. destruct (Nat.eqb_spec (off + S it + d) (off + it)); [lia|reflexivity].
      - destruct (Hout x ltac:(lia)) as [H1 _]. rewrite H1. cbn [traces]. unfold upd. destruct (Nat.eqb_spec x (off + it)); [lia|reflexivity].
      - destruct (Hout x ltac:(lia)) as [_ H2]. rewrite H2. cbn [stats]. unfold upd. destruct (Nat.eqb_spec x (off + it)); [lia|reflexivity]. }
    destruct ph; rewrite E; [apply (G InTrans)| apply (G InTrace)].
Qed.
End S.
Print Assumptions interrupt_prefix.
