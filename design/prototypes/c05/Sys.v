From Coq Require Import QArith List Bool Lia Lqa.
Import ListNotations.
Open Scope Q_scope.

(* classes (a subset, enough to exercise inheritance and the Gaussian override problem) *)
Inductive cls := System | Euclidean | Gaussian | Riemannian.
Definition cls_eqb (a b : cls) : bool := match a, b with System, System | Euclidean, Euclidean | Gaussian, Gaussian | Riemannian, Riemannian => true | _, _ => false end.
(* what translator T4 emits: direct bases *)
Definition bases (c : cls) : list cls := match c with System => [] | Euclidean => [System] | Gaussian => [Euclidean] | Riemannian => [System] end.
(* single-inheritance chains suffice here; the real development computes the C3 linearisation *)
Fixpoint mro (fuel : nat) (c : cls) : list cls := match fuel with O => [c] | S f => c :: flat_map (mro f) (bases c) end.

Inductive meth := H | H1 | H2 | DH1q | DH2q | DH2p | DHq | DHp.
Definition meth_eqb (a b : meth) : bool := match a, b with H,H | H1,H1 | H2,H2 | DH1q,DH1q | DH2q,DH2q | DH2p,DH2p | DHq,DHq | DHp,DHp => true | _,_ => false end.
(* symbolic values: linear combinations of atoms.  scalar atoms / q-gradient atoms / p-gradient atoms *)
Inductive atom := aL | aK | aKR | aG | aLD          (* scalars: density, kinetic (const metric), kinetic (Riemannian), q.q/2, logdet/2 *)
                | gL | gQ | gLD | gQF                (* d/dq atoms: user gradient, q, vjp(grad_logdet)/2, vjp(grad_qf)/2 *)
                | pV.                                (* d/dp atom: M^-1 p *)
Definition comb := atom -> Q.
Definition ceq (x y : comb) := forall a, x a == y a.
Definition cadd (x y : comb) : comb := fun a => x a + y a.
Definition c0 : comb := fun _ => 0.
Definition at1 (b : atom) : comb := fun a => if match a, b with aL,aL|aK,aK|aKR,aKR|aG,aG|aLD,aLD|gL,gL|gQ,gQ|gLD,gLD|gQF,gQF|pV,pV => true | _,_ => false end then 1 else 0.

(* method bodies as written in each class (None = not defined there) *)
Inductive expr := At (a : atom) | Zero | Call (m : meth) | Add (x y : expr).
Definition body (c : cls) (m : meth) : option expr :=
  match c, m with
  | System, H => Some (Add (Call H1) (Call H2))
  | System, H1 => Some (At aL)
  | System, DH1q => Some (At gL)
  | System, DHq => Some (Add (Call DH1q) (Call DH2q))
  | System, DHp => Some (Call DH2p)
  | Euclidean, H2 => Some (At aK)
  | Euclidean, DH2p => Some (At pV)
  | Euclidean, DH2q => Some Zero
  | Euclidean, DHq => Some (Call DH1q)                 (* the override that Gaussian inherits *)
  | Gaussian, H2 => Some (Add (At aG) (At aK))
  | Gaussian, DH2p => Some (At pV)
  | Gaussian, DH2q => Some (At gQ)
  | Riemannian, H => Some (Add (Call H1) (Call H2))
  | Riemannian, H1 => Some (Add (At aL) (At aLD))
  | Riemannian, DH1q => Some (Add (At gL) (At gLD))
  | Riemannian, H2 => Some (At aKR)
  | Riemannian, DH2q => Some (At gQF)
  | Riemannian, DH2p => Some (At pV)
  | _, _ => None
  end.
Fixpoint resolve (l : list cls) (m : meth) : option expr :=
  match l with [] => None | c :: r => match body c m with Some e => Some e | None => resolve r m end end.
Fixpoint eval (fuel : nat) (c : cls) (e : expr) : comb :=
  match fuel with O => c0 | S f =>
    match e with
    | At a => at1 a | Zero => c0
    | Add x y => cadd (eval f c x) (eval f c y)
    | Call m => match resolve (mro 3 c) m with Some e' => eval f c e' | None => c0 end
    end end.
Definition val (c : cls) (m : meth) : comb := eval 8 c (Call m).

(* the calculus facts, as linear maps on atoms *)
Definition Dq (x : comb) : comb := fun a => match a with gL => x aL | gQ => x aG | gLD => x aLD | gQF => x aKR | _ => 0 end.
Definition Dp (x : comb) : comb := fun a => match a with pV => x aK + x aKR | _ => 0 end.

Lemma euclidean_ok : ceq (val Euclidean DHq) (Dq (val Euclidean H)) /\ ceq (val Euclidean DHp) (Dp (val Euclidean H)).
Proof. split; intros a; destruct a; vm_compute; reflexivity. Qed.
Lemma riemannian_ok : ceq (val Riemannian DHq) (Dq (val Riemannian H)) /\ ceq (val Riemannian DHp) (Dp (val Riemannian H)).
Proof. split; intros a; destruct a; vm_compute; reflexivity. Qed.
(* pinned tree: the Gaussian-split class inherits Euclidean's dh_dpos, which drops dh2_dpos = q *)
Lemma gaussian_dh_dpos_refuted : ~ ceq (val Gaussian DHq) (Dq (val Gaussian H)).
Proof. intros H. specialize (H gQ). vm_compute in H. discriminate. Qed.
Lemma gaussian_components_ok : ceq (val Gaussian DH2q) (Dq (val Gaussian H2)) /\ ceq (val Gaussian DH1q) (Dq (val Gaussian H1)).
Proof. split; intros a; destruct a; vm_compute; reflexivity. Qed.
