From Coq Require Import QArith List Lia Lqa.
Import ListNotations.
Open Scope Q_scope.

(* sufficient statistics of a sample *)
Definition S1 (l : list Q) : Q := fold_right Qplus 0 l.
Definition S2 (l : list Q) : Q := fold_right (fun x a => x * x + a) 0 l.
Definition N (l : list Q) : Q := inject_Z (Z.of_nat (length l)).

(* adapter state: (iter, mean, sum_diff_sq) *)
Record wst := { it : nat; mean : Q; m2 : Q }.
Definition qn (n : nat) : Q := inject_Z (Z.of_nat n).
Definition init : wst := {| it := 0; mean := 0; m2 := 0 |}.
(* OnlineVarianceMetricAdapter.update (one coordinate) *)
Definition update (s : wst) (x : Q) : wst :=
  let n := S (it s) in
  let d := x - mean s in
  let mean' := mean s + d / qn n in
  {| it := n; mean := mean'; m2 := m2 s + d * (x - mean') |}.
Definition welford (l : list Q) : wst := fold_left update l init.

(* the state represents the batch statistics *)
Definition repr (s : wst) (l : list Q) : Prop :=
  it s = length l /\ qn (it s) * mean s == S1 l /\ m2 s == S2 l - qn (it s) * mean s * mean s.

Lemma qn_S n : qn (S n) == qn n + 1.
Proof. unfold qn. rewrite Nat2Z.inj_succ. unfold Z.succ. rewrite inject_Z_plus. reflexivity. Qed.
Lemma qn_pos n : 0 < qn (S n).
Proof. unfold qn. replace 0 with (inject_Z 0) by reflexivity. rewrite <- Zlt_Qlt. lia. Qed.
Lemma S1_snoc l x : S1 (l ++ [x]) == S1 l + x.
Proof. unfold S1. induction l; cbn; [lra| rewrite IHl; lra]. Qed.
Lemma S2_snoc l x : S2 (l ++ [x]) == S2 l + x * x.
Proof. unfold S2. induction l; cbn; [lra| rewrite IHl; lra]. Qed.

Lemma update_repr s l x : repr s l -> repr (update s x) (l ++ [x]).
Proof.
  intros (Hn & Hm & Hv). unfold repr, update; cbn [it mean m2].
  pose proof (qn_pos (it s)) as Hp. pose proof (qn_S (it s)) as HS.
  split; [rewrite app_length; cbn; lia|]. split.
  - rewrite S1_snoc, <- Hm. rewrite HS. field. rewrite <- HS. lra.
  - rewrite S2_snoc, Hv. rewrite HS. field_simplify_eq; [|rewrite <- HS; lra].
    (* polynomial identity after clearing the denominator; uses n*mean = S1 only through Hm-free algebra *)
    ring.
Qed.
Theorem welford_is_batch l : repr (welford l) l.
Proof.
  unfold welford.
  assert (G : forall l0 s pre, repr s pre -> repr (fold_left update l0 s) (pre ++ l0)).
  { induction l0 as [|x l0 IH]; intros s pre H; cbn [fold_left]. rewrite app_nil_r; auto.
    replace (pre ++ x :: l0) with ((pre ++ [x]) ++ l0) by (rewrite <- app_assoc; reflexivity).
    apply IH. apply update_repr; auto. }
  apply (G l init []). unfold repr, init, S1, S2, qn; cbn. repeat split; lra.
Qed.

(* Chan et al. merge as written in finalize (one coordinate): accumulated (n, mean_est, var_est) merged with a chain state *)
Definition merge (a b : wst) : wst :=
  let n := (it a + it b)%nat in
  let diff := mean a - mean b in
  {| it := n;
     mean := (mean a * qn (it a) + qn (it b) * mean b) / qn n;
     m2 := m2 a + m2 b + diff * diff * (qn (it b) * qn (it a)) / qn n |}.
Lemma qn_add a b : qn (a + b) == qn a + qn b.
Proof. unfold qn. rewrite Nat2Z.inj_add, inject_Z_plus. reflexivity. Qed.
Lemma S1_app a b : S1 (a ++ b) == S1 a + S1 b.
Proof. unfold S1. induction a; cbn; [lra| rewrite IHa; lra]. Qed.
Lemma S2_app a b : S2 (a ++ b) == S2 a + S2 b.
Proof. unfold S2. induction a; cbn; [lra| rewrite IHa; lra]. Qed.

Theorem merge_is_batch_of_concat sa sb la lb :
  repr sa la -> repr sb lb -> (0 < it sa)%nat -> (0 < it sb)%nat -> repr (merge sa sb) (la ++ lb).
Proof.
  intros (Na & Ma & Va) (Nb & Mb & Vb) Pa Pb. unfold repr, merge; cbn [it mean m2].
  assert (Hpa : 0 < qn (it sa)) by (destruct (it sa); [lia| apply qn_pos]).
  assert (Hpb : 0 < qn (it sb)) by (destruct (it sb); [lia| apply qn_pos]).
  pose proof (qn_add (it sa) (it sb)) as HA.
  split; [rewrite app_length; lia|]. split.
  - rewrite S1_app, <- Ma, <- Mb, HA. field. lra.
  - rewrite S2_app, Va, Vb, HA. field_simplify_eq; [|lra]. ring.
Qed.
Print Assumptions merge_is_batch_of_concat.
