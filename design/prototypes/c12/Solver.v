From Coq Require Import QArith List Bool Lia Lqa.
Import ListNotations.
Open Scope Q_scope.

(* solve_fixed_point_direct with faults.  The user function may return a value, a NaN-valued result,
   or raise ValueError / LinAlgError; the norm of a NaN result is NaN.                                 *)
Section S.
Variable X : Type.
Inductive fout := Val (x : X) | NanVal (x : X) | RaiseValue | RaiseLinAlg | RaiseOther.
Inductive exn := ConvergenceError | Foreign.           (* Foreign = any exception type that is not a mici IntegratorError *)
Inductive res := Ok (x : X) | Err (e : exn).
Variable func : nat -> X -> fout.                       (* call index -> behaviour (fault schedule) *)
Variable err : X -> X -> Q.                             (* norm (x - x0), for non-NaN values *)
Variables conv_tol div_tol : Q.

(* for i in range(max_iters): x = func(x0); error = norm(x - x0);
     if error > divergence_tol or isnan(error): raise ConvergenceError; if error < convergence_tol: return x; x0 = x
   except (ValueError, LinAlgError): raise ConvergenceError ; after the loop: raise ConvergenceError          *)
Fixpoint direct (iters : nat) (i : nat) (x0 : X) : res :=
  match iters with
  | O => Err ConvergenceError
  | S k =>
      match func i x0 with
      | Val x => if Qlt_le_dec div_tol (err x x0) then Err ConvergenceError
                 else if Qlt_le_dec (err x x0) conv_tol then Ok x else direct k (S i) x
      | NanVal _ => Err ConvergenceError
      | RaiseValue | RaiseLinAlg => Err ConvergenceError
      | RaiseOther => Err Foreign
      end
  end.

(* never returns an unconverged iterate; never lets ValueError / LinAlgError escape *)
Theorem direct_result_shape iters i x0 :
  (forall j y, func j y <> RaiseOther) ->
  match direct iters i x0 with
  | Ok x => exists j y, func j y = Val x /\ err x y < conv_tol /\ err x y <= div_tol
  | Err e => e = ConvergenceError
  end.
Proof.
  intros NoOther. revert i x0. induction iters as [|k IH]; intros i x0; cbn [direct]; auto.
  destruct (func i x0) as [x|x| | |] eqn:F; auto.
  - destruct (Qlt_le_dec div_tol (err x x0)); auto.
    destruct (Qlt_le_dec (err x x0) conv_tol); [|apply IH].
    exists i, x0. auto.
  - exfalso. eapply NoOther; eauto.
Qed.
End S.
Print Assumptions direct_result_shape.
