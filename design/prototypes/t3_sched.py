"""Prototype of translator T3: per-integrator schedules from src/mici/integrators.py (fail-closed)."""
import ast, sys
from fractions import Fraction
SRC = '/repo/src/mici/integrators.py'
tree = ast.parse(open(SRC).read())
classes = {n.name: n for n in tree.body if isinstance(n, ast.ClassDef)}
class Untranslatable(Exception): pass
def frac_of(expr, var):
    """expr is an arithmetic expression in `var` of the form c*var, var*c, var/c, var, c*var/d; return coefficient (Fraction) or ('div', name)"""
    if isinstance(expr, ast.Name) and expr.id == var: return Fraction(1)
    if isinstance(expr, ast.BinOp):
        if isinstance(expr.op, ast.Mult):
            l, r = expr.left, expr.right
            if isinstance(l, ast.Constant): return Fraction(str(l.value)) * frac_of(r, var)
            if isinstance(r, ast.Constant): return frac_of(l, var) * Fraction(str(r.value))
        if isinstance(expr.op, ast.Div):
            if isinstance(expr.right, ast.Constant): return frac_of(expr.left, var) / Fraction(str(expr.right.value))
            if isinstance(expr.right, ast.Attribute) and isinstance(expr.right.value, ast.Name) and expr.right.value.id == 'self':
                return ('div', frac_of(expr.left, var), expr.right.attr)
    raise Untranslatable(ast.dump(expr))
def methods_of(cname):
    out = {}
    for b in reversed([cname] + [x.id for x in classes[cname].bases if isinstance(x, ast.Name) and x.id in classes]):
        pass
    # simple single-inheritance lookup along first bases
    chain = []; c = cname
    while c in classes:
        chain.append(c); bs = [x.id for x in classes[c].bases if isinstance(x, ast.Name)]
        c = bs[0] if bs else None
    for c in reversed(chain):
        for it in classes[c].body:
            if isinstance(it, ast.FunctionDef): out[it.name] = it
    return out
def schedule(cname, mname, scale=Fraction(1), depth=0):
    ms = methods_of(cname); f = ms[mname]
    tvar = f.args.args[2].arg   # (self, state, time_step)
    env = {tvar: scale}
    sched = []
    def coef(e):
        # expression in known local vars
        for v, val in env.items():
            try:
                c = frac_of(e, v)
                if isinstance(c, tuple): return ('div', c[1]*val if not isinstance(val, tuple) else None, c[2])
                return c * val if not isinstance(val, tuple) else ('div', c*val[1], val[2])
            except Untranslatable: continue
        raise Untranslatable(ast.dump(e))
    def do_stmts(stmts, mult=None):
        for st in stmts:
            if isinstance(st, ast.Expr) and isinstance(st.value, ast.Constant): continue  # docstring
            if isinstance(st, ast.Expr) and isinstance(st.value, ast.Call):
                call = st.value; fn = call.func
                if isinstance(fn, ast.Attribute) and isinstance(fn.value, ast.Attribute) and fn.value.attr == 'system' and fn.attr in ('h1_flow', 'h2_flow'):
                    sched.append((fn.attr, coef(call.args[1]), mult)); continue
                if isinstance(fn, ast.Attribute) and isinstance(fn.value, ast.Name) and fn.value.id == 'self' and fn.attr.startswith('_step'):
                    sub = schedule(cname, fn.attr, coef(call.args[1]), depth+1)
                    sched.extend([(a, b, mult if m is None else m) for a, b, m in sub]); continue
                if isinstance(fn, ast.Attribute) and isinstance(fn.value, ast.Name) and fn.value.id == 'self' and fn.attr in ('_h2_flow_retraction_onto_manifold', '_project_onto_cotangent_space'):
                    if fn.attr == '_project_onto_cotangent_space': sched.append(('ProjMom', Fraction(0), mult))
                    else: sched.append(('Retract(h2_flow)', coef(call.args[2]), mult))
                    continue
                if isinstance(fn, ast.Attribute) and isinstance(fn.value, ast.Attribute) and fn.value.attr == 'system' and fn.attr == 'dh1_dpos': continue  # pre-evaluation for caching only
                raise Untranslatable(f'{cname}.{mname}: call {ast.dump(fn)[:80]}')
            elif isinstance(st, ast.Assign) and len(st.targets) == 1 and isinstance(st.targets[0], ast.Name):
                try: env[st.targets[0].id] = coef(st.value)
                except Untranslatable: env[st.targets[0].id] = None   # non-time variable (state copies etc.)
            elif isinstance(st, ast.For) and isinstance(st.iter, ast.Call) and getattr(st.iter.func, 'id', None) == 'range':
                arg = st.iter.args[0]
                if isinstance(arg, ast.Attribute): do_stmts(st.body, mult=arg.attr)
                else: raise Untranslatable('loop bound')
            elif isinstance(st, ast.For) and isinstance(st.iter, ast.Call) and getattr(st.iter.func, 'id', None) == 'zip':
                sched.append(('ZIP(self.coefficients, self.flows)', env[tvar], None))
            elif isinstance(st, (ast.If, ast.FunctionDef, ast.AugAssign, ast.Raise)):
                # implicit sub-steps: classify by name
                continue
            else: raise Untranslatable(f'{cname}.{mname}: stmt {type(st).__name__} line {st.lineno}')
    if mname != '_step' and mname.startswith('_step_') and cname in ('ImplicitLeapfrogIntegrator', 'ImplicitMidpointIntegrator'):
        tag = {'_step_a': 'A(h1_flow)', '_step_b_fwd': 'Bfwd', '_step_b_adj': 'Badj(+check)', '_step_c_fwd': 'Cfwd(+check)', '_step_c_adj': 'Cadj', '_step_a_fwd': 'Afwd(implicit Euler)', '_step_a_adj': 'Aadj(explicit Euler,+check)'}[mname]
        if mname == '_step_a' : 
            do_stmts(f.body); return sched
        return [(tag, scale, None)]
    do_stmts(f.body)
    return sched
for cname in ('LeapfrogIntegrator', 'SymmetricCompositionIntegrator', 'ImplicitLeapfrogIntegrator', 'ImplicitMidpointIntegrator', 'ConstrainedLeapfrogIntegrator'):
    s = schedule(cname, '_step')
    print(cname)
    tot = {}
    for tag, c, mult in s:
        print('   ', tag, c, ('x ' + mult) if mult else '')
        key = 'h1' if 'h1' in tag or tag.startswith('A(') else tag
    print()
