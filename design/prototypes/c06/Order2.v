From Coq Require Import QArith List Bool Lia Lqa.
Import ListNotations.
Open Scope Q_scope.

(* Truncated free (non-commutative) algebra over generators X1, X2, modulo degree 3 in t:
   x = x0 + t (a1 X1 + a2 X2) + t^2 (b11 X1X1 + b12 X1X2 + b21 X2X1 + b22 X2X2).            *)
Record ser := { s0 : Q; a1 : Q; a2 : Q; b11 : Q; b12 : Q; b21 : Q; b22 : Q }.
Definition seq (x y : ser) : Prop :=
  s0 x == s0 y /\ a1 x == a1 y /\ a2 x == a2 y /\ b11 x == b11 y /\ b12 x == b12 y /\ b21 x == b21 y /\ b22 x == b22 y.
Definition mul (x y : ser) : ser :=
  {| s0 := s0 x * s0 y;
     a1 := s0 x * a1 y + a1 x * s0 y; a2 := s0 x * a2 y + a2 x * s0 y;
     b11 := s0 x * b11 y + b11 x * s0 y + a1 x * a1 y;
     b12 := s0 x * b12 y + b12 x * s0 y + a1 x * a2 y;
     b21 := s0 x * b21 y + b21 x * s0 y + a2 x * a1 y;
     b22 := s0 x * b22 y + b22 x * s0 y + a2 x * a2 y |}.
Definition one : ser := {| s0 := 1; a1 := 0; a2 := 0; b11 := 0; b12 := 0; b21 := 0; b22 := 0 |}.
(* exp(c t X_i) truncated; comp = false for the h1 flow (X1), true for the h2 flow (X2) *)
Definition flow (comp : bool) (c : Q) : ser :=
  if comp then {| s0 := 1; a1 := 0; a2 := c; b11 := 0; b12 := 0; b21 := 0; b22 := c * c / 2 |}
          else {| s0 := 1; a1 := c; a2 := 0; b11 := c * c / 2; b12 := 0; b21 := 0; b22 := 0 |}.
Definition sched := list (bool * Q).
Fixpoint prod (l : sched) : ser := match l with [] => one | (i, c) :: r => mul (flow i c) (prod r) end.
(* exp(t (X1 + X2)) truncated *)
Definition exact : ser := {| s0 := 1; a1 := 1; a2 := 1; b11 := 1#2; b12 := 1#2; b21 := 1#2; b22 := 1#2 |}.

(* order-reversing anti-automorphism *)
Definition rv (x : ser) : ser := {| s0 := s0 x; a1 := a1 x; a2 := a2 x; b11 := b11 x; b12 := b21 x; b21 := b12 x; b22 := b22 x |}.
Lemma rv_mul x y : seq (rv (mul x y)) (mul (rv y) (rv x)).
Proof. unfold seq, rv, mul; cbn. repeat split; ring. Qed.
Lemma rv_flow i c : rv (flow i c) = flow i c. Proof. destruct i; reflexivity. Qed.
Lemma mul_compat x x' y y' : seq x x' -> seq y y' -> seq (mul x y) (mul x' y').
Proof. intros (A0&A1&A2&A3&A4&A5&A6) (B0&B1&B2&B3&B4&B5&B6). unfold seq, mul; cbn. rewrite A0,A1,A2,A3,A4,A5,A6,B0,B1,B2,B3,B4,B5,B6. repeat split; reflexivity. Qed.
Lemma seq_refl x : seq x x. Proof. unfold seq; repeat split; reflexivity. Qed.
Lemma seq_trans x y z : seq x y -> seq y z -> seq x z.
Proof. intros (A0&A1&A2&A3&A4&A5&A6) (B0&B1&B2&B3&B4&B5&B6). unfold seq. rewrite A0,A1,A2,A3,A4,A5,A6. repeat split; auto. Qed.
Lemma mul_assoc x y z : seq (mul (mul x y) z) (mul x (mul y z)).
Proof. unfold seq, mul; cbn. repeat split; ring. Qed.
Lemma mul_one_r x : seq (mul x one) x. Proof. unfold seq, mul, one; cbn. repeat split; ring. Qed.
Lemma mul_one_l x : seq (mul one x) x. Proof. unfold seq, mul, one; cbn. repeat split; ring. Qed.
Lemma prod_app l1 l2 : seq (prod (l1 ++ l2)) (mul (prod l1) (prod l2)).
Proof.
  induction l1 as [|[i c] l1 IH]; cbn [app prod].
  - unfold seq, mul, one; cbn. repeat split; ring.
  - eapply seq_trans; [apply mul_compat; [apply seq_refl| apply IH]|]. unfold seq, mul; cbn. repeat split; ring.
Qed.
Lemma seq_sym x y : seq x y -> seq y x.
Proof. intros (A0&A1&A2&A3&A4&A5&A6). unfold seq. repeat split; symmetry; auto. Qed.
Lemma rv_prod l : seq (rv (prod l)) (prod (rev l)).
Proof.
  induction l as [|[i c] l IH]; cbn [prod rev]. apply seq_refl.
  eapply seq_trans; [apply rv_mul|]. rewrite rv_flow.
  eapply seq_trans; [apply mul_compat; [apply IH| apply seq_refl]|].
  apply seq_sym. eapply seq_trans; [apply prod_app|]. cbn [prod].
  apply mul_compat; [apply seq_refl| apply mul_one_r].
Qed.

Fixpoint suma (comp : bool) (l : sched) : Q :=
  match l with [] => 0 | (i, c) :: r => (if Bool.eqb i comp then c else 0) + suma comp r end.
Definition grouplike (x : ser) : Prop :=
  s0 x == 1 /\ 2 * b11 x == a1 x * a1 x /\ 2 * b22 x == a2 x * a2 x /\ b12 x + b21 x == a1 x * a2 x.
Lemma prod_grouplike l : grouplike (prod l) /\ a1 (prod l) == suma false l /\ a2 (prod l) == suma true l.
Proof.
  induction l as [|[i c] l (G & A1 & A2)]; cbn [prod suma].
  - unfold grouplike, one; cbn. repeat split; ring.
  - destruct G as (G0 & G1 & G2 & G3). destruct i; unfold grouplike, mul, flow; cbn [s0 a1 a2 b11 b12 b21 b22 Bool.eqb].
    + repeat split.
      * rewrite G0; ring.
      * rewrite G0. transitivity (2 * b11 (prod l)); [field| rewrite G1; ring].
      * rewrite G0. transitivity (2 * b22 (prod l) + c * c + 2 * c * a2 (prod l)); [field| rewrite G2; ring].
      * rewrite G0. transitivity (b12 (prod l) + b21 (prod l) + c * a1 (prod l)); [ring| rewrite G3; ring].
      * rewrite G0, A1. ring.
      * rewrite G0, A2. ring.
    + repeat split.
      * rewrite G0; ring.
      * rewrite G0. transitivity (2 * b11 (prod l) + c * c + 2 * c * a1 (prod l)); [field| rewrite G1; ring].
      * rewrite G0. transitivity (2 * b22 (prod l)); [field| rewrite G2; ring].
      * rewrite G0. transitivity (b12 (prod l) + b21 (prod l) + c * a2 (prod l)); [ring| rewrite G3; ring].
      * rewrite G0, A1. ring.
      * rewrite G0, A2. ring.
Qed.

Theorem symmetric_consistent_order2 (l : sched) :
  rev l = l -> suma false l == 1 -> suma true l == 1 -> seq (prod l) exact.
Proof.
  intros Hpal S1 S2.
  destruct (prod_grouplike l) as ((G0 & G1 & G2 & G3) & A1 & A2).
  pose proof (rv_prod l) as R. rewrite Hpal in R. destruct R as (_ & _ & _ & _ & R12 & _ & _). cbn [rv b12] in R12.
  rewrite S1 in A1. rewrite S2 in A2. rewrite A1, A2 in *.
  unfold seq, exact; cbn [s0 a1 a2 b11 b12 b21 b22]. repeat split; auto; try lra.
Qed.
Print Assumptions symmetric_consistent_order2.

(* non-vacuity: leapfrog and a two-stage scheme *)
Example leapfrog_ok : seq (prod [(false, 1#2); (true, 1); (false, 1#2)]) exact.
Proof. apply symmetric_consistent_order2; cbn; try reflexivity; lra. Qed.
(* the pinned-tree implicit leapfrog gives h1 a total weight of 2: not consistent *)
Example doubled_not_exact : ~ seq (prod [(false, 1); (true, 1); (false, 1)]) exact.
Proof. intros (_ & H & _). cbn in H. lra. Qed.
