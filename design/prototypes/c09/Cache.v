From Coq Require Import List Bool Arith Lia.
Import ListNotations.

Definition var := nat.
Definition key := nat.
Definition upd {A} (f : nat -> A) (i : nat) (a : A) : nat -> A := fun j => if Nat.eqb j i then a else f j.
Lemma upd_same {A} (f : nat -> A) i a : upd f i a i = a. Proof. unfold upd; rewrite Nat.eqb_refl; auto. Qed.
Lemma upd_other {A} (f : nat -> A) i j a : j <> i -> upd f i a j = f j.
Proof. intros H; unfold upd. destruct (Nat.eqb_spec j i); congruence. Qed.
Definition memb (x : var) (l : list var) : bool := existsb (Nat.eqb x) l.
Lemma memb_In x l : memb x l = true <-> In x l.
Proof. unfold memb. rewrite existsb_exists. split. intros [y [H E]]. apply Nat.eqb_eq in E; subst; auto. intros H; exists x; split; auto; apply Nat.eqb_refl. Qed.

Section C.
Variable V R : Type.
Variable decl reads : key -> list var.
Variable aux : key -> list key.
Variable eval : key -> (var -> V) -> R.
Variable droppable : key -> bool.
Hypothesis eval_ext : forall k s s', (forall x, In x (reads k) -> s x = s' x) -> eval k s = eval k s'.
Hypothesis sound_self : forall k x, In x (reads k) -> In x (decl k).
Hypothesis sound_aux : forall m a x, In a (aux m) -> In x (reads a) -> In x (decl m).

Inductive entry := Absent | Inval | Val (r : R).
Record state := { vars : var -> V; cache : key -> entry; grp : nat; ro : bool }.
Record heap := { sts : nat -> option state; nst : nat; deps : nat -> var -> key -> bool; ngrp : nat }.

Definition register (d : nat -> var -> key -> bool) (g : nat) (dl : list var) (k : key) : nat -> var -> key -> bool :=
  fun g' x k' => if (Nat.eqb g' g && memb x dl && Nat.eqb k' k)%bool then true else d g' x k'.
Definition reg_keys (s : state) (m : key) (ks : list key) (d : nat -> var -> key -> bool) :=
  fold_left (fun d k => match cache s k with Absent => register d (grp s) (decl m) k | _ => d end) ks d.

Inductive op :=
| Assign (i : nat) (x : var) (v : V)
| Copy (i : nat) (readonly : bool)
| Pickle (i : nat)
| Call (i : nat) (m : key) (with_aux : bool).

Definition fill_aux (s : state) (m : key) (c : key -> entry) : key -> entry :=
  fold_left (fun c a => upd c a (Val (eval a (vars s)))) (aux m) c.

Definition step (h : heap) (o : op) : heap * option R :=
  match o with
  | Assign i x v =>
      match sts h i with
      | Some s => if ro s then (h, None) else
          let s' := {| vars := upd (vars s) x v;
                       cache := fun k => if deps h (grp s) x k then Inval else cache s k;
                       grp := grp s; ro := ro s |} in
          ({| sts := upd (sts h) i (Some s'); nst := nst h; deps := deps h; ngrp := ngrp h |}, None)
      | None => (h, None) end
  | Copy i r =>
      match sts h i with
      | Some s => ({| sts := upd (sts h) (nst h) (Some {| vars := vars s; cache := cache s; grp := grp s; ro := r |});
                      nst := S (nst h); deps := deps h; ngrp := ngrp h |}, None)
      | None => (h, None) end
  | Pickle i =>
      match sts h i with
      | Some s =>
          let g := ngrp h in
          ({| sts := upd (sts h) (nst h) (Some {| vars := vars s;
                        cache := fun k => match cache s k with Val r => if droppable k then Absent else Val r | e => e end;
                        grp := g; ro := ro s |});
              nst := S (nst h);
              deps := fun g' x k => if Nat.eqb g' g then deps h (grp s) x k else deps h g' x k; ngrp := S g |}, None)
      | None => (h, None) end
  | Call i m wa =>
      match sts h i with
      | Some s =>
          let d' := reg_keys s m (m :: aux m) (deps h) in
          match cache s m with
          | Val r => ({| sts := sts h; nst := nst h; deps := d'; ngrp := ngrp h |}, Some r)
          | _ =>
              let r := eval m (vars s) in
              let c1 := upd (cache s) m (Val r) in
              let c2 := if wa then fill_aux s m c1 else c1 in
              ({| sts := upd (sts h) i (Some {| vars := vars s; cache := c2; grp := grp s; ro := ro s |});
                  nst := nst h; deps := d'; ngrp := ngrp h |}, Some r)
          end
      | None => (h, None) end
  end.

(* ---------- invariant ---------- *)
Definition Inv (h : heap) : Prop :=
  (forall i s, sts h i = Some s -> grp s < ngrp h) /\
  (forall g x k, deps h g x k = true -> forall y, In y (reads k) -> deps h g y k = true) /\
  (forall i s k, sts h i = Some s -> cache s k <> Absent -> forall y, In y (reads k) -> deps h (grp s) y k = true) /\
  (forall i s k r, sts h i = Some s -> cache s k = Val r -> r = eval k (vars s)).

Lemma register_mono d g dl k g' x k' : d g' x k' = true -> register d g dl k g' x k' = true.
Proof. unfold register. intros H. destruct (_ && _ && _); auto. Qed.
Lemma register_hit d g dl k x : In x dl -> register d g dl k g x k = true.
Proof. unfold register. intros H. rewrite !Nat.eqb_refl. apply memb_In in H. rewrite H. reflexivity. Qed.
Lemma register_inv d g dl k g' x k' : register d g dl k g' x k' = true -> d g' x k' = true \/ (g' = g /\ k' = k /\ In x dl).
Proof.
  unfold register. destruct (Nat.eqb_spec g' g), (memb x dl) eqn:M, (Nat.eqb_spec k' k); cbn; auto.
  intros _. right. repeat split; auto. apply memb_In; auto.
Qed.
Lemma reg_keys_mono (s : state) (m : key) ks : forall d g x k, d g x k = true -> reg_keys s m ks d g x k = true.
Proof. induction ks as [|a ks IH]; intros d g x k H; cbn; auto. apply IH. destruct (cache s a); auto. apply register_mono; auto. Qed.
Lemma reg_keys_hit (s : state) (m : key) ks : forall d k x, In k ks -> cache s k = Absent -> In x (decl m) -> reg_keys s m ks d (grp s) x k = true.
Proof.
  induction ks as [|a ks IH]; intros d k x Hk Hc Hx; [destruct Hk|]. cbn. destruct Hk as [->|Hk].
  - rewrite Hc. apply reg_keys_mono. apply register_hit; auto.
  - apply IH; auto.
Qed.
Lemma reg_keys_inv (s : state) (m : key) ks : forall d g x k, reg_keys s m ks d g x k = true -> d g x k = true \/ (g = grp s /\ In k ks /\ In x (decl m)).
Proof.
  induction ks as [|a ks IH]; intros d g x k H; cbn in H; auto.
  apply IH in H as [H|(?&?&?)]; [|right; repeat split; auto; right; auto].
  destruct (cache s a); auto. apply register_inv in H as [H|(?&?&?)]; auto. subst. right. repeat split; auto. left; auto.
Qed.
Lemma reads_in_decl (m k : key) : In k (m :: aux m) -> forall y, In y (reads k) -> In y (decl m).
Proof. intros [<-|H] y Hy; [apply sound_self; auto| eapply sound_aux; eauto]. Qed.

Lemma fill_aux_spec (s : state) : forall l c k, (fold_left (fun c a => upd c a (Val (eval a (vars s)))) l c) k = (if existsb (Nat.eqb k) l then Val (eval k (vars s)) else c k).
Proof.
  induction l as [|a l IH]; intros c k; cbn; auto. rewrite IH.
  destruct (existsb (Nat.eqb k) l) eqn:E.
  - rewrite orb_true_r. reflexivity.
  - rewrite orb_false_r. unfold upd. destruct (Nat.eqb_spec k a); subst; auto.
Qed.

Theorem call_transparent h i s m wa : Inv h -> sts h i = Some s ->
  snd (step h (Call i m wa)) = Some (eval m (vars s)).
Proof.
  intros (_ & _ & _ & Hv) Hs. cbn [step]. rewrite Hs.
  destruct (cache s m) eqn:E; cbn [snd]; auto. f_equal. eapply Hv; eauto.
Qed.

Theorem step_inv h o : Inv h -> Inv (fst (step h o)).
Proof.
  intros (Hg & HG & HS & Hv). destruct o as [i x v|i r|i|i m wa]; cbn [step].
  - (* Assign *)
    destruct (sts h i) as [s|] eqn:Es; [|repeat split; auto]. destruct (ro s); [repeat split; auto|]. cbn [fst].
    repeat split; cbn [sts deps ngrp].
    + intros j t Hj. unfold upd in Hj. destruct (Nat.eqb_spec j i); [inversion Hj; subst; cbn; eapply Hg; eauto| eapply Hg; eauto].
    + exact HG.
    + intros j t k Hj Hc y Hy. unfold upd in Hj. destruct (Nat.eqb_spec j i); [|eapply HS; eauto].
      inversion Hj; subst t; clear Hj. cbn [cache grp] in *.
      destruct (deps h (grp s) x k) eqn:D; [eapply HG; eauto| eapply HS; eauto].
    + intros j t k r Hj Hc. unfold upd in Hj. destruct (Nat.eqb_spec j i); [|eapply Hv; eauto].
      inversion Hj; subst t; clear Hj. cbn [cache vars] in *.
      destruct (deps h (grp s) x k) eqn:D; [discriminate|].
      rewrite (Hv _ _ _ _ Es Hc). apply eval_ext. intros y Hy. unfold upd.
      destruct (Nat.eqb_spec y x); auto. subst y.
      assert (cache s k <> Absent) by (rewrite Hc; discriminate).
      rewrite (HS _ _ _ Es H x Hy) in D. discriminate.
  - (* Copy *)
    destruct (sts h i) as [s|] eqn:Es; [|repeat split; auto]. cbn [fst].
    repeat split; cbn [sts deps ngrp].
    + intros j t Hj. unfold upd in Hj. destruct (Nat.eqb_spec j (nst h)); [inversion Hj; subst; cbn; eapply Hg; eauto| eapply Hg; eauto].
    + exact HG.
    + intros j t k Hj Hc y Hy. unfold upd in Hj. destruct (Nat.eqb_spec j (nst h)); [|eapply HS; eauto].
      inversion Hj; subst t; cbn [cache grp] in *. eapply HS; eauto.
    + intros j t k r0 Hj Hc. unfold upd in Hj. destruct (Nat.eqb_spec j (nst h)); [|eapply Hv; eauto].
      inversion Hj; subst t; cbn [cache vars] in *. eapply Hv; eauto.
  - (* Pickle *)
    destruct (sts h i) as [s|] eqn:Es; [|repeat split; auto]. cbn [fst].
    pose proof (Hg _ _ Es) as Hgs.
    repeat split; cbn [sts deps ngrp].
    + intros j t Hj. unfold upd in Hj. destruct (Nat.eqb_spec j (nst h)); [inversion Hj; subst; cbn; lia|].
      pose proof (Hg _ _ Hj). lia.
    + intros g x k D y Hy. destruct (Nat.eqb_spec g (ngrp h)); eapply HG; eauto.
    + intros j t k Hj Hc y Hy. unfold upd in Hj. destruct (Nat.eqb_spec j (nst h)).
      * inversion Hj; subst t; cbn [cache grp] in *. rewrite Nat.eqb_refl.
        eapply HS; eauto. intro A. rewrite A in Hc. congruence.
      * pose proof (Hg _ _ Hj). destruct (Nat.eqb_spec (grp t) (ngrp h)); [lia|]. eapply HS; eauto.
    + intros j t k r0 Hj Hc. unfold upd in Hj. destruct (Nat.eqb_spec j (nst h)); [|eapply Hv; eauto].
      inversion Hj; subst t; cbn [cache vars] in *.
      destruct (cache s k) eqn:E; try discriminate. destruct (droppable k); [discriminate|]. inversion Hc; subst. eapply Hv; eauto.
  - (* Call *)
    destruct (sts h i) as [s|] eqn:Es; [|repeat split; auto].
    set (d' := reg_keys s m (m :: aux m) (deps h)).
    assert (HG' : forall g x k, d' g x k = true -> forall y, In y (reads k) -> d' g y k = true).
    { intros g x k D y Hy. unfold d' in *. apply reg_keys_inv in D as [D|(-> & Hk & Hx)].
      - apply reg_keys_mono. eapply HG; eauto.
      - destruct (cache s k) eqn:Ec.
        + apply reg_keys_hit; auto. eapply reads_in_decl; eauto.
        + apply reg_keys_mono. eapply HS; eauto. rewrite Ec; discriminate.
        + apply reg_keys_mono. eapply HS; eauto. rewrite Ec; discriminate. }
    assert (HS' : forall j t k, sts h j = Some t -> cache t k <> Absent -> forall y, In y (reads k) -> d' (grp t) y k = true).
    { intros j t k Hj Hc y Hy. unfold d'. apply reg_keys_mono. eapply HS; eauto. }
    destruct (cache s m) eqn:Em; cbn [fst].
    + (* Absent: evaluate *)
      repeat split; cbn [sts deps ngrp]; auto.
      * intros j t Hj. unfold upd in Hj. destruct (Nat.eqb_spec j i); [inversion Hj; subst; cbn; eapply Hg; eauto| eapply Hg; eauto].
      * intros j t k Hj Hc y Hy. unfold upd in Hj. destruct (Nat.eqb_spec j i); [|eapply HS'; eauto].
        inversion Hj; subst t; clear Hj. cbn [cache grp] in *.
        destruct (cache s k) eqn:Ek; [| eapply HS'; eauto; rewrite Ek; discriminate| eapply HS'; eauto; rewrite Ek; discriminate].
        (* k was absent before: it is m or one of the aux keys *)
        assert (In k (m :: aux m)).
        { destruct wa.
          - unfold fill_aux in Hc. rewrite fill_aux_spec in Hc. destruct (existsb (Nat.eqb k) (aux m)) eqn:Ex.
            + right. apply existsb_exists in Ex as [a [Ha E]]. apply Nat.eqb_eq in E; subst; auto.
            + unfold upd in Hc. destruct (Nat.eqb_spec k m); [left; auto| congruence].
          - unfold upd in Hc. destruct (Nat.eqb_spec k m); [left; auto| congruence]. }
        unfold d'. apply reg_keys_hit; auto. eapply reads_in_decl; eauto.
      * intros j t k r0 Hj Hc. unfold upd in Hj. destruct (Nat.eqb_spec j i); [|eapply Hv; eauto].
        inversion Hj; subst t; clear Hj. cbn [cache vars] in *.
        destruct wa.
        -- unfold fill_aux in Hc. rewrite fill_aux_spec in Hc. destruct (existsb (Nat.eqb k) (aux m)); [inversion Hc; auto|].
           unfold upd in Hc. destruct (Nat.eqb_spec k m); [inversion Hc; subst; auto| eapply Hv; eauto].
        -- unfold upd in Hc. destruct (Nat.eqb_spec k m); [inversion Hc; subst; auto| eapply Hv; eauto].
    + (* Inval: evaluate, no registration for m *)
      repeat split; cbn [sts deps ngrp]; auto.
      * intros j t Hj. unfold upd in Hj. destruct (Nat.eqb_spec j i); [inversion Hj; subst; cbn; eapply Hg; eauto| eapply Hg; eauto].
      * intros j t k Hj Hc y Hy. unfold upd in Hj. destruct (Nat.eqb_spec j i); [|eapply HS'; eauto].
        inversion Hj; subst t; clear Hj. cbn [cache grp] in *.
        destruct (cache s k) eqn:Ek; [| eapply HS'; eauto; rewrite Ek; discriminate| eapply HS'; eauto; rewrite Ek; discriminate].
        assert (In k (m :: aux m)).
        { destruct wa.
          - unfold fill_aux in Hc. rewrite fill_aux_spec in Hc. destruct (existsb (Nat.eqb k) (aux m)) eqn:Ex.
            + right. apply existsb_exists in Ex as [a [Ha E]]. apply Nat.eqb_eq in E; subst; auto.
            + unfold upd in Hc. destruct (Nat.eqb_spec k m); [left; auto| congruence].
          - unfold upd in Hc. destruct (Nat.eqb_spec k m); [left; auto| congruence]. }
        unfold d'. apply reg_keys_hit; auto. eapply reads_in_decl; eauto.
      * intros j t k r0 Hj Hc. unfold upd in Hj. destruct (Nat.eqb_spec j i); [|eapply Hv; eauto].
        inversion Hj; subst t; clear Hj. cbn [cache vars] in *.
        destruct wa.
        -- unfold fill_aux in Hc. rewrite fill_aux_spec in Hc. destruct (existsb (Nat.eqb k) (aux m)); [inversion Hc; auto|].
           unfold upd in Hc. destruct (Nat.eqb_spec k m); [inversion Hc; subst; auto| eapply Hv; eauto].
        -- unfold upd in Hc. destruct (Nat.eqb_spec k m); [inversion Hc; subst; auto| eapply Hv; eauto].
    + (* hit *)
      repeat split; cbn [sts deps ngrp]; auto; try (intros; eapply HS'; eauto).
Qed.

(* every reachable heap satisfies the invariant, so every call along any history is transparent *)
Fixpoint runs (h : heap) (ops : list op) : heap := match ops with [] => h | o :: r => runs (fst (step h o)) r end.
Theorem history_transparent h ops i s m wa : Inv h -> sts (runs h ops) i = Some s ->
  snd (step (runs h ops) (Call i m wa)) = Some (eval m (vars s)).
Proof.
  revert h. induction ops as [|o r IH]; intros h HI Hs; cbn [runs] in *.
  - apply call_transparent; auto.
  - apply IH; auto. apply step_inv; auto.
Qed.
End C.
Print Assumptions history_transparent.

