From Coq Require Import Reals Lra.
Open Scope R_scope.

(* float-shaped values: what translator T1 targets *)
Inductive xr := Fin (r : R) | PInf | NInf | NaN.
Definition LOG_2 : R := ln 2.
Definition expm1 (x : R) := exp x - 1.
Definition log1p (x : R) := ln (1 + x).

(* utils.log1p_exp / log1m_exp / log_sum_exp / log_diff_exp on finite arguments, thr = the threshold constant
   used by log1m_exp (the pinned tree has thr = +LOG_2, the intended one is -LOG_2) *)
Definition log1p_exp (v : R) : R := if Rlt_dec 0 v then v + log1p (exp (- v)) else log1p (exp v).
Definition log1m_exp (thr v : R) : xr :=
  if Rle_dec 0 v then NaN else if Rlt_dec thr v then Fin (ln (- expm1 v)) else Fin (log1p (- exp v)).
Definition log_sum_exp (a b : R) : R := if Rlt_dec b a then a + log1p_exp (b - a) else b + log1p_exp (a - b).
Definition log_diff_exp (thr a b : R) : xr :=
  if Rlt_dec a b then NaN else if Req_EM_T a b then NInf else
  match log1m_exp thr (b - a) with Fin r => Fin (a + r) | e => e end.

Lemma log1p_exp_spec v : log1p_exp v = ln (1 + exp v).
Proof.
  unfold log1p_exp, log1p. destruct (Rlt_dec 0 v); [|reflexivity].
  assert (H: 1 + exp v = exp v * (1 + exp (- v))).
  { rewrite Rmult_plus_distr_l, Rmult_1_r, <- exp_plus. replace (v + - v) with 0 by lra. rewrite exp_0. lra. }
  rewrite H, ln_mult, ln_exp; try lra. apply exp_pos. pose proof (exp_pos (- v)). lra.
Qed.
Lemma log_sum_exp_spec a b : log_sum_exp a b = ln (exp a + exp b).
Proof.
  assert (G : forall x y, x + ln (1 + exp (y - x)) = ln (exp x + exp y)).
  { intros x y. assert (H: exp x + exp y = exp x * (1 + exp (y - x))).
    { rewrite Rmult_plus_distr_l, Rmult_1_r, <- exp_plus. replace (x + (y - x)) with y by lra. reflexivity. }
    rewrite H, ln_mult, ln_exp; try lra. apply exp_pos. pose proof (exp_pos (y - x)); lra. }
  unfold log_sum_exp. destruct (Rlt_dec b a); rewrite log1p_exp_spec; rewrite G; [reflexivity| f_equal; lra].
Qed.
Lemma exp_lt_1 v : v < 0 -> exp v < 1.
Proof. intros H. rewrite <- exp_0. apply exp_increasing; auto. Qed.
Lemma log1m_exp_spec thr v : v < 0 -> log1m_exp thr v = Fin (ln (1 - exp v)).
Proof.
  intros Hv. unfold log1m_exp, expm1, log1p. destruct (Rle_dec 0 v); [lra|].
  destruct (Rlt_dec thr v); f_equal; f_equal; lra.
Qed.
Lemma log_diff_exp_spec thr a b : b < a -> log_diff_exp thr a b = Fin (ln (exp a - exp b)).
Proof.
  intros H. unfold log_diff_exp. destruct (Rlt_dec a b); [lra|]. destruct (Req_EM_T a b); [lra|].
  rewrite log1m_exp_spec by lra. f_equal.
  assert (E : exp a - exp b = exp a * (1 - exp (b - a))).
  { rewrite Rmult_minus_distr_l, Rmult_1_r, <- exp_plus. replace (a + (b - a)) with b by lra. reflexivity. }
  rewrite E, ln_mult, ln_exp; try lra. apply exp_pos. pose proof (exp_lt_1 (b - a)). lra.
Qed.

(* ---- conditioning of the two branches of log1m_exp ----
   kappaB v : amplification of a relative error of exp v in   log1p(-exp v)
   kappaA v : amplification of a relative error of expm1 v in ln(-expm1 v)
   both relative to the size of the result |ln(1 - exp v)|.                       *)
Definition kappaB (v : R) := exp v / ((1 - exp v) * - ln (1 - exp v)).
Definition kappaA (v : R) := 1 / - ln (1 - exp v).

Lemma ln_1m_le x : 0 < x < 1 -> ln (1 - x) <= - x.
Proof.
  intros [H0 H1]. destruct (Rle_lt_dec (ln (1 - x)) (- x)); auto. exfalso.
  assert (exp (- x) < exp (ln (1 - x))) by (apply exp_increasing; auto).
  rewrite exp_ln in H by lra. pose proof (exp_ineq1 (- x)).
  assert (- x <> 0) by lra.
  (* 1 + (-x) <= exp(-x) *)
  pose proof (exp_ineq1_le (- x)). lra.
Qed.

Theorem branchB_ok v : v <= - ln 2 -> kappaB v <= 2.
Proof.
  intros Hv. unfold kappaB.
  assert (Hp : 0 < exp v) by apply exp_pos.
  assert (Hh : exp v <= / 2).
  { rewrite <- (exp_ln (/ 2)) by lra. rewrite ln_Rinv by lra.
    destruct Hv as [Hv|Hv]; [left; apply exp_increasing; auto | right; rewrite Hv; reflexivity]. }
  assert (Hl : ln (1 - exp v) <= - exp v) by (apply ln_1m_le; lra).
  assert (D : 0 < (1 - exp v) * - ln (1 - exp v)) by (apply Rmult_lt_0_compat; lra).
  apply (Rmult_le_reg_r ((1 - exp v) * - ln (1 - exp v))); auto.
  unfold Rdiv. rewrite Rmult_assoc, Rinv_l by lra. rewrite Rmult_1_r.
  (* exp v <= 2 (1 - e)(-ln(1-e));  (1-e) >= 1/2 and -ln(1-e) >= e *)
  assert ((1 - exp v) * - ln (1 - exp v) >= (/2) * exp v).
  { apply Rle_ge. apply Rmult_le_compat; lra. }
  lra.
Qed.
Theorem branchA_ok v : - ln 2 < v < 0 -> kappaA v <= / ln 2.
Proof.
  intros [H1 H2]. unfold kappaA.
  assert (Hp : 0 < exp v) by apply exp_pos. pose proof (exp_lt_1 v H2) as He.
  assert (Hh : / 2 < exp v).
  { rewrite <- (exp_ln (/ 2)) by lra. rewrite ln_Rinv by lra. apply exp_increasing; auto. }
  assert (L2 : 0 < ln 2) by (rewrite <- ln_1; apply ln_increasing; lra).
  assert (ln (1 - exp v) < - ln 2).
  { rewrite <- ln_Rinv by lra. apply ln_increasing; lra. }
  unfold Rdiv. rewrite Rmult_1_l. apply Rinv_le_contravar; lra.
Qed.
(* the pinned tree takes branch B for every negative v: its amplification is unbounded near 0 *)
Theorem branchB_unbounded : forall K, 0 < K -> exists v, v < 0 /\ - ln 2 < v /\ K < exp v / (1 - exp v).
Proof.
  intros K HK. set (e := (K + 1) / (K + 2)).
  assert (He : / 2 < e < 1).
  { unfold e. split.
    - apply (Rmult_lt_reg_r (K + 2)); [lra|]. unfold Rdiv. rewrite Rmult_assoc, Rinv_l by lra. lra.
    - apply (Rmult_lt_reg_r (K + 2)); [lra|]. unfold Rdiv. rewrite Rmult_assoc, Rinv_l by lra. lra. }
  exists (ln e). rewrite exp_ln by lra. repeat split.
  - rewrite <- ln_1. apply ln_increasing; lra.
  - rewrite <- ln_Rinv by lra. apply ln_increasing; lra.
  - assert (E : e / (1 - e) = K + 1).
    { unfold e. field. lra. }
    rewrite E. lra.
Qed.
Print Assumptions branchB_unbounded.
