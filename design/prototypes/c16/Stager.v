From Coq Require Import ZArith List Bool Lia.
Import ListNotations.
Open Scope Z_scope.

(* What translator T2 is meant to emit for WindowedWarmUpStager.stages (numeric part).
   scale1 w = int((1 + multiplier) * w), scale2 w = int(multiplier * w): kept abstract. *)
Inductive adapters := Fast | All | NoAd.
Record stage := { n_iter : Z; ads : adapters; traced : bool }.

Section S.
Variables (n_init_slow n_init_fast n_final_fast : Z).
Variables (scale1 scale2 : Z -> Z).
Hypothesis scale1_ge : forall w, 0 <= w -> w <= scale1 w.
Hypothesis scale2_pos : forall w, 1 <= w -> 1 <= scale2 w.
Hypothesis scale2_nonneg : forall w, 0 <= w -> 0 <= scale2 w.

Definition fl15 (n : Z) := (15 * n) / 100.   (* int(0.15 * n) *)
Definition fl10 (n : Z) := (10 * n) / 100.   (* int(0.1 * n) *)

(* while counter < n_slow: ... ; fuel-bounded *)
Fixpoint windows (fuel : nat) (counter n_window n_slow : Z) : option (list Z) :=
  if counter <? n_slow then
    match fuel with
    | O => None
    | S f =>
        let counter_next := counter + scale1 n_window in
        let w := if n_slow <? counter_next then n_slow - counter else n_window in
        match windows f (counter + w) (scale2 w) n_slow with
        | Some l => Some (w :: l)
        | None => None
        end
    end
  else Some [].

Definition stages (n_warm n_main : Z) (trace_warm : bool) : option (list stage) :=
  let '(w0, nf, nl) :=
     if n_warm <? n_init_fast + n_init_slow + n_final_fast
     then (n_warm - fl15 n_warm - fl10 n_warm, fl15 n_warm, fl10 n_warm)
     else (n_init_slow, n_init_fast, n_final_fast) in
  let main := if 0 <? n_main then [{| n_iter := n_main; ads := NoAd; traced := true |}] else [] in
  if 0 <? n_warm then
    match windows (Z.to_nat (n_warm - nf - nl) + 1) 0 w0 (n_warm - nf - nl) with
    | Some ws =>
        Some ({| n_iter := nf; ads := Fast; traced := trace_warm |} ::
              map (fun w => {| n_iter := w; ads := All; traced := trace_warm |}) ws ++
              [{| n_iter := nl; ads := Fast; traced := trace_warm |}] ++ main)
    | None => None
    end
  else Some main.

Definition sumz (l : list Z) := fold_right Z.add 0 l.
Lemma sumz_app a b : sumz (a ++ b) = sumz a + sumz b.
Proof. unfold sumz. induction a; cbn [app fold_right]; lia. Qed.

Lemma windows_sum fuel : forall counter w n_slow l,
  counter <= n_slow -> 0 <= w -> windows fuel counter w n_slow = Some l ->
  sumz l = n_slow - counter /\ Forall (fun x => 0 <= x) l.
Proof.
  induction fuel as [|f IH]; intros counter w n_slow l Hc Hw H; cbn [windows] in H.
  - destruct (counter <? n_slow) eqn:E; [discriminate|]. inversion H; subst. apply Z.ltb_ge in E. cbn. split; [lia|constructor].
  - destruct (counter <? n_slow) eqn:E.
    + apply Z.ltb_lt in E.
      set (w' := if n_slow <? counter + scale1 w then n_slow - counter else w) in *.
      assert (Hw' : 0 <= w' /\ counter + w' <= n_slow).
      { unfold w'. destruct (n_slow <? counter + scale1 w) eqn:E2. lia. apply Z.ltb_ge in E2. pose proof (scale1_ge w Hw). lia. }
      destruct (windows f (counter + w') (scale2 w') n_slow) as [l'|] eqn:R; [|discriminate].
      inversion H; subst l. 
      assert (Hs2 : 0 <= scale2 w') by (apply scale2_nonneg; lia).
      apply IH in R; try lia. destruct R as [R1 R2]. cbn [sumz fold_right]. fold (sumz l'). split; [lia| constructor; [lia|auto]].
    + inversion H; subst. apply Z.ltb_ge in E. cbn. split; [lia|constructor].
Qed.

Lemma windows_terminates fuel : forall counter w n_slow,
  1 <= w -> (Z.to_nat (n_slow - counter) < fuel)%nat -> windows fuel counter w n_slow <> None.
Proof.
  induction fuel as [|f IH]; intros counter w n_slow Hw Hf; [lia|]. cbn [windows].
  destruct (counter <? n_slow) eqn:E; [|discriminate]. apply Z.ltb_lt in E.
  set (w' := if n_slow <? counter + scale1 w then n_slow - counter else w).
  assert (Hw' : 1 <= w') by (unfold w'; destruct (n_slow <? counter + scale1 w); lia).
  specialize (IH (counter + w') (scale2 w') n_slow (scale2_pos w' Hw') ltac:(lia)).
  destruct (windows f (counter + w') (scale2 w') n_slow); [discriminate| congruence].
Qed.

Definition warm (l : list stage) := filter (fun s => match ads s with NoAd => false | _ => true end) l.
Theorem windowed_partition n_warm n_main tw l :
  0 <= n_warm -> 0 <= n_main -> 0 <= n_init_fast -> 0 <= n_final_fast -> 1 <= n_init_slow ->
  stages n_warm n_main tw = Some l ->
  sumz (map n_iter (warm l)) = n_warm /\ Forall (fun s => 0 <= n_iter s) l /\
  (0 < n_main -> exists l0, l = l0 ++ [{| n_iter := n_main; ads := NoAd; traced := true |}] /\ warm l0 = l0) /\
  (n_main = 0 -> warm l = l).
Proof.
  intros Hw Hm Hf Hl Hs H. unfold stages in H.
  set (sel := if n_warm <? n_init_fast + n_init_slow + n_final_fast then _ else _) in H.
  destruct sel as [[w0 nf] nl] eqn:Esel.
  assert (Hsel : 0 <= nf /\ 0 <= nl /\ nf + nl <= n_warm /\ (0 < n_warm -> 1 <= w0)).
  { unfold sel in Esel. destruct (n_warm <? n_init_fast + n_init_slow + n_final_fast) eqn:E; inversion Esel; subst.
    - unfold fl15, fl10. 
      assert (0 <= 15 * n_warm / 100) by (apply Z.div_pos; lia). assert (0 <= 10 * n_warm / 100) by (apply Z.div_pos; lia).
      assert (15 * n_warm / 100 * 100 <= 15 * n_warm) by (pose proof (Z.mul_div_le (15 * n_warm) 100); lia).
      assert (10 * n_warm / 100 * 100 <= 10 * n_warm) by (pose proof (Z.mul_div_le (10 * n_warm) 100); lia).
      repeat split; try lia.
    - apply Z.ltb_ge in E. repeat split; lia. }
  destruct Hsel as (Hnf & Hnl & Hsum & Hw0).
  assert (Main : forall l0, warm l0 = l0 ->
     sumz (map n_iter (warm (l0 ++ (if 0 <? n_main then [{| n_iter := n_main; ads := NoAd; traced := true |}] else [])))) = sumz (map n_iter l0)).
  { intros l0 E0. unfold warm in *. rewrite filter_app. destruct (0 <? n_main); cbn; rewrite ?app_nil_r, E0; reflexivity. }
  destruct (0 <? n_warm) eqn:Ew.
  - apply Z.ltb_lt in Ew.
    destruct (windows _ 0 w0 (n_warm - nf - nl)) as [ws|] eqn:W; [|discriminate]. inversion H; subst l; clear H.
    apply windows_sum in W; try lia. destruct W as [W1 W2].
    set (l0 := {| n_iter := nf; ads := Fast; traced := tw |} :: map (fun w => {| n_iter := w; ads := All; traced := tw |}) ws ++ [{| n_iter := nl; ads := Fast; traced := tw |}]).
    assert (E0 : warm l0 = l0).
    { unfold warm, l0. cbn. f_equal. rewrite filter_app. cbn. f_equal. clear. induction ws; cbn; congruence. }
    assert (S0 : sumz (map n_iter l0) = n_warm).
    { unfold l0. cbn. rewrite map_app, map_map. cbn.
      fold (sumz (map (fun x : Z => x) ws ++ [nl])). rewrite sumz_app, map_id. unfold sumz at 2. cbn [fold_right]. lia. }
    match goal with |- context [warm ?L] =>
      assert (EL : L = l0 ++ (if 0 <? n_main then [{| n_iter := n_main; ads := NoAd; traced := true |}] else []))
        by (unfold l0; cbn [app]; rewrite <- app_assoc; reflexivity); rewrite EL; clear EL end.
    repeat split.
    + rewrite Main; auto.
    + apply Forall_app. split.
      * unfold l0. constructor; [cbn; lia|]. apply Forall_app; split; [|constructor; [cbn; lia|constructor]].
        clear - W2. induction W2; cbn; constructor; auto.
      * destruct (0 <? n_main); constructor; [cbn; lia|constructor].
    + intros Hm0. apply Z.ltb_lt in Hm0. rewrite Hm0. exists l0; auto.
    + intros ->. cbn. rewrite app_nil_r. exact E0.
  - apply Z.ltb_ge in Ew. assert (n_warm = 0) by lia. inversion H; subst l; clear H.
    repeat split.
    + destruct (0 <? n_main); cbn; lia.
    + destruct (0 <? n_main); constructor; [cbn; lia|constructor].
    + intros Hm0. apply Z.ltb_lt in Hm0. rewrite Hm0. exists []; auto.
    + intros ->. reflexivity.
Qed.
End S.
Print Assumptions windowed_partition.

