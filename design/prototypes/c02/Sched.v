From Coq Require Import QArith List Bool Lia Lqa.
Import ListNotations.
Open Scope Q_scope.

(* ---------- coefficient derivation of SymmetricCompositionIntegrator.__init__ ----------
   coefficients = list(free); append 0.5 - sum(free[n%2::2]); append 1 - 2*sum(free[(n+1)%2::2]);
   self.coefficients = coefficients + coefficients[-2::-1]                                        *)
Fixpoint evens (l : list Q) : list Q := match l with [] => [] | x :: r => x :: odds r end
with odds (l : list Q) : list Q := match l with [] => [] | _ :: r => evens r end.
Definition sumq (l : list Q) : Q := fold_right Qplus 0 l.
Definition slice2 (start : nat) (l : list Q) : list Q := if Nat.even start then evens l else odds l. (* l[start%2::2] *)
Definition half_coeffs (free : list Q) : list Q :=
  let n := length free in
  free ++ [ (1#2) - sumq (slice2 n free) ] ++ [ 1 - 2 * sumq (slice2 (S n) free) ].
Definition coefficients (free : list Q) : list Q :=
  let c := half_coeffs free in c ++ tl (rev c).     (* c + c[-2::-1] *)

Lemma rev_tl_rev {A} (l : list A) (x : A) : rev (tl (rev (l ++ [x]))) = l.
Proof. rewrite rev_app_distr. cbn. apply rev_involutive. Qed.

Theorem coefficients_palindrome free : rev (coefficients free) = coefficients free.
Proof.
  unfold coefficients. set (c := half_coeffs free).
  assert (exists l x, c = l ++ [x]) as (l & x & E).
  { unfold c, half_coeffs. exists (free ++ [(1 # 2) - sumq (slice2 (length free) free)]), (1 - 2 * sumq (slice2 (S (length free)) free)). rewrite <- app_assoc. reflexivity. }
  rewrite E. rewrite rev_app_distr. rewrite rev_tl_rev.
  rewrite rev_app_distr. cbn [rev app tl]. rewrite <- app_assoc. reflexivity.
Qed.

(* consistency: a-coefficients (even positions) and b-coefficients (odd positions) each sum to one *)
Lemma sumq_app a b : sumq (a ++ b) == sumq a + sumq b.
Proof. unfold sumq. induction a; cbn [app fold_right]; [lra| rewrite IHa; lra]. Qed.
Lemma even_S n : Nat.even (S n) = negb (Nat.even n).
Proof. induction n; cbn in *; auto. rewrite IHn. destruct (Nat.even n); reflexivity. Qed.
Lemma evens_odds_app : forall a b, evens (a ++ b) = evens a ++ (if Nat.even (length a) then evens b else odds b)
                               /\ odds (a ++ b) = odds a ++ (if Nat.even (length a) then odds b else evens b).
Proof.
  induction a as [|x a IH]; intros b. cbn; auto.
  destruct (IH b) as [E O]. cbn [app evens odds length]. rewrite even_S. rewrite E, O.
  destruct (Nat.even (length a)); cbn [negb]; split; reflexivity.
Qed.
Lemma sumq_rev l : sumq (rev l) == sumq l.
Proof. induction l; cbn [rev]; [reflexivity|]. rewrite sumq_app, IHl. unfold sumq; cbn; lra. Qed.
