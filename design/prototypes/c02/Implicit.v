From Coq Require Import QArith List Lia.
Open Scope Q_scope.

(* Implicit (generalised) leapfrog: the placement of the implicit solves and of the reversibility checks. *)
Section I.
Variables Pos Mom : Type.
Variable pos_eqb : Pos -> Pos -> bool.
Variable mom_eqb : Mom -> Mom -> bool.
Hypothesis pos_eqb_eq : forall a b, pos_eqb a b = true <-> a = b.
Hypothesis mom_eqb_eq : forall a b, mom_eqb a b = true <-> a = b.
Inductive res (A : Type) := Ok (a : A) | ConvErr | NonRev.
Arguments Ok {A}. Arguments ConvErr {A}. Arguments NonRev {A}.
Definition bind {A B} (r : res A) (k : A -> res B) : res B := match r with Ok a => k a | ConvErr => ConvErr | NonRev => NonRev end.

Variable kick : Q -> Pos -> Mom -> Mom.                 (* h1 flow: p - t grad h1(q) *)
Variable explB : Q -> Pos -> Mom -> Mom.                (* p - t d_q h2(q,p) *)
Variable explC : Q -> Pos -> Mom -> Pos.                (* q + t d_p h2(q,p) *)
Variable solveB : Q -> Pos -> Mom -> res Mom.           (* fixed point of p' = p - t d_q h2(q,p'), deterministic *)
Variable solveC : Q -> Mom -> Pos -> res Pos.           (* fixed point of q' = q + t d_p h2(q',p) *)
Hypothesis kick_inv : forall t q p, kick (- t) q (kick t q p) = p.
(* a returned value is an exact fixed point: p' = p - t g(q,p')  <->  p' + t g(q,p') = p *)
Hypothesis solveB_ok : forall t q p p', solveB t q p = Ok p' -> explB (- t) q p' = p.
Hypothesis solveC_ok : forall t p q q', solveC t p q = Ok q' -> explC (- t) q' p = q.
Hypothesis neg_neg_B : forall t q p, solveB (- - t) q p = solveB t q p.
Hypothesis neg_neg_C : forall t p q, solveC (- - t) p q = solveC t p q.
Hypothesis neg_neg_eB : forall t q p, explB (- - t) q p = explB t q p.
Hypothesis neg_neg_eC : forall t q p, explC (- - t) q p = explC t q p.
Hypothesis neg_neg_k : forall t q p, kick (- - t) q p = kick t q p.

Definition st := (Pos * Mom)%type.
Definition stepA (t : Q) (s : st) : res st := Ok (fst s, kick t (fst s) (snd s)).
Definition stepBfwd (t : Q) (s : st) : res st := bind (solveB t (fst s) (snd s)) (fun p' => Ok (fst s, p')).
Definition stepBadj (t : Q) (s : st) : res st :=
  let p1 := explB t (fst s) (snd s) in
  match solveB (- t) (fst s) p1 with
  | Ok pb => if mom_eqb pb (snd s) then Ok (fst s, p1) else NonRev
  | ConvErr => ConvErr | NonRev => NonRev end.
Definition stepCfwd (t : Q) (s : st) : res st :=
  let q1 := explC t (fst s) (snd s) in
  match solveC (- t) (snd s) q1 with
  | Ok qb => if pos_eqb qb (fst s) then Ok (q1, snd s) else NonRev
  | ConvErr => ConvErr | NonRev => NonRev end.
Definition stepCadj (t : Q) (s : st) : res st := bind (solveC t (snd s) (fst s)) (fun q' => Ok (q', snd s)).
Definition step (t : Q) (s : st) : res st :=
  bind (stepA t s) (fun s1 => bind (stepBfwd t s1) (fun s2 => bind (stepCfwd t s2) (fun s3 =>
  bind (stepCadj t s3) (fun s4 => bind (stepBadj t s4) (fun s5 => stepA t s5))))).

Theorem implicit_step_reversible t s s' : step t s = Ok s' -> step (- t) s' = Ok s.
Proof.
  destruct s as [q0 p0]. unfold step, stepA, stepBfwd, stepCfwd, stepCadj, stepBadj, bind; cbn [fst snd].
  set (p1 := kick t q0 p0).
  destruct (solveB t q0 p1) as [p2| |] eqn:B1; try discriminate. cbn [fst snd].
  set (q1 := explC t q0 p2).
  destruct (solveC (- t) p2 q1) as [qb| |] eqn:C1; try discriminate.
  destruct (pos_eqb qb q0) eqn:EC1; try discriminate. apply pos_eqb_eq in EC1. subst qb. cbn [fst snd].
  destruct (solveC t p2 q1) as [q2| |] eqn:C2; try discriminate. cbn [fst snd].
  set (p3 := explB t q2 p2).
  destruct (solveB (- t) q2 p3) as [pb| |] eqn:B2; try discriminate.
  destruct (mom_eqb pb p2) eqn:EB2; try discriminate. apply mom_eqb_eq in EB2. subst pb. cbn [fst snd].
  intros H. inversion H; subst s'; clear H. cbn [fst snd].
  (* reverse run *)
  rewrite kick_inv. fold p3. rewrite B2. cbn [fst snd].
  rewrite (solveC_ok _ _ _ _ C2). rewrite neg_neg_C. rewrite C2.
  assert (pos_eqb q2 q2 = true) as -> by (apply pos_eqb_eq; reflexivity). cbn [fst snd].
  rewrite C1. cbn [fst snd].
  rewrite (solveB_ok _ _ _ _ B1). rewrite neg_neg_B. rewrite B1.
  assert (mom_eqb p2 p2 = true) as -> by (apply mom_eqb_eq; reflexivity). cbn [fst snd].
  unfold p1. rewrite kick_inv. reflexivity.
Qed.
End I.
Print Assumptions implicit_step_reversible.
