From Coq Require Import QArith List Lia.
Import ListNotations.
Open Scope Q_scope.

Section R.
Variable St : Type.
Variable comp : Type.
Variable fl : comp -> Q -> St -> St.
(* exact component flows are undone by the negative time; times are compared up to Qeq *)
Hypothesis fl_proper : forall c t t' s, t == t' -> fl c t s = fl c t' s.
Hypothesis fl_inv : forall c t s, fl c (- t) (fl c t s) = s.

Definition sched := list (comp * Q).
Fixpoint run (l : sched) (t : Q) (s : St) : St :=
  match l with [] => s | (c, a) :: r => run r t (fl c (a * t) s) end.

Lemma run_app l1 l2 t s : run (l1 ++ l2) t s = run l2 t (run l1 t s).
Proof. revert s; induction l1 as [|[c a] l1 IH]; intros s; cbn [app run]; auto. Qed.
Lemma run_rev_undo l t s : run (rev l) (- t) (run l t s) = s.
Proof.
  revert s; induction l as [|[c a] l IH]; intros s; cbn [rev run]; auto.
  rewrite run_app. rewrite IH. cbn [run].
  rewrite (fl_proper c (a * - t) (- (a * t))) by ring. apply fl_inv.
Qed.
Theorem palindrome_reversible l t s : rev l = l -> run l (- t) (run l t s) = s.
Proof. intros H. rewrite <- H at 1. apply run_rev_undo. Qed.

(* n steps forward, flip direction, n steps: back to the start *)
Fixpoint steps (n : nat) (l : sched) (t : Q) (s : St) : St :=
  match n with O => s | S n' => steps n' l t (run l t s) end.
Lemma steps_snoc n l t s : steps (S n) l t s = run l t (steps n l t s).
Proof. revert s; induction n; intros s; [reflexivity|]. change (steps (S (S n)) l t s) with (steps (S n) l t (run l t s)). rewrite IHn. reflexivity. Qed.
Theorem n_step_reversible n l t s : rev l = l -> steps n l (- t) (steps n l t s) = s.
Proof.
  intros H. revert s; induction n; intros s. reflexivity.
  rewrite (steps_snoc n l t s). cbn [steps]. rewrite palindrome_reversible by auto. apply IHn.
Qed.
End R.
