#!/bin/bash
# tools/try_mut.sh <patch.diff> <Cxx> [tier] : apply a seeded patch to /repo, run the check, undo.
set -u
patch="$1"; prop="$2"; tier="${3:-quick}"
cd /repo
git diff --quiet || { echo "repo dirty"; exit 2; }
git apply "$patch" || { echo "patch does not apply"; exit 3; }
cd /verif
./check "$prop" --tier "$tier" 2>&1 | grep -v conda | tail -8
echo "exit=${PIPESTATUS[0]}"
git -C /repo checkout -- .
