#!/bin/bash
# tools/run_all.sh [tier] [props...] : run the registered checks (default: all in MANIFEST.json) on the current tree, 4 at a time.
tier="${1:-quick}"; shift
props="$@"
[ -z "$props" ] && props=$(python3 -c "import json;print(' '.join(c['property_id'] for c in json.load(open('/verif/MANIFEST.json'))['checks']))")
cd /verif; mkdir -p build/logs
run1() { p=$1; s=$(date +%s); ./check $p --tier $2 > build/logs/$p.log 2>&1; rc=$?; e=$(date +%s); echo "$p exit=$rc $((e-s))s $(grep -c '^VIOLATION' build/logs/$p.log) violations $(grep -c '^KNOWN-FINDING' build/logs/$p.log) known"; }
export -f run1
echo $props | tr ' ' '\n' | xargs -P 4 -I{} bash -c "run1 {} $tier"
