"""Regenerate /verif/MANIFEST.json from the table below (kept next to the checks so it cannot drift)."""
import json, os
HERE = os.path.dirname(os.path.dirname(os.path.abspath(__file__)))
props = {json.loads(l)["id"]: json.loads(l) for l in open(os.path.join(HERE, "properties.jsonl"))}

CHECKS = {
 "C20": dict(
   cat="proof",
   text="Coq theorems over the real numbers about the functions regenerated from src/mici/utils.py by translator T1 on every run: each helper equals the named real function on all finite arguments and zero weights, LogRepFloat +,+=,-,*,/ and comparisons are a homomorphism / order isomorphism onto the represented reals for all operands and all accumulation sequences, and log1m_exp selects for every negative argument the branch whose error amplification is <= 2. A change to utils.py changes the generated Coq file and the theorems are re-checked against it; the branch structure and primitive-call sequences of the generated model are additionally compared with the running implementation, and an 80-digit decimal oracle searches for concrete failing inputs.",
   note="Trusted: Coq kernel; stdlib real-number axioms (ClassicalDedekindReals.sig_not_dec, sig_forall_dec, functional_extensionality_dep, Classical_Prop.classic) as reported by Print Assumptions; translator T1 (fail closed); real-number semantics of exp/expm1/log/log1p - IEEE rounding of libm is explored by the search (tolerance 2e-14), not proved.",
   technique="Coq proof over R of a model regenerated from source (ast translator) + vm_compute correspondence + high-precision search",
   design="5/C20"),
}

NOT_YET = "check not built yet in this round (design in DESIGN.md section 5); no claim is made"

def main():
    checks = []
    for pid in sorted(CHECKS):
        c = CHECKS[pid]
        checks.append({
            "property_id": pid,
            "quick_cmd": f"./check {pid} --tier quick",
            "thorough_cmd": f"./check {pid} --tier thorough",
            "evidence_file": f"/verif/evidence/{pid}.json",
            "replay_cmd_template": f"./check {pid} --replay {{path}}",
            "engine": "coq-mici",
            "level_claimed": {"category": c["cat"], "text": c["text"], "design_ref": "DESIGN.md section " + c["design"]},
            "level_note": c["note"],
            "technique": c["technique"],
        })
    man = {
        "version": 1,
        "setup_cmd": "./setup.sh",
        "hooks": {
            "guard": "MICI_VERIF",
            "enable": "no source hooks exist: every fault, interrupt, delay, call count and scripted random draw enters through public callbacks and constructor arguments; checks import mici from /repo/src (PYTHONPATH) so they always run the current working tree. MICI_VERIF=1 is exported by ./check but nothing in /repo reads it.",
            "baseline_off_cmd": "cd /repo && /venv/bin/python -m pytest -q -p no:cacheprovider --timeout=900 -n 16",
            "source_commits": [],
            "add_only": True,
        },
        "engines": [{
            "name": "coq-mici",
            "path": "/verif/coq",
            "serves_properties": sorted(CHECKS),
            "kind_free_text": "Coq 8.16.1 development (-Q coq Mici): Lib/ Model/ Proofs/ Props/ hand-written, Gen/ regenerated from /repo by the fail-closed ast translators in tie/translate_*.py on every run; tie/cXX.py drive build, Print Assumptions, vm_compute correspondence and the violation search",
        }],
        "checks": checks,
        "notes": "See DESIGN.md. fix: commits in /repo and known findings are listed in known_findings.json.",
        "not_applicable": [{"property_id": pid, "reason": NOT_YET} for pid in sorted(props) if pid not in CHECKS],
    }
    json.dump(man, open(os.path.join(HERE, "MANIFEST.json"), "w"), indent=1)

main()
