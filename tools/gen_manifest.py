"""Regenerate /verif/MANIFEST.json from the table below (kept next to the checks so it cannot drift)."""
import json, os
HERE = os.path.dirname(os.path.dirname(os.path.abspath(__file__)))
props = {json.loads(l)["id"]: json.loads(l) for l in open(os.path.join(HERE, "properties.jsonl"))}

CHECKS = {
 "C20": dict(
   cat="proof",
   text="Coq theorems over the real numbers about the functions regenerated from src/mici/utils.py by translator T1 on every run: each helper equals the named real function on all finite arguments and zero weights, LogRepFloat +,+=,-,*,/ and comparisons are a homomorphism / order isomorphism onto the represented reals for all operands and all accumulation sequences, and log1m_exp selects for every negative argument the branch whose error amplification is <= 2. A change to utils.py changes the generated Coq file and the theorems are re-checked against it; the branch structure and primitive-call sequences of the generated model are additionally compared with the running implementation, and an 80-digit decimal oracle searches for concrete failing inputs.",
   note="Trusted: Coq kernel; stdlib real-number axioms (ClassicalDedekindReals.sig_not_dec, sig_forall_dec, functional_extensionality_dep, Classical_Prop.classic) as reported by Print Assumptions; translator T1 (fail closed); real-number semantics of exp/expm1/log/log1p - IEEE rounding of libm is explored by the search (tolerance 2e-14), not proved.",
   technique="Coq proof over R of a model regenerated from source (ast translator) + vm_compute correspondence + high-precision search",
   design="5/C20"),
 "C16": dict(
   cat="proof",
   text="Coq theorems (no axioms) about the stager functions regenerated from src/mici/stagers.py by translator T2 on every run: for all warm-up/main counts >= 0 and all settings with first slow window >= 1, multiplier >= 1, the windowed stager terminates and returns [fast] ++ [all...] ++ [fast] ++ [main] with warm-up lengths summing exactly to n_warm_up_iter, all lengths >= 0, main stage present iff n_main_iter > 0 and carrying no adapters (windowed_partition, warmup_stager_partition, windowed_recorded_total); and about the stage loop model (Model/Sampler.v): stages without iterations change nothing and no parameter changes during a stage without adapters, whose transition calls all see the parameters left by the preceding stages (empty_stages_change_nothing, main_stage_params_constant). Ties: T2 regenerates the stager model; the generated model is compared with stages() for every n_warm below a bound and the stage-loop model with the real sample_chains driven by recording stub transitions/adapters; a search runs real dual-averaging adaptation and checks the main-stage step size.",
   note="Trusted: Coq kernel, translator T2 (fail closed), the correspondence harness (tie/sampler_stubs.py, tie/sampler_corr.py). int(c*n) is modelled as truncation of the exact decimal product (float agreement checked for n <= 20000). Stage loop modelled for sequential execution. Theorem hypotheses first window >= 1 and multiplier >= 1 exclude settings for which stages() does not terminate (design finding G16).",
   technique="Coq proof about a model regenerated from source (ast translator) + hand model with vm_compute correspondence against the real sampler + search",
   design="5/C16"),
 "C13": dict(
   cat="proof",
   text="Coq theorems (no axioms) about the sampler bookkeeping model Model/Sampler.v, for any transition, adapters, trace function, chain count and stage list: after a completed run row r of every chain's statistics/trace arrays holds the statistics / traced state of the r-th recorded iteration, exactly rows_total rows are written and the rest keep the fill value (rows_are_states); the stage lists of both generated stagers record exactly n_main (+ n_warm_up if traced) rows, the array length sample_chains allocates (windowed_no_fill_survives). Tie: the same stage lists, chains and adapter configurations are run through the real sample_chains with recording stubs and every array, final state and parameter compared with the model evaluated by vm_compute; storage variants (memmap temp/user dir, dict initial states) and real HMC samplers re-derived row by row with an independent chain loop, including 2 processes and n_process=None.",
   note="Trusted: Coq kernel, hand model tied by correspondence (generator quality bounds it), translator T2. Sequential execution is modelled; equality of memory-mapped / multi-process storage with in-memory storage is explored by the search, not proved (partial for that clause).",
   technique="Coq proof (invariant over the flattened loop nest) + vm_compute correspondence against the real sampler + search",
   design="5/C13"),
 "C15": dict(
   cat="proof",
   text="Coq theorems (no axioms) about Model/Sampler.v for every callback-call index at which KeyboardInterrupt is raised (inside a transition, a trace function or an adapter initialisation), any transition/adapters/stage list: the interrupted run equals the uninterrupted run on a prefix of the loop nest's tasks followed by the raising step, after which nothing runs (interrupt_stops_everything); completed iterations are recorded exactly as in the uninterrupted run, every row is such a row or still the fill value, the transition calls made are a prefix of the uninterrupted run's (interrupt_prefix). Tie: the real sample_chains is interrupted at every callback-call index of several configurations (and random ones) through recording stubs and compared with the model; a search interrupts real HMC runs inside density/gradient/trace callbacks, sequentially and with 2 processes, in memory and memory-mapped (flush-after-last-write oracle).",
   note="Trusted: Coq kernel, hand model tied by correspondence, translator T2. The interrupt is raised synchronously by a user callback; OS signal delivery and worker-process behaviour are explored by the search only (partial for the multi-process clause).",
   technique="Coq proof (prefix decomposition of a fold with an absorbing stop state) + fault-point correspondence against the real sampler + search",
   design="5/C15"),
 "C09": dict(
   cat="proof",
   text="Coq theorems (no axioms): (1) cache_transparent - in the model of ChainState and the two memoising decorators (Model/StateCache.v: shared dependency tables, registration on absence, invalidation on assignment, shallow cache copies, read-only copies, pickling that drops callable entries, auxiliary outputs), for any methods whose transitive reads lie within their declared dependencies and ANY history of assignments, copies, pickles and calls over any number of states, every call returns the from-scratch value; (2) deps_sound_table - the declared dependencies of every cached method of every concrete system class, regenerated from src/mici/systems.py by translator T4 on every run (method resolution along the MRO, transitive reads through self/super calls), satisfy that hypothesis (decided by vm_compute over the finite generated tables), hence (3) system_cache_transparent for all ten classes. Ties: T4 (its MRO / resolution compared with the live classes); the cache model is compared with real ChainState objects and the real decorators on random histories (values and evaluation counts); a search runs random histories on every real system class against fresh states and integrator steps with caching defeated.",
   note="Trusted: Coq kernel, translator T4 (fail closed), hand model of states.py tied by correspondence. Assumed: a method's value depends only on the state variables it syntactically (transitively) reads and on immutable system attributes; both system objects alive (no id() reuse); values immutable (in-place mutation of arrays shared between a state and a copy's cache is outside the model).",
   technique="Coq proof (invariant over operation histories) + table soundness by vm_compute on a model regenerated from source + correspondence against real ChainState + search",
   design="5/C09"),
 "C18": dict(
   cat="proof",
   text="Coq theorems (no axioms) about the cache model Model/StateCache.v, in any reachable heap: a second call on the same state, a call on a copy (read-only or not) or on the original after copying, a call after assigning a variable that no producing method declares, and a request for an auxiliary output after the method returned it, evaluate nothing (second_call_free, copy_call_free, assign_unrelated_free, aux_outputs_free); leapfrog_grad_count: n steps cost n+1 gradient evaluations cold and n warm for every n (focused call-pattern model). Tie: evaluation counts of the model vs real ChainState + decorators on random histories; search counts user-callback invocations for every cached method x scenario x return convention, for explicit integrator trajectories and all four transition types.",
   note="Trusted: Coq kernel, hand models tied by correspondence / call-count search, translator T4 (declared dependencies used to pick unrelated variables). Known finding G15 (dynamic transitions re-evaluate the gradient at a cold start position once per direction) is re-observed and listed in known_findings.json.",
   technique="Coq proof over the cache state machine + evaluation-count correspondence + call-count search",
   design="5/C18"),
 "C05": dict(
   cat="proof",
   text="Coq theorems (no axioms) in a symbolic differentiation algebra (Model/Systems.v): method bodies of the Hamiltonian interface and the class hierarchy are regenerated from src/mici/systems.py on every run (translators T4/T4b), the body a class uses is resolved in Coq along the generated MRO, and for every concrete system class and both density conventions h = h1 + h2, dh1_dpos = Dq h1, dh2_dpos = Dq h2, dh2_dmom = Dp h2, dh_dpos = Dq h = dh1_dpos + dh2_dpos, dh_dmom = Dp h hold as identities between linear combinations of uninterpreted atoms (systems_consistent, decided by vm_compute over the finite generated tables), hence under every interpretation of the user functions and metric quantities (derivative_methods_correct); documented_hamiltonians gives the documented formula per class. Ties: translator output validated against live MRO/resolution; search: central finite differences of h, h1, h2 against every derivative method and the documented formula in dense NumPy on every class of the zoo, both return conventions.",
   note="Trusted: Coq kernel; translators T4/T4b (T4b matches bodies against a table of known forms, fail closed); calculus facts encoded in Dq/Dp (user gradient is the gradient of the user density; matrix-class gradients correct = C11; vjp/mhp chain rules).",
   technique="Coq proof by computation over a symbolic model regenerated from source (ast translator, MRO resolved in Coq) + finite-difference search",
   design="5/C05"),
 "C02": dict(
   cat="proof",
   text="Coq theorems (no axioms) about the integrator schedules regenerated from src/mici/integrators.py by translator T3 on every run (which also checks, statement for statement, that each implicit / constrained sub-step has the body - solve, explicit update, reverse check and what it compares - that the component semantics of Model/Integrators.v describe): for ANY exact component flows, any n and step size, n leapfrog steps / flip / n steps return to the start (leapfrog_reversible), likewise for symmetric compositions with ANY free coefficients (symmetric_composition_reversible, coefficient_derivation_palindromic); with a deterministic solver oracle returning exact fixed points or an error, a returned step of the generalised leapfrog, the implicit midpoint and the constrained leapfrog (any inner step count, given the projection/retraction facts of C04 as hypotheses) is exactly reversed by the step with negated direction, otherwise the step is an error (implicit_leapfrog_step_reversible, implicit_midpoint_step_reversible, constrained_leapfrog_step_reversible: each reverse solve was already performed and compared by a check of the forward run). Ties: T3; recorded sub-steps (component, order, time fraction) of every real integrator in both directions and Model coefficients vs the real coefficient lists; search: reversal residuals on every integrator x system x solver and on strongly curved manifolds with large steps, loud failures counted, input states hashed.",
   note="Trusted: Coq kernel; translator T3 (fail closed: exact statement match of sub-step bodies); exact arithmetic with solver tolerance 0 (numerical slack explored with tolerance 5e-6); component flows exact (C07); geometric hypotheses ca_inv, ca_cot, retract_back for the constrained integrator (C04).",
   technique="Coq proof about schedules regenerated from source (ast translator) with a solver-oracle semantics + recorded-call correspondence + reversal search",
   design="5/C02"),
 "C06": dict(
   cat="proof",
   text="Coq theorems (no axioms) about the schedules regenerated from src/mici/integrators.py (T3): for ANY free coefficients the derived coefficient list is palindromic and its a- and b-coefficients each sum to one (coefficients_consistent_and_palindromic, symmetric_composition_consistent); every integrator's generated schedule gives each Hamiltonian component total fraction 1 and is self-adjoint (schedules_consistent, by computation); in the free algebra of the two component vector fields modulo t^3 the product of the sub-flows of leapfrog and of every symmetric composition equals exp(t(X1+X2)) (leapfrog_order2, symmetric_composition_order2): local error O(eps^3). Ties: T3 and the recorded sub-step correspondence; search: observed local order >= 2.5 against an independent RK4 reference for all unconstrained integrator x system pairs, the closed-form geodesic flow on the sphere for the constrained integrator (all solvers / inner step counts) and agreement across inner step counts.",
   note="Trusted: Coq kernel, translator T3. Assumed: component flows are exact (C07) and analytic (Lie series converge); for the implicit integrators the order statement is the consistency + self-adjointness of the schedule (a symmetric consistent one-step method has even order) - the second-order conclusion for them is explored by the search, not formalised.",
   technique="Coq proof (list algebra + truncated free algebra) about schedules regenerated from source + convergence-order search",
   design="5/C06"),
 "C01": dict(
   cat="proof",
   text="Coq theorems (no axioms, stdlib Q) about constructor-for-constructor models of the transitions (every `rng.uniform() < p` a Flip node, expectation taken with exact probabilities): dynamic_invariant - for every orbit (weights >= 0, any failing edges, any termination criterion, sub-tree checks on/off, divergence flags that never hit a state of positive weight), every depth limit D and end state j, the sum over all 2^(D+1)-1 starts of weight times exact transition probability equals the weight of j (proved via the exact law of a built sub-tree, the exchange of exactly min(W_L, W_R) between sibling blocks under biased progressive sampling, and start-independence of the tree law); slice_level_invariant (shared divergence threshold, every max_delta_h >= 0) and slice_integrated (integration over the slice variable); metropolis_invariant (any orbit, failing edges, n >= 1). Tie: the real transition classes are run on stub orbit systems under a scripted generator that enumerates EVERY outcome of every random draw; every leaf (branch structure, thresholds, end state, n_step, tree_depth, flags, accept_stat, integrator call count) is compared with the Coq model evaluated by vm_compute. Search: exact kernels of the implementation, invariance residual at every interior state (slice level integrated exactly), all four transition types.",
   note="Trusted: Coq kernel; hand models tied by exhaustive leaf enumeration (bounded depth/orbit length; quick: depth 2, thorough: depth 3). Assumed (interface to C02/C03/C08): a real integrator maps a state to the next orbit point exactly invertibly and fails symmetrically; uniform draws independent with P(U<p)=clip(p); momentum refreshment invariant. The statistics clause (n_step, accept_stat) is validated by the correspondence and a call-count oracle, not stated as a theorem. Multinomial sampling with a finite max_delta_h relative to the start energy is outside the property.",
   technique="Coq proof (induction on tree depth, expectation over decision trees) + exhaustive random-outcome enumeration correspondence + exact-kernel search",
   design="5/C01"),
 "C12": dict(
   cat="proof",
   text="Coq theorems (no axioms) about exception-flow tables regenerated from src/mici/solvers.py, transitions.py and errors.py by translator T6 on every run, and about the common loop shape of the iterative solvers (Model/Faults.v): for EVERY fault schedule of the callbacks inside the loop (values, NaN-valued results, any exception at any call index) a solver returns only a converged iterate and otherwise raises ConvergenceError or an exception no handler class covers (solver_never_returns_unconverged), which with the generated handlers excludes ValueError and both LinAlgError classes (solver_no_foreign_exception, handlers_cover_faults: handlers, error hierarchy, `except IntegratorError` around every integrator.step call, statistics flags); unprotected_sites_listed pins the calls outside the protected regions. T6 also checks structurally that every return in a solver loop is guarded by the convergence test, that the NaN/divergence test and the final raise exist. Tie/search (fault enumeration): every user callback x sampled call index x fault kind (NaN, +-inf, ValueError, LinAlgError inside solves) x integrator/solver x transition type over 3-iteration chains on real code, plus the fixed-point solvers driven directly with scripted faults.",
   note="Trusted: Coq kernel; translator T6 (structural, fail closed). The loop model abstracts one iteration's callbacks into one outcome. Transition-level containment (state finite, flags recorded, chain continues) is established by the fault grid, not by a theorem. Known findings G13a/G13b (non-finite constraint Jacobian -> mici LinAlgError; invalid metric value -> ValueError outside a solve) are re-observed and listed.",
   technique="Coq proof over all fault schedules of a solver-loop model + tables regenerated from source (ast translator) + fault-injection grid on the real code",
   design="5/C12"),
 "C14": dict(
   cat="proof",
   text="Coq theorems (no axioms) about Model/Parallel.v: for ANY assignment of chains to workers and any completion order (any permutation of the returned (chain index, output) pairs with distinct indices) the collated result is the same (schedule_independent) and equals the outputs in chain order, i.e. the sequential result (collated_is_chain_order); with the generator state threaded from stage to stage a chain never consumes a draw twice for any stage sizes and distinct chains never share a draw (stream_never_replayed, streams_distinct); restarting each stage from the initial state replays (restart_would_replay, the defect fixed in f20ff0f). Tie: the model's collation vs index-sorted outputs on random completion orders; search: identical seeds across n_process 1/2/(3) with per-chain delays permuting pick-up and completion order, chain counts, single- and multi-stage runs with step-size and metric adapters, several bit generators, compared bitwise; stage splitting does not change a chain; chain independence of other chains' starts and count; distinct streams.",
   note="Trusted: Coq kernel; hand model tied by correspondence. OS scheduling is perturbed, not enumerated (partial for that clause). Known finding G21 (array-valued initial states: per-chain streams depend on the chain count) is re-observed and listed.",
   technique="Coq proof (permutation-invariance of sorted collation, disjointness of stream intervals) + schedule-perturbing differential search against the real sampler",
   design="5/C14"),
 "C10": dict(
   cat="proof",
   text="Coq theorems (no axioms) over rational matrices of ANY size (matrices as functions on the index box, Lib/QMat.v): the identities the structured classes rely on - woodbury_signed (low-rank update AND downdate with the signed capacitance matrix K^-1 + s V A^-1 U), inverse_of_product, inverse_of_scalar_multiple, inverse_of_transpose, transpose_of_product, diagonal_inverse, eigendecomposed_inverse, eigendecomposed_sqrt (any eigenvalue map, hence SoftAbs), triangular_factored_inverse (both signs). Tie: the structured formulas (signed capacitance, Woodbury inverse, low-rank array, triangular-factored inverse) are evaluated by Coq (vm_compute) on the same rational parameters and compared with the implementation's arrays. Search: random expression trees over all 27 leaf kinds / constructor options / sizes 1-4 and operations (T, inv, neg, scalar * and /, @, sqrt) with EVERY observable (array, left/right products with vectors and matrices, diagonal, transpose, log|det|, inverse, eigenvalues/vectors, sqrt factor, symmetry / positive definiteness) of every object in the tree - operands and intermediates re-checked after later operations and lazy-attribute accesses - against dense NumPy; plus a systematic sweep of every leaf kind x cached attributes touched first x every two-operation sequence.",
   note="Trusted: Coq kernel; executable formulas tied by correspondence. Exact rational arithmetic; LAPACK kernels (eigh, cholesky, lu, sqrtm) are black boxes validated numerically. log|det| statements need multiplicativity of det, which QMat does not have: that observable is covered by the search only (stated gap). Class-selection (which class an operation returns) is explored, not proved.",
   technique="Coq proof of the matrix identities for all sizes + vm_compute correspondence of the structured formulas + expression-tree differential search against dense NumPy",
   design="5/C10"),
 "C11": dict(
   cat="proof",
   text="Coq theorems (no axioms): dual matrices (A, A') make the directional derivative of a rational matrix expression its exact second component - dual_inverse_correct (derivative of the inverse, all sizes) and trifactor_grad_qf_correct (for M = s L L^T, both signs, any size, vector and direction, the derivative of v^T M^-1 v equals <-2 u w^T, D>, the gradient the class reports). Tie: Coq evaluates that exact directional derivative on rational inputs and it is compared with <grad_quadratic_form_inv, D> of the implementation. Search: every differentiable class and option (scaled identity, diagonal, triangular-factored with both signs and lower/upper factors, dense definite both signs, dense product with/without inner matrix, SoftAbs coefficients, positive-definite low-rank update and downdate with/without inner matrix, block composition) - <reported gradient, direction> in the parameter's own structure vs central differences of the dense formulas, three requests per object.",
   note="Trusted: Coq kernel; Lib/Dual.v calculus. Proof covers the dual-number calculus and the triangular-factored quadratic-form gradient; the other classes' formulas are covered by correspondence/search (log-det gradients rest on Jacobi's formula; SoftAbs on eigen-perturbation calculus - not formalised; partial).",
   technique="Coq proof with dual numbers (exact derivatives, no limits) + vm_compute correspondence + finite-difference search",
   design="5/C11"),
 "C19": dict(
   cat="proof",
   text="Coq theorems (no axioms): hash_fields_within_eq_fields - for every matrix class, every attribute read by its hash is (an alias of) one compared by its equality, decided by vm_compute over the table regenerated from src/mici/matrices.py by translator T5 (method resolution along the MRO, simple properties followed, constructor-argument aliases of the low-rank subclasses resolved); eq_implies_hash in the value model for any values / hash function; lazy_order_irrelevant - lazily computed attributes are functions of the immutable fields, so after ANY sequence of earlier requests in any order a request returns the same value. Tie: T5 alias pairs validated on live objects. Search: for every class kind and size - all orders of first accesses of the lazy attributes (transpose, inverse, sqrt, eigendecomposition, array, diagonal, log|det|, hash), bitwise snapshots of every array held by the operand and of caller arrays around every operation, writeable flags of defining parameters, eq/hash/copy/deepcopy/pickle, equality implies equal arrays.",
   note="Trusted: Coq kernel; translator T5 (fail closed). The value model abstracts objects to immutable field assignments: in-place mutation through NumPy views and aliasing are Python runtime behaviour, explored by the search only (partial for the no-mutation clause).",
   technique="Coq proof over a value model + table regenerated from source (ast translator) + snapshot / permutation search on live objects",
   design="5/C19"),
}

NOT_YET = "check not built yet in this round (design in DESIGN.md section 5); no claim is made"

def main():
    checks = []
    for pid in sorted(CHECKS):
        c = CHECKS[pid]
        checks.append({
            "property_id": pid,
            "quick_cmd": f"./check {pid} --tier quick",
            "thorough_cmd": f"./check {pid} --tier thorough",
            "evidence_file": f"/verif/evidence/{pid}.json",
            "replay_cmd_template": f"./check {pid} --replay {{path}}",
            "engine": "coq-mici",
            "level_claimed": {"category": c["cat"], "text": c["text"], "design_ref": "DESIGN.md section " + c["design"]},
            "level_note": c["note"],
            "technique": c["technique"],
        })
    man = {
        "version": 1,
        "setup_cmd": "./setup.sh",
        "hooks": {
            "guard": "MICI_VERIF",
            "enable": "no source hooks exist: every fault, interrupt, delay, call count and scripted random draw enters through public callbacks and constructor arguments; checks import mici from /repo/src (PYTHONPATH) so they always run the current working tree. MICI_VERIF=1 is exported by ./check but nothing in /repo reads it.",
            "baseline_off_cmd": "cd /repo && /venv/bin/python -m pytest -q -p no:cacheprovider --timeout=900 -n 16",
            "source_commits": [],
            "add_only": True,
        },
        "engines": [{
            "name": "coq-mici",
            "path": "/verif/coq",
            "serves_properties": sorted(CHECKS),
            "kind_free_text": "Coq 8.16.1 development (-Q coq Mici): Lib/ Model/ Proofs/ Props/ hand-written, Gen/ regenerated from /repo by the fail-closed ast translators in tie/translate_*.py on every run; tie/cXX.py drive build, Print Assumptions, vm_compute correspondence and the violation search",
        }],
        "checks": checks,
        "notes": "See DESIGN.md. fix: commits in /repo and known findings are listed in known_findings.json.",
        "not_applicable": [{"property_id": pid, "reason": NOT_YET} for pid in sorted(props) if pid not in CHECKS],
    }
    json.dump(man, open(os.path.join(HERE, "MANIFEST.json"), "w"), indent=1)

main()
