"""tools/save_seed.py <prop> <name> <patch> <demo> <notes.md|-> <needs> <detected_by> : store a confirmed seeded change."""
import json, shutil, sys, os, subprocess
prop, name, patch, demo, notes, needs, detected = sys.argv[1:8]
d = f"/verif/seeded/{prop}/{name}"
os.makedirs(d, exist_ok=True)
shutil.copy(patch, f"{d}/patch.diff"); shutil.copy(demo, f"{d}/demo.py")
if notes != "-":
    shutil.copy(notes, f"{d}/notes.md")
head = subprocess.run(["git", "-C", "/repo", "rev-parse", "--short", "HEAD"], capture_output=True, text=True).stdout.strip()
json.dump({"property": prop, "breaks": open(notes).read().split("\n\n")[0][:600] if notes != "-" else "", "needs_to_manifest": needs,
           "confirmed": {"repo_head": head, "how": "tools/confirm_mut.sh: scratch worktree of /repo HEAD; demo.py exit 0 on HEAD, non-zero with patch; unedited test suite passes with patch (32504 passed, 21 skipped)"},
           "detected_by": detected}, open(f"{d}/meta.json", "w"), indent=1)
print("saved", d)
