#!/bin/bash
# tools/sweep_seeded.sh : apply every seeded change in turn to /repo, run ALL registered quick checks, undo; writes seeded/matrix.json
# (which checks report a violation for which change).  Leaves /repo clean; re-run tools/run_all.sh afterwards to restore clean evidence.
cd /verif
git -C /repo diff --quiet || { echo "repo dirty"; exit 2; }
out=seeded/matrix.json; echo "{" > $out.tmp; first=1
for d in seeded/C*/[0-9]*; do
  id=$(echo $d | cut -d/ -f2); n=$(echo $d | cut -d/ -f3)
  patch=$d/patch.diff; [ -f $d/patch_rebased.diff ] && patch=$d/patch_rebased.diff
  git -C /repo apply $PWD/$patch || { echo "$id/$n: patch does not apply"; continue; }
  res=$(tools/run_all.sh quick 2>&1 | grep ' exit=' | awk '$2!="exit=0"{printf "%s ", $1}')
  git -C /repo checkout -- .
  own=no; echo " $res" | grep -q " $id " && own=yes
  echo "$id/$n caught_by: $res (own check: $own)"
  [ $first = 1 ] || echo "," >> $out.tmp; first=0
  printf '  "%s/%s": {"caught_by": "%s", "own_check": "%s"}' $id $n "$(echo $res | sed 's/ *$//')" $own >> $out.tmp
  for c in $res; do grep -h '^VIOLATION\|(impl)\|(corr)\|(proof)\|(tie)' build/logs/$c.log | head -3 | cut -c1-300 | sed "s#^#    [$id/$n $c] #" >> seeded/sweep.log; done
done
echo "}" >> $out.tmp; mv $out.tmp $out
git -C /repo status --short | head -3
