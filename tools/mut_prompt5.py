"""Print the prompt for a mutation sub-agent for one property (only the property text is disclosed)."""
import json, sys
pid = sys.argv[1]
p = next(json.loads(l) for l in open('/verif/properties.jsonl') if json.loads(l)['id'] == pid)
wt = f"/tmp/mut5/{pid}/wt"
out = f"/tmp/mut5/{pid}/out"
print(f"""You are helping to test a verification tool by seeding a realistic bug into the Python library `mici` (matt-graham/mici: Hamiltonian / manifold MCMC samplers). You have your own scratch git worktree of the repository at {wt} (source in {wt}/src/mici, tests in {wt}/tests). Work ONLY inside {wt} and {out}; never touch /repo or /verif (do not read /verif at all).

The semantic property you must break:

  id: {p['id']}
  title: {p['title']}
  statement: {p['statement']}
  quantified over: {p['quantifier']['text']}
  anchored in files: {', '.join(p['anchors']['files'])}

Task: produce ONE change to the library source (a small patch against the worktree's HEAD, touching src/mici only, not the tests) such that:
  1. the library still imports and the existing test suite still passes completely;
  2. the property above is violated, and you have a demonstration program `demo.py` that exits 0 (property holds) on the unmodified worktree HEAD and exits non-zero (prints what went wrong) with the change applied;
  3. the bug needs something specific to manifest -- a particular multi-step sequence of operations, an unusual but legitimate input or configuration, a fault at a particular point, a particular interleaving, or two cooperating sites that each look fine alone -- rather than something ordinary use would expose at once. Think of the kind of subtle regression a real contributor could introduce (an off-by-one in a boundary, a wrong cache dependency, a dropped sign in a rarely used branch, a check moved or weakened, state leaking between stages/copies, etc.). Do NOT make changes that merely crash on ordinary inputs, and do not add dead code, environment checks or magic constants that no maintainer would write.

How to run things (no network; everything needed is installed):
  * run python as:   cd {wt} && PYTHONPATH={wt}/src /venv/bin/python demo.py      (PYTHONPATH makes the worktree's source shadow the installed package; verify with `import mici; print(mici.__file__)`). Every shell command prints a harmless `WARNING conda...` line; ignore it.
  * run the test suite as:   cd {wt} && PYTHONPATH={wt}/src /venv/bin/python -m pytest -q -p no:cacheprovider -n 6 --timeout=900 tests 2>&1 | tail -5      (about 5 minutes; on the unmodified HEAD everything passes: 32504 passed, 21 skipped). You may run only the relevant test files while iterating, but run the whole suite once per final patch.
  * keep CPU use modest (other jobs share this machine): never use more than `-n 6`.

Deliverables, written to {out}/1/ :
  * patch.diff  -- output of `git -C {wt} diff` for that change alone (applies cleanly to HEAD with `git apply`);
  * demo.py     -- the demonstration (self-contained, deterministic, finishes in under 2 minutes, uses only the public API of mici plus numpy/scipy; exit 0 = property holds, exit 1 = violated);
  * notes.md    -- which part of the property it breaks, what it needs in order to manifest, the exact commands you ran and their results (demo on HEAD, demo with patch, full test-suite tail with patch).
After writing patch.diff, run `git -C {wt} checkout -- .` so the worktree is clean at the end. Your final message should briefly describe the change and confirm the three checks. You have about 35 minutes in total, so settle on the change quickly and run the full test suite once. Prefer places a first reader of the property would not look at first: interactions between two features (an option combined with a derived or copied object, a value re-assigned after construction, a second call on the same object, an unusual but documented argument form, a boundary value of a parameter), rather than the central formula.""")
