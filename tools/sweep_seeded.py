"""tools/sweep_seeded.py [ids...] : for every seeded change (default: all): apply it to /repo, run the check of its own property (quick); only if that does
not report a violation, run ALL other registered checks; undo.  Updates seeded/matrix.json (read by tools/seeded_table.py) and the detected_by field of
each meta.json.  Leaves /repo clean; re-run tools/run_all.sh afterwards to restore clean evidence."""
import glob
import json
import re
import subprocess
import sys

ROOT = "/verif"


def sh(cmd, **kw):
    return subprocess.run(cmd, shell=True, capture_output=True, text=True, **kw)


def violations(prop):
    r = sh(f"cd {ROOT} && ./check {prop} --tier quick 2>&1 | grep -v conda")
    out = r.stdout
    lines = [ln.strip() for ln in out.splitlines() if re.match(r"\s*\((impl|corr|proof|tie)\)", ln)]
    return ("VIOLATION property=" in out), lines[:3]


def main():
    if sh("git -C /repo diff --quiet").returncode != 0:
        sys.exit("repo dirty")
    all_props = [c["property_id"] for c in json.load(open(f"{ROOT}/MANIFEST.json"))["checks"]]
    mpath = f"{ROOT}/seeded/matrix.json"
    matrix = json.load(open(mpath)) if glob.glob(mpath) else {}
    want = set(sys.argv[1:])
    dirs = sorted(glob.glob(f"{ROOT}/seeded/C*/[0-9]*"), key=lambda p: (p.split("/")[-2], int(p.split("/")[-1])))
    for d in dirs:
        pid, n = d.split("/")[-2], d.split("/")[-1]
        key = f"{pid}/{n}"
        if want and key not in want and pid not in want:
            continue
        if sh(f"git -C /repo apply {d}/patch.diff").returncode != 0:
            print(key, "patch does not apply", flush=True)
            matrix[key] = {"caught_by": "", "own_check": "patch does not apply"}
            continue
        try:
            own, lines = violations(pid)
            caught, how = ([pid] if own else []), {pid: lines} if own else {}
            if not own:
                for q in all_props:
                    if q == pid:
                        continue
                    v, ls = violations(q)
                    if v:
                        caught.append(q)
                        how[q] = ls
        finally:
            sh("git -C /repo checkout -- .")
        matrix[key] = {"caught_by": " ".join(caught), "own_check": "yes" if own else "no"}
        meta = json.load(open(f"{d}/meta.json"))
        if caught:
            first = caught[0]
            kinds = sorted({re.match(r"\((\w+)\)", ln).group(1) for ln in how[first]}) if how[first] else []
            meta["detected_by"] = (f"./check {first} (quick) reports VIOLATION" + (" (check of another property; the own check does not see it)" if not own else "") +
                                   (f" [{', '.join(kinds)}]: " + " || ".join(ln[:260] for ln in how[first][:2]) if how[first] else ""))
        else:
            meta["detected_by"] = "NOT DETECTED by any quick check (see DESIGN.md 0.7)"
        json.dump(meta, open(f"{d}/meta.json", "w"), indent=1)
        json.dump(matrix, open(mpath, "w"), indent=1)
        print(key, "own" if own else "other" if caught else "MISSED", " ".join(caught), flush=True)


main()
