#!/bin/bash
# tools/confirm_mut.sh <name> <patch.diff> <demo.py> : confirm a seeded change in a scratch worktree of /repo HEAD:
#   demo passes on HEAD, fails with the patch, and the unedited test suite passes with the patch.
name="$1"; patch="$(readlink -f "$2")"; demo="$(readlink -f "$3")"
wt="/tmp/confirm/$name"
rm -rf "$wt"; mkdir -p /tmp/confirm
git -C /repo worktree add -q --detach "$wt" HEAD || exit 2
cd "$wt"
export PYTHONPATH="$wt/src" PYTHONHASHSEED=0
/venv/bin/python -W ignore "$demo" >/tmp/confirm/$name.head.log 2>&1; h=$?
git apply "$patch" || { echo "$name: patch does not apply"; git -C /repo worktree remove --force "$wt"; exit 3; }
/venv/bin/python -W ignore "$demo" >/tmp/confirm/$name.patched.log 2>&1; p=$?
t=$(/venv/bin/python -m pytest -q -p no:cacheprovider -n ${NPROC:-8} --timeout=900 tests 2>&1 | tail -1)
cd /; git -C /repo worktree remove --force "$wt"
echo "$name: demo_on_head_exit=$h demo_with_patch_exit=$p tests: $t"
