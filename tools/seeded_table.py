"""tools/seeded_table.py : rebuild the table of DESIGN.md section 0.7 from seeded/*/*/meta.json and seeded/matrix.json (written by tools/sweep_seeded.sh)."""
import glob
import json
import re

matrix = json.load(open("/verif/seeded/matrix.json")) if glob.glob("/verif/seeded/matrix.json") else {}
rows = []
for f in sorted(glob.glob("/verif/seeded/C*/[0-9]*/meta.json"), key=lambda p: (p.split("/")[3], int(p.split("/")[4]))):
    pid, n = f.split("/")[3], f.split("/")[4]
    m = json.load(open(f))
    title = re.sub(r"^#\s*", "", m["breaks"].split("\n")[0]).strip()
    title = re.sub(r"^C\d\d\s*(/|--|-|:)?\s*(seeded )?(change|mutant)\s*\d\s*(--|-|:|—)?\s*", "", title, flags=re.I).strip(" -:—")
    mm = matrix.get(f"{pid}/{n}", {})
    caught = mm.get("caught_by", "")
    own = mm.get("own_check", "")
    rows.append(f"| {pid}/{n} | {m.get('round', 1)} | {title[:110]} | {'yes' if own == 'yes' else ('**no**' if own else '?')} | {caught or '-'} |")
table = ["| change | round | what it does | own check reports it | checks that report a VIOLATION |", "|---|---|---|---|---|"] + rows
n_all = len(rows)
n_own = sum("| yes |" in r for r in rows)
n_any = sum(not r.rstrip().endswith("| - |") for r in rows)
by_round = {r: sum(f"| {r} |" in x for x in rows) for r in (1, 2, 3, 4, 5)}
text = (f"Final state, {n_all} changes (round 1: {by_round[1]}, round 2: {by_round[2]}, round 3: {by_round[3]}, round 4: {by_round[4]}, round 5: {by_round[5]}). Each was confirmed in a scratch worktree (demonstration "
        f"passes on HEAD, fails with the patch; the unedited suite passes with the patch). Matrix from `tools/sweep_seeded.py` on the final checks (every change applied in "
        f"turn to /repo, the quick check of its own property run, and ALL other quick checks if that one is silent; change undone): {n_own} of {n_all} are reported by the "
        f"check of their own property, {n_any} of {n_all} by at least one check. For a change reported by its own check the last column lists only that check. The "
        f"per-change description of HOW it is detected (broken theorem / translator / correspondence, and the concrete input found) is in `seeded/<id>/<n>/meta.json`.\n\n" + "\n".join(table))
p = "/verif/DESIGN.md"
s = open(p).read()
if "<!-- SEEDED-TABLE-BEGIN -->" in s:
    s = re.sub(r"<!-- SEEDED-TABLE-BEGIN -->.*?<!-- SEEDED-TABLE-END -->", "<!-- SEEDED-TABLE-BEGIN -->\n" + text.replace("\\", "\\\\") + "\n<!-- SEEDED-TABLE-END -->", s, flags=re.S)
else:
    s = s.replace("SEEDED_TABLE_PLACEHOLDER", "<!-- SEEDED-TABLE-BEGIN -->\n" + text + "\n<!-- SEEDED-TABLE-END -->")
open(p, "w").write(s)
print(n_all, n_own, n_any)
