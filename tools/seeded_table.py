"""tools/seeded_table.py : rebuild the table of DESIGN.md section 0.7 from seeded/*/*/meta.json and seeded/matrix.json (written by tools/sweep_seeded.sh)."""
import glob
import json
import re

matrix = json.load(open("/verif/seeded/matrix.json")) if glob.glob("/verif/seeded/matrix.json") else {}
rows = []
for f in sorted(glob.glob("/verif/seeded/C*/[0-9]*/meta.json"), key=lambda p: (p.split("/")[3], int(p.split("/")[4]))):
    pid, n = f.split("/")[3], f.split("/")[4]
    m = json.load(open(f))
    title = re.sub(r"^#\s*", "", m["breaks"].split("\n")[0]).strip()
    title = re.sub(r"^C\d\d\s*(/|--|-|:)?\s*(seeded )?(change|mutant)\s*\d\s*(--|-|:|—)?\s*", "", title, flags=re.I).strip(" -:—")
    mm = matrix.get(f"{pid}/{n}", {})
    caught = mm.get("caught_by", "")
    own = mm.get("own_check", "")
    rows.append(f"| {pid}/{n} | {m.get('round', 1)} | {title[:110]} | {'yes' if own == 'yes' else ('**no**' if own else '?')} | {caught or '-'} |")
table = ["| change | round | what it does | own check reports it | checks that report a VIOLATION |", "|---|---|---|---|---|"] + rows
n_all = len(rows)
n_own = sum("| yes |" in r for r in rows)
n_any = sum(not r.rstrip().endswith("| - |") for r in rows)
n_r1 = sum("| 1 |" in r for r in rows)
text = (f"{n_all} changes made by sub-agents that saw only the property text (round 1: {n_r1}, before or while the checks were written; round 2: {n_all - n_r1}, after the checks "
        f"had been strengthened against round 1). Each was confirmed in a scratch worktree (demonstration passes on HEAD, fails with the patch; the unedited "
        f"suite passes with the patch). Matrix from `tools/sweep_seeded.sh` (every change applied in turn to /repo, ALL twenty quick checks run, change undone): "
        f"{n_own} of {n_all} are reported by the check of their own property, {n_any} of {n_all} by at least one check. The per-change description of HOW it is "
        f"detected (broken theorem / translator / correspondence, and the concrete input found) is in `seeded/<id>/<n>/meta.json`.\n\n" + "\n".join(table))
p = "/verif/DESIGN.md"
s = open(p).read()
if "<!-- SEEDED-TABLE-BEGIN -->" in s:
    s = re.sub(r"<!-- SEEDED-TABLE-BEGIN -->.*?<!-- SEEDED-TABLE-END -->", "<!-- SEEDED-TABLE-BEGIN -->\n" + text.replace("\\", "\\\\") + "\n<!-- SEEDED-TABLE-END -->", s, flags=re.S)
else:
    s = s.replace("SEEDED_TABLE_PLACEHOLDER", "<!-- SEEDED-TABLE-BEGIN -->\n" + text + "\n<!-- SEEDED-TABLE-END -->")
open(p, "w").write(s)
print(n_all, n_own, n_any)
