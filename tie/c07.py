"""C07 -- component flow maps are the exact flows of their Hamiltonian components."""
from __future__ import annotations

from fractions import Fraction

import numpy as np
import scipy.linalg as sla

import matzoo
import zoo
from common import coq_list, coq_q, parse_coq_value

LEVEL = "proof"
TIMES = [0.1, -0.35, 0.5, 1.1, 0.6, 1.7, -2.9, 4.0, 7.5, -13.0, 25.0]


def systems_with_flows(rng):
    """tractable-flow systems x every usable metric kind (implicit identity included)"""
    import mici.systems as S
    out = {}
    metrics = {"implicit_identity": (None, np.eye(zoo.D))}
    for kind in ("pscaled", "pdiag", "densepd", "trifacpd", "eigpd", "softabs", "pdblockdiag", "lowrank_pd", "lowrank_pd_down",
                 "used*densepd", "used*lowrank_pd", "used*lowrank_pd_down", "used*eigpd"):      # metrics that were used (inverse / determinant cached) and then rescaled
        m, d = matzoo.make_leaf(rng, zoo.D, kind)
        metrics[kind] = (m, d)
    for mk, (m, d) in metrics.items():
        out[f"euclid[{mk}]"] = (S.EuclideanMetricSystem(lambda q: 0.5 * q @ zoo.AM @ q, grad_neg_log_dens=lambda q: zoo.AM @ q, metric=m), d, False)
        out[f"gauss[{mk}]"] = (S.GaussianEuclideanMetricSystem(lambda q: 0.1 * np.sum(q ** 4), grad_neg_log_dens=lambda q: 0.4 * q ** 3, metric=m), d, True)
        c3 = lambda q: np.array([q @ q - 1.0])  # noqa: E731
        j3 = lambda q: 2 * q[None, :]  # noqa: E731
        out[f"constr[{mk}]"] = (S.DenseConstrainedEuclideanMetricSystem(lambda q: 0.5 * q @ q, c3, metric=m, grad_neg_log_dens=lambda q: q, jacob_constr=j3,
                                                                       dens_wrt_hausdorff=True), d, False)
        out[f"gauss_constr[{mk}]"] = (S.GaussianDenseConstrainedEuclideanMetricSystem(lambda q: 0.1 * np.sum(q ** 4), c3, metric=m,
                                                                                      grad_neg_log_dens=lambda q: 0.4 * q ** 3, jacob_constr=j3,
                                                                                      mhp_constr=lambda q: (lambda mm_: 2 * mm_[0])), d, True)
    return out


def exact_h2(M, gaussian, q, p, t):
    n = q.size
    Mi = np.linalg.inv(M)
    if not gaussian:
        return q + t * Mi @ p, p.copy()
    A = np.block([[np.zeros((n, n)), Mi], [-np.eye(n), np.zeros((n, n))]])       # d/dt (q, p) = (M^-1 p, -q)
    z = sla.expm(A * t) @ np.concatenate([q, p])
    return z[:n], z[n:]


def search(ctx):
    from mici.states import ChainState
    rng = ctx.rng
    bad = 0
    srng = np.random.default_rng(int(rng.integers(0, 2 ** 31)))
    for name, (s, M, gaussian) in systems_with_flows(srng).items():
        q, p = srng.standard_normal(zoo.D), srng.standard_normal(zoo.D)

        def flow(t, q=q, p=p):
            st = ChainState(pos=q.copy(), mom=p.copy(), dir=1)
            s.h2_flow(st, t)
            return st
        times = TIMES if ctx.thorough else TIMES[:8]
        for t in times:
            st = flow(t)
            qe, pe = exact_h2(M, gaussian, q, p, t)
            ctx.case(("h2", name, t))
            ctx.count("search:h2_flow")
            tol = 1e-9 * max(1.0, np.abs(qe).max(), np.abs(pe).max()) * max(1.0, abs(t))
            if not (np.abs(st.pos - qe).max() <= tol and np.abs(st.mom - pe).max() <= tol):
                bad += 1
                ctx.fail(f"h2_flow:{'gauss' if gaussian else 'euclid'}", f"{name}: h2_flow over t={t} differs from the exact solution of its Hamilton equations by "
                         f"{max(np.abs(st.pos - qe).max(), np.abs(st.mom - pe).max()):.2e}", {"system": name, "t": t, "pos": q.tolist(), "mom": p.tolist()})
            e0 = s.h2(ChainState(pos=q.copy(), mom=p.copy(), dir=1))
            if not abs(s.h2(st) - e0) <= 1e-9 * max(1.0, abs(e0)):
                bad += 1
                ctx.fail("h2_flow:energy", f"{name}: h2 changes by {s.h2(st) - e0:.2e} along its own flow (t={t})", {"system": name, "t": t})
            # undone by the negative time
            back = ChainState(pos=st.pos.copy(), mom=st.mom.copy(), dir=1)
            s.h2_flow(back, -t)
            if not (np.allclose(back.pos, q, atol=tol) and np.allclose(back.mom, p, atol=tol)):
                bad += 1
                ctx.fail("h2_flow:inverse", f"{name}: h2_flow(-t) does not undo h2_flow(t) for t={t}", {"system": name, "t": t})
            # reported Jacobian blocks w.r.t. the initial momentum vs finite differences
            if not hasattr(s, "dh2_flow_dmom"):
                continue
            dq_dp, dp_dp = s.dh2_flow_dmom(ChainState(pos=q.copy(), mom=p.copy(), dir=1), t)
            h = 1e-6
            Jq, Jp = np.zeros((zoo.D, zoo.D)), np.zeros((zoo.D, zoo.D))
            for k in range(zoo.D):
                e = np.zeros(zoo.D)
                e[k] = h
                a, b = flow(t, q, p + e), flow(t, q, p - e)
                Jq[:, k], Jp[:, k] = (a.pos - b.pos) / (2 * h), (a.mom - b.mom) / (2 * h)
            dqa = np.asarray(dq_dp @ np.eye(zoo.D))
            dpa = np.asarray(dp_dp @ np.eye(zoo.D))
            if not (np.abs(dqa - Jq).max() <= 1e-6 * max(1, abs(t)) and np.abs(dpa - Jp).max() <= 1e-6 * max(1, abs(t))):
                bad += 1
                ctx.fail("dh2_flow_dmom", f"{name}: dh2_flow_dmom(t={t}) differs from the finite-difference Jacobian of h2_flow w.r.t. the momentum by "
                         f"{max(np.abs(dqa - Jq).max(), np.abs(dpa - Jp).max()):.2e}", {"system": name, "t": t})
        # additivity in time, including sums beyond a quarter period
        for t1, t2 in ((1.1, 0.6), (0.3, -0.9), (2.0, 2.5), (-7.0, 3.0)):
            a = flow(t1)
            a2 = ChainState(pos=a.pos.copy(), mom=a.mom.copy(), dir=1)
            s.h2_flow(a2, t2)
            b = flow(t1 + t2)
            ctx.case(("add", name, t1, t2))
            if not (np.allclose(a2.pos, b.pos, rtol=1e-9, atol=1e-9) and np.allclose(a2.mom, b.mom, rtol=1e-9, atol=1e-9)):
                bad += 1
                ctx.fail(f"h2_flow:additive:{'gauss' if gaussian else 'euclid'}", f"{name}: h2_flow({t1}) then h2_flow({t2}) differs from h2_flow({t1 + t2}) by "
                         f"{max(np.abs(a2.pos - b.pos).max(), np.abs(a2.mom - b.mom).max()):.2e}", {"system": name, "t1": t1, "t2": t2})
    # the metric is a public attribute that the metric adapters re-assign between stages: flows and reported flow derivatives follow the CURRENT metric
    import mici.matrices as mm
    import mici.systems as S
    for mk_sys, label in ((lambda met: S.EuclideanMetricSystem(lambda x: 0.5 * x @ x, grad_neg_log_dens=lambda x: x, metric=met), "euclid"),
                          (lambda met: S.GaussianEuclideanMetricSystem(lambda x: 0.1 * np.sum(x ** 4), grad_neg_log_dens=lambda x: 0.4 * x ** 3, metric=met), "gauss"),
                          (lambda met: S.DenseConstrainedEuclideanMetricSystem(lambda x: 0.5 * x @ x, lambda x: np.array([x @ x - 1.0]), metric=met, grad_neg_log_dens=lambda x: x,
                                                                              jacob_constr=lambda x: 2 * x[None]), "constr"),
                          (lambda met: S.GaussianDenseConstrainedEuclideanMetricSystem(lambda x: 0.1 * np.sum(x ** 4), lambda x: np.array([x @ x - 1.0]), metric=met,
                                                                                      grad_neg_log_dens=lambda x: 0.4 * x ** 3, jacob_constr=lambda x: 2 * x[None],
                                                                                      mhp_constr=lambda x: (lambda m: 2 * m[0])), "gauss_constr")):
        M1, M2 = matzoo.spd(rng, zoo.D), matzoo.spd(rng, zoo.D) * 2.5
        sysm = mk_sys(mm.DensePositiveDefiniteMatrix(M1))
        q, p = rng.standard_normal(zoo.D), rng.standard_normal(zoo.D)
        for stage, Mcur in (("initial metric", M1), ("after re-assigning system.metric", M2), ("after assigning the first metric back", M1)):
            if stage != "initial metric":
                sysm.metric = mm.DensePositiveDefiniteMatrix(Mcur)
            for t in (0.7, -1.3, 0.7):        # the last interval before a metric change is the first after it: nothing may be remembered across the change
                def fl(pp, sysm=sysm, t=t):
                    st = ChainState(pos=q.copy(), mom=pp.copy(), dir=1)
                    sysm.h2_flow(st, t)
                    return st
                ctx.case(("reassign", label, stage, t))
                ctx.count("search:metric_reassigned")
                if hasattr(sysm, "dh2_flow_dmom"):
                    dq_dp, dp_dp = sysm.dh2_flow_dmom(ChainState(pos=q.copy(), mom=p.copy(), dir=1), t)
                    hh = 1e-6
                    Jq = np.stack([(fl(p + hh * e).pos - fl(p - hh * e).pos) / (2 * hh) for e in np.eye(zoo.D)], axis=1)
                    Jp = np.stack([(fl(p + hh * e).mom - fl(p - hh * e).mom) / (2 * hh) for e in np.eye(zoo.D)], axis=1)
                    err = max(np.abs(np.asarray(dq_dp @ np.eye(zoo.D)) - Jq).max(), np.abs(np.asarray(dp_dp @ np.eye(zoo.D)) - Jp).max())
                    if not err <= 1e-6 * max(1, abs(t)):
                        bad += 1
                        ctx.fail(f"dh2_flow_dmom:metric_reassigned:{label}", f"{type(sysm).__name__} ({stage}): dh2_flow_dmom(t={t}) differs from the finite-difference Jacobian of "
                                 f"h2_flow by {err:.2e}", {"system": label, "stage": stage, "t": t})
                        break
                # the flow itself follows the current metric: position velocity at t -> 0 is M^-1 p
                st = fl(p, t=1e-6) if False else None
                v = (fl(p).pos - q)
                if label in ("euclid", "constr") and not np.allclose(v, t * np.linalg.solve(Mcur, p), rtol=1e-9, atol=1e-10):
                    bad += 1
                    ctx.fail(f"h2_flow:metric_reassigned:{label}", f"{type(sysm).__name__} ({stage}): h2_flow does not move the position by t M^-1 p for the current metric", {"system": label, "stage": stage})
                    break
                if label in ("gauss", "gauss_constr"):
                    # Gaussian-split h2 = q.q/2 + p.M^-1 p/2: the exact flow is the matrix exponential of the linear Hamilton equations with the CURRENT metric
                    import scipy.linalg as sla
                    Minv = np.linalg.inv(Mcur)
                    A = np.block([[np.zeros((zoo.D, zoo.D)), Minv], [-np.eye(zoo.D), np.zeros((zoo.D, zoo.D))]])
                    ref = sla.expm(t * A) @ np.concatenate([q, p])
                    got = fl(p)
                    errf = np.abs(np.concatenate([got.pos, got.mom]) - ref).max()
                    if not errf <= 1e-9 * max(1.0, np.abs(ref).max()):
                        bad += 1
                        ctx.fail(f"h2_flow:metric_reassigned:{label}", f"{type(sysm).__name__} ({stage}): h2_flow(t={t}) differs from the exact solution of Hamilton's equations for "
                                 f"h2 with the current metric by {errf:.2e}", {"system": label, "stage": stage, "t": t})
                        break
    # h1 flow on every system class: momentum shifted by -t grad h1 (finite differences of h1), position unchanged, additive, inverse, repeated calls
    for conv in ("bare", "tuple"):
        systems, _ = zoo.make_systems(conv)
        for name, s in systems.items():
            if "riem" in name:
                continue
            st0 = zoo.random_state(name, s, srng)
            g = zoo.fd_grad(lambda x: float(s.h1(ChainState(pos=x.copy(), mom=st0.mom.copy(), dir=1))), st0.pos.copy())
            st = ChainState(pos=st0.pos.copy(), mom=st0.mom.copy(), dir=1)
            total = 0.0
            for call, t in enumerate((0.3, -0.7, 0.2, 0.45)):
                s.h1_flow(st, t)
                total += t
                ctx.case(("h1", name, conv, call))
                ctx.count("search:h1_flow")
                if not np.array_equal(st.pos, st0.pos):
                    bad += 1
                    ctx.fail("h1_flow:position", f"{name}: h1_flow changed the position (call {call + 1})", {"system": name, "conv": conv})
                    break
                if not np.abs(st.mom - (st0.mom - total * g)).max() <= 2e-6 * max(1.0, np.abs(g).max()):
                    bad += 1
                    ctx.fail(f"h1_flow:{type(s).__name__}", f"{name} ({conv}): after {call + 1} h1_flow calls on one state (total time {total:.2f}) the momentum differs from "
                             f"p - t grad h1 by {np.abs(st.mom - (st0.mom - total * g)).max():.2e}", {"system": name, "conv": conv, "call": call, "pos": st0.pos.tolist()})
                    break
    ctx.oblige("search: h2_flow vs the exact solution (matrix exponential / drift), energy, inverse, additivity incl. long times, dh2_flow_dmom vs finite differences "
               "for every tractable system x metric kind (implicit identity included), also after re-assigning system.metric; h1_flow = kick by -t grad h1 with repeated calls on every class", bad == 0, f"{bad} failures")


def correspondence(ctx):
    """per eigen-mode rotation of Props/C07.v evaluated by Coq (cos, sin, omega as the rationals NumPy produced) vs h2_flow with a diagonal metric"""
    import mici.systems as S
    from mici.states import ChainState
    rng = ctx.rng
    terms, expect, hyp = [], [], 0.0
    for _ in range(8 if not ctx.thorough else 40):
        lam = np.round(rng.uniform(0.3, 3.0, 2), 3)
        t = float(np.round(rng.uniform(-6, 6), 3))
        q, p = np.round(rng.standard_normal(2), 3), np.round(rng.standard_normal(2), 3)
        s = S.GaussianEuclideanMetricSystem(lambda x: 0.0, grad_neg_log_dens=lambda x: 0 * x, metric=lam)
        st = ChainState(pos=q.copy(), mom=p.copy(), dir=1)
        s.h2_flow(st, t)
        for k in range(2):
            w = 1.0 / lam[k] ** 0.5
            c, sn = float(np.cos(w * t)), float(np.sin(w * t))
            hyp = max(hyp, abs(c * c + sn * sn - 1), abs(w * w * lam[k] - 1))
            terms.append(f"(let z := rot {coq_q(c)} {coq_q(sn)} {coq_q(w)} ({coq_q(float(q[k]))}, {coq_q(float(p[k]))}) in "
                         f"[(Qnum (Qred (fst z)), Zpos (Qden (Qred (fst z)))); (Qnum (Qred (snd z)), Zpos (Qden (Qred (snd z))))])")
            expect.append((float(st.pos[k]), float(st.mom[k])))
    body = "Require Import Mici.Props.C07.\nOpen Scope Z_scope.\nEval vm_compute in " + coq_list(terms) + ".\n"
    model = parse_coq_value(ctx.coq_eval(body, name="rot_cases")[0])
    bad = 0
    for (eq_, ep), m in zip(expect, model):
        mq, mp = m[0][0] / m[0][1], m[1][0] / m[1][1]
        ctx.case(("rot", round(eq_, 9)))
        if not (abs(mq - eq_) <= 1e-10 * max(1, abs(eq_)) and abs(mp - ep) <= 1e-10 * max(1, abs(ep))):
            bad += 1
            ctx.fail("corr:rotation", f"mode rotation evaluated by Coq ({mq}, {mp}) vs h2_flow ({eq_}, {ep})", {}, kind="corr")
    ctx.oblige(f"correspondence: {len(terms)} eigen-mode rotations evaluated by Coq vs GaussianEuclideanMetricSystem.h2_flow (diagonal metrics); the NumPy values "
               f"satisfy c^2+s^2=1 and w^2 lambda=1 to {hyp:.1e}", bad == 0 and hyp < 1e-12, f"{bad}")


def run(ctx):
    ctx.rule = "per (system, metric kind, time): exact-solution / energy / inverse / Jacobian checks; time pairs for additivity; h1_flow call sequences"
    ctx.assume("the Gaussian-split flow is modelled per eigen-mode of the metric (eigendecomposition by LAPACK is a black box validated numerically)",
               "cos / sin over Q enter as given numbers with c^2 + s^2 = 1; over R the real functions are used (stdlib real axioms)")
    ctx.trust("Props/C07.v closed forms tied by the per-mode correspondence")
    if ctx.build(["Props/C07.vo"]):
        ctx.props()
        correspondence(ctx)
    search(ctx)
