"""Stand-alone scenario for C15 (run in its own process by c15.ctrl_c_search): SIGINT reaches the PARENT process of a 2-process, multi-stage run during warm-up,
as Ctrl-C on a terminal does.  Prints one JSON line: {"returned": bool, "escaped": str|None, "late_rows": [chains with main-stage rows written]}."""
import json
import os
import signal
import sys

import numpy as np

import hmc_zoo

MODE, K, SEED = sys.argv[1], int(sys.argv[2]), int(sys.argv[3])
PARENT_PID = os.getpid()
FLAG = os.path.join(os.environ.get("TMPDIR", "/verif/build"), f"ctrl_c_{PARENT_PID}.flag")
N = {"n": 0}


def tick():
    n = N["n"]
    N["n"] += 1
    if n == K and os.getpid() != PARENT_PID:
        try:        # one signal to the parent, like one Ctrl-C: only the first worker to get here sends it
            os.close(os.open(FLAG, os.O_CREAT | os.O_EXCL))
            os.kill(PARENT_PID, signal.SIGINT)
        except FileExistsError:
            pass
        if MODE == "also_raise":
            raise KeyboardInterrupt


def nld(q):
    tick()
    return hmc_zoo.neg_log_dens(q)


def gnld(q):
    tick()
    return hmc_zoo.grad_neg_log_dens(q)


def trace(state):
    return {"pos": state.pos}


def main():
    import mici
    rng = np.random.default_rng(SEED)
    system = mici.systems.EuclideanMetricSystem(nld, grad_neg_log_dens=gnld)
    sampler = mici.samplers.StaticMetropolisHMC(system, mici.integrators.LeapfrogIntegrator(system, step_size=0.3), rng, n_step=2)
    n_warm, n_main = 6, 4
    res = {"returned": False, "escaped": None, "late_rows": []}
    try:
        out = sampler.sample_chains(n_warm, n_main, [rng.standard_normal(2) for _ in range(2)], trace_funcs=[trace], display_progress=False, trace_warm_up=True,
                                    n_process=2, adapters=[mici.adapters.DualAveragingStepSizeAdapter(0.8)], stager=mici.stagers.WindowedWarmUpStager(2, 1, 0, 2))
        res["returned"] = True
        res["late_rows"] = [c for c in range(2) if not np.isnan(np.asarray(out.traces["pos"][c])[n_warm:]).all()]
    except BaseException as e:  # noqa: BLE001
        import traceback
        res["escaped"] = f"{type(e).__name__}: {e}"
        res["where"] = [f"{f.filename.split(chr(47))[-1]}:{f.lineno}:{f.name}" for f in traceback.extract_tb(e.__traceback__)][-6:]
    try:
        os.remove(FLAG)
    except OSError:
        pass
    print("RESULT " + json.dumps(res), flush=True)


if __name__ == "__main__":
    main()
