"""T8: arithmetic of src/mici/adapters.py -> coq/Gen/AdaptersGen.v  (fail closed).

The statement sequences of the adapters' update / finalize methods are rendered as Coq functions over exact rationals
(scalars Q, vectors nat -> Q, matrices nat -> nat -> Q; NumPy broadcasting resolved by a small type inference), with
in-place updates of `adapt_state[...]` entries and locals turned into let-bindings.  Transcendental functions (exp, log,
non-integer powers) become the parameters expf / logf / powf of the generated functions.  The control layout around the
arithmetic (single-chain / multi-chain branches, loop over chains with the i == 0 case, the n_iter < 2 guard, the metric
constructor, the momentum refresh, the initial step-size search loop) is matched verbatim; any deviation raises."""
from __future__ import annotations

import ast
from fractions import Fraction

from common import REPO, Untranslatable

KEYS = {"iter": "s", "mean": "v", "sum_diff_sq": "v", "sum_diff_outer": "m", "smoothed_log_step_size": "s", "adapt_stat_error": "s", "log_step_size_reg_target": "s"}
SELF = {"reg_iter_offset": "s", "reg_scale": "s", "iter_offset": "s", "adapt_stat_target": "s", "iter_decay_coeff": "s", "log_step_size_reg_coefficient": "s"}


def norm(node):
    return " ".join(ast.unparse(node).split())


def strip_doc(body):
    return [s for s in body if not (isinstance(s, ast.Expr) and isinstance(s.value, ast.Constant) and isinstance(s.value.value, str))]


class Em:
    """typed expression emitter; env maps python names / state keys to (coq name, type)"""

    def __init__(self, where, env, state_var="adapt_state"):
        self.where, self.env, self.state_var = where, dict(env), state_var
        self.lets = []

    def bad(self, node, why):
        raise Untranslatable(f"adapters.py:{getattr(node, 'lineno', '?')}: {self.where}: {why}: `{norm(node)[:120]}`")

    def key(self, node):
        if (isinstance(node, ast.Subscript) and isinstance(node.value, ast.Name) and node.value.id == self.state_var and isinstance(node.slice, ast.Constant)
                and node.slice.value in KEYS):
            return node.slice.value
        return None

    def q(self, v):
        f = Fraction(str(v)) if not isinstance(v, int) else Fraction(v)
        return f"({f.numerator} # {f.denominator})" if f.denominator != 1 else (f"{f.numerator}" if f >= 0 else f"({f.numerator})")

    def e(self, n):
        k = self.key(n)
        if k is not None:
            if k not in self.env:
                self.bad(n, "state entry not available here")
            return self.env[k]
        if isinstance(n, ast.Name):
            if n.id not in self.env:
                self.bad(n, "unknown name")
            return self.env[n.id]
        if isinstance(n, ast.Attribute):
            t = norm(n)
            if t == "chain_state.pos":
                return self.env["pos"]
            if isinstance(n.value, ast.Name) and n.value.id == "self" and n.attr in SELF:
                return (n.attr, "s")
            self.bad(n, "unknown attribute")
        if isinstance(n, ast.Constant) and isinstance(n.value, (int, float)) and not isinstance(n.value, bool):
            return (self.q(n.value), "s")
        if isinstance(n, ast.UnaryOp) and isinstance(n.op, ast.USub):
            a, t = self.e(n.operand)
            return ({"s": f"(- {a})", "v": f"(vscal (-1) {a})", "m": f"(mscal' (-1) {a})"}[t], t)
        if isinstance(n, ast.Subscript):   # x[None, :] and x[:, None]
            sl = norm(n.slice)
            a, t = self.e(n.value)
            if t == "v" and sl == "(None, slice(None, None, None))" or t == "v" and sl == "(None, :)" or t == "v" and sl == "None, :":
                return (a, "row")
            if t == "v" and sl in ("(slice(None, None, None), None)", "(:, None)", ":, None"):
                return (a, "col")
            self.bad(n, "unsupported indexing")
        if isinstance(n, ast.Call):
            f = norm(n.func)
            if f == "np.outer" and len(n.args) == 2:
                (a, ta), (b, tb) = self.e(n.args[0]), self.e(n.args[1])
                if ta == tb == "v":
                    return (f"(mouter {a} {b})", "m")
            if f in ("exp", "log") and len(n.args) == 1:
                a, t = self.e(n.args[0])
                if t == "s":
                    return (f"({f}f {a})", "s")
            if f == "self.adapt_stat_func" and norm(n.args[0]) == "trans_stats":
                return ("stat", "s")
            self.bad(n, "unsupported call")
        if isinstance(n, ast.BinOp):
            if isinstance(n.op, ast.Pow):
                a, t = self.e(n.left)
                if isinstance(n.right, ast.Constant) and n.right.value == 2:
                    return ({"s": f"({a} * {a})", "v": f"(vmul {a} {a})"}.get(t) or self.bad(n, "square of a matrix"), t)
                b, tb = self.e(n.right)
                if t == tb == "s":
                    return (f"(powf {a} {b})", "s")
                self.bad(n, "non-scalar power")
            (a, ta), (b, tb) = self.e(n.left), self.e(n.right)
            op = type(n.op)
            sym = {ast.Add: "+", ast.Sub: "-", ast.Mult: "*", ast.Div: "/"}.get(op)
            if sym is None:
                self.bad(n, "unsupported operator")
            if ta == tb == "s":
                return (f"({a} {sym} {b})", "s")
            if {ta, tb} == {"row", "col"} and op is ast.Mult:
                r, c = (a, b) if ta == "row" else (b, a)
                return (f"(router {r} {c})", "m")     # (row r)[i,j] * (col c)[i,j] = r j * c i
            for t, pre in (("v", "v"), ("m", "m")):
                names = {"+": f"{pre}add{'' if pre == 'v' else chr(39)}", "-": f"{pre}sub{'' if pre == 'v' else chr(39)}", "*": f"{pre}mul{'' if pre == 'v' else chr(39)}"}
                if ta == tb == t and sym in names:
                    return (f"({names[sym]} {a} {b})", t)
                if ta == t and tb == "s" and sym in "*/":
                    return (f"({pre}scal{'' if pre == 'v' else chr(39)} {b if sym == '*' else '(/ ' + b + ')'} {a})", t)
                if ta == "s" and tb == t and sym == "*":
                    return (f"({pre}scal{'' if pre == 'v' else chr(39)} {a} {b})", t)
                if t == "v" and ta == "v" and tb == "s" and sym in "+-":
                    return (f"(vshift {b if sym == '+' else '(- ' + b + ')'} {a})", "v")
            self.bad(n, f"unsupported operand types {ta} {sym} {tb}")
        self.bad(n, "unsupported expression")

    def stmt(self, s):
        if isinstance(s, ast.Assign) and len(s.targets) == 1:
            tgt = s.targets[0]
            v, t = self.e(s.value)
            name = self.key(tgt) or (tgt.id if isinstance(tgt, ast.Name) else ("step_size" if norm(tgt) == "transition.integrator.step_size" else None))
            if name is None:
                self.bad(s, "unsupported assignment target")
            self.lets.append(f"let {name} := {v} in")
            self.env[name] = (name, t)
            return
        if isinstance(s, ast.AugAssign):
            name = self.key(s.target) or (s.target.id if isinstance(s.target, ast.Name) else None)
            if name is None or name not in self.env:
                self.bad(s, "unsupported in-place target")
            fake = ast.BinOp(left=s.target, op=s.op, right=s.value)
            ast.copy_location(fake, s)
            v, t = self.e(fake)
            if t != self.env[name][1]:
                self.bad(s, "in-place update changes the shape")
            self.lets.append(f"let {name} := {v} in")
            self.env[name] = (name, t)
            return
        self.bad(s, "unsupported statement")


TY = {"s": "Q", "v": "vec", "m": "mat'"}


def fun(name, params, em, outs, extra=""):
    ps = " ".join(f"({p} : {TY[t]})" for p, t in params)
    rt = " * ".join(TY[em.env[o][1]] for o in outs)
    body = "\n  ".join(em.lets)
    return f"Definition {name} {extra}{ps} : {rt} :=\n  {body}\n  ({', '.join(outs)})."


def method(tree, cls, name):
    c = next((n for n in tree.body if isinstance(n, ast.ClassDef) and n.name == cls), None)
    f = c and next((n for n in c.body if isinstance(n, ast.FunctionDef) and n.name == name), None)
    if f is None:
        raise Untranslatable(f"adapters.py: {cls}.{name} missing")
    return f, strip_doc(f.body)


def expect(where, node, text):
    if norm(node) != text:
        raise Untranslatable(f"adapters.py:{getattr(node, 'lineno', '?')}: {where}: expected `{text}`, found `{norm(node)[:140]}`")


def metric_adapter(tree, cls, acc, accty, tag, ctor):
    out = []
    f, body = method(tree, cls, "initialize")
    f, body = method(tree, cls, "update")
    env = {"iter": ("iter", "s"), "mean": ("mean", "v"), acc: (acc, accty), "pos": ("pos", "v")}
    em = Em(f"{cls}.update", env)
    for s in body:
        em.stmt(s)
    out.append(fun(f"gen_{tag}_update", [("iter", "s"), ("mean", "v"), (acc, accty), ("pos", "v")], em, ["iter", "mean", acc]))
    # regularisation
    rname = "_regularize_var_est" if tag == "var" else "_regularize_covar_est"
    est = "var_est" if tag == "var" else "covar_est"
    f, body = method(tree, cls, rname)
    guarded = False
    if len(body) == 1 and isinstance(body[0], ast.If):
        expect(rname, body[0].test, "self.reg_iter_offset is not None and self.reg_iter_offset != 0")
        if body[0].orelse:
            raise Untranslatable(f"adapters.py:{body[0].lineno}: {rname}: unexpected else branch")
        body, guarded = body[0].body, True
    em = Em(f"{cls}.{rname}", {est: (est, accty), "n_iter": ("n_iter", "s")})
    for s in body:
        if norm(s) == f'{est}_diagonal = np.einsum("ii->i", {est})' or norm(s) == f"{est}_diagonal = np.einsum('ii->i', {est})":
            continue   # a view of the diagonal: the following in-place update is a diagonal shift
        if isinstance(s, ast.AugAssign) and isinstance(s.target, ast.Name) and s.target.id == f"{est}_diagonal" and isinstance(s.op, ast.Add):
            v, t = em.e(s.value)
            if t != "s":
                em.bad(s, "diagonal shift is not a scalar")
            em.lets.append(f"let {est} := (mshift {v} {est}) in")
            continue
        em.stmt(s)
    text = fun(f"gen_{tag}_regularize", [("reg_iter_offset", "s"), ("reg_scale", "s"), (est, accty), ("n_iter", "s")], em, [est])
    if guarded:
        # `reg_iter_offset is not None and reg_iter_offset != 0`: None is rendered as offset 0 by the harness
        text = text.replace(f"  ({est}).", f"  (if Qeq_bool reg_iter_offset 0 then {est}_in else {est}).").replace(f"({est} : {TY[accty]}) (n_iter", f"({est}_in : {TY[accty]}) (n_iter")
        text = text.replace(f":=\n  let {est} := ", f":=\n  let {est} := {est}_in in\n  let {est} := ", 1)
    out.append(text)
    # finalize
    f, body = method(tree, cls, "finalize")
    if len(body) != 6:
        raise Untranslatable(f"adapters.py:{f.lineno}: {cls}.finalize: expected 6 top-level statements, found {len(body)}")
    br = body[0]
    expect("finalize", br.test, "isinstance(adapt_states, dict)")
    single = [norm(s) for s in br.body]
    if single != ['n_iter = adapt_states["iter"]'.replace('"', "'"), f"{est} = adapt_states.pop('{acc}')", "chain_states = [chain_states]", "rngs = [rngs]"]:
        raise Untranslatable(f"adapters.py:{br.lineno}: {cls}.finalize: single-chain branch is {single}")
    if len(br.orelse) != 1 or not isinstance(br.orelse[0], ast.For):
        raise Untranslatable(f"adapters.py:{br.lineno}: {cls}.finalize: multi-chain branch is not a single loop")
    loop = br.orelse[0]
    expect("finalize", loop.iter, "enumerate(adapt_states)")
    expect("finalize", loop.target, "(i, adapt_state)")
    if len(loop.body) != 1 or not isinstance(loop.body[0], ast.If):
        raise Untranslatable(f"adapters.py:{loop.lineno}: {cls}.finalize: loop body is not `if i == 0: ... else: ...`")
    first = loop.body[0]
    expect("finalize", first.test, "i == 0")
    if [norm(s) for s in first.body] != ["n_iter = adapt_state['iter']", "mean_est = adapt_state.pop('mean')", f"{est} = adapt_state.pop('{acc}')"]:
        raise Untranslatable(f"adapters.py:{first.lineno}: {cls}.finalize: first-chain branch is {[norm(s) for s in first.body]}")
    em = Em(f"{cls}.finalize(merge)", {"n_iter": ("n_iter", "s"), "mean_est": ("mean_est", "v"), est: (est, accty),
                                        "iter": ("iter_k", "s"), "mean": ("mean_k", "v"), acc: (f"{acc}_k", accty)}, state_var="adapt_state")
    for s in first.orelse:
        em.stmt(s)
    out.append(fun(f"gen_{tag}_merge", [("n_iter", "s"), ("mean_est", "v"), (est, accty), ("iter_k", "s"), ("mean_k", "v"), (f"{acc}_k", accty)], em, ["n_iter", "mean_est", est]))
    guard = body[1]
    expect("finalize", guard.test, "n_iter < 2")
    if not (isinstance(guard.body[-1], ast.Raise) and norm(guard.body[-1].exc.func) == "AdaptationError"):
        raise Untranslatable(f"adapters.py:{guard.lineno}: {cls}.finalize: n_iter < 2 does not raise AdaptationError")
    em = Em(f"{cls}.finalize(scale)", {est: (est, accty), "n_iter": ("n_iter", "s")})
    em.stmt(body[2])
    out.append(fun(f"gen_{tag}_scale", [(est, accty), ("n_iter", "s")], em, [est]))
    expect("finalize", body[3], f"self.{rname}({est}, n_iter)")
    expect("finalize", body[4], f"transition.system.metric = {ctor}({est}).inv")
    mom = body[5]
    if not (isinstance(mom, ast.For) and norm(mom.iter) == "zip(chain_states, rngs, strict=True)" and len(mom.body) == 1
            and norm(mom.body[0]) == "chain_state.mom = transition.system.sample_momentum(chain_state, rng)"):
        raise Untranslatable(f"adapters.py:{mom.lineno}: {cls}.finalize: momenta are not refreshed for every chain under the new metric")
    return out


def bool_expr(n, atoms, where):
    t = norm(n)
    if t in atoms:
        return atoms[t]
    if isinstance(n, ast.BoolOp):
        op = " && " if isinstance(n.op, ast.And) else " || "
        return "(" + op.join(bool_expr(v, atoms, where) for v in n.values) + ")"
    if isinstance(n, ast.UnaryOp) and isinstance(n.op, ast.Not):
        return f"(negb {bool_expr(n.operand, atoms, where)})"
    raise Untranslatable(f"adapters.py:{n.lineno}: {where}: cannot translate condition `{t}`")


def step_size_adapter(tree):
    cls = "DualAveragingStepSizeAdapter"
    out = []
    f, body = method(tree, cls, "update")
    env = {k: (k, "s") for k in ("iter", "adapt_stat_error", "smoothed_log_step_size", "log_step_size_reg_target")}
    em = Em(f"{cls}.update", env)
    for s in body:
        em.stmt(s)
    if "step_size" not in em.env:
        raise Untranslatable(f"adapters.py:{f.lineno}: {cls}.update does not set transition.integrator.step_size")
    hdr = "(powf : Q -> Q -> Q) (expf : Q -> Q) (iter_offset adapt_stat_target iter_decay_coeff log_step_size_reg_coefficient : Q) "
    out.append(fun("gen_da_update", [("iter", "s"), ("adapt_stat_error", "s"), ("smoothed_log_step_size", "s"), ("log_step_size_reg_target", "s"), ("stat", "s")], em,
                   ["iter", "adapt_stat_error", "smoothed_log_step_size", "log_step_size_reg_target", "step_size"], extra=hdr))
    # initialize
    f, body = method(tree, cls, "initialize")
    texts = [norm(s) for s in body]
    exp_init = ["integrator = transition.integrator", "system = transition.system",
                "adapt_state = {'iter': 0, 'smoothed_log_step_size': 0.0, 'adapt_stat_error': 0.0}",
                "init_step_size = self._find_and_set_init_step_size(chain_state, system, integrator)"]
    if texts[:4] != exp_init or len(body) != 6 or texts[5] != "return adapt_state":
        raise Untranslatable(f"adapters.py:{f.lineno}: {cls}.initialize: unexpected layout {texts[:4]}")
    br = body[4]
    if not (isinstance(br, ast.If) and norm(br.test) == "self.log_step_size_reg_target is None" and len(br.body) == 1 and len(br.orelse) == 1
            and norm(br.orelse[0]) == "adapt_state['log_step_size_reg_target'] = self.log_step_size_reg_target"
            and isinstance(br.body[0], ast.Assign) and norm(br.body[0].targets[0]) == "adapt_state['log_step_size_reg_target']"):
        raise Untranslatable(f"adapters.py:{br.lineno}: {cls}.initialize: regularisation target is not chosen by `is None`")
    em = Em(f"{cls}.initialize", {"init_step_size": ("init_step_size", "s")})
    v, _ = em.e(br.body[0].value)
    out.append(f"Definition gen_da_init (logf : Q -> Q) (reg_target : option Q) (init_step_size : Q) : Q * Q * Q * Q :=\n"
               f"  (0, 0, 0, match reg_target with None => {v} | Some t => t end).   (* iter, adapt_stat_error, smoothed_log_step_size, log_step_size_reg_target *)")
    # finalize
    f, body = method(tree, cls, "finalize")
    if not (len(body) == 1 and isinstance(body[0], ast.If) and norm(body[0].test) == "isinstance(adapt_states, dict)"
            and [norm(s) for s in body[0].body] == ["transition.integrator.step_size = exp(adapt_states['smoothed_log_step_size'])"]
            and [norm(s) for s in body[0].orelse] == ["transition.integrator.step_size = self.log_step_size_reducer([adapt_state['smoothed_log_step_size'] for adapt_state in adapt_states])"]):
        raise Untranslatable(f"adapters.py:{f.lineno}: {cls}.finalize: unexpected form")
    out.append("Definition gen_da_finalize_single (expf : Q -> Q) (smoothed_log_step_size : Q) : Q := expf smoothed_log_step_size.")
    # reducers
    red = {"arithmetic_mean_log_step_size_reducer": ("return sum((exp(x) for x in log_step_sizes)) / len(log_step_sizes)", "(lsum (map expf l) / llen l)"),
           "geometric_mean_log_step_size_reducer": ("return exp(sum((x for x in log_step_sizes)) / len(log_step_sizes))", "(expf (lsum l / llen l))"),
           "min_log_step_size_reducer": ("return exp(min(log_step_sizes))", "(expf (lmin l))")}
    for name, (src, coq) in red.items():
        fn = next((n for n in tree.body if isinstance(n, ast.FunctionDef) and n.name == name), None)
        if fn is None or [norm(s) for s in strip_doc(fn.body)] != [src]:
            raise Untranslatable(f"adapters.py: reducer {name} is not `{src}`")
        out.append(f"Definition gen_{name} (expf : Q -> Q) (l : list Q) : Q := {coq}.")
    # initial step-size search
    f, body = method(tree, cls, "_find_and_set_init_step_size")
    texts = [norm(s) for s in body]
    pre = ["init_state = state.copy()", "h_init = system.h(init_state)"]
    if texts[:2] != pre or not (isinstance(body[2], ast.If) and norm(body[2].test) == "np.isnan(h_init)" and isinstance(body[2].body[-1], ast.Raise)):
        raise Untranslatable(f"adapters.py:{f.lineno}: search: unexpected prologue")
    if texts[3:5] != ["integrator.step_size = 1", "delta_h_threshold = log(2)"] or not isinstance(body[5], ast.For) or len(body) != 8:
        raise Untranslatable(f"adapters.py:{f.lineno}: search: unexpected layout")
    if not (isinstance(body[7], ast.Raise) and norm(body[7].exc.func) == "AdaptationError"):
        raise Untranslatable(f"adapters.py:{f.lineno}: search: fall-through does not raise AdaptationError")
    loop = body[5]
    expect("search", loop.iter, "range(self.max_init_step_size_iters)")
    tr = loop.body[0]
    if not (len(loop.body) == 1 and isinstance(tr, ast.Try) and len(tr.handlers) == 1 and norm(tr.handlers[0].type) == "IntegratorError"):
        raise Untranslatable(f"adapters.py:{loop.lineno}: search: loop body is not try/except IntegratorError")
    if [norm(s) for s in tr.handlers[0].body] != ["step_size_too_big = True", "integrator.step_size /= 2"]:
        raise Untranslatable(f"adapters.py:{tr.lineno}: search: handler is {[norm(s) for s in tr.handlers[0].body]}")
    tb = tr.body
    if len(tb) != 5 or [norm(s) for s in tb[:2]] != ["state = integrator.step(init_state)", "delta_h = abs(h_init - system.h(state))"]:
        raise Untranslatable(f"adapters.py:{tr.lineno}: search: try body has unexpected start")
    atoms = {"s == 0": "s0", "np.isnan(delta_h)": "isnan", "delta_h > delta_h_threshold": "gt", "delta_h <= delta_h_threshold": "le", "step_size_too_big": "tb"}
    upd, ret, mv = tb[2], tb[3], tb[4]
    if not (isinstance(upd, ast.If) and not upd.orelse and len(upd.body) == 1 and isinstance(upd.body[0], ast.Assign) and norm(upd.body[0].targets[0]) == "step_size_too_big"):
        raise Untranslatable(f"adapters.py:{upd.lineno}: search: flag update of unexpected form")
    flag = f"if {bool_expr(upd.test, atoms, 'search')} then {bool_expr(upd.body[0].value, atoms, 'search')} else tb"
    if not (isinstance(ret, ast.If) and not ret.orelse and [norm(s) for s in ret.body] == ["return integrator.step_size"]):
        raise Untranslatable(f"adapters.py:{ret.lineno}: search: return test of unexpected form")
    retc = bool_expr(ret.test, atoms, "search")
    if not (isinstance(mv, ast.If) and norm(mv.test) == "step_size_too_big" and [norm(s) for s in mv.body] == ["integrator.step_size /= 2"]
            and [norm(s) for s in mv.orelse] == ["integrator.step_size *= 2"]):
        raise Untranslatable(f"adapters.py:{mv.lineno}: search: step-size move of unexpected form")
    out.append(f"Definition gen_search_flag (s0 isnan gt le tb : bool) : bool := {flag}.")
    out.append(f"Definition gen_search_return (s0 isnan gt le tb : bool) : bool := {retc}.")
    out.append("Definition gen_search_move (tb : bool) (eps : Q) : Q := if tb then eps / 2 else eps * 2.")
    out.append("Definition gen_search_init : Q := 1.")
    return out


def generate():
    tree = ast.parse((REPO / "src/mici/adapters.py").read_text())
    out = ["(* generated by tie/translate_adapters.py (T8) from src/mici/adapters.py -- do not edit *)",
           "From Coq Require Import QArith List Bool.", "Require Import Mici.Model.Adapters.", "Import ListNotations.", "Open Scope Q_scope.", ""]
    out += metric_adapter(tree, "OnlineVarianceMetricAdapter", "sum_diff_sq", "v", "var", "PositiveDiagonalMatrix")
    out += metric_adapter(tree, "OnlineCovarianceMetricAdapter", "sum_diff_outer", "m", "cov", "DensePositiveDefiniteMatrix")
    out += step_size_adapter(tree)
    return "\n\n".join(out) + "\n"


if __name__ == "__main__":
    print(generate())
