"""Correspondence between coq/Model/StateCache.v and the real ChainState + decorators of mici.states:
random histories of Assign / Copy / Pickle / Call over several states and two system objects, comparing for every
call the returned value and whether the underlying method was evaluated."""
from __future__ import annotations

import pickle

from common import coq_list, parse_coq_value

NM = 6


def make_mock():
    from mici.states import cache_in_state, cache_in_state_with_aux

    class MockSys:
        def __init__(self, off):
            self.off, self.n, self.tuple_mode = off, [0] * NM, False

        @cache_in_state("pos")
        def f0(self, state):
            self.n[0] += 1
            return 3 * state.pos + 1 + self.off

        @cache_in_state("mom")
        def f1(self, state):
            self.n[1] += 1
            return 5 * state.mom + 2 + self.off

        @cache_in_state("pos", "mom")
        def f2(self, state):
            self.n[2] += 1
            return 7 * state.pos + 11 * state.mom + self.off

        @cache_in_state_with_aux("pos", "f0")
        def f3(self, state):
            self.n[3] += 1
            v = 13 * state.pos + self.off
            return (v, 3 * state.pos + 1 + self.off) if self.tuple_mode else v

        @cache_in_state_with_aux(("pos",), ("f3", "f0"))
        def f4(self, state):
            self.n[4] += 1
            v = 17 * state.pos + self.off
            return (v, 13 * state.pos + self.off, 3 * state.pos + 1 + self.off) if self.tuple_mode else v

        @cache_in_state("mom")
        def f5(self, state):
            self.n[5] += 1
            m, off = state.mom, self.off
            return lambda: 19 * m + off
    return MockSys


COQ_DEFS = """
Local Open Scope nat_scope.
Definition m_decl (k : nat) : list nat := match Nat.modulo k 6 with 0 => [0] | 1 => [1] | 2 => [0; 1] | 3 => [0] | 4 => [0] | _ => [1] end.
Definition m_aux (k : nat) : list nat := let b := k - Nat.modulo k 6 in match Nat.modulo k 6 with 3 => [b] | 4 => [b + 3; b] | _ => [] end.
Definition m_sel (k : nat) : nat := Nat.modulo k 6.
Definition m_drop (k : nat) : bool := Nat.eqb (Nat.modulo k 6) 5.
Local Close Scope nat_scope.
Definition m_eval (k : nat) (v : nat -> Z) : Z :=
  let off := (Z.of_nat (Nat.div k 6) * 1000)%Z in
  let s := m_sel k in
  (if Nat.eqb s 0 then 3 * v 0%nat + 1 + off else if Nat.eqb s 1 then 5 * v 1%nat + 2 + off
   else if Nat.eqb s 2 then 7 * v 0%nat + 11 * v 1%nat + off else if Nat.eqb s 3 then 13 * v 0%nat + off
   else if Nat.eqb s 4 then 17 * v 0%nat + off else 19 * v 1%nat + off)%Z.
Definition enc (o : option (Z * bool)) : list Z := match o with None => [-1] | Some (v, b) => [v; if b then 1 else 0] end%Z.
Definition run_hist (p m d : Z) (ops : list (op Z)) : list (list Z) :=
  map enc (trace Z Z m_decl m_aux m_eval m_drop (heap0 Z Z (fun x => if Nat.eqb x 0 then p else if Nat.eqb x 1 then m else d)) ops).
"""


def gen_history(rng, n_ops):
    """ops: ('A', i, var, val) | ('C', i, ro) | ('P', i) | ('K', i, key, wa)"""
    ops, nst = [], 1
    for _ in range(n_ops):
        r = rng.random()
        i = int(rng.integers(0, nst))
        if r < 0.25:
            ops.append(("A", i, int(rng.integers(0, 3)), int(rng.integers(-50, 50))))
        elif r < 0.37 and nst < 6:
            ops.append(("C", i, bool(rng.random() < 0.3)))
            nst += 1
        elif r < 0.45 and nst < 6:
            ops.append(("P", i))
            nst += 1
        else:
            ops.append(("K", i, int(rng.integers(0, 2 * NM)), bool(rng.random() < 0.6)))
    return ops


def coq_ops(ops):
    out = []
    for o in ops:
        if o[0] == "A":
            out.append(f"Assign Z {o[1]}%nat {o[2]}%nat ({o[3]})%Z")
        elif o[0] == "C":
            out.append(f"Copy Z {o[1]}%nat {'true' if o[2] else 'false'}")
        elif o[0] == "P":
            out.append(f"Pickle Z {o[1]}%nat")
        else:
            out.append(f"Call Z {o[1]}%nat {o[2]}%nat {'true' if o[3] else 'false'}")
    return coq_list(out)


def run_real(init, ops):
    from mici.errors import ReadOnlyStateError
    from mici.states import ChainState
    MockSys = make_mock()
    systems = [MockSys(0), MockSys(1000)]
    states = [ChainState(pos=init[0], mom=init[1], dir=init[2])]
    names = ["pos", "mom", "dir"]
    out = []
    for o in ops:
        if o[0] == "A":
            try:
                setattr(states[o[1]], names[o[2]], o[3])
            except ReadOnlyStateError:
                pass
            out.append([-1])
        elif o[0] == "C":
            states.append(states[o[1]].copy(read_only=o[2]))
            out.append([-1])
        elif o[0] == "P":
            states.append(pickle.loads(pickle.dumps(states[o[1]])))
            out.append([-1])
        else:
            sysi, m = divmod(o[2], NM)
            s = systems[sysi]
            s.tuple_mode = o[3]
            before = s.n[m]
            v = getattr(s, f"f{m}")(states[o[1]])
            if callable(v):
                v = v()
            out.append([int(v), s.n[m] - before])
    return out


def run(ctx, n_hist, n_ops, tag="cache"):
    hists = [((int(ctx.rng.integers(-20, 20)), int(ctx.rng.integers(-20, 20)), 1), gen_history(ctx.rng, n_ops)) for _ in range(n_hist)]
    body = "Require Import Mici.Model.StateCache.\nOpen Scope Z_scope.\n" + COQ_DEFS
    body += "Eval vm_compute in " + coq_list([f"run_hist ({i[0]}) ({i[1]}) ({i[2]}) {coq_ops(ops)}" for i, ops in hists]) + ".\n"
    model = parse_coq_value(ctx.coq_eval(body, name="cache_cases")[0])
    bad = 0
    for (init, ops), mod in zip(hists, model):
        real = run_real(init, ops)
        ctx.case((tag, init, tuple(ops)))
        for o in ops:
            ctx.count(f"{tag}:op:{o[0]}")
        mm = [list(x) for x in mod]
        if mm != real:
            bad += 1
            k = next(i for i, (a, b) in enumerate(zip(mm, real)) if a != b)
            ctx.fail("corr:cache", f"cache model and ChainState disagree at op {k} = {ops[k]} of a {len(ops)}-op history: model (value, evaluated) "
                     f"{mm[k]} vs implementation {real[k]}", {"init": init, "ops": ops[:k + 1], "model": mm[k], "impl": real[k]}, kind="corr")
        if len(ctx.samples) < 3:
            ctx.sample({"init": init, "ops": ops[:8], "results": real[:8]})
    ctx.oblige(f"correspondence[{tag}]: {n_hist} random histories x {n_ops} ops (assign/copy/pickle/call, 2 systems, <= 6 states) on real ChainState "
               "objects with the real decorators vs Model/StateCache.v: returned values and evaluation counts", bad == 0, f"{bad} disagreements")
    return bad
