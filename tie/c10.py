"""C10 -- structured matrix expressions agree with dense linear algebra."""
from __future__ import annotations

from fractions import Fraction

import numpy as np

import matzoo
from common import coq_list, coq_q, parse_coq_value

LEVEL = "proof"


def qmat(a):
    return "(of_list " + coq_list([coq_list([coq_q(Fraction(float(x)).limit_denominator(10 ** 6)) for x in row]) for row in np.atleast_2d(a)]) + ")"


def rq(a):
    """round to the rationals actually sent to Coq"""
    return np.array([[float(Fraction(float(x)).limit_denominator(10 ** 6)) for x in row] for row in np.atleast_2d(a)])


def correspondence(ctx):
    """The structured formulas (Woodbury with signed capacitance, triangular-factored inverse, eigendecomposed inverse) evaluated
    by Coq on the same rational parameters vs the implementation's .inv arrays."""
    import mici.matrices as mm
    rng = ctx.rng
    terms, expect = [], []
    for _ in range(6 if not ctx.thorough else 30):
        n, k = int(rng.integers(2, 4)), int(rng.integers(1, 3))
        s = int(rng.choice([-1, 1]))
        A = rq(matzoo.spd(rng, n))
        K = rq(matzoo.spd(rng, k))
        U, V = rq(0.3 * rng.standard_normal((n, k))), rq(0.3 * rng.standard_normal((k, n)))
        Ai, Ki = np.linalg.inv(A), np.linalg.inv(K)
        cap = Ki + s * V @ Ai @ U
        Ci = np.linalg.inv(cap)
        M = mm.SquareLowRankUpdateMatrix(mm.DenseRectangularMatrix(U), mm.DenseRectangularMatrix(V), mm.DenseSquareMatrix(A), mm.DenseSquareMatrix(K), sign=s)
        terms.append(f"to_list {n} {n} (woodbury_inv {n} {k} ({s} # 1) {qmat(Ai)} {qmat(U)} {qmat(Ci)} {qmat(V)})")
        expect.append(("woodbury_inverse", np.asarray(M.inv.array), dict(n=n, k=k, sign=s)))
        terms.append(f"to_list {k} {k} (capacitance {n} {k} ({s} # 1) {qmat(Ai)} {qmat(U)} {qmat(Ki)} {qmat(V)})")
        expect.append(("capacitance", np.asarray(M.capacitance_matrix.array), dict(n=n, k=k, sign=s)))
        terms.append(f"to_list {n} {n} (lowrank {n} {k} ({s} # 1) {qmat(A)} {qmat(U)} {qmat(K)} {qmat(V)})")
        expect.append(("lowrank_array", np.asarray(M.array), dict(n=n, k=k, sign=s)))
        L = rq(np.tril(rng.standard_normal((n, n)) + 3 * np.eye(n)))
        T = mm.TriangularFactoredDefiniteMatrix(L, sign=s, factor_is_lower=True)
        terms.append(f"to_list {n} {n} (trifactor_inv {n} ({s} # 1) {qmat(np.linalg.inv(L))})")
        expect.append(("trifactor_inverse", np.asarray(T.inv.array), dict(n=n, sign=s)))
    body = "Require Import Mici.Lib.QMat Mici.Model.Matrices.\nOpen Scope Z_scope.\nEval vm_compute in " + coq_list(terms) + ".\n"
    model = parse_coq_value(ctx.coq_eval(body, name="mat_cases", timeout=900)[0])
    bad = 0
    for (name, impl, info), m in zip(expect, model):
        mv = np.array([[a / b for a, b in row] for row in m], dtype=float)
        ctx.case(("formula", name, tuple(sorted(info.items())), float(impl.flat[0])))
        ctx.count(f"corr:{name}")
        err = np.abs(mv - impl).max()
        if not err < 1e-4 * max(1, np.abs(impl).max()):
            bad += 1
            ctx.fail(f"corr:{name}", f"{name} ({info}): the model formula evaluated in Coq differs from the implementation by {err:.2e}",
                     {"formula": name, **info, "model": mv.tolist(), "impl": impl.tolist()}, kind="corr")
    ctx.oblige(f"correspondence: {len(terms)} evaluations of the structured formulas (signed capacitance / Woodbury inverse / low-rank array / triangular-factored "
               "inverse) by Coq on rational parameters vs the implementation", bad == 0, f"{bad} disagreements")


def observables(m, d, rng):
    """-> dict name -> error of every observable of matrix object m against the dense array d"""
    import mici.matrices as mm
    n = d.shape[0]
    out = {"array": np.abs(np.asarray(m.array) - d).max(), "shape": 0.0 if tuple(m.shape) == d.shape else 1.0}
    v, V, W = rng.standard_normal(n), rng.standard_normal((n, 2)), rng.standard_normal((2, n))
    out["matvec"] = np.abs(m @ v - d @ v).max()
    out["matmat"] = np.abs(m @ V - d @ V).max()
    out["rvec"] = np.abs(v @ m - v @ d).max()
    out["rmat"] = np.abs(W @ m - W @ d).max()
    out["diagonal"] = np.abs(m.diagonal - np.diag(d)).max()
    out["transpose"] = np.abs(np.asarray(m.T.array) - d.T).max()
    if isinstance(m, mm.InvertibleMatrix):
        out["log_abs_det"] = abs(m.log_abs_det - np.linalg.slogdet(d)[1])
        out["inv"] = np.abs(np.asarray(m.inv.array) - np.linalg.inv(d)).max()
        out["inv_matvec"] = np.abs(m.inv @ v - np.linalg.solve(d, v)).max()
    if isinstance(m, mm.SymmetricMatrix):
        out["symmetric"] = np.abs(d - d.T).max()
        out["eigval"] = np.abs(np.sort(m.eigval) - np.sort(np.linalg.eigvalsh((d + d.T) / 2))).max()
        E = m.eigvec
        Ea = np.asarray(E.array) if hasattr(E, "array") else np.asarray(E)
        out["eigvec"] = np.abs(Ea @ np.diag(m.eigval) @ Ea.T - d).max()
    if isinstance(m, mm.PositiveDefiniteMatrix):
        out["posdef"] = max(0.0, -np.linalg.eigvalsh((d + d.T) / 2).min())
        sa = np.asarray(m.sqrt.array)
        out["sqrt"] = np.abs(sa @ sa.T - d).max()
    return out


def tree_search(ctx):
    import mici.matrices as mm
    rng = ctx.rng
    bad = 0
    n_trees = 250 if not ctx.thorough else 2500
    for t in range(n_trees):
        n = int(rng.choice([1, 2, 3, 4]))
        kind = str(rng.choice(matzoo.KINDS))
        trng = np.random.default_rng(int(rng.integers(0, 2 ** 31)))
        try:
            m, d = matzoo.make_leaf(trng, n, kind)
        except Exception as e:  # noqa: BLE001
            bad += 1
            ctx.fail(f"construct:{kind}", f"constructing a {kind} matrix of size {n} raised {type(e).__name__}: {e}", {"kind": kind, "n": n})
            continue
        path = [(kind, n)]
        pool = [(m, d, tuple(path))]
        depth = int(trng.integers(0, 5 if not ctx.thorough else 7))
        for step in range(depth + 1):
            # touch lazily cached attributes of a pooled object in a random order before anything else (they must not change later results)
            pm, pd_, pp = pool[int(trng.integers(0, len(pool)))]
            for attr in trng.permutation(["log_abs_det", "inv", "T", "array", "diagonal"]):
                if hasattr(type(pm), attr) or hasattr(pm, attr):
                    try:
                        getattr(pm, attr)
                    except Exception:  # noqa: BLE001
                        pass
            # every pooled object (operands of earlier operations included) must still represent its dense array
            for qm, qd, qp in pool:
                try:
                    errs = observables(qm, qd, trng)
                except Exception as e:  # noqa: BLE001
                    bad += 1
                    ctx.fail(f"raises:{type(qm).__name__}", f"{type(qm).__name__} built by {qp}: an observable raised {type(e).__name__}: {str(e)[:80]}",
                             {"path": qp, "class": type(qm).__name__})
                    break
                ctx.case(("tree", t, step, qp))
                ctx.count(f"search:{type(qm).__name__}")
                tol = 1e-7 * max(1.0, np.abs(qd).max()) * max(1.0, np.linalg.cond(qd))
                worst = max(errs, key=lambda k: errs[k])
                if not errs[worst] <= tol:
                    bad += 1
                    ctx.fail(f"{type(qm).__name__}.{worst}", f"{type(qm).__name__} built by {qp} (after later operations {path[len(qp):]}): {worst} differs from dense "
                             f"linear algebra by {errs[worst]:.2e}", {"path": qp, "later": path[len(qp):], "class": type(qm).__name__, "observable": worst,
                                                                      "error": float(errs[worst]), "seed_tree": t})
                    break
            if step == depth:
                break
            ops = ["T", "neg", "mul", "div", "matmul"]
            if isinstance(m, mm.InvertibleMatrix):
                ops.append("inv")
            if isinstance(m, mm.PositiveDefiniteMatrix):
                ops.append("sqrt_then_product")
            op = str(trng.choice(ops))
            try:
                if op == "T":
                    m, d = m.T, d.T
                elif op == "inv":
                    m, d = m.inv, np.linalg.inv(d)
                elif op == "neg":
                    m, d = -m, -d
                elif op == "mul":
                    s = float(trng.choice([-1, 1]) * trng.uniform(0.5, 2))
                    m, d = (m * s if trng.integers(2) else s * m), s * d
                elif op == "div":
                    s = float(trng.choice([-1, 1]) * trng.uniform(0.5, 2))
                    m, d = m / s, d / s
                elif op == "sqrt_then_product":
                    sq = m.sqrt
                    m, d = sq @ sq.T, d
                else:
                    m2, d2 = matzoo.make_leaf(trng, d.shape[0], str(trng.choice(matzoo.LEAF18)))
                    pool.append((m2, d2, (("operand",),)))
                    m, d = (m @ m2, d @ d2) if trng.integers(2) else (m2 @ m, d2 @ d)
            except NotImplementedError:
                break
            except Exception as e:  # noqa: BLE001
                bad += 1
                ctx.fail(f"op:{op}:{type(m).__name__}", f"{op} on {type(m).__name__} built by {path} raised {type(e).__name__}: {str(e)[:80]}", {"path": path, "op": op})
                break
            path.append(op)
            if np.linalg.cond(d) > 1e5:
                break
            pool.append((m, d, tuple(path)))
    ctx.oblige(f"search: {n_trees} random expression trees over all matrix classes / constructor options / sizes 1-4, every observable of every object in the "
               "tree (operands and intermediate results re-checked after later operations and lazy attribute accesses) vs dense NumPy", bad == 0, f"{bad} failures")


def lazy_sequence_search(ctx):
    """Systematic: every leaf kind x lazily cached attributes touched first x every sequence of two operations."""
    import itertools
    import mici.matrices as mm
    bad = 0
    ops = ["T", "inv", "neg", "mul"]
    pres = [(), ("log_abs_det",), ("inv",), ("T",), ("log_abs_det", "T"), ("inv", "T")]
    sizes = (4,) if not ctx.thorough else (2, 3, 4)
    for kind in matzoo.KINDS:
        for n in sizes:
            seed = int(ctx.rng.integers(0, 2 ** 31))
            for pre in pres:
                for seq in itertools.product(ops, repeat=2):
                    trng = np.random.default_rng(seed)
                    m, d = matzoo.make_leaf(trng, n, kind)
                    m0, d0 = m, d
                    try:
                        for a in pre:
                            if hasattr(m, a):
                                getattr(m, a)
                        for op in seq:
                            if op == "T":
                                m, d = m.T, d.T
                            elif op == "inv":
                                if not isinstance(m, mm.InvertibleMatrix):
                                    raise NotImplementedError
                                m, d = m.inv, np.linalg.inv(d)
                            elif op == "neg":
                                m, d = -m, -d
                            else:
                                m, d = 1.5 * m, 1.5 * d
                        errs = observables(m, d, trng)
                        errs0 = observables(m0, d0, trng)
                    except NotImplementedError:
                        continue
                    except Exception as e:  # noqa: BLE001
                        bad += 1
                        ctx.fail(f"lazy:raises:{kind}", f"{kind}(n={n}): after touching {pre}, operations {seq} raised {type(e).__name__}: {str(e)[:80]}",
                                 {"kind": kind, "n": n, "pre": pre, "ops": seq, "seed": seed})
                        continue
                    ctx.case(("lazy", kind, n, pre, seq))
                    ctx.count("search:lazy_sequences")
                    tol = 1e-7 * max(1.0, np.abs(d).max()) * max(1.0, np.linalg.cond(d))
                    for label, e_, who in (("result", errs, m), ("original operand", errs0, m0)):
                        worst = max(e_, key=lambda k: e_[k])
                        if not e_[worst] <= tol:
                            bad += 1
                            ctx.fail(f"lazy:{type(who).__name__}.{worst}", f"{kind}(n={n}): after touching {pre} and applying {seq}, {worst} of the {label} "
                                     f"({type(who).__name__}) differs from dense linear algebra by {e_[worst]:.2e}",
                                     {"kind": kind, "n": n, "pre": pre, "ops": seq, "seed": seed, "observable": worst, "which": label})
                            break
    ctx.oblige("search: every leaf kind x lazily cached attributes touched first x every sequence of two operations (T, inv, neg, scalar *): result and "
               "original operand vs dense NumPy", bad == 0, f"{bad} failures")


def run(ctx):
    ctx.rule = ("expression trees: leaf kind x size x random operations (T, inv, neg, scalar *, /, @, sqrt) with all earlier objects re-checked after each step; "
                "distinct = distinct (tree, step, path)")
    ctx.assume("exact rational arithmetic; LAPACK factorisations (eigh, cholesky, lu, sqrtm) are used as black boxes whose results are validated numerically",
               "log-determinant: the |det| identity behind each class's formula is proved abstractly (MathComp matrices over any real field, Props/C10det.v) and the formula "
               "table is generated from the source (T9); MathComp matrices do not compute, so that a class's arrays realise the matrices of its identity is covered by the "
               "dense-reference search only")
    ctx.trust("hand-written executable formulas coq/Model/Matrices.v tied by correspondence", "translator T9 tie/translate_logdet.py (fail closed)", "MathComp 1.15 (Lib/Det.v, Props/C10det.v)")
    import translate_logdet
    ok = ctx.regen("LogDetGen", translate_logdet.generate)
    model_ok = ctx.build(["Model/Matrices.vo"], label="executable model")
    if model_ok and ok and ctx.build(["Gen/LogDetGen.vo", "Props/C10.vo"]):
        ctx.props()
    if ctx.build(["Lib/Det.vo"], label="determinant identities (MathComp)"):
        ctx.props("Props/C10det.v")
    if model_ok:
        correspondence(ctx)
    tree_search(ctx)
    lazy_sequence_search(ctx)
