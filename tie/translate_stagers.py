"""T2: src/mici/stagers.py -> coq/Gen/StagersGen.v  (fail closed).

`WarmUpStager.stages` and `WindowedWarmUpStager.stages` are translated statement by statement into
Gallina functions returning `option (list stage)` (None only when the fuel of the `while` loop runs
out).  Integer variables become `Z` lets, the `while` becomes a fuelled Fixpoint over the variables
it carries, `int(<float> * e)` becomes `int_mul <decimal literal as Q> e` (Model/Stagers.v; agreement
with Python's float product is part of the correspondence), `sampling_stages[...] = ChainStage(...)`
appends a `stage` record whose adapters / trace_funcs / record_stats fields are classified
symbolically (All / Fast / NoAd; traced: bool; stats: bool).
"""
from __future__ import annotations

import ast
from fractions import Fraction

from common import REPO, Untranslatable

FAST_ADAPTERS_SRC = ("fast_adapters = {trans_key: [adapter for adapter in adapter_list if adapter.is_fast] "
                     "for trans_key, adapter_list in adapters.items()}")
TRACE_TUPLE_SRC = "trace_funcs = tuple(trace_funcs) if trace_funcs is not None else trace_funcs"
SELF_Q = {"slow_window_multiplier"}
SELF_Z = {"n_init_slow_window_iter", "n_init_fast_stage_iter", "n_final_fast_stage_iter"}


def U(node, why):
    return Untranslatable(f"stagers.py:{getattr(node, 'lineno', '?')}: {why}: {ast.unparse(node)[:90]}")


def assigned(stmts):
    out = []
    for st in stmts:
        if isinstance(st, ast.Assign):
            for t in st.targets:
                if isinstance(t, ast.Name) and t.id not in out:
                    out.append(t.id)
                elif isinstance(t, ast.Subscript) and isinstance(t.value, ast.Name) and t.value.id not in out:
                    out.append(t.value.id)
        elif isinstance(st, ast.AugAssign) and isinstance(st.target, ast.Name):
            if st.target.id not in out:
                out.append(st.target.id)
        elif isinstance(st, ast.If):
            for v in assigned(st.body) + assigned(st.orelse):
                if v not in out:
                    out.append(v)
        elif isinstance(st, (ast.While, ast.For)):
            for v in assigned(st.body):
                if v not in out:
                    out.append(v)
        elif isinstance(st, ast.Expr) and isinstance(st.value, ast.Call) and isinstance(st.value.func, ast.Attribute) \
                and st.value.func.attr == "append" and isinstance(st.value.func.value, ast.Name):
            if st.value.func.value.id not in out:
                out.append(st.value.func.value.id)
    return out


def names_read(node):
    return [n.id for n in ast.walk(node) if isinstance(n, ast.Name) and isinstance(n.ctx, ast.Load)]


class Fn:
    def __init__(self, cls, fn):
        self.cls, self.fn = cls, fn
        self.aux = []          # auxiliary Fixpoints emitted before the function
        self.nloops = 0
        self.keys = []

    # ------------------------------------------------------------ expressions
    def zexpr(self, e):
        if isinstance(e, ast.Name):
            return e.id
        if isinstance(e, ast.Constant) and isinstance(e.value, int) and not isinstance(e.value, bool):
            return f"({e.value})"
        if isinstance(e, ast.Attribute) and isinstance(e.value, ast.Name) and e.value.id == "self" and e.attr in SELF_Z:
            return f"self_{e.attr}"
        if isinstance(e, ast.BinOp) and isinstance(e.op, (ast.Add, ast.Sub)):
            return f"({self.zexpr(e.left)} {'+' if isinstance(e.op, ast.Add) else '-'} {self.zexpr(e.right)})"
        if (isinstance(e, ast.Call) and isinstance(e.func, ast.Name) and e.func.id == "int" and len(e.args) == 1
                and isinstance(e.args[0], ast.BinOp) and isinstance(e.args[0].op, ast.Mult)):
            return f"(int_mul {self.qexpr(e.args[0].left)} {self.zexpr(e.args[0].right)})"
        raise U(e, "unsupported integer expression")

    def qexpr(self, e):
        if isinstance(e, ast.Constant) and isinstance(e.value, (int, float)) and not isinstance(e.value, bool):
            f = Fraction(repr(e.value))          # the decimal literal as written
            return f"({f.numerator} # {f.denominator})"
        if isinstance(e, ast.Attribute) and isinstance(e.value, ast.Name) and e.value.id == "self" and e.attr in SELF_Q:
            return f"self_{e.attr}"
        if isinstance(e, ast.BinOp) and isinstance(e.op, ast.Add):
            return f"({self.qexpr(e.left)} + {self.qexpr(e.right)})%Q"
        raise U(e, "unsupported rational expression")

    def cond(self, e):
        if isinstance(e, ast.Compare) and len(e.ops) == 1:
            a, b = self.zexpr(e.left), self.zexpr(e.comparators[0])
            op = type(e.ops[0])
            if op is ast.Gt:
                return f"({b} <? {a})"
            if op is ast.Lt:
                return f"({a} <? {b})"
            if op is ast.GtE:
                return f"({b} <=? {a})"
            if op is ast.LtE:
                return f"({a} <=? {b})"
        raise U(e, "unsupported condition")

    def bexpr(self, e, env):
        """bool-typed: trace_funcs-like (is not None) or record_stats-like."""
        if isinstance(e, ast.Constant) and e.value is None:
            return "false"
        if isinstance(e, ast.Constant) and e.value is True:
            return "true"
        if isinstance(e, ast.Constant) and e.value is False:
            return "false"
        if isinstance(e, ast.Name):
            if e.id == "trace_funcs":
                return "has_trace"
            if e.id == "trace_warm_up":
                return "trace_warm_up"
            if env.get(e.id) == "bool":
                return e.id
        if isinstance(e, ast.IfExp) and isinstance(e.orelse, ast.Constant) and e.orelse.value is None:
            return f"({self.bexpr(e.test, env)} && {self.bexpr(e.body, env)})"
        raise U(e, "unsupported trace_funcs / record_stats expression")

    def adexpr(self, e):
        if isinstance(e, ast.Constant) and e.value is None:
            return "NoAd"
        if isinstance(e, ast.Name) and e.id == "adapters":
            return "All"
        if isinstance(e, ast.Name) and e.id == "fast_adapters" and self.has_fast:
            return "Fast"
        raise U(e, "unsupported adapters expression")

    def stage(self, call, env):
        if isinstance(call, ast.Call) and isinstance(call.func, ast.Name) and call.func.id == "ChainStage" and not call.args:
            kw = {k.arg: k.value for k in call.keywords}
            if set(kw) == {"n_iter", "adapters", "trace_funcs", "record_stats"}:
                return (f"{{| n_iter := {self.zexpr(kw['n_iter'])}; ads := {self.adexpr(kw['adapters'])}; "
                        f"traced := {self.bexpr(kw['trace_funcs'], env)}; stats := {self.bexpr(kw['record_stats'], env)} |}}")
        raise U(call, "unsupported stage constructor")

    # ------------------------------------------------------------ statements (CPS, result type option _)
    def block(self, stmts, env, final):
        """Translate stmts; `final(env)` gives the Coq term (of option type) for the end of the block."""
        if not stmts:
            return final(env)
        st, rest = stmts[0], stmts[1:]
        k = lambda env2: self.block(rest, env2, final)  # noqa: E731
        if isinstance(st, ast.Expr) and isinstance(st.value, ast.Constant) and isinstance(st.value.value, str):
            return k(env)
        src = ast.unparse(st)
        if src == TRACE_TUPLE_SRC:
            return k(env)
        if src == FAST_ADAPTERS_SRC:
            self.has_fast = True
            return k(env)
        if isinstance(st, ast.Assign) and len(st.targets) == 1:
            t, v = st.targets[0], st.value
            if isinstance(t, ast.Name):
                if isinstance(v, ast.Dict) and not v.keys:
                    return f"let {t.id} := @nil stage in\n  " + k({**env, t.id: "stages"})
                if isinstance(v, ast.List) and not v.elts:
                    return k({**env, t.id: "zlist_pending"})
                if t.id in ("warm_up_trace_funcs", "record_stats"):
                    return f"let {t.id} := {self.bexpr(v, env)} in\n  " + k({**env, t.id: "bool"})
                return f"let {t.id} := {self.zexpr(v)} in\n  " + k({**env, t.id: "Z"})
            if isinstance(t, ast.Subscript) and isinstance(t.value, ast.Name) and env.get(t.value.id) == "stages":
                key = t.slice
                if not (isinstance(key, ast.Constant) and isinstance(key.value, str)):
                    raise U(st, "stage key must be a string literal here")
                if key.value in self.keys:
                    raise U(st, "duplicate stage key (dict entry would be overwritten)")
                self.keys.append(key.value)
                d = t.value.id
                return f"let {d} := {d} ++ [{self.stage(v, env)}] in\n  " + k(env)
        if isinstance(st, ast.If):
            vs_t, vs_e = assigned(st.body), assigned(st.orelse)
            joined = [v for v in dict.fromkeys(vs_t + vs_e) if (v in vs_t and v in vs_e) or v in env]
            if not joined:
                raise U(st, "if statement without effect")
            tup = joined[0] if len(joined) == 1 else "(" + ", ".join(joined) + ")"
            pat = joined[0] if len(joined) == 1 else "(" + ", ".join(joined) + ")"
            fin = lambda e2: f"Some {tup}"  # noqa: E731
            a = self.block(list(st.body), dict(env), fin)
            b = self.block(list(st.orelse), dict(env), fin)
            env2 = dict(env)
            for v in joined:
                if v not in env2:
                    env2[v] = "Z"
            return (f"match (if {self.cond(st.test)} then\n  {a}\n  else\n  {b}) with\n  | None => None\n  | Some {pat} =>\n  "
                    + k(env2) + "\n  end")
        if isinstance(st, ast.While):
            return self.while_loop(st, rest, env, final)
        if isinstance(st, ast.For):
            return self.for_windows(st, env, k)
        if isinstance(st, ast.Return) and isinstance(st.value, ast.Name) and env.get(st.value.id) == "stages":
            return f"Some {st.value.id}"
        raise U(st, "unsupported statement")

    def while_loop(self, st, rest, env, final):
        # while a < b: body of int assignments, one-armed ifs and exactly one list append
        if not (isinstance(st.test, ast.Compare) and len(st.test.ops) == 1 and isinstance(st.test.ops[0], ast.Lt)):
            raise U(st, "while condition must be a < b")
        self.nloops += 1
        name = f"gen_{self.cls}_{self.fn}_while{self.nloops}"
        body_assigned = assigned(st.body)
        lists = [v for v in body_assigned if env.get(v) == "zlist_pending"]
        if len(lists) != 1:
            raise U(st, "loop must append to exactly one list")
        lst = lists[0]
        reads = []
        for n in names_read(st.test) + [x for s in st.body for x in names_read(s)]:
            if n not in reads and n != lst and n not in ("int", "self"):
                reads.append(n)
        carried = [v for v in body_assigned if v != lst and v in env]          # defined before, modified in loop
        local = [v for v in body_assigned if v != lst and v not in env]
        const = [v for v in reads if v not in carried and v not in local]
        for v in const:
            if env.get(v) not in ("Z",) and v not in self.params:
                raise U(st, f"loop reads {v} of unsupported kind")
        for v in carried + local:
            if any(v in names_read(s) for s in rest):
                raise U(st, f"variable {v} modified by the loop is read after it")
        params = carried + const
        lines = []
        appended = None
        for s in st.body:
            if isinstance(s, ast.Assign) and len(s.targets) == 1 and isinstance(s.targets[0], ast.Name):
                lines.append(f"let {s.targets[0].id} := {self.zexpr(s.value)} in")
            elif isinstance(s, ast.AugAssign) and isinstance(s.target, ast.Name) and isinstance(s.op, (ast.Add, ast.Sub)):
                op = "+" if isinstance(s.op, ast.Add) else "-"
                lines.append(f"let {s.target.id} := ({s.target.id} {op} {self.zexpr(s.value)}) in")
            elif (isinstance(s, ast.If) and not s.orelse and len(s.body) == 1 and isinstance(s.body[0], ast.Assign)
                  and isinstance(s.body[0].targets[0], ast.Name)):
                x = s.body[0].targets[0].id
                lines.append(f"let {x} := if {self.cond(s.test)} then {self.zexpr(s.body[0].value)} else {x} in")
            elif (isinstance(s, ast.Expr) and isinstance(s.value, ast.Call) and isinstance(s.value.func, ast.Attribute)
                  and s.value.func.attr == "append" and ast.unparse(s.value.func.value) == lst and len(s.value.args) == 1):
                if appended is not None:
                    raise U(s, "second append in loop")
                appended = True
                lines.append(f"let appended := {self.zexpr(s.value.args[0])} in")
            elif isinstance(s, ast.Expr) and isinstance(s.value, ast.Constant):
                continue
            else:
                raise U(s, "unsupported statement in loop")
        if not appended:
            raise U(st, "loop never appends")
        a, b = self.zexpr(st.test.left), self.zexpr(st.test.comparators[0])
        sig = " ".join(f"({p} : Z)" for p in params)
        self.aux.append(
            f"Fixpoint {name} (fuel : nat) {sig} : option (list Z) :=\n"
            f"  if ({a} <? {b}) then\n    match fuel with\n    | O => None\n    | S fuel =>\n      "
            + "\n      ".join(lines)
            + f"\n      match {name} fuel {' '.join(params)} with\n      | Some rest => Some (appended :: rest)\n      | None => None\n      end\n    end\n  else Some [].\n")
        env2 = {**env, lst: "zlist"}
        return (f"match {name} (Z.to_nat ({b} - {a}) + 1) {' '.join(params)} with\n  | None => None\n  | Some {lst} =>\n  "
                + self.block(rest, env2, final) + "\n  end")

    def for_windows(self, st, env, k):
        # for i, n_iter in enumerate(slow_windows): sampling_stages[f"...{i + 1}/{len(slow_windows)}..."] = (ChainStage(...))
        if not (isinstance(st.iter, ast.Call) and isinstance(st.iter.func, ast.Name) and st.iter.func.id == "enumerate"
                and len(st.iter.args) == 1 and isinstance(st.iter.args[0], ast.Name) and env.get(st.iter.args[0].id) == "zlist"
                and isinstance(st.target, ast.Tuple) and len(st.target.elts) == 2 and len(st.body) == 1):
            raise U(st, "unsupported for loop")
        lst = st.iter.args[0].id
        idx, item = (e.id for e in st.target.elts)
        a = st.body[0]
        if not (isinstance(a, ast.Assign) and isinstance(a.targets[0], ast.Subscript) and env.get(a.targets[0].value.id) == "stages"):
            raise U(st, "for body must add a stage")
        key = a.targets[0].slice
        if not (isinstance(key, ast.JoinedStr) and idx in names_read(key)):
            raise U(st, "stage key in loop must be an f-string containing the loop index (else entries overwrite each other)")
        if idx in names_read(a.value):
            raise U(st, "loop index used in the stage itself")
        d = a.targets[0].value.id
        self.keys.append(ast.unparse(key))
        body = self.stage(a.value, {**env, item: 'Z'})
        import re as _re
        body = _re.sub(rf"(?<!\| )(?<!; )\b{item}\b(?! :=)", f"{item}_v", body)      # do not shadow the record field
        return (f"let {d} := {d} ++ map (fun {item}_v : Z => {body}) {lst} in\n  " + k(env))

    # ------------------------------------------------------------
    def translate(self, node, selfparams):
        args = [a.arg for a in node.args.args] + [a.arg for a in node.args.kwonlyargs]
        if args != ["self", "n_warm_up_iter", "n_main_iter", "adapters", "trace_funcs", "trace_warm_up"]:
            raise U(node, "unexpected signature of stages")
        self.has_fast = False
        self.params = ["n_warm_up_iter", "n_main_iter"]
        env = {"n_warm_up_iter": "Z", "n_main_iter": "Z"}
        body = self.block(list(node.body), env, lambda e: (_ for _ in ()).throw(U(node, "function falls off the end")))
        sp = "".join(f" ({p} : {t})" for p, t in selfparams)
        head = (f"Definition gen_{self.cls}_{self.fn}{sp} (n_warm_up_iter n_main_iter : Z) (has_trace trace_warm_up : bool)"
                f" : option (list stage) :=\n  {body}.\n")
        return self.aux, head


def generate():
    tree = ast.parse((REPO / "src/mici/stagers.py").read_text())
    classes = {n.name: n for n in tree.body if isinstance(n, ast.ClassDef)}
    out = ["(* generated by tie/translate_stagers.py (T2) from src/mici/stagers.py -- do not edit *)",
           "From Coq Require Import ZArith QArith List Bool.", "Require Import Mici.Model.Stagers.",
           "Import ListNotations.", "Open Scope Z_scope.", ""]
    # ChainStage field order (positional use elsewhere)
    cs = classes.get("ChainStage")
    fields = [s.target.id for s in cs.body if isinstance(s, ast.AnnAssign)] if cs else []
    if fields != ["n_iter", "adapters", "trace_funcs", "record_stats"]:
        raise Untranslatable(f"ChainStage fields changed: {fields}")
    for cname, selfparams in (("WarmUpStager", []),
                              ("WindowedWarmUpStager", [("self_n_init_slow_window_iter", "Z"), ("self_n_init_fast_stage_iter", "Z"),
                                                        ("self_n_final_fast_stage_iter", "Z"), ("self_slow_window_multiplier", "Q")])):
        c = classes.get(cname)
        if c is None:
            raise Untranslatable(f"class {cname} missing")
        fn = next((n for n in c.body if isinstance(n, ast.FunctionDef) and n.name == "stages"), None)
        if fn is None:
            raise Untranslatable(f"{cname}.stages missing")
        if cname == "WindowedWarmUpStager":
            init = next((n for n in c.body if isinstance(n, ast.FunctionDef) and n.name == "__init__"), None)
            want = {f"self.{p} = {p}" for p in SELF_Q | SELF_Z}
            got = {ast.unparse(s) for s in init.body if isinstance(s, ast.Assign)} if init else set()
            if got != want:
                raise Untranslatable(f"WindowedWarmUpStager.__init__ no longer stores its arguments unchanged: {sorted(got)}")
            defaults = {a.arg: ast.literal_eval(d) for a, d in zip(init.args.args[1:], init.args.defaults)}
            out.append(f"Definition default_windowed_settings : Z * Z * Z * Q := "
                       f"({defaults['n_init_slow_window_iter']}, {defaults['n_init_fast_stage_iter']}, "
                       f"{defaults['n_final_fast_stage_iter']}, {Fraction(repr(defaults['slow_window_multiplier'])).numerator} # "
                       f"{Fraction(repr(defaults['slow_window_multiplier'])).denominator}).\n")
        f = Fn(cname, "stages")
        f.params = []
        aux, head = f.translate(fn, selfparams)
        if selfparams:
            sp = "".join(f" ({p} : {t})" for p, t in selfparams)
            aux = [a.replace(" (fuel : nat)", f"{sp} (fuel : nat)", 1) for a in aux]
            # recursive and outer calls must pass the settings through
            names = [a.split()[1] for a in aux]
            spn = " ".join(p for p, _ in selfparams)
            for nme in names:
                aux = [a.replace(f"match {nme} fuel", f"match {nme} {spn} fuel") for a in aux]
                head = head.replace(f"match {nme} (", f"match {nme} {spn} (")
        out += aux + [head]
    return "\n".join(out)


if __name__ == "__main__":
    print(generate())
