"""Correspondence between coq/Model/Sampler.v (+ SamplerInst.v, the T2-generated stagers) and the real
mici.samplers.sample_chains run with the stubs of sampler_stubs.py."""
from __future__ import annotations

import logging

from common import coq_list, parse_coq_value

logging.getLogger("mici.samplers").setLevel(logging.CRITICAL)


def zl(xs):
    return coq_list([f"({int(x)})" for x in xs])


def stage_lit(n, ads, traced, stats):
    return f"{{| n_iter := {n}; ads := {ads}; traced := {'true' if traced else 'false'}; stats := {'true' if stats else 'false'} |}}"


def stages_expr(case):
    k = case["stager"]
    ht = "true" if case["has_trace"] else "false"
    tw = "true" if case["trace_warm_up"] else "false"
    if k[0] == "list":
        e = "Some " + coq_list([stage_lit(*s) for s in k[1]])
    elif k[0] == "warmup":
        e = f"gen_WarmUpStager_stages {case['n_warm']} {case['n_main']} {ht} {tw}"
    else:
        s1, s2, s3, m = k[1]
        from fractions import Fraction
        f = Fraction(repr(m))
        e = f"gen_WindowedWarmUpStager_stages {s1} {s2} {s3} ({f.numerator} # {f.denominator}) {case['n_warm']} {case['n_main']} {ht} {tw}"
    cfg = case["adapters"]
    if cfg == "fast":
        e = f"option_map (map (fun s => {{| n_iter := n_iter s; ads := match ads s with All => Fast | a => a end; traced := traced s; stats := stats s |}})) ({e})"
    elif not cfg:
        e = f"option_map (map (fun s => {{| n_iter := n_iter s; ads := NoAd; traced := traced s; stats := stats s |}})) ({e})"
    return e


def model_outcomes(ctx, cases, draws_for):
    terms = []
    for c in cases:
        nrows = c["n_warm"] + c["n_main"] if c["trace_warm_up"] else c["n_main"]
        draws = coq_list([zl(d) for d in draws_for(c)])
        intr = "None" if c["intr"] is None else f"(Some {c['intr']}%nat)"
        terms.append(f"match {stages_expr(c)} with Some l => run_inst {draws} l {len(c['inits'])}%nat {intr} {zl(c['inits'])} "
                     f"({c['p0'][0]}, {c['p0'][1]}) {nrows}%nat | None => ([], [], [], [], [], -1) end")
    body = ("Require Import Mici.Model.Stagers Mici.Model.Sampler Mici.Model.SamplerInst Mici.Gen.StagersGen.\nOpen Scope Z_scope.\n")
    out = []
    for i in range(0, len(terms), 60):
        body_i = body + "Eval vm_compute in " + coq_list(terms[i:i + 60]) + ".\n"
        out += parse_coq_value(ctx.coq_eval(body_i, name="sampler_cases")[0])
    return out


def real_stager(case):
    from mici.stagers import WarmUpStager, WindowedWarmUpStager
    from sampler_stubs import ListStager
    k = case["stager"]
    if k[0] == "list":
        return ListStager(k[1])
    if k[0] == "warmup":
        return WarmUpStager()
    s1, s2, s3, m = k[1]
    return WindowedWarmUpStager(n_init_slow_window_iter=s1, n_init_fast_stage_iter=s2, n_final_fast_stage_iter=s3, slow_window_multiplier=m)


def real_outcome(case, **kw):
    from sampler_stubs import run_real
    return run_real(case["seed"], case["inits"], case["p0"], case["n_warm"], case["n_main"], real_stager(case), case["adapters"],
                    case["has_trace"], case["trace_warm_up"], intr_k=case["intr"], **kw)


def draws_for(case):
    from sampler_stubs import draws_table
    n = 2 * (case["n_warm"] + case["n_main"]) + 8 * 8 + 16
    return draws_table(case["seed"], len(case["inits"]), n)


def compare(case, model, real):
    """-> list of human-readable differences between the model's and the implementation's outcome."""
    mtr, mst, mfin, mpar, mlog, mint = model
    diffs = []
    if mint == -1:
        return ["model: stager did not terminate (fuel exhausted)"]
    if real["traces"] is not None and [list(r) for r in mtr] != real["traces"]:
        diffs.append(f"trace arrays differ: model {mtr} vs implementation {real['traces']}")
    if [list(r) for r in mst] != real["stats"]:
        diffs.append(f"statistics arrays differ: model {mst} vs implementation {real['stats']}")
    if list(mfin) != real["final"]:
        diffs.append(f"returned final states differ: model {mfin} vs implementation {real['final']}")
    if list(mpar) != real["par"]:
        diffs.append(f"final transition parameters differ: model {mpar} vs implementation {real['par']}")
    if list(mlog) != real["parlog"]:
        diffs.append(f"parameters seen by the transition calls differ: model {mlog} vs implementation {real['parlog']}")
    if int(mint) != real["interrupted"]:
        diffs.append(f"interrupted flag: model {mint} vs implementation {real['interrupted']}")
    return diffs


def gen_case(rng, kind):
    """kind: 'plain' (no interrupt) | 'intr'."""
    nchain = int(rng.integers(1, 4))
    inits = [int(x) for x in rng.integers(0, 1000, size=nchain)]
    seed = int(rng.integers(0, 2 ** 31))
    adapters = [True, True, "fast", False][int(rng.integers(0, 4))]
    has_trace = bool(rng.random() < 0.8)
    tw = bool(rng.random() < 0.5)
    r = rng.random()
    if r < 0.35 and adapters is not False:
        st = ("windowed", [(25, 75, 50, 2), (1, 0, 0, 1), (2, 1, 1, 1.5), (3, 2, 0, 2), (1, 1, 1, 3), (5, 3, 2, 2.5)][int(rng.integers(0, 6))])
        n_warm, n_main = int(rng.integers(0, 40)), int(rng.integers(0, 6))
    elif r < 0.55:
        st = ("warmup",)
        n_warm, n_main = int(rng.integers(0, 8)), int(rng.integers(0, 6))
    else:
        spec = []
        for _ in range(int(rng.integers(0, 5))):
            if rng.random() < 0.5:
                spec.append((int(rng.choice([0, 0, 1, 2, 3, 5])), str(rng.choice(["Fast", "All"])), tw and has_trace, tw))
            else:   # a user-defined stager may trace a stage without recording its statistics, and vice versa
                # (only when trace_warm_up is set: the arrays are sized for warm-up rows only then)
                spec.append((int(rng.choice([0, 1, 2, 3, 5])), str(rng.choice(["Fast", "All"])), bool(tw and has_trace and rng.random() < 0.6), bool(tw and rng.random() < 0.5)))
        nm = int(rng.choice([0, 1, 2, 4]))
        if nm or rng.random() < 0.3:
            spec.append((nm, "NoAd", has_trace, True))
        st = ("list", spec)
        n_warm = sum(s[0] for s in spec if s[1] != "NoAd")
        n_main = sum(s[0] for s in spec if s[1] == "NoAd")
    case = {"seed": seed, "inits": inits, "p0": (int(rng.integers(1, 9)), int(rng.integers(1, 9))), "n_warm": n_warm, "n_main": n_main,
            "stager": st, "adapters": adapters, "has_trace": has_trace, "trace_warm_up": tw, "intr": None}
    if kind == "intr":
        total_calls = (n_warm + n_main) * nchain * 2 + 1
        case["intr"] = int(rng.integers(0, max(1, total_calls)))
    return case


def run_cases(ctx, cases, tag, fail_key="corr:sampler"):
    models = model_outcomes(ctx, cases, draws_for)
    bad = 0
    for c, m in zip(cases, models):
        real = real_outcome(c)
        d = compare(c, m, real)
        ctx.case((tag, repr(c["stager"]), c["adapters"], len(c["inits"]), c["intr"], c["has_trace"], c["trace_warm_up"], c["seed"]))
        ctx.count(f"{tag}:stager:{c['stager'][0]}")
        ctx.count(f"{tag}:chains:{len(c['inits'])}")
        ctx.count(f"{tag}:adapters:{c['adapters']}")
        if c["intr"] is not None:
            ctx.count(f"{tag}:interrupt:{'hit' if real['interrupted'] else 'beyond_end'}")
        if d:
            bad += 1
            ctx.fail(fail_key, f"sampler model and sample_chains disagree ({tag}): {d[0][:300]}", {"case": c, "differences": d[:4]}, kind="corr")
        if len(ctx.samples) < 3:
            ctx.sample({"case": c, "stats_rows_chain0": real["stats"][0][:12], "final_states": real["final"]})
    ctx.oblige(f"correspondence[{tag}]: {len(cases)} runs of the real sample_chains vs Model/Sampler.v (trace/stat arrays, final states, parameters seen by every transition call)", bad == 0, f"{bad} disagreements")
    return bad
