"""C14 -- sampling is reproducible and independent of process scheduling."""
from __future__ import annotations

import time

import numpy as np

from common import coq_list, parse_coq_value

LEVEL = "proof"
DELAYS = {}


def nld(q):
    d = DELAYS.get(round(float(q[0]), 6))
    if d:
        time.sleep(d)
    return 0.5 * float(q @ q) + 0.1 * float(np.sum(q ** 4))


def nld_start_delay(q):
    return nld(q)


def gnld(q):
    return q + 0.4 * q ** 3


def tr(state):
    return {"pos": state.pos}


class CountingGen:
    pass


def make(kind, seed, bitgen):
    import mici
    system = mici.systems.EuclideanMetricSystem(nld, grad_neg_log_dens=gnld)
    integ = mici.integrators.LeapfrogIntegrator(system, step_size=0.3)
    rng = np.random.Generator(getattr(np.random, bitgen)(seed))
    if kind == "static":
        return mici.samplers.StaticMetropolisHMC(system, integ, rng, n_step=2)
    return mici.samplers.DynamicMultinomialHMC(system, integ, rng, max_tree_depth=3)


def run_cfg(kind, seed, bitgen, inits, n_warm, n_main, adapters, n_process, with_mom):
    import mici
    from mici.states import ChainState
    s = make(kind, seed, bitgen)
    metric0 = s.system.metric
    if with_mom:
        init = [ChainState(pos=np.array(q), mom=np.array(q)[::-1].copy(), dir=1) for q in inits]
    else:
        init = [np.array(q) for q in inits]
    ad = None
    if adapters:
        ad = [mici.adapters.DualAveragingStepSizeAdapter(0.8)]
        if adapters == "metric":
            ad.append(mici.adapters.OnlineVarianceMetricAdapter())
    try:
        out = s.sample_chains(n_warm, n_main, init, trace_funcs=[tr], adapters=ad, n_process=n_process, display_progress=False,
                              stager=mici.stagers.WindowedWarmUpStager(4, 2, 2, 2) if adapters == "metric" else None, trace_warm_up=True)
    finally:
        s.system.metric = metric0
    return ([np.asarray(a).copy() for a in out.traces["pos"]], {k: [np.asarray(a).copy() for a in v] for k, v in out.statistics.items()},
            [np.asarray(st.pos).copy() for st in out.final_states])


def same(a, b):
    return (all(np.array_equal(x, y) for x, y in zip(a[0], b[0])) and all(np.array_equal(x, y, equal_nan=True) for k in a[1] for x, y in zip(a[1][k], b[1][k]))
            and all(np.array_equal(x, y) for x, y in zip(a[2], b[2])))


def collate_correspondence(ctx):
    """_sample_chains_parallel's collation vs Model.Parallel.collate on random permutations of indexed outputs."""
    rng = ctx.rng
    cases = []
    for _ in range(40):
        n = int(rng.integers(1, 7))
        vals = [int(x) for x in rng.integers(0, 100, size=n)]
        perm = [int(x) for x in rng.permutation(n)]
        cases.append((perm, vals))
    body = "Require Import Mici.Model.Parallel.\nOpen Scope nat_scope.\nEval vm_compute in " + coq_list(
        ["collate nat " + coq_list([f"({i}, {v[i]})" for i in p]) for p, v in cases]) + ".\n"
    model = parse_coq_value(ctx.coq_eval(body, name="collate_cases")[0])
    bad = 0
    for (p, v), m in zip(cases, model):
        # what the implementation does with worker results (sorted by chain index)
        real = [o for _, o in sorted([(i, v[i]) for i in p], key=lambda x: x[0])]
        ctx.case(("collate", tuple(p)))
        if list(m) != real or real != v:
            bad += 1
            ctx.fail("corr:collate", f"collation of {[(i, v[i]) for i in p]}: model {m}, sorted {real}, chain order {v}", {"perm": p, "vals": v}, kind="corr")
    ctx.oblige(f"correspondence: {len(cases)} random completion orders, Model.Parallel.collate vs index-sorted outputs vs chain order", bad == 0, f"{bad}")


def scheduling_search(ctx):
    global DELAYS
    bad = 0
    bitgens = ["PCG64", "Philox"] if not ctx.thorough else ["PCG64", "Philox", "MT19937", "SFC64", "PCG64DXSM"]
    cfgs = []
    for kind in ("static", "multinomial"):
        for bitgen in bitgens:
            for (n_warm, n_main, adapters) in ((0, 5, None), (6, 4, "step"), (12, 4, "metric")):
                for n_chain in (2, 4):
                    cfgs.append((kind, bitgen, n_warm, n_main, adapters, n_chain))
    if not ctx.thorough:
        cfgs = [c for i, c in enumerate(cfgs) if i % 3 == 0 or c[4] == "metric"][:10]
    for kind, bitgen, n_warm, n_main, adapters, n_chain in cfgs:
        seed = int(ctx.rng.integers(0, 2 ** 31))
        inits = [[round(float(x), 6) for x in ctx.rng.standard_normal(2)] for _ in range(n_chain)]
        DELAYS = {}
        base = run_cfg(kind, seed, bitgen, inits, n_warm, n_main, adapters, 1, True)
        again = run_cfg(kind, seed, bitgen, inits, n_warm, n_main, adapters, 1, True)
        ctx.case(("repro", kind, bitgen, n_warm, n_main, adapters, n_chain))
        if not same(base, again):
            bad += 1
            ctx.fail("nondeterministic", f"two sequential runs with seed {seed} differ ({kind}, {bitgen}, warm {n_warm}, main {n_main}, adapters {adapters})",
                     {"kind": kind, "bitgen": bitgen, "seed": seed})
        for n_process in ((2, 3) if ctx.thorough else (2,)):
            for sched in range(2):
                # delay the first density evaluations of some chains so that pick-up and completion order vary
                DELAYS = {inits[c][0]: 0.05 * ((c + sched) % n_chain) for c in range(n_chain)} if sched else {}
                par = run_cfg(kind, seed, bitgen, inits, n_warm, n_main, adapters, n_process, True)
                ctx.case(("sched", kind, bitgen, n_warm, n_main, adapters, n_chain, n_process, sched))
                ctx.count(f"search:parallel:{adapters}")
                if not same(base, par):
                    d = [c for c in range(n_chain) if not np.array_equal(base[0][c], par[0][c])]
                    key = "parallel_differs:" + ("adaptive" if adapters else "plain") + (":multi_stage" if n_warm else "")
                    bad += not ctx.is_known(key)
                    ctx.fail(key, f"n_process={n_process} (delay pattern {sched}) gives different output than n_process=1 for seed {seed} ({kind}, {bitgen}, warm {n_warm}, "
                             f"main {n_main}, adapters {adapters}): chains {d} differ",
                             {"kind": kind, "bitgen": bitgen, "seed": seed, "inits": inits, "n_warm": n_warm, "n_main": n_main, "adapters": adapters,
                              "n_process": n_process, "delays": sched, "chains": d})
        DELAYS = {}
        # a chain does not depend on the other chains (no cross-chain adaptation): states given with momentum, and as bare arrays
        if not adapters:      # every adapter's finalize pools the chains (cross-chain adaptation)
            for with_mom in (True, False):
                full = run_cfg(kind, seed, bitgen, inits, n_warm, n_main, adapters, 1, with_mom)
                alone = run_cfg(kind, seed, bitgen, inits[:1], n_warm, n_main, adapters, 1, with_mom)
                moved = run_cfg(kind, seed, bitgen, [inits[0]] + [[x + 1.0 for x in q] for q in inits[1:]], n_warm, n_main, adapters, 1, with_mom)
                ctx.case(("indep", kind, bitgen, n_warm, adapters, with_mom))
                ctx.count("search:chain_independence")
                if not np.array_equal(full[0][0], moved[0][0]):
                    bad += 1
                    ctx.fail("chain_depends_on_other_starts", f"chain 0 changes when the other chains start elsewhere (seed {seed}, {kind}, {bitgen}, adapters {adapters})",
                             {"kind": kind, "bitgen": bitgen, "seed": seed, "with_mom": with_mom})
                if not np.array_equal(full[0][0], alone[0][0]):
                    key = "chain_depends_on_chain_count:" + ("states_with_momentum" if with_mom else "init_momentum_from_base_generator")
                    bad += not ctx.is_known(key)
                    ctx.fail(key, f"chain 0 differs between a {n_chain}-chain run and a 1-chain run with the same seed {seed} "
                             f"({'ChainState inits with momentum' if with_mom else 'array inits: momenta drawn from the base generator before the per-chain streams are derived'}; "
                             f"{kind}, {bitgen}, adapters {adapters})", {"kind": kind, "bitgen": bitgen, "seed": seed, "with_mom": with_mom, "n_chain": n_chain})
        # distinct chains use distinct streams: identical starts must give different chains
        two = run_cfg(kind, seed, bitgen, [inits[0], inits[0]], 0, 6, None, 1, True)
        ctx.case(("distinct", kind, bitgen))
        if np.array_equal(two[0][0], two[0][1]):
            bad += 1
            ctx.fail("streams_not_distinct", f"two chains with the same start produce identical traces (seed {seed}, {bitgen})", {"seed": seed, "bitgen": bitgen})
    ctx.oblige("search: same seed across n_process in {1,2,(3)}, per-chain delays permuting pick-up / completion order, chain counts, single and multi-stage, "
               "adapters, bit generators: outputs identical; chains independent of the other chains; distinct streams", bad == 0, f"{bad} failures")


def stream_search(ctx):
    """A stream is never replayed within a run: across stages, no block of draws recurs (sequential and 2 processes)."""
    from sampler_stubs import run_real
    import sampler_corr
    bad = 0
    # every supported generator type (with and without `jumped`, and the legacy interface): chain k's stream does not depend on how many chains run
    for bitgen in ("PCG64", "PCG64DXSM", "Philox", "MT19937", "SFC64"):
        seed = int(ctx.rng.integers(0, 2 ** 31))
        inits = [int(x) for x in ctx.rng.integers(0, 1000, size=3)]
        runs = {n: run_real(seed, inits[:n], (3, 4), 0, 5, None, False, True, False, bitgen=bitgen) for n in (1, 2, 3)}
        ctx.case(("stream-count", bitgen))
        ctx.count("search:stream_vs_chain_count")
        for n in (2, 3):
            for c in range(min(n, 2)):
                if c < 1 and (runs[1]["traces"][0] != runs[n]["traces"][0] or runs[1]["stats"][0] != runs[n]["stats"][0]):
                    bad += 1
                    ctx.fail(f"stream_depends_on_chain_count:{bitgen}", f"{bitgen}: chain 0 of a 1-chain run differs from chain 0 of a {n}-chain run with the same seed {seed} "
                             f"(stub transition, states given completely)", {"bitgen": bitgen, "seed": seed, "n_chain": n})
                    break
            if runs[2]["traces"][1] != runs[3]["traces"][1]:
                bad += 1
                ctx.fail(f"stream_depends_on_chain_count:{bitgen}", f"{bitgen}: chain 1 of a 2-chain run differs from chain 1 of a 3-chain run (seed {seed})", {"bitgen": bitgen, "seed": seed})
                break
    for n_process in (1, 2):
        for trial in range(3):
            seed = int(ctx.rng.integers(0, 2 ** 31))
            spec = [(3, "NoAd", True, True), (3, "NoAd", True, True), (2, "NoAd", True, True)]
            from sampler_stubs import ListStager
            r = run_real(seed, [1, 2], (3, 4), 0, 8, ListStager(spec), False, True, True, n_process=n_process)
            # states are a deterministic function of the draws; with replays stage 2 would repeat stage 1's increments
            tr_ = r["traces"]
            ctx.case(("streams", n_process, trial))
            ctx.count("search:stream_replay")
            base = run_real(seed, [1, 2], (3, 4), 0, 8, ListStager([(8, "NoAd", True, True)]), False, True, True, n_process=1)
            if tr_ != base["traces"]:
                bad += 1
                ctx.fail("stream_replayed" if n_process > 1 else "stage_split_changes_chain", f"n_process={n_process}: an 8-iteration run split into stages 3+3+2 differs from the "
                         f"single-stage run with the same seed {seed} (the per-chain generator is not continued across stages)", {"seed": seed, "n_process": n_process})
    ctx.oblige("search: splitting a run into stages does not change the chains (generator state continued, never replayed), sequential and 2 processes", bad == 0, f"{bad}")


def run(ctx):
    ctx.rule = "configurations: (sampler, bit generator, stages, adapters, chain count) x process count x delay pattern; outputs compared bitwise with n_process=1"
    ctx.assume("OS scheduling is perturbed with per-chain delays, not enumerated", "cross-chain adaptation (metric adapters pooling chains) is excluded from the chain-independence clause")
    ctx.trust("hand model coq/Model/Parallel.v (collation, streams) tied by correspondence and the search")
    model_ok = ctx.build(["Model/Parallel.vo"], label="executable model")
    if model_ok and ctx.build(["Props/C14.vo"]):
        ctx.props()
    if model_ok:
        collate_correspondence(ctx)
    stream_search(ctx)
    scheduling_search(ctx)
