"""C06 -- a step of size eps approximates the exact flow over time eps to second order."""
from __future__ import annotations

import numpy as np

import integ_corr
import translate_integrators
import zoo

LEVEL = "proof"


def rk4_flow(s, st, T, nsub=400):
    from mici.states import ChainState
    q, p = st.pos.copy(), st.mom.copy()

    def f(q, p):
        ss = ChainState(pos=q.copy(), mom=p.copy(), dir=1)
        return s.dh_dmom(ss), -(s.dh1_dpos(ss) + s.dh2_dpos(ss))
    h = T / nsub
    for _ in range(nsub):
        k1q, k1p = f(q, p)
        k2q, k2p = f(q + 0.5 * h * k1q, p + 0.5 * h * k1p)
        k3q, k3p = f(q + 0.5 * h * k2q, p + 0.5 * h * k2p)
        k4q, k4p = f(q + h * k3q, p + h * k3p)
        q = q + h / 6 * (k1q + 2 * k2q + 2 * k3q + k4q)
        p = p + h / 6 * (k1p + 2 * k2p + 2 * k3p + k4p)
    return q, p


def tail_orders(errs, floor):
    """observed orders on the two finest step-size pairs (coarser pairs can be pre-asymptotic: error terms of different sign cancel at some states)"""
    if min(errs) <= floor:
        return [3.0, 3.0]
    return [float(np.log2(errs[i] / errs[i + 1])) for i in range(len(errs) - 3, len(errs) - 1)]


def order_search(ctx):
    import mici
    from mici.errors import IntegratorError
    from mici.states import ChainState
    bad = 0
    systems, _ = zoo.make_systems("bare")
    EPS = (0.08, 0.04, 0.02, 0.01)
    for name, s in systems.items():
        if zoo.is_constrained(name):
            continue
        rng = np.random.default_rng(int(ctx.rng.integers(0, 2 ** 31)))
        for rep in range(1 if not ctx.thorough else 4):
            st0 = zoo.random_state(name, s, rng)
            for iname, integ in zoo.integrators_for(name, s, 0.05).items():
                errs = []
                try:
                    for eps in EPS:
                        integ.step_size = eps
                        r = integ.step(st0)
                        qr, pr = rk4_flow(s, st0, eps)
                        errs.append(max(np.abs(r.pos - qr).max(), np.abs(r.mom - pr).max()))
                except IntegratorError:
                    continue
                ctx.case(("order", name, iname, rep))
                ctx.count("search:order_unconstrained")
                orders = tail_orders(errs, 1e-13)
                if max(orders) < 2.5 and errs[-1] > 1e-9:
                    bad += 1
                    ctx.fail(f"order:{iname}:{type(s).__name__}", f"{iname} on {name}: local error vs an RK4 reference of the system's own Hamilton equations is "
                             f"{[float(f'{e:.2e}') for e in errs]} at eps={EPS}: observed order {max(orders):.2f} < 3 on the two finest step-size pairs",
                             {"integrator": iname, "system": name, "errors": [float(e) for e in errs], "eps": EPS, "pos": st0.pos.tolist(), "mom": st0.mom.tolist()})
    # constrained: closed-form geodesic flow on the unit sphere (time scale of the h2 sub-flow), all solvers / inner step counts
    s, point, d = zoo.make_curved("sphere")
    rng = np.random.default_rng(int(ctx.rng.integers(0, 2 ** 31)))
    for solver in (mici.solvers.solve_projection_onto_manifold_newton, mici.solvers.solve_projection_onto_manifold_quasi_newton,
                   mici.solvers.solve_projection_onto_manifold_newton_with_line_search):
        for n_inner in (1, 2, 4):
            q = point(rng)
            st0 = ChainState(pos=q, mom=None, dir=1)
            st0.mom = s.sample_momentum(st0, rng)
            w = np.linalg.norm(st0.mom)
            errs = []
            for eps in EPS:
                integ = mici.integrators.ConstrainedLeapfrogIntegrator(s, eps, n_inner_step=n_inner, projection_solver=solver)
                r = integ.step(st0)
                qe = q * np.cos(w * eps) + st0.mom / w * np.sin(w * eps)
                pe = -q * w * np.sin(w * eps) + st0.mom * np.cos(w * eps)
                errs.append(max(np.abs(r.pos - qe).max(), np.abs(r.mom - pe).max()))
            ctx.case(("geodesic", solver.__name__, n_inner))
            ctx.count("search:order_constrained_sphere")
            orders = tail_orders(errs, 1e-13)
            if max(orders) < 2.5 and errs[-1] > 1e-9:
                bad += 1
                ctx.fail(f"order:constrained:n_inner={n_inner}", f"ConstrainedLeapfrogIntegrator(n_inner_step={n_inner}, {solver.__name__[31:] or 'newton'}) on the unit "
                         f"sphere: error vs the closed-form geodesic {[float(f'{e:.2e}') for e in errs]} at eps={EPS}: observed order {max(orders):.2f} < 3 on the two finest step-size pairs",
                         {"n_inner": n_inner, "solver": solver.__name__, "errors": [float(e) for e in errs], "pos": q.tolist(), "mom": st0.mom.tolist()})
    # constrained zoo systems: different inner step counts approximate the same flow (difference O(eps^3))
    for name in ("constr_hTrue", "constr_hFalse", "gauss_constr"):
        sysm = systems[name]
        st0 = zoo.random_state(name, sysm, rng)
        diffs = []
        try:
            for eps in EPS:
                a = mici.integrators.ConstrainedLeapfrogIntegrator(sysm, eps, n_inner_step=1).step(st0)
                b = mici.integrators.ConstrainedLeapfrogIntegrator(sysm, eps, n_inner_step=3).step(st0)
                diffs.append(max(np.abs(a.pos - b.pos).max(), np.abs(a.mom - b.mom).max()))
        except IntegratorError:
            continue
        ctx.case(("inner", name))
        ctx.count("search:order_constrained_inner")
        if name.startswith("gauss"):
            continue      # exact h2 flow: inner step count changes only the projection error
        orders = tail_orders(diffs, 1e-13)
        if max(orders) < 2.5 and diffs[-1] > 1e-9:
            bad += 1
            ctx.fail(f"order:constrained_inner:{name}", f"ConstrainedLeapfrogIntegrator on {name}: n_inner_step=1 and 3 differ by {[float(f'{e:.2e}') for e in diffs]} "
                     f"at eps={EPS}: observed order {max(orders):.2f} < 3 on the two finest step-size pairs (they should approximate the same flow)",
                     {"system": name, "diffs": [float(e) for e in diffs], "pos": st0.pos.tolist(), "mom": st0.mom.tolist()})
    # constrained systems with a potential: reference = RK4 on the constrained Hamilton equations (multipliers from the twice-differentiated constraint) whose
    # force is the finite-difference gradient of the system's own Hamiltonian VALUE h(q, 0) -- independent of every gradient routine of the implementation
    import mici.systems as S
    Mdense = np.diag([1.0, 2.0, 0.5, 1.5]) + 0.2 * np.ones((4, 4))
    H1 = np.zeros((4, 4))
    H1[0, 1] = H1[1, 0] = 1.0
    mhp = lambda q: (lambda m: m[0] @ (2 * np.eye(4)) + m[1] @ H1)  # noqa: E731
    csys = {n: systems[n] for n in ("constr_hTrue", "constr_hFalse", "gauss_constr")}
    csys["constr_hFalse_dense"] = S.DenseConstrainedEuclideanMetricSystem(lambda q: 0.5 * np.sum((q - 0.2) ** 2), zoo.constr_fn, metric=Mdense, dens_wrt_hausdorff=False,
                                                                         grad_neg_log_dens=lambda q: q - 0.2, jacob_constr=zoo.jac_fn, mhp_constr=mhp)
    csys["gauss_constr_dense"] = S.GaussianDenseConstrainedEuclideanMetricSystem(lambda q: 0.1 * np.sum(q ** 4), zoo.constr_fn, metric=Mdense,
                                                                                grad_neg_log_dens=lambda q: 0.4 * q ** 3, jacob_constr=zoo.jac_fn, mhp_constr=mhp)
    for name, sysm in csys.items():
        Mi = np.linalg.inv(np.asarray(sysm.metric.array))
        crng = np.random.default_rng(int(ctx.rng.integers(0, 2 ** 31)))
        q0 = zoo.on_manifold_point(crng)
        st0 = ChainState(pos=q0.copy(), mom=None, dir=1)
        st0.mom = sysm.sample_momentum(st0, crng)

        def U(q, sysm=sysm):
            return float(sysm.h(ChainState(pos=q.copy(), mom=np.zeros_like(q), dir=1)))

        def rhs(q, p, Mi=Mi):
            g = zoo.fd_grad(U, q, h=1e-5)
            v = Mi @ p
            J = zoo.jac_fn(q)
            hh = 1e-5
            Jdot = (zoo.jac_fn(q + hh * v) - zoo.jac_fn(q - hh * v)) / (2 * hh)
            lam = np.linalg.solve(J @ Mi @ J.T, Jdot @ v - J @ Mi @ g)
            return v, -g - J.T @ lam

        def ref_flow(T, nsub=100):
            q, p = st0.pos.copy(), st0.mom.copy()
            h = T / nsub
            for _ in range(nsub):
                k1q, k1p = rhs(q, p)
                k2q, k2p = rhs(q + 0.5 * h * k1q, p + 0.5 * h * k1p)
                k3q, k3p = rhs(q + 0.5 * h * k2q, p + 0.5 * h * k2p)
                k4q, k4p = rhs(q + h * k3q, p + h * k3p)
                q = q + h / 6 * (k1q + 2 * k2q + 2 * k3q + k4q)
                p = p + h / 6 * (k1p + 2 * k2p + 2 * k3p + k4p)
            return q, p
        for n_inner in (1, 2):
            errs = []
            try:
                for eps in EPS:
                    r = mici.integrators.ConstrainedLeapfrogIntegrator(sysm, eps, n_inner_step=n_inner).step(st0)
                    qr, pr = ref_flow(eps)
                    errs.append(max(np.abs(r.pos - qr).max(), np.abs(r.mom - pr).max()))
            except IntegratorError:
                continue
            ctx.case(("constrained-ode", name, n_inner))
            ctx.count("search:order_constrained_ode")
            orders = tail_orders(errs, 1e-12)
            if max(orders) < 2.5 and errs[-1] > 1e-8:
                bad += 1
                ctx.fail(f"order:constrained_ode:{name}", f"ConstrainedLeapfrogIntegrator(n_inner_step={n_inner}) on {name}: local error vs an RK4 reference of the constrained Hamilton "
                         f"equations of the system's own Hamiltonian is {[float(f'{e:.2e}') for e in errs]} at eps={EPS}: observed order {max(orders):.2f} < 3 on the two finest step-size pairs",
                         {"system": name, "n_inner": n_inner, "errors": [float(e) for e in errs], "pos": st0.pos.tolist(), "mom": st0.mom.tolist()})
    ctx.oblige("search: observed local order >= 2.5 against an independent RK4 reference (unconstrained systems, all integrators), the closed-form geodesic "
               "flow on the sphere (constrained, all solvers / inner step counts), across inner step counts, and against RK4 on the constrained Hamilton equations with "
               "finite-difference forces of the system's own Hamiltonian value (both density conventions, diagonal and dense metrics, Gaussian-split)", bad == 0, f"{bad} failures")


def run(ctx):
    ctx.rule = "order trials: integrator x system x 3 step sizes against independent references; schedule correspondence as in C02"
    ctx.assume("component flows are exact flows of h1 / h2 (C07) and analytic, so their Lie series converge: the free-algebra identity modulo t^3 gives local error "
               "O(eps^3) and energy error O(eps^2) over fixed time", "implicit sub-steps paired with their adjoints are consistent first-order approximations of the "
               "same half-step flow (B with B*, C with C*, implicit with explicit Euler)")
    ctx.trust("translator T3 tie/translate_integrators.py (fail-closed)")
    ok = ctx.regen("SchedulesGen", translate_integrators.generate)
    model_ok = ok and ctx.build(["Gen/SchedulesGen.vo"], label="executable model")
    if model_ok and ctx.build(["Props/C06.vo"]):
        ctx.props()
    if model_ok:
        integ_corr.run(ctx, zoo)
    order_search(ctx)
