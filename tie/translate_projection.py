"""T7: loop bodies of the three manifold-projection solvers of src/mici/solvers.py -> coq/Gen/ProjectionGen.v  (fail closed).

Each solver body is matched, statement by statement, against the loop layout that Model/Projection.v interprets.  The parts
an edit can change without changing the layout become fields of the generated `shape` record: the two conjuncts of the
convergence test (quantity, tolerance), the `i == 0 or` waiver, the divergence test, operator and sign of delta_pos, the
position update, the coefficient of the multiplier update, the for-else re-synchronisation of the line search, the shrink
factor, operator / sign / sign(time_step) of the final momentum correction.  Anything else that deviates raises."""
from __future__ import annotations

import ast
import re
from fractions import Fraction

from common import REPO, Untranslatable

SOLVERS = {"quasi_newton": "solve_projection_onto_manifold_quasi_newton", "newton": "solve_projection_onto_manifold_newton",
           "newton_ls": "solve_projection_onto_manifold_newton_with_line_search"}
QTY = {"error": "QErr", "norm(delta_pos)": "QNormDpos", "norm(step_size * delta_pos)": "QNormStepDpos"}
TOL = {"constraint_tol": "TCon", "position_tol": "TPos", "divergence_tol": "TDiv"}
LIN = {"dh2_flow_pos_dmom": "LDpos", "dh2_flow_mom_dmom": "LDmom"}
NEWTON_SOLVE = "system.jacob_constr_inner_product(jacob_constr, dh2_flow_pos_dmom, jacob_constr_prev).inv @ constr"
QUASI_SOLVE = "inv_jacob_constr_inner_product @ constr"


class M:
    def __init__(self, fn):
        self.fn, self.name = fn, fn.name

    def bad(self, node, why):
        raise Untranslatable(f"solvers.py:{getattr(node, 'lineno', self.fn.lineno)}: {self.name}: {why}: `{ast.unparse(node)[:120]}`")

    def expect(self, node, text):
        if not isinstance(node, ast.AST) or " ".join(ast.unparse(node).split()) != text:
            self.bad(node, f"expected `{text}`")

    def cmp(self, node, op):
        if not (isinstance(node, ast.Compare) and len(node.ops) == 1 and isinstance(node.ops[0], op)):
            self.bad(node, "comparison of unexpected form")
        a, b = ast.unparse(node.left), ast.unparse(node.comparators[0])
        if a not in QTY or b not in TOL:
            self.bad(node, "comparison of an unknown quantity / tolerance")
        return f"({QTY[a]}, {TOL[b]})"

    def conv(self, test):
        if not (isinstance(test, ast.BoolOp) and isinstance(test.op, ast.And) and len(test.values) == 2):
            self.bad(test, "convergence test is not a two-term conjunction")
        a, b = test.values
        first_free = False
        if isinstance(b, ast.BoolOp) and isinstance(b.op, ast.Or) and len(b.values) == 2 and ast.unparse(b.values[0]) == "i == 0":
            first_free, b = True, b.values[1]
        return self.cmp(a, ast.Lt), self.cmp(b, ast.Lt), first_free

    def div(self, test):
        skip0 = False
        if isinstance(test, ast.BoolOp) and isinstance(test.op, ast.And) and len(test.values) == 2 and ast.unparse(test.values[0]) == "i > 0":
            skip0, test = True, test.values[1]
        if not (isinstance(test, ast.BoolOp) and isinstance(test.op, ast.Or) and len(test.values) == 2):
            self.bad(test, "divergence test of unexpected form")
        c = self.cmp(test.values[0], ast.Gt)
        q = ast.unparse(test.values[0].left)
        self.expect(test.values[1], f"np.isnan({q})")
        return c, skip0

    def handler(self, tr):
        """the try block around the iteration converts value / linear-algebra errors into ConvergenceError"""
        if len(tr.handlers) != 1 or tr.finalbody or tr.orelse:
            self.bad(tr, "expected a single except clause")
        h = tr.handlers[0]
        names = sorted(ast.unparse(e) for e in h.type.elts) if isinstance(h.type, ast.Tuple) else [ast.unparse(h.type)] if h.type is not None else ["BaseException"]
        if names != ["LinAlgError", "ValueError"]:
            self.bad(h, f"handler catches {names}, expected ValueError and LinAlgError")
        self.raises_conv(h.body, h)

    def raises_conv(self, stmts, node):
        if not (stmts and isinstance(stmts[-1], ast.Raise) and isinstance(stmts[-1].exc, ast.Call) and ast.unparse(stmts[-1].exc.func) == "ConvergenceError"):
            self.bad(node, "branch does not raise ConvergenceError")

    def dpos(self, st):
        m = re.fullmatch(r"delta_pos = (-?)(\w+) @ delta_mu", ast.unparse(st))
        if not m or m.group(2) not in LIN:
            self.bad(st, "delta_pos assignment of unexpected form")
        return LIN[m.group(2)], bool(m.group(1))

    def mom(self, st):
        m = re.fullmatch(r"state\.mom ([-+])= (np\.sign\(time_step\) \* )?(\w+) @ mu", ast.unparse(st))
        if not m or m.group(3) not in LIN:
            self.bad(st, "momentum correction of unexpected form")
        return LIN[m.group(3)], m.group(1) == "-", bool(m.group(2))

    def mu(self, st):
        s = ast.unparse(st)
        if s == "mu += delta_mu":
            return False
        if s == "mu += step_size * delta_mu":
            return True
        self.bad(st, "multiplier update of unexpected form")


def b(x):
    return "true" if x else "false"


def shape(fn, kind):
    m = M(fn)
    body = [s for s in fn.body if not (isinstance(s, ast.Expr) and isinstance(s.value, ast.Constant))]
    if sum(isinstance(n, ast.Return) for n in ast.walk(fn)) != 1:
        m.bad(fn, "expected exactly one return statement (inside the convergence test)")
    pre = ["mu = np.zeros_like(state.pos)", "jacob_constr_prev = system.jacob_constr(state_prev)",
           "dh2_flow_pos_dmom, dh2_flow_mom_dmom = system.dh2_flow_dmom(state_prev, abs(time_step))"]
    if kind == "quasi_newton":
        pre.append("inv_jacob_constr_inner_product = system.jacob_constr_inner_product(jacob_constr_prev, dh2_flow_pos_dmom).inv")
    if kind == "newton_ls":
        pre.append("delta_pos, step_size = (None, None)")
    if len(body) != len(pre) + 3:
        m.bad(fn, f"expected {len(pre) + 3} top-level statements, found {len(body)}")
    for st, text in zip(body, pre):
        m.expect(st, text)
    main, tail = body[len(pre)], body[len(pre) + 1:]
    if not (isinstance(tail[0], ast.Assign) and ast.unparse(tail[0].targets[0]) == "msg"):
        m.bad(tail[0], "expected the not-converged message")
    m.raises_conv([tail[1]], tail[1])
    solve = QUASI_SOLVE if kind == "quasi_newton" else NEWTON_SOLVE
    f = {}
    if kind != "newton_ls":
        if not (isinstance(main, ast.Try) and len(main.body) == 1 and isinstance(main.body[0], ast.For) and not main.orelse and not main.finalbody):
            m.bad(main, "expected try: for i in range(max_iters)")
        m.handler(main)
        loop = main.body[0]
        m.expect(loop.iter, "range(max_iters)")
        st = list(loop.body)
        if kind == "newton":
            m.expect(st.pop(0), "jacob_constr = system.jacob_constr(state)")
        if len(st) != 8 or loop.orelse:
            m.bad(loop, "loop body of unexpected length")
        m.expect(st[0], "constr = system.constr(state)")
        m.expect(st[1], "error = norm(constr)")
        m.expect(st[2], f"delta_mu = jacob_constr_prev.T @ ({solve})")
        f["dpos_lin"], f["dpos_neg"] = m.dpos(st[3])
        if not isinstance(st[4], ast.If) or st[4].orelse:
            m.bad(st[4], "expected the divergence test")
        f["div"], f["div_skip0"] = m.div(st[4].test)
        m.raises_conv(st[4].body, st[4])
        ifc = st[5]
        rest = st[6:]
        f["ls"], f["resync"], f["shrink"] = False, False, Fraction(1, 2)
    else:
        if not (isinstance(main, ast.For) and len(main.body) == 1 and isinstance(main.body[0], ast.Try) and not main.orelse):
            m.bad(main, "expected for i in range(max_iters): try")
        m.expect(main.iter, "range(max_iters)")
        m.handler(main.body[0])
        st = list(main.body[0].body)
        if len(st) != 11:
            m.bad(main, "loop body of unexpected length")
        m.expect(st[0], "jacob_constr = system.jacob_constr(state)")
        m.expect(st[1], "constr = system.constr(state)")
        m.expect(st[2], "error = norm(constr)")
        if not isinstance(st[3], ast.If) or st[3].orelse:
            m.bad(st[3], "expected the divergence test")
        f["div"], f["div_skip0"] = m.div(st[3].test)
        m.raises_conv(st[3].body, st[3])
        ifc = st[4]
        m.expect(st[5], f"delta_mu = jacob_constr_prev.T @ ({solve})")
        f["dpos_lin"], f["dpos_neg"] = m.dpos(st[6])
        m.expect(st[7], "pos_curr = state.pos.copy()")
        m.expect(st[8], "step_size = 1.0")
        inner = st[9]
        if not (isinstance(inner, ast.For) and len(inner.body) == 4):
            m.bad(inner, "expected the backtracking loop")
        m.expect(inner.iter, "range(max_line_search_iters)")
        m.expect(inner.body[0], "state.pos = pos_curr + step_size * delta_pos")
        m.expect(inner.body[1], "new_error = norm(system.constr(state))")
        brk = inner.body[2]
        if not (isinstance(brk, ast.If) and ast.unparse(brk.test) == "new_error < error" and len(brk.body) == 1 and isinstance(brk.body[0], ast.Break) and not brk.orelse):
            m.bad(brk, "expected `if new_error < error: break`")
        mm = re.fullmatch(r"step_size \*= ([0-9.]+)", ast.unparse(inner.body[3]))
        if not mm:
            m.bad(inner.body[3], "expected step_size *= <constant>")
        f["shrink"] = Fraction(mm.group(1))
        if inner.orelse:
            if len(inner.orelse) != 1:
                m.bad(inner, "unexpected for-else body")
            m.expect(inner.orelse[0], "state.pos = pos_curr + step_size * delta_pos")
        f["resync"] = bool(inner.orelse)
        rest = [st[10]]
        f["ls"] = True
    if not (isinstance(ifc, ast.If) and not ifc.orelse and len(ifc.body) == 2):
        m.bad(ifc, "expected the convergence test with momentum correction and return")
    f["conv_a"], f["conv_b"], f["first_free"] = m.conv(ifc.test)
    f["mom_lin"], f["mom_sub"], f["mom_sign"] = m.mom(ifc.body[0])
    m.expect(ifc.body[1], "return state")
    if f["ls"]:
        f["mu_step"] = m.mu(rest[0])
        f["pos_sub"] = False
    else:
        upd = {ast.unparse(s) for s in rest}
        mus = [s for s in rest if ast.unparse(s).startswith("mu ")]
        poss = [s for s in rest if ast.unparse(s).startswith("state.pos ")]
        if len(mus) != 1 or len(poss) != 1:
            m.bad(rest[0], f"expected one multiplier and one position update, found {sorted(upd)}")
        f["mu_step"] = m.mu(mus[0])
        ps = ast.unparse(poss[0])
        if ps not in ("state.pos -= delta_pos", "state.pos += delta_pos"):
            m.bad(poss[0], "position update of unexpected form")
        f["pos_sub"] = ps == "state.pos -= delta_pos"
    sr = f["shrink"]
    return (f"Definition gen_shape_{kind} : shape := {{|\n  sh_quasi := {b(kind == 'quasi_newton')}; sh_ls := {b(f['ls'])}; sh_conv_a := {f['conv_a']}; sh_conv_b := {f['conv_b']}; sh_first_free := {b(f['first_free'])};\n"
            f"  sh_div_skip0 := {b(f['div_skip0'])}; sh_div := {f['div']}; sh_dpos_lin := {f['dpos_lin']}; sh_dpos_neg := {b(f['dpos_neg'])};\n"
            f"  sh_pos_sub := {b(f['pos_sub'])}; sh_mu_step := {b(f['mu_step'])}; sh_resync := {b(f['resync'])}; sh_shrink := ({sr.numerator} # {sr.denominator});\n"
            f"  sh_mom_lin := {f['mom_lin']}; sh_mom_sub := {b(f['mom_sub'])}; sh_mom_sign := {b(f['mom_sign'])} |}}.\n")


def cstep(tree):
    """ConstrainedLeapfrogIntegrator._step and its helpers -> operation lists of Model/Projection.v"""
    cls = next((n for n in tree.body if isinstance(n, ast.ClassDef) and n.name == "ConstrainedLeapfrogIntegrator"), None)
    if cls is None:
        raise Untranslatable("integrators.py: ConstrainedLeapfrogIntegrator missing")
    meth = {n.name: n for n in cls.body if isinstance(n, ast.FunctionDef)}

    def body(name, nargs):
        if name not in meth:
            raise Untranslatable(f"integrators.py: ConstrainedLeapfrogIntegrator.{name} missing")
        fn = meth[name]
        if len(fn.args.args) != nargs:
            raise Untranslatable(f"integrators.py:{fn.lineno}: {name} takes {len(fn.args.args)} arguments, expected {nargs}")
        return fn, [s for s in fn.body if not (isinstance(s, ast.Expr) and isinstance(s.value, ast.Constant))]

    def texts(fn, stmts, expected):
        got = [" ".join(ast.unparse(s).split()) for s in stmts]
        if got != expected:
            for g, e in zip(got + ["<missing>"] * len(expected), expected + ["<extra>"] * len(got)):
                if g != e:
                    raise Untranslatable(f"integrators.py:{fn.lineno}: {fn.name}: expected `{e}`, found `{g[:140]}`")
    fn, st = body("_h2_flow_retraction_onto_manifold", 4)
    texts(fn, st, ["self.system.h2_flow(state, time_step)",
                   "self.projection_solver(state, state_prev, time_step, self.system, **self.projection_solver_kwargs)"])
    fn, st = body("_project_onto_cotangent_space", 2)
    texts(fn, st, ["state.mom = self.system.project_onto_cotangent_space(state.mom, state)"])
    fn, st = body("_step_a", 3)
    texts(fn, st, ["self.system.h1_flow(state, time_step)", "self._project_onto_cotangent_space(state)"])
    step_a = "[CKick f; CProj]"
    fn, st = body("_step_b", 3)
    if len(st) != 2 or not isinstance(st[1], ast.For) or st[1].orelse:
        raise Untranslatable(f"integrators.py:{fn.lineno}: _step_b: expected the inner time step and one loop")
    texts(fn, st[:1], ["time_step_inner = time_step / self.n_inner_step"])
    loop = st[1]
    if ast.unparse(loop.iter) != "range(self.n_inner_step)" or ast.unparse(loop.target) != "i":
        raise Untranslatable(f"integrators.py:{loop.lineno}: _step_b: loop is not `for i in range(self.n_inner_step)`")
    lb = [s for s in loop.body]
    exp = ["state_prev = state.copy()", "self._h2_flow_retraction_onto_manifold(state, state_prev, time_step_inner)",
           "if i == self.n_inner_step - 1: self.system.dh1_dpos(state)", "self._project_onto_cotangent_space(state)",
           "state_back = state.copy()", "self._h2_flow_retraction_onto_manifold(state_back, state, -time_step_inner)",
           "rev_diff = self.reverse_check_norm(state_back.pos - state_prev.pos)"]
    if len(lb) != 8:
        raise Untranslatable(f"integrators.py:{loop.lineno}: _step_b: loop body has {len(lb)} statements, expected 8")
    texts(fn, lb[:7], exp)
    chk = lb[7]
    if not (isinstance(chk, ast.If) and ast.unparse(chk.test) == "rev_diff > self.reverse_check_tol" and not chk.orelse and isinstance(chk.body[-1], ast.Raise)
            and ast.unparse(chk.body[-1].exc.func) == "NonReversibleStepError"):
        raise Untranslatable(f"integrators.py:{chk.lineno}: _step_b: reversibility check of unexpected form")
    b_body = "[CCopy; CFlowSolve; CNote; CProj; CRevCheck]"
    fn, st = body("_step", 3)
    ops = []
    for s_ in st:
        t = " ".join(ast.unparse(s_).split())
        m = re.fullmatch(r"self\._step_a\(state, (?:([0-9.]+) \* )?time_step\)", t)
        if m:
            fr = Fraction(m.group(1) or "1")
            ops.append(f"gen_cstep_a ({fr.numerator} # {fr.denominator})")
        elif t == "self._step_b(state, time_step)":
            ops.append("rep n gen_cstep_b_body")
        else:
            raise Untranslatable(f"integrators.py:{s_.lineno}: _step: unexpected statement `{t}`")
    return [f"Definition gen_cstep_a (f : Q) : list cop := {step_a}.", f"Definition gen_cstep_b_body : list cop := {b_body}.",
            "Definition gen_cstep (n : nat) : list cop := " + " ++ ".join(ops) + "."]


def projection_formula(tree):
    """ConstrainedEuclideanMetricSystem.project_onto_cotangent_space -> mexp; gram / inv_gram / sample_momentum are matched verbatim"""
    def method(cname, mname):
        cls = next((n for n in tree.body if isinstance(n, ast.ClassDef) and n.name == cname), None)
        fn = cls and next((n for n in cls.body if isinstance(n, ast.FunctionDef) and n.name == mname), None)
        if fn is None:
            raise Untranslatable(f"systems.py: {cname}.{mname} missing")
        return fn, [" ".join(ast.unparse(s).split()) for s in fn.body if not (isinstance(s, ast.Expr) and isinstance(s.value, ast.Constant))]

    def expect(cname, mname, lines):
        fn, got = method(cname, mname)
        if got != lines:
            raise Untranslatable(f"systems.py:{fn.lineno}: {cname}.{mname}: expected {lines}, found {got}")
    expect("ConstrainedEuclideanMetricSystem", "gram", ["return self.jacob_constr_inner_product(self.jacob_constr(state), self.metric.inv)"])
    expect("ConstrainedEuclideanMetricSystem", "inv_gram", ["return self.gram(state).inv"])
    expect("ConstrainedTractableFlowSystem", "sample_momentum", ["mom = super().sample_momentum(state, rng)", "return self.project_onto_cotangent_space(mom, state)"])
    for cname in ("DenseConstrainedEuclideanMetricSystem", "GaussianDenseConstrainedEuclideanMetricSystem"):
        fn, got = method(cname, "jacob_constr_inner_product")
        prods = sorted({ast.unparse(n) for n in ast.walk(fn) if isinstance(n, ast.BinOp) and isinstance(n.op, ast.MatMult) and ast.unparse(n.left) == "jacob_constr_1"})
        if prods != ["jacob_constr_1 @ (inner_product_matrix @ jacob_constr_1.T)", "jacob_constr_1 @ (inner_product_matrix @ jacob_constr_2.T)"]:
            raise Untranslatable(f"systems.py:{fn.lineno}: {cname}.jacob_constr_inner_product computes {prods}")
    cls = next(n for n in tree.body if isinstance(n, ast.ClassDef) and n.name == "ConstrainedEuclideanMetricSystem")
    fn = next(n for n in cls.body if isinstance(n, ast.FunctionDef) and n.name == "project_onto_cotangent_space")
    body = [s_ for s_ in fn.body if not (isinstance(s_, ast.Expr) and isinstance(s_.value, ast.Constant))]
    if [a.arg for a in fn.args.args] != ["self", "mom", "state"] or len(body) != 2 or ast.unparse(body[1]) != "return mom":
        raise Untranslatable(f"systems.py:{fn.lineno}: project_onto_cotangent_space: unexpected signature / layout")
    st = body[0]
    atoms = {"self.jacob_constr(state)": ("EJ", ("k", "d")), "self.inv_gram(state)": ("EGi", ("k", "k")), "self.metric.inv": ("EMi", ("d", "d")), "mom": ("EMom", ("d", "1"))}

    def tr(e):
        t = ast.unparse(e)
        if t in atoms:
            return atoms[t]
        if isinstance(e, ast.Attribute) and e.attr == "T":
            a, (r, c) = tr(e.value)
            return f"(ET {a})", (c, r)
        if isinstance(e, ast.BinOp) and isinstance(e.op, ast.MatMult):
            (a, (r1, c1)), (b_, (r2, c2)) = tr(e.left), tr(e.right)
            if c1 != r2:
                raise Untranslatable(f"systems.py:{e.lineno}: project_onto_cotangent_space: shapes do not compose in `{t}`")
            return f"(EMul D{c1} {a} {b_})", (r1, c2)
        if isinstance(e, ast.BinOp) and isinstance(e.op, (ast.Sub, ast.Add)):
            (a, sa), (b_, sb) = tr(e.left), tr(e.right)
            if sa != sb:
                raise Untranslatable(f"systems.py:{e.lineno}: project_onto_cotangent_space: shapes differ in `{t}`")
            return f"({'ESub' if isinstance(e.op, ast.Sub) else 'EAdd'} {a} {b_})", sa
        raise Untranslatable(f"systems.py:{e.lineno}: project_onto_cotangent_space: cannot translate `{t}`")
    if isinstance(st, ast.AugAssign) and ast.unparse(st.target) == "mom" and isinstance(st.op, (ast.Sub, ast.Add)):
        v, shp = tr(st.value)
        expr = f"({'ESub' if isinstance(st.op, ast.Sub) else 'EAdd'} EMom {v})"
    elif isinstance(st, ast.Assign) and ast.unparse(st.targets[0]) == "mom":
        expr, shp = tr(st.value)
    else:
        raise Untranslatable(f"systems.py:{st.lineno}: project_onto_cotangent_space: unexpected statement `{ast.unparse(st)[:100]}`")
    if shp != ("d", "1"):
        raise Untranslatable(f"systems.py:{st.lineno}: project_onto_cotangent_space: result is not a momentum-shaped vector")
    return [f"Definition gen_proj_exp : mexp := {expr}."]


def generate():
    tree = ast.parse((REPO / "src/mici/solvers.py").read_text())
    fns = {n.name: n for n in tree.body if isinstance(n, ast.FunctionDef)}
    out = ["(* generated by tie/translate_projection.py (T7) from src/mici/solvers.py -- do not edit *)",
           "From Coq Require Import QArith List.", "Import ListNotations.", "Require Import Mici.Model.Projection.", "Open Scope Q_scope.", ""]
    for kind, name in SOLVERS.items():
        if name not in fns:
            raise Untranslatable(f"solver {name} missing")
        out.append(shape(fns[name], kind))
    out += cstep(ast.parse((REPO / "src/mici/integrators.py").read_text()))
    out += projection_formula(ast.parse((REPO / "src/mici/systems.py").read_text()))
    return "\n".join(out)


if __name__ == "__main__":
    print(generate())
