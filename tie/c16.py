"""C16 -- adaptation confined to warm-up; stages partition the iterations exactly."""
from __future__ import annotations

from fractions import Fraction

import numpy as np

import sampler_corr
import translate_stagers
from common import coq_list, parse_coq_value

LEVEL = "proof"
SETTINGS = [(25, 75, 50, 2), (25, 75, 50, 1.5), (125, 50, 25, 3), (25, 100, 100, 2), (1, 0, 0, 1), (3, 2, 0, 2), (10, 5, 5, 2.5), (7, 0, 3, 1.25)]
ADS = {"NoAd": 2, "All": 1, "Fast": 0}


def real_stages(stager, n_warm, n_main, ht, tw):
    from sampler_stubs import FastAdapter, SlowAdapter
    adapters = {"t": [FastAdapter(), SlowAdapter()]}
    tf = [lambda s: {}] if ht else None
    st = stager.stages(n_warm, n_main, adapters, tf, trace_warm_up=tw)
    out = []
    for s in st.values():
        if s.adapters is None:
            a = 2
        elif s.adapters is adapters:
            a = 1
        else:
            a = 0
            assert all(x.is_fast for v in s.adapters.values() for x in v) and any(True for v in s.adapters.values() for x in v)
        out.append([int(s.n_iter), a, int(s.trace_funcs is not None), int(bool(s.record_stats))])
    return out


def stager_correspondence(ctx, model_ok=True):
    from mici.stagers import WarmUpStager, WindowedWarmUpStager
    nmax = 260 if not ctx.thorough else 2500
    cases = []
    for si, (s1, s2, s3, m) in enumerate(SETTINGS if ctx.thorough else SETTINGS[:6]):
        for n_warm in list(range(0, nmax)) + [int(x) for x in ctx.rng.integers(nmax, 30000, size=6)]:
            n_main = int(ctx.rng.choice([0, 5, 100]))
            ht, tw = bool(ctx.rng.random() < 0.7), bool(ctx.rng.random() < 0.5)
            cases.append(("windowed", (s1, s2, s3, m), n_warm, n_main, ht, tw))
    for n_warm in range(0, 12):
        for n_main in (0, 3):
            for ht in (True, False):
                for tw in (True, False):
                    cases.append(("warmup", None, n_warm, n_main, ht, tw))
    enc = "(fun o => match o with Some l => map (fun s => [n_iter s; match ads s with Fast => 0 | All => 1 | NoAd => 2 end; if traced s then 1 else 0; if stats s then 1 else 0]) l | None => [[-1]] end)"
    bad = 0
    for i in range(0, len(cases), 500):
        terms = []
        for kind, st, n_warm, n_main, ht, tw in cases[i:i + 500]:
            b = lambda x: "true" if x else "false"  # noqa: E731
            if kind == "warmup":
                terms.append(f"gen_WarmUpStager_stages {n_warm} {n_main} {b(ht)} {b(tw)}")
            else:
                f = Fraction(repr(st[3]))
                terms.append(f"gen_WindowedWarmUpStager_stages {st[0]} {st[1]} {st[2]} ({f.numerator} # {f.denominator}) {n_warm} {n_main} {b(ht)} {b(tw)}")
        body = ("Require Import Mici.Model.Stagers Mici.Gen.StagersGen.\nOpen Scope Z_scope.\n"
                f"Eval vm_compute in map {enc} {coq_list(terms)}.\n")
        model = parse_coq_value(ctx.coq_eval(body, name="stager_cases")[0]) if model_ok else [None] * len(cases[i:i + 500])
        for (kind, st, n_warm, n_main, ht, tw), m in zip(cases[i:i + 500], model):
            stager = WarmUpStager() if kind == "warmup" else WindowedWarmUpStager(*st)
            how = ""
            if kind == "windowed" and (n_warm + n_main) % 3 == 0:
                # the window sizes are public attributes: a stager whose sizes were assigned after construction behaves as one constructed with them
                stager = WindowedWarmUpStager()
                (stager.n_init_slow_window_iter, stager.n_init_fast_stage_iter, stager.n_final_fast_stage_iter, stager.slow_window_multiplier) = st
                how = " (sizes assigned after construction)"
                ctx.count("stager:windowed:attributes_reassigned")
            real = real_stages(stager, n_warm, n_main, ht, tw)
            ctx.case(("stager", kind, st, n_warm, n_main, ht, tw))
            ctx.count(f"stager:{kind}")
            if m is not None and [list(x) for x in m] != real:
                bad += 1
                ctx.fail("corr:stager", f"generated stager model and {type(stager).__name__}{st or ''}{how}.stages({n_warm}, {n_main}) disagree: "
                         f"model {m} vs implementation {real}", {"stager": kind, "settings": st, "n_warm": n_warm, "n_main": n_main,
                                                                  "has_trace": ht, "trace_warm_up": tw, "model": m, "impl": real}, kind="corr")
            # direct oracle on the implementation: the partition property itself
            warm = [x for x in real if x[1] != 2]
            main = [x for x in real if x[1] == 2]
            ok = (sum(x[0] for x in warm) == n_warm and all(x[0] >= 0 for x in real)
                  and (len(main) == (1 if n_main > 0 else 0)) and (not main or (real[-1] is main[0] and main[0][0] == n_main and main[0][3] == 1))
                  and all(x[2] == int(tw and ht) and x[3] == int(tw) for x in warm))
            if kind == "windowed" and warm:
                ok = ok and warm[0][1] == 0 and warm[-1][1] == 0 and all(x[1] == 1 for x in warm[1:-1])
            if not ok:
                bad += 1
                ctx.fail("partition", f"{type(stager).__name__}{st or ''}{how}.stages({n_warm}, {n_main}, trace_warm_up={tw}) does not partition "
                         f"the iterations: {real}", {"stager": kind, "settings": st, "n_warm": n_warm, "n_main": n_main, "stages": real})
    ctx.oblige(f"correspondence[stagers]: {len(cases)} (settings, n_warm, n_main, flags) cases, generated model vs stages() + direct partition oracle",
               bad == 0, f"{bad} failures")
    # int(c * n) in floating point vs the exact decimal product used by the model
    mism = [(c, n) for c in (0.15, 0.1, 2, 3, 1.5, 2.5, 1.25, 3.5) for n in range(0, 20001)
            if int(c * n) != (Fraction(repr(c)) * n).__floor__()]
    ctx.oblige("float product int(c*n) equals the exact decimal product for n <= 20000 and the literals/multipliers used", not mism,
               f"{len(mism)} mismatches {mism[:3]}")
    if mism:
        ctx.notes.append(f"int(c*n) float/decimal mismatches (model idealisation, not a violation): {mism[:5]}")


def adaptation_search(ctx):
    """Real HMC + real DualAveraging (+ variance adapter): main-stage parameters constant and equal to the last finalized
    values of a warm-up stage that performed at least one update."""
    import mici
    from mici.adapters import DualAveragingStepSizeAdapter, OnlineVarianceMetricAdapter

    class LogDA(DualAveragingStepSizeAdapter):
        log = []

        def update(self, adapt_state, chain_state, trans_stats, transition):
            super().update(adapt_state, chain_state, trans_stats, transition)
            LogDA.log.append(("update",))

        def finalize(self, adapt_states, chain_states, transition, rngs):
            super().finalize(adapt_states, chain_states, transition, rngs)
            LogDA.log.append(("finalize", transition.integrator.step_size))

    system = mici.systems.EuclideanMetricSystem(lambda q: 0.5 * q @ q, grad_neg_log_dens=lambda q: q)
    bad = 0
    grid = [(n_warm, st) for n_warm in ([0, 1, 2, 3, 5, 7, 9, 10, 13, 20, 40] if not ctx.thorough else list(range(0, 60)))
            for st in (None, (25, 75, 50, 2), (3, 2, 0, 2), (1, 0, 0, 1), (2, 0, 3, 1.5))]
    import contextlib
    import io
    for n_warm, st in grid:
        for n_chain in (1, 2):
            for with_metric, disp in ((False, False), (True, False), (True, True)) if st is not None else ((False, False), (True, False)):
                # disp: the default display_progress=True hands the stage loop a label -> stage mapping instead of a list (output discarded here)
                integrator = mici.integrators.LeapfrogIntegrator(system, step_size=0.123)
                rng = np.random.default_rng(int(ctx.rng.integers(0, 2 ** 31)))
                sampler = mici.samplers.StaticMetropolisHMC(system, integrator, rng, n_step=2)
                LogDA.log = []
                adapters = [LogDA(0.8)] + ([OnlineVarianceMetricAdapter()] if with_metric else [])
                stager = None if st is None else mici.stagers.WindowedWarmUpStager(*st)
                metric0 = system.metric
                try:
                    with contextlib.redirect_stdout(io.StringIO()), contextlib.redirect_stderr(io.StringIO()):
                        out = sampler.sample_chains(n_warm, 6, [rng.standard_normal(2) for _ in range(n_chain)], adapters=adapters,
                                                    stager=stager, display_progress=disp, trace_warm_up=False)
                except mici.errors.AdaptationError:
                    ctx.count("search:adaptation_error(window too short for a variance estimate)")
                    continue
                finally:
                    metric_end = system.metric
                    system.metric = metric0
                ctx.case(("adapt", n_warm, st, n_chain, with_metric, disp))
                ctx.count("search:adaptation_runs")
                ss = [np.asarray(a) for a in out.statistics["step_size"]]
                const = all(np.all(a == a[0]) for a in ss) and len({float(a[0]) for a in ss}) == 1
                # last finalize preceded by at least one update since the previous finalize
                last, upd = None, 0
                for e in LogDA.log:
                    if e[0] == "update":
                        upd += 1
                    else:
                        if upd > 0:
                            last = e[1]
                        upd = 0
                want = 0.123 if last is None else last
                used = float(ss[0][0])
                if not const or abs(used - want) > 1e-15 * max(1, abs(want)):
                    bad += 1
                    ctx.fail("main_stage_params", f"n_warm_up_iter={n_warm}, stager={st}, chains={n_chain}, metric adapter={with_metric}, display_progress={disp}: main stage ran with "
                             f"step size {used!r} (constant={const}); last value finalized by a warm-up stage with >=1 update is {want!r}",
                             {"n_warm": n_warm, "stager": st, "n_chain": n_chain, "with_metric": with_metric, "used": used, "expected": want,
                              "adapter_log": [list(map(repr, e)) for e in LogDA.log][-12:]})
                if with_metric and n_warm == 0 and metric_end is not metric0:
                    bad += 1
                    ctx.fail("main_stage_metric", f"metric changed without any warm-up iteration (stager={st})", {"stager": st})
    ctx.oblige(f"search: {len(grid) * 4} real HMC runs with dual averaging (+ variance) adapters: main-stage step size constant and equal to the last "
               "value finalized after >= 1 update (or the initial value)", bad == 0, f"{bad} failures")


class CountingCoeffAdapter:
    """fast adapter for a transition WITHOUT statistics (momentum refreshment): counts its updates and finalises the coefficient from them"""
    is_fast = True
    log = []

    def initialize(self, chain_state, transition):
        return {"n": 0}

    def update(self, adapt_state, chain_state, trans_stats, transition):
        adapt_state["n"] += 1
        CountingCoeffAdapter.log.append(("update", trans_stats))

    def finalize(self, adapt_states, chain_states, transition, rngs):
        states = [adapt_states] if isinstance(adapt_states, dict) else list(adapt_states)
        n = sum(a["n"] for a in states)
        CountingCoeffAdapter.log.append(("finalize", n))
        transition.mom_resample_coeff = 1.0 / (1.0 + n)


def statless_transition_search(ctx):
    """an adapter attached to a transition that returns no statistics is active in every warm-up stage like any other fast adapter"""
    import mici
    from mici.adapters import Adapter
    from mici.samplers import MarkovChainMonteCarloMethod
    from mici.transitions import CorrelatedMomentumTransition, MetropolisStaticIntegrationTransition
    Adapter.register(CountingCoeffAdapter)
    system = mici.systems.EuclideanMetricSystem(lambda q: 0.5 * q @ q, grad_neg_log_dens=lambda q: q)
    bad = 0
    grid = [(n_warm, st) for n_warm in (0, 1, 4, 12, 30) for st in (None, (3, 2, 0, 2), (25, 75, 50, 2))]
    for n_warm, st in grid:
        for n_chain in (1, 2):
            rng = np.random.default_rng(int(ctx.rng.integers(0, 2 ** 31)))
            mom = CorrelatedMomentumTransition(system, mom_resample_coeff=0.03125)
            integ = MetropolisStaticIntegrationTransition(system, mici.integrators.LeapfrogIntegrator(system, step_size=0.2), n_step=2)
            sampler = MarkovChainMonteCarloMethod(rng, {"momentum": mom, "integration": integ})
            CountingCoeffAdapter.log = []
            stager = mici.stagers.WarmUpStager() if st is None else mici.stagers.WindowedWarmUpStager(*st)
            from mici.states import ChainState
            inits = [ChainState(pos=rng.standard_normal(2), mom=rng.standard_normal(2), dir=1) for _ in range(n_chain)]
            sampler.sample_chains(n_warm, 4, inits, adapters={"momentum": [CountingCoeffAdapter()]}, stager=stager, display_progress=False, trace_funcs=None)
            n_upd = sum(1 for e in CountingCoeffAdapter.log if e[0] == "update")
            fins = [e[1] for e in CountingCoeffAdapter.log if e[0] == "finalize"]
            ctx.case(("statless", n_warm, st, n_chain))
            ctx.count("search:adapter_on_transition_without_statistics")
            want_coeff = 0.03125 if not fins else 1.0 / (1.0 + fins[-1])
            if n_upd != n_warm * n_chain or (fins and sum(fins) != n_warm * n_chain) or abs(mom.mom_resample_coeff - want_coeff) > 1e-15:
                bad += 1
                ctx.fail("adapter_on_statless_transition", f"adapter attached to CorrelatedMomentumTransition (no statistics), n_warm_up_iter={n_warm}, stager={st}, chains={n_chain}: "
                         f"{n_upd} updates for {n_warm * n_chain} warm-up iterations, finalised counts {fins}, main stage ran with coefficient {mom.mom_resample_coeff!r}",
                         {"n_warm": n_warm, "stager": st, "n_chain": n_chain, "updates": n_upd, "finalize_counts": fins})
    ctx.oblige(f"search: {len(grid) * 2} runs with a fast adapter on a transition that returns no statistics: one update per warm-up iteration and chain, the main stage uses "
               "the value finalised from them", bad == 0, f"{bad} failures")


def run(ctx):
    ctx.rule = ("stager cases: every n_warm below a bound x settings x flags (+ random large); sampler cases: random stage lists / real stagers x "
                "adapter configurations x chains; distinct = distinct case tuple")
    ctx.assume("int(c*n) is modelled as truncation of the exact decimal product (float agreement checked for n <= 20000)",
               "the stage loop is modelled for sequential execution (n_process=1); worker processes hold copies of the transitions (C14)")
    ctx.trust("translator T2 tie/translate_stagers.py (fail-closed)", "hand model coq/Model/Sampler.v tied by correspondence through sampler_stubs.py")
    ok = ctx.regen("StagersGen", translate_stagers.generate)
    model_ok = ok and ctx.build(["Gen/StagersGen.vo", "Model/SamplerInst.vo"], label="executable model")
    if model_ok and ctx.build(["Props/C16.vo"]):
        ctx.props()
    # the correspondence and the direct oracles run even when a proof obligation broke: they look for the concrete failing input
    stager_correspondence(ctx, model_ok)
    if model_ok:
        n = 40 if not ctx.thorough else 300
        cases = [sampler_corr.gen_case(ctx.rng, "plain") for _ in range(n)]
        sampler_corr.run_cases(ctx, cases, "stage-loop")
    adaptation_search(ctx)
    statless_transition_search(ctx)
