"""C08 -- momentum updates leave the Gaussian momentum law exactly invariant."""
from __future__ import annotations

import numpy as np

import matzoo
import zoo
from c10 import qmat, rq
from common import coq_list, parse_coq_value

LEVEL = "proof"


class BasisRng:
    """Generator whose standard_normal returns a given vector: column k of the momentum factor is sample_momentum(e_k)."""

    def __init__(self, z):
        self.z = np.asarray(z, dtype=float)
        self.calls = 0

    def standard_normal(self, size=None):
        self.calls += 1
        shape = (size,) if np.ndim(size) == 0 and size is not None else tuple(size or ())
        assert int(np.prod(shape)) == self.z.size, (shape, self.z.shape)
        return self.z.reshape(shape).copy()

    def normal(self, size=None):
        return self.standard_normal(size)


def factor(system, state):
    d = state.pos.shape[0]
    cols = []
    for k in range(d):
        e = np.zeros(d)
        e[k] = 1.0
        cols.append(np.asarray(system.sample_momentum(state, BasisRng(e))))
    return np.stack(cols, axis=1)


def target_cov(name, system, state):
    """covariance the Hamiltonian implies: metric at the current position, projected onto the cotangent space if constrained"""
    M = np.asarray(system.metric(state).array) if "riem" in name else (
        np.asarray(system.metric.array) if system.metric.shape[0] is not None else np.eye(state.pos.shape[0]))
    if zoo.is_constrained(name) or hasattr(system, "jacob_constr"):
        J = np.asarray(system.jacob_constr(state))
        G = J @ np.linalg.solve(M, J.T)
        return M - J.T @ np.linalg.solve(G, J), M, J
    return M, M, None


def metric_variants(rng, d):
    """metric matrix objects of every kind usable as a constant metric, incl. low-rank update / downdate and inverse forms"""
    import mici.matrices as mm
    out = {}
    for kind in ("pscaled", "pdiag", "densepd", "trifacpd", "eigpd", "softabs", "pdblockdiag", "lowrank_pd", "lowrank_pd_down", "pdproduct",
                 "used*densepd", "used*lowrank_pd", "used*lowrank_pd_down", "used*trifacpd"):
        m, dd = matzoo.make_leaf(rng, d, kind)
        out[kind] = (m, dd)
        if kind in ("lowrank_pd", "densepd", "eigpd", "pdiag"):
            out[kind + ".inv"] = (m.inv, np.linalg.inv(dd))
    return out


def search(ctx):
    import mici
    import mici.systems as S
    from mici.states import ChainState
    from mici.transitions import CorrelatedMomentumTransition, IndependentMomentumTransition
    rng = ctx.rng
    bad = 0

    def check(label, name, system, state):
        nonlocal bad
        L = factor(system, state)
        cov, M, J = target_cov(name, system, state)
        ctx.case(("factor", label, tuple(np.round(state.pos, 5))))
        ctx.count("search:factor")
        scale = max(1.0, np.abs(cov).max())
        if not np.abs(L @ L.T - cov).max() <= 1e-8 * scale:
            bad += 1
            ctx.fail(f"covariance:{label.split('|')[0]}", f"{label}: L L^T (L recovered column by column with a basis-vector generator) differs from the metric "
                     f"{'projected onto the cotangent space ' if J is not None else ''}by {np.abs(L @ L.T - cov).max():.2e}",
                     {"label": label, "pos": state.pos.tolist(), "LLt": (L @ L.T).tolist(), "expected": cov.tolist()})
        # exact linearity on a random combination
        d = state.pos.shape[0]
        z1, z2, a = rng.standard_normal(d), rng.standard_normal(d), float(rng.normal())
        lhs = np.asarray(system.sample_momentum(state, BasisRng(a * z1 + z2)))
        if not np.allclose(lhs, L @ (a * z1 + z2), rtol=1e-10, atol=1e-11):
            bad += 1
            ctx.fail(f"linearity:{label.split('|')[0]}", f"{label}: sample_momentum is not the linear image L z of its normal draws", {"label": label})
        if J is not None and not np.abs(J @ np.linalg.solve(M, L)).max() <= 1e-8 * scale:
            bad += 1
            ctx.fail(f"cotangent:{label.split('|')[0]}", f"{label}: sampled momenta are not in the cotangent space (|J M^-1 L| = {np.abs(J @ np.linalg.solve(M, L)).max():.2e})", {"label": label})
        # refreshment transitions
        for coeff in (0.0, 0.35, 0.8, 1.0):
            st = state.copy()
            p0 = st.mom.copy()
            z = rng.standard_normal(d)
            g = BasisRng(z)
            tr = CorrelatedMomentumTransition(system, mom_resample_coeff=coeff)
            new, _ = tr.sample(st, g)
            want = p0 if coeff == 0 else ((1 - coeff ** 2) ** 0.5 * p0 + coeff * (L @ z) if coeff != 1 else L @ z)
            ctx.case(("refresh", label, coeff))
            if not np.allclose(new.mom, want, rtol=1e-10, atol=1e-11) or (coeff == 0 and g.calls != 0):
                bad += 1
                ctx.fail(f"refresh:{coeff}", f"{label}: CorrelatedMomentumTransition(coeff={coeff}) gives {new.mom.tolist()} instead of "
                         f"sqrt(1-c^2) p + c L z = {want.tolist()} ({g.calls} draws)", {"label": label, "coeff": coeff})
        # the coefficient is a public attribute: after re-assigning it (e.g. full refreshment in warm-up, partial afterwards) the update must use the new value
        tr = CorrelatedMomentumTransition(system, mom_resample_coeff=float(rng.choice([1.0, 0.6, 0.0])))
        for coeff in (0.5, 0.95, 0.0, 1.0, 0.3):
            tr.mom_resample_coeff = coeff
            st = state.copy()
            p0 = st.mom.copy()
            z = rng.standard_normal(d)
            new, _ = tr.sample(st, BasisRng(z))
            want = p0 if coeff == 0 else ((1 - coeff ** 2) ** 0.5 * p0 + coeff * (L @ z) if coeff != 1 else L @ z)
            ctx.case(("refresh-reassigned", label, coeff))
            if not np.allclose(new.mom, want, rtol=1e-10, atol=1e-11):
                bad += 1
                ctx.fail("refresh:reassigned_coefficient", f"{label}: after assigning mom_resample_coeff = {coeff} on an existing CorrelatedMomentumTransition the update is "
                         f"{new.mom.tolist()} instead of sqrt(1-c^2) p + c L z = {want.tolist()} (retained and refreshed weights no longer satisfy a^2 + c^2 = 1)",
                         {"label": label, "coeff": coeff})
                break
        st = state.copy()
        z = rng.standard_normal(d)
        new, _ = IndependentMomentumTransition(system).sample(st, BasisRng(z))
        if not np.allclose(new.mom, L @ z, rtol=1e-10, atol=1e-11):
            bad += 1
            ctx.fail("refresh:independent", f"{label}: IndependentMomentumTransition does not give L z", {"label": label})
    # every system class of the zoo
    systems, _ = zoo.make_systems("bare")
    for name, s in systems.items():
        for _ in range(2 if not ctx.thorough else 6):
            check(f"{type(s).__name__}|{name}", name, s, zoo.random_state(name, s, np.random.default_rng(int(rng.integers(0, 2 ** 31)))))
    # every metric matrix kind as a constant metric (Euclidean, Gaussian-split and constrained), and after re-assigning the metric
    mrng = np.random.default_rng(int(rng.integers(0, 2 ** 31)))
    for kind, (m, dd) in metric_variants(mrng, zoo.D).items():
        for cls_name, mk in (("Euclidean", lambda met: S.EuclideanMetricSystem(lambda q: 0.5 * q @ q, grad_neg_log_dens=lambda q: q, metric=met)),
                             ("Gaussian", lambda met: S.GaussianEuclideanMetricSystem(lambda q: 0.1 * np.sum(q ** 4), grad_neg_log_dens=lambda q: 0.4 * q ** 3, metric=met))):
            try:
                s = mk(m)
                st = ChainState(pos=mrng.standard_normal(zoo.D), mom=mrng.standard_normal(zoo.D), dir=1)
                check(f"{cls_name}MetricSystem[{kind}]|euclid", "euclid", s, st)
            except NotImplementedError:
                continue
    for kind, (m, dd) in metric_variants(mrng, zoo.DC).items():
        s = S.DenseConstrainedEuclideanMetricSystem(lambda q: 0.5 * q @ q, zoo.constr_fn, metric=m, grad_neg_log_dens=lambda q: q, jacob_constr=zoo.jac_fn,
                                                    dens_wrt_hausdorff=True)
        st = ChainState(pos=zoo.on_manifold_point(mrng), mom=mrng.standard_normal(zoo.DC), dir=1)
        check(f"DenseConstrainedEuclideanMetricSystem[{kind}]|constr", "constr", s, st)
    # the metric is a public attribute that adapters re-assign: momenta must follow the current metric
    s = S.EuclideanMetricSystem(lambda q: 0.5 * q @ q, grad_neg_log_dens=lambda q: q, metric=np.array([1.0, 2.0, 0.5]))
    st = ChainState(pos=np.zeros(3), mom=np.ones(3), dir=1)
    check("EuclideanMetricSystem[before metric change]|euclid", "euclid", s, st)
    import mici.matrices as mm
    s.metric = mm.DensePositiveDefiniteMatrix(matzoo.spd(mrng, 3))
    check("EuclideanMetricSystem[after metric re-assignment]|euclid", "euclid", s, st)
    s.metric = mm.PositiveDiagonalMatrix(np.array([3.0, 0.2, 1.1]))
    check("EuclideanMetricSystem[after second metric re-assignment]|euclid", "euclid", s, st)
    # through a real adaptive run with a metric adapter
    sysm = S.EuclideanMetricSystem(lambda q: 0.5 * q @ q, grad_neg_log_dens=lambda q: q)
    integ = mici.integrators.LeapfrogIntegrator(sysm, step_size=0.5)
    sampler = mici.samplers.StaticMetropolisHMC(sysm, integ, np.random.default_rng(1), n_step=2)
    sampler.sample_chains(30, 2, [np.zeros(3)], adapters=[mici.adapters.OnlineCovarianceMetricAdapter()], display_progress=False)
    check("EuclideanMetricSystem[after OnlineCovarianceMetricAdapter]|euclid", "euclid", sysm, ChainState(pos=np.zeros(3), mom=np.ones(3), dir=1))
    # the momenta a metric adapter hands over at the end of a stage are drawn under the NEW metric: p = L_new z for the z the chain's generator produces
    for acls in (mici.adapters.OnlineVarianceMetricAdapter, mici.adapters.OnlineCovarianceMetricAdapter):
        for n_chain in (1, 3):
            sysm = S.EuclideanMetricSystem(lambda q: 0.5 * q @ q, grad_neg_log_dens=lambda q: q)
            tr = mici.transitions.MetropolisStaticIntegrationTransition(sysm, mici.integrators.LeapfrogIntegrator(sysm, step_size=0.5), n_step=1)
            ad = acls()
            states, cstates = [], []
            for c in range(n_chain):
                cs = ChainState(pos=rng.standard_normal(3), mom=rng.standard_normal(3), dir=1)
                a = ad.initialize(cs, tr)
                for _ in range(12):
                    cs.pos = rng.standard_normal(3) * np.array([0.3, 1.0, 3.0])
                    ad.update(a, cs, {"accept_stat": 0.7}, tr)
                states.append(a)
                cstates.append(cs)
            zs = [rng.standard_normal(3) for _ in range(n_chain)]
            gens = [BasisRng(z) for z in zs]
            if n_chain == 1:
                ad.finalize(states[0], cstates[0], tr, gens[0])
            else:
                ad.finalize(states, cstates, tr, gens)
            Lnew = np.asarray(sysm.metric.sqrt @ np.eye(3))
            ctx.case(("adapter-handover", acls.__name__, n_chain))
            ctx.count("search:adapter_handover")
            for c, (cs, z) in enumerate(zip(cstates, zs)):
                if not np.allclose(cs.mom, Lnew @ z, rtol=1e-10, atol=1e-12):
                    bad += 1
                    ctx.fail(f"adapter_handover:{acls.__name__}", f"{acls.__name__}.finalize ({n_chain} chain(s)): the momentum handed over for chain {c} is not L z with L the square-root "
                             f"factor of the metric the adapter just set (it is {'the factor of the OLD metric' if np.allclose(cs.mom, z) else 'something else'})",
                             {"adapter": acls.__name__, "n_chain": n_chain})
                    break
    ctx.oblige("search: momentum factor recovered column by column (basis-vector generator) for every system class, every metric matrix kind (incl. low-rank "
               "update / downdate and inverse forms), constrained projections, after metric re-assignment and after a metric adapter: L L^T = metric "
               "(projected), exact linearity, cotangent space, refresh coefficients 0 / 0.35 / 0.8 / 1", bad == 0, f"{bad} failures")


def correspondence(ctx):
    """Coq evaluates P M P^T (projection formula of Lib/Cov.v) on rational J, M and it is compared with L L^T of the implementation."""
    import mici.systems as S
    from mici.states import ChainState
    rng = ctx.rng
    terms, expect = [], []
    for _ in range(3 if not ctx.thorough else 12):
        d, c = 3, 1
        M = rq(np.diag(rng.uniform(0.5, 2, d)))
        q = rq(rng.standard_normal((1, d)))[0]
        J = rq(np.array([2 * q]))
        Mi = np.linalg.inv(M)
        G = J @ Mi @ J.T
        s = S.DenseConstrainedEuclideanMetricSystem(lambda x: 0.0, lambda x: np.array([x @ x - float(q @ q)]), metric=np.diag(M), grad_neg_log_dens=lambda x: 0 * x,
                                                    jacob_constr=lambda x: np.array([2 * x]), dens_wrt_hausdorff=True)
        st = ChainState(pos=q.copy(), mom=np.zeros(d), dir=1)
        L = factor(s, st)
        JGJ = f"(mmul {c} (mtr {qmat(J)}) (mmul {c} {qmat(np.linalg.inv(G))} {qmat(J)}))"
        terms.append(f"to_list {d} {d} (mmul {d} (msub mI (mmul {d} {JGJ} {qmat(Mi)})) (mmul {d} {qmat(M)} (msub mI (mmul {d} {qmat(Mi)} {JGJ}))))")
        expect.append(L @ L.T)
    body = "Require Import Mici.Lib.QMat Mici.Model.Matrices.\nOpen Scope Z_scope.\nEval vm_compute in " + coq_list(terms) + ".\n"
    model = parse_coq_value(ctx.coq_eval(body, name="cov_cases", timeout=900)[0])
    bad = 0
    for impl, m in zip(expect, model):
        mv = np.array([[a / b for a, b in row] for row in m], dtype=float)
        ctx.case(("cov", float(impl[0, 0])))
        if not np.abs(mv - impl).max() <= 1e-4:
            bad += 1
            ctx.fail("corr:projected_covariance", f"P M P^T evaluated by Coq differs from L L^T of the implementation by {np.abs(mv - impl).max():.2e}", {}, kind="corr")
    ctx.oblige(f"correspondence: {len(terms)} projected covariances P M P^T evaluated by Coq vs L L^T recovered from the implementation", bad == 0, f"{bad}")


def run(ctx):
    ctx.rule = "per (system / metric kind, position): momentum factor by basis vectors, linearity on a random combination, refresh transitions at 4 coefficients"
    ctx.assume("a linear image of independent standard normal draws is Gaussian with covariance L L^T (probability theory, not formalised)",
               "second-moment characterisation: the momentum law is the Gaussian the Hamiltonian implies iff L L^T equals the (projected) metric")
    ctx.trust("Lib/Cov.v, Lib/Proj.v tied by the basis-vector correspondence")
    model_ok = ctx.build(["Model/Matrices.vo"], label="executable model")
    if model_ok and ctx.build(["Props/C08.vo"]):
        ctx.props()
    if model_ok:
        correspondence(ctx)
    search(ctx)
