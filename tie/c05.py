"""C05 -- Hamiltonian values and derivative methods of every system are consistent."""
from __future__ import annotations

import numpy as np

import translate_bodies
import translate_systems
import zoo
from c09 import mro_correspondence

LEVEL = "proof"


def formula_h(name, s, st):
    """The documented Hamiltonian computed independently with dense NumPy linear algebra."""
    q, p = st.pos, st.mom
    if "riem" in name:
        M = np.asarray(s.metric(st).array)
        return s._neg_log_dens(q) + 0.5 * np.linalg.slogdet(M)[1] + 0.5 * p @ np.linalg.solve(M, p)
    M = np.asarray(s.metric.array) if s.metric.shape[0] is not None else np.eye(q.shape[0])
    h = s._neg_log_dens(q) + 0.5 * p @ np.linalg.solve(M, p)
    if name.startswith("gauss"):
        h += 0.5 * q @ q
    if zoo.is_constrained(name) and not getattr(s, "dens_wrt_hausdorff", True):
        J = zoo.jac_fn(q)
        h += 0.5 * np.linalg.slogdet(J @ np.linalg.solve(M, J.T))[1]
    return h


def search(ctx):
    from mici.states import ChainState
    bad = 0
    n_pts = 3 if not ctx.thorough else 12
    for conv in ("bare", "tuple"):
        systems, _ = zoo.make_systems(conv)
        for name, s in systems.items():
            rng = np.random.default_rng(int(ctx.rng.integers(0, 2 ** 31)))
            for _ in range(n_pts):
                st0 = zoo.random_state(name, s, rng)
                q, p = st0.pos.copy(), rng.standard_normal(st0.pos.shape)     # momenta off the cotangent space too: the formulas are pointwise
                st = ChainState(pos=q.copy(), mom=p.copy(), dir=1)

                def val(which, qq, pp):
                    return float(getattr(s, which)(ChainState(pos=qq.copy(), mom=pp.copy(), dir=1)))
                checks = {
                    "h=h1+h2": abs(s.h(st) - s.h1(st) - s.h2(st)),
                    "h=formula": abs(s.h(st) - formula_h(name, s, st)),
                    "dh1_dpos": np.abs(s.dh1_dpos(st) - zoo.fd_grad(lambda x: val("h1", x, p), q)).max(),
                    "dh2_dpos": np.abs(s.dh2_dpos(st) - zoo.fd_grad(lambda x: val("h2", x, p), q)).max(),
                    "dh2_dmom": np.abs(s.dh2_dmom(st) - zoo.fd_grad(lambda x: val("h2", q, x), p)).max(),
                    "dh_dpos": np.abs(s.dh_dpos(st) - zoo.fd_grad(lambda x: val("h", x, p), q)).max(),
                    "dh_dmom": np.abs(s.dh_dmom(st) - zoo.fd_grad(lambda x: val("h", q, x), p)).max(),
                    "dh_dpos=sum": np.abs(s.dh_dpos(st) - s.dh1_dpos(st) - s.dh2_dpos(st)).max(),
                }
                ctx.case(("fd", name, conv, tuple(np.round(q, 6))))
                ctx.count(f"search:{type(s).__name__}")
                scale = 1 + abs(s.h(st))
                for k, e in checks.items():
                    tol = 1e-10 * scale if "=" in k else 2e-6 * scale
                    if not (e <= tol):
                        bad += 1
                        ctx.fail(f"{type(s).__name__}.{k}", f"{type(s).__name__} ({name}, {conv} convention): {k} off by {e:.3e} at pos={q.tolist()} mom={p.tolist()}",
                                 {"system": name, "class": type(s).__name__, "check": k, "error": float(e), "conv": conv, "pos": q.tolist(), "mom": p.tolist()})
                # the formulas hold at EVERY position and momentum: also on a state object that already evaluated everything and then had only its
                # position, or only its momentum, re-assigned
                for what in ("pos", "mom"):
                    q2, p2 = (zoo.random_state(name, s, rng).pos.copy(), p) if what == "pos" else (st.pos.copy(), rng.standard_normal(p.shape))
                    setattr(st, what, (q2 if what == "pos" else p2).copy())
                    fresh = ChainState(pos=q2.copy(), mom=p2.copy(), dir=1)
                    errs = {m: float(np.max(np.abs(np.asarray(getattr(s, m)(st)) - np.asarray(getattr(s, m)(fresh)))))
                            for m in ("h", "h1", "h2", "dh1_dpos", "dh2_dpos", "dh2_dmom", "dh_dpos", "dh_dmom")}
                    errs["h=formula"] = abs(float(s.h(st)) - formula_h(name, s, st))
                    ctx.count("search:after_reassignment")
                    for k, e in errs.items():
                        if not e <= 1e-10 * (1 + abs(float(s.h(fresh)))):
                            bad += 1
                            ctx.fail(f"{type(s).__name__}.{k}:after_{what}_assignment", f"{type(s).__name__} ({name}): after evaluating everything and re-assigning only {what}, {k} differs from "
                                     f"its value on a fresh state at the same position and momentum by {e:.3e}", {"system": name, "class": type(s).__name__, "check": k, "assigned": what,
                                                                                                                    "error": float(e), "pos": q2.tolist(), "mom": p2.tolist()})
                            break
    ctx.oblige("search: central finite differences of h, h1, h2 vs every derivative method, h = h1 + h2 = documented formula (dense NumPy), "
               "all system classes, both return conventions; the same after re-assigning only the position / only the momentum of a used state", bad == 0, f"{bad} failures")


def run(ctx):
    ctx.rule = ("finite-difference / formula checks at random positions and momenta of every system class in the zoo (identity, diagonal, dense metrics; "
                "both density conventions; Riemannian metric classes), both return conventions of the user derivative functions")
    ctx.assume("calculus facts encoded in Dq/Dp: the user's grad_neg_log_dens is the gradient of neg_log_dens; the matrix classes' grad_log_abs_det / "
               "grad_quadratic_form_inv are correct (C11) and vjp / mhp chain rules hold; 1/2 p.(M^-1 p) is the kinetic energy",
               "bodies are matched against a table of known forms (tie/translate_bodies.py): an unknown form is a broken tie, decided by the search")
    ctx.trust("translators T4 / T4b (fail-closed; MRO and resolution validated against the live classes)")
    ok = ctx.regen("DepsGen", translate_systems.generate)
    ok = ctx.regen("SystemsGen", translate_bodies.generate) and ok
    if ok and ctx.build(["Props/C05.vo"]):
        ctx.props()
    if ok:
        mro_correspondence(ctx)
    search(ctx)
