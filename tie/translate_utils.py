"""T1: src/mici/utils.py -> coq/Gen/LogSpaceGen.v  (fail closed).

The four helper functions become Gallina functions building terms of Mici.Model.LogSpace.ex,
branch for branch; every LogRepFloat method becomes a function from the receiver's log_val
(an ex) and the other operand (a pv: LogRepFloat or plain float) to a pv, obtained by a
small partial evaluation of the method body in which `isinstance(other, LogRepFloat)` is
resolved per case and calls of other methods/properties of the class are inlined.
Anything outside the handled subset raises Untranslatable.
"""
from __future__ import annotations

import ast
from fractions import Fraction

from common import REPO, Untranslatable

PRIMS = {"exp": "PExp", "expm1": "PExpm1", "log": "PLog", "log1p": "PLog1p"}
CMP = {ast.Gt: "Gt", ast.GtE: "Ge", ast.Lt: "Lt", ast.LtE: "Le", ast.Eq: "Eq", ast.NotEq: "Ne"}
BIN = {ast.Add: "Add", ast.Sub: "Sub", ast.Mult: "Mul", ast.Div: "Div"}
HELPERS = ("log1p_exp", "log1m_exp", "log_sum_exp", "log_diff_exp")
METHODS = ("__add__", "__radd__", "__iadd__", "__sub__", "__rsub__", "__mul__", "__rmul__", "__truediv__",
           "__rtruediv__", "__neg__", "__eq__", "__ne__", "__lt__", "__gt__", "__le__", "__ge__")

EXPECT_INIT = (
    "if log_val is None:\n    if val is None:\n        msg = 'One of val or log_val must be specified.'\n        raise ValueError(msg)\n"
    "    if val > 0:\n        self.log_val = log(val)\n    elif val == 0.0:\n        self.log_val = -inf\n    else:\n"
    "        msg = 'val must be non-negative.'\n        raise ValueError(msg)\nelse:\n    if val is not None:\n"
    "        msg = 'Specify only one of val and log_val.'\n        raise ValueError(msg)\n    self.log_val = log_val")
EXPECT_VAL = "try:\n    return exp(self.log_val)\nexcept OverflowError:\n    return inf"


def U(node, why=""):
    line = getattr(node, "lineno", "?")
    return Untranslatable(f"utils.py:{line}: {why} {ast.unparse(node)[:80] if isinstance(node, ast.AST) else node}")


def const(v):
    f = Fraction(v)
    return f"(Cst ({f.numerator} # {f.denominator}))"


class Tr:
    def __init__(self, src):
        self.tree = ast.parse(src)
        self.funcs = {n.name: n for n in self.tree.body if isinstance(n, ast.FunctionDef)}
        cls = [n for n in self.tree.body if isinstance(n, ast.ClassDef) and n.name == "LogRepFloat"]
        if len(cls) != 1:
            raise Untranslatable("class LogRepFloat not found")
        self.methods = {n.name: n for n in cls[0].body if isinstance(n, ast.FunctionDef)}
        for n in self.tree.body:
            if isinstance(n, ast.AnnAssign) and getattr(n.target, "id", None) == "LOG_2":
                if ast.unparse(n.value) != "log(2.0)":
                    raise U(n, "LOG_2 is no longer log(2.0):")
                break
        else:
            raise Untranslatable("LOG_2 constant not found")
        imp = [n for n in self.tree.body if isinstance(n, ast.ImportFrom) and n.module == "math"]
        names = {a.name for n in imp for a in n.names}
        if not {"exp", "expm1", "log", "log1p", "inf", "nan"} <= names:
            raise Untranslatable("math primitives are no longer imported from math")

    # ---------------------------------------------------------------- float expressions (helpers)
    def fexpr(self, e, env):
        """Float-typed expression -> Coq ex text. env: name -> ('F', text) | ('L', text)."""
        if isinstance(e, ast.Name):
            if e.id == "nan":
                return "CNaN"
            if e.id == "inf":
                return "CPInf"
            if e.id == "LOG_2":
                return "CLog2"
            if e.id in env and env[e.id][0] == "F":
                return env[e.id][1]
            raise U(e, "name is not a float here:")
        if isinstance(e, ast.Constant) and isinstance(e.value, (int, float)) and not isinstance(e.value, bool):
            return const(e.value)
        if isinstance(e, ast.UnaryOp) and isinstance(e.op, ast.USub):
            if isinstance(e.operand, ast.Name) and e.operand.id == "inf":
                return "CNInf"
            v = self.value(e.operand, env)
            if v[0] == "L":
                return self.as_f(self.call_method("__neg__", v[1], None), e)
            return f"(Neg {self.as_f(v, e)})"
        if isinstance(e, ast.BinOp) and type(e.op) in BIN:
            a, b = self.value(e.left, env), self.value(e.right, env)
            if a[0] == "F" and b[0] == "F":
                return f"({BIN[type(e.op)]} {a[1]} {b[1]})"
            raise U(e, "arithmetic on a LogRepFloat operand inside a method body is not handled:")
        if isinstance(e, ast.Call) and isinstance(e.func, ast.Name):
            if e.func.id in PRIMS and len(e.args) == 1 and not e.keywords:
                return f"(Prim {PRIMS[e.func.id]} {self.fexpr(e.args[0], env)})"
            if e.func.id in HELPERS and not e.keywords:
                return f"(gen_{e.func.id} " + " ".join(self.fexpr(a, env) for a in e.args) + ")"
        if isinstance(e, ast.Attribute) or isinstance(e, ast.Call):
            return self.as_f(self.value(e, env), e)
        raise U(e, "unsupported float expression:")

    def as_f(self, v, node):
        if isinstance(v, tuple) and v[0] == "F":
            return v[1]
        if isinstance(v, str) and v.startswith("PF "):
            return v[3:]
        raise U(node, "expected a float:")

    # ---------------------------------------------------------------- general values (methods)
    def value(self, e, env):
        """-> ('F', ex text) | ('L', log_val ex text) | ('P', pv text)"""
        if isinstance(e, ast.Name) and e.id in env:
            return env[e.id]
        if isinstance(e, ast.Attribute) and isinstance(e.value, ast.Name) and e.value.id in env and env[e.value.id][0] == "L":
            lv = env[e.value.id][1]
            if e.attr == "log_val":
                return ("F", lv)
            if e.attr == "val":
                return ("F", f"(gen_LogRepFloat_val {lv})")
            raise U(e, "unknown attribute:")
        if isinstance(e, ast.Call) and isinstance(e.func, ast.Name) and e.func.id == "LogRepFloat":
            if e.args or len(e.keywords) != 1 or e.keywords[0].arg != "log_val":
                raise U(e, "constructor call form:")
            return ("L", self.fexpr(e.keywords[0].value, env))
        if isinstance(e, ast.Call) and isinstance(e.func, ast.Attribute) and e.func.attr in METHODS and len(e.args) <= 1:
            recv = self.value(e.func.value, env)
            arg = self.value(e.args[0], env) if e.args else None
            if recv[0] == "L":
                return ("P", self.call_method(e.func.attr, recv[1], arg))
            if recv[0] == "F" and e.func.attr == "__radd__" and arg is not None and arg[0] == "F":
                return ("F", f"(Add {arg[1]} {recv[1]})")      # float.__radd__(x, y) = y + x
            raise U(e, "method call on a non-LogRepFloat receiver:")
        if isinstance(e, ast.UnaryOp) and isinstance(e.op, ast.USub):
            v = self.value(e.operand, env)
            if v[0] == "L":
                r = self.call_method("__neg__", v[1], None)
                return ("F", self.as_f(r, e))
        return ("F", self.fexpr(e, env))

    def cond(self, e, env):
        """-> Coq cnd text"""
        if isinstance(e, ast.BoolOp) and isinstance(e.op, ast.And):
            cs = [self.cond(v, env) for v in e.values]
            out = cs[-1]
            for c in reversed(cs[:-1]):
                out = f"(And {c} {out})"
            return out
        if isinstance(e, ast.Compare) and len(e.ops) == 1 and type(e.ops[0]) in CMP:
            a, b = self.value(e.left, env), self.value(e.comparators[0], env)
            op = CMP[type(e.ops[0])]
            if a[0] == "F" and b[0] == "F":
                return f"({op} {a[1]} {b[1]})"
            if a[0] == "L":      # rich comparison dispatches to the LogRepFloat method
                meth = {"Gt": "__gt__", "Ge": "__ge__", "Lt": "__lt__", "Le": "__le__", "Eq": "__eq__", "Ne": "__ne__"}[op]
                r = self.call_method(meth, a[1], b)
                if r.startswith("PB "):
                    return r[3:]
                raise U(e, "comparison method does not reduce to a single condition:")
            raise U(e, "comparison with a LogRepFloat on the right only:")
        raise U(e, "unsupported condition:")

    def isinstance_test(self, e):
        return (isinstance(e, ast.Call) and isinstance(e.func, ast.Name) and e.func.id == "isinstance"
                and len(e.args) == 2 and ast.unparse(e.args[0]) == "other" and ast.unparse(e.args[1]) == "LogRepFloat")

    def static_test(self, e, other_is_L):
        """Resolve isinstance(other, LogRepFloat) / not / and statically.
        -> (True|False, None) if the whole test is decided, else (None, residual test expression)."""
        if self.isinstance_test(e):
            if other_is_L is None:
                raise U(e, "isinstance test but method has no other operand:")
            return other_is_L, None
        if isinstance(e, ast.UnaryOp) and isinstance(e.op, ast.Not):
            v, r = self.static_test(e.operand, other_is_L)
            if v is None:
                raise U(e, "negated dynamic condition:")
            return (not v), None
        if isinstance(e, ast.BoolOp) and isinstance(e.op, ast.And):
            rest = []
            for v in e.values:
                sv, r = self.static_test(v, other_is_L)
                if sv is False:
                    return False, None          # short-circuit: later conjuncts are never evaluated
                if sv is None:
                    rest.append(r)
            if not rest:
                return True, None
            return None, (rest[0] if len(rest) == 1 else ast.BoolOp(op=ast.And(), values=rest))
        return None, e

    # ---------------------------------------------------------------- statements
    def helper_body(self, stmts, env):
        st = stmts[0]
        if isinstance(st, ast.Expr) and isinstance(st.value, ast.Constant) and isinstance(st.value.value, str):
            return self.helper_body(stmts[1:], env)
        if isinstance(st, ast.Return) and st.value is not None:
            return self.fexpr(st.value, env)
        if isinstance(st, ast.If):
            c = self.cond(st.test, env)
            t = self.helper_body(st.body, env)
            rest = (st.orelse or []) + stmts[1:] if not self.ends_in_return(st.orelse) else st.orelse
            if not st.orelse:
                rest = stmts[1:]
            if not rest:
                raise U(st, "if without continuation:")
            if not self.ends_in_return(st.body):
                raise U(st, "if-body must end in return:")
            return f"(If {c} {t}\n      {self.helper_body(rest, env)})"
        raise U(st, "unsupported statement:")

    def ends_in_return(self, stmts):
        if not stmts:
            return False
        last = stmts[-1]
        if isinstance(last, ast.Return):
            return True
        if isinstance(last, ast.If) and last.orelse:
            return self.ends_in_return(last.body) and self.ends_in_return(last.orelse)
        return False

    def method_body(self, stmts, env, other_is_L):
        """-> pv text.  env['self'] = ('L', current log_val text)."""
        if not stmts:
            raise Untranslatable("method body falls off the end")
        st = stmts[0]
        rest = stmts[1:]
        if isinstance(st, ast.Expr) and isinstance(st.value, ast.Constant) and isinstance(st.value.value, str):
            return self.method_body(rest, env, other_is_L)
        if isinstance(st, ast.Return) and st.value is not None:
            if isinstance(st.value, ast.Name) and st.value.id == "self":
                return f"PL {env['self'][1]}"
            if isinstance(st.value, ast.Compare) or isinstance(st.value, ast.BoolOp):
                return f"PB {self.cond(st.value, env)}"
            v = self.value(st.value, env)
            return {"F": f"PF {v[1]}", "L": f"PL {v[1]}", "P": v[1]}[v[0]]
        if isinstance(st, ast.If):
            static, residual = self.static_test(st.test, other_is_L)
            if static is not None:
                branch = st.body if static else st.orelse
                return self.method_body(list(branch) + ([] if self.ends_in_return(branch) else rest), env, other_is_L)
            c = self.cond(residual, env)
            a = self.method_body(list(st.body) + ([] if self.ends_in_return(st.body) else rest), env, other_is_L)
            b = self.method_body(list(st.orelse) + ([] if self.ends_in_return(st.orelse) else rest), env, other_is_L)
            return f"PIf {c} ({a}) ({b})"
        if (isinstance(st, ast.Assign) and len(st.targets) == 1 and ast.unparse(st.targets[0]) == "self.log_val"):
            env2 = dict(env)
            env2["self"] = ("L", self.fexpr(st.value, env))
            return self.method_body(rest, env2, other_is_L)
        raise U(st, "unsupported statement in method:")

    def call_method(self, name, self_lv, other):
        """Inline LogRepFloat.<name> for receiver log_val `self_lv` and operand `other` (value triple or None)."""
        if name not in self.methods:
            raise Untranslatable(f"LogRepFloat.{name} is missing")
        m = self.methods[name]
        params = [a.arg for a in m.args.args]
        if params[0] != "self" or len(params) != (1 if other is None else 2):
            raise U(m, "unexpected signature:")
        env = {"self": ("L", self_lv)}
        if other is not None:
            if other[0] not in ("F", "L"):
                raise Untranslatable(f"LogRepFloat.{name}: operand is not a value")
            env[params[1]] = other
            if params[1] != "other":
                raise U(m, "operand must be called other:")
        return self.method_body(list(m.body), env, None if other is None else other[0] == "L")

    # ---------------------------------------------------------------- emit
    def emit(self):
        out = ["(* generated by tie/translate_utils.py (T1) from src/mici/utils.py -- do not edit *)",
               "From Coq Require Import QArith.", "Require Import Mici.Model.LogSpace.", ""]
        for name in HELPERS:
            if name not in self.funcs:
                raise Untranslatable(f"helper {name} is missing")
            f = self.funcs[name]
            params = [a.arg for a in f.args.args]
            env = {p: ("F", p) for p in params}
            body = self.helper_body(list(f.body), env)
            out.append(f"Definition gen_{name} " + " ".join(f"({p} : ex)" for p in params) + f" : ex :=\n  {body}.\n")
        # constructor and val property: exact-shape patterns
        init = self.methods.get("__init__")
        if init is None or ast.unparse(ast.Module(body=init.body, type_ignores=[])) != EXPECT_INIT:
            raise Untranslatable("LogRepFloat.__init__ no longer has the expected shape")
        out.append("Definition gen_LogRepFloat_init_val (val : ex) : ex :=\n"
                   "  (If (Gt val (Cst (0 # 1))) (Prim PLog val) (If (Eq val (Cst (0 # 1))) CNInf CErr)).\n")
        valp = self.methods.get("val")
        if valp is None or ast.unparse(ast.Module(body=valp.body, type_ignores=[])) != EXPECT_VAL:
            raise Untranslatable("LogRepFloat.val no longer has the expected shape")
        out.append("Definition gen_LogRepFloat_val (log_val : ex) : ex := (Prim PExp log_val).\n")
        for name in METHODS:
            if name == "__neg__":
                body = self.call_method(name, "self_log_val", None)
                out.append(f"Definition gen_LogRepFloat{name} (self_log_val : ex) : pv :=\n  {body}.\n")
                continue
            # reflected methods are only ever invoked by Python with a non-LogRepFloat left operand
            bl = ("PErr" if name in ("__radd__", "__rsub__", "__rmul__", "__rtruediv__")
                  else self.call_method(name, "self_log_val", ("L", "other_log_val")))
            bf = self.call_method(name, "self_log_val", ("F", "other_v"))
            out.append(f"Definition gen_LogRepFloat{name} (self_log_val : ex) (other : pv) : pv :=\n"
                       f"  match other with\n  | PL other_log_val => {bl}\n  | PF other_v => {bf}\n  | _ => PErr\n  end.\n")
        return "\n".join(out)


def generate():
    return Tr((REPO / "src/mici/utils.py").read_text()).emit()


if __name__ == "__main__":
    print(generate())
