"""C12 -- numerical failures inside a trajectory are contained as rejections."""
from __future__ import annotations

import numpy as np

import translate_protect
import zoo

LEVEL = "proof"
KINDS = ["nan", "inf", "neginf", "ValueError", "LinAlgError"]


def in_solver():
    import sys
    f = sys._getframe(2)
    while f is not None:
        if f.f_code.co_name.startswith(("solve_fixed_point", "solve_projection")):
            return True
        f = f.f_back
    return False


class Injector:
    """Wraps user callbacks: the k-th call (0-based, counted over all wrapped callbacks of one run) of callback `name` faults."""

    def __init__(self):
        self.target, self.k, self.kind, self.counts, self.fired, self.nan_calls, self.skipped = None, None, None, {}, False, 0, False

    def arm(self, target, k, kind):
        self.target, self.k, self.kind, self.counts, self.fired, self.nan_calls, self.skipped = target, k, kind, {}, False, 0, False

    def wrap(self, name, f):
        def g(q):
            n = self.counts.get(name, 0)
            self.counts[name] = n + 1
            if self.fired and not np.all(np.isfinite(q)):
                self.nan_calls += 1
            out = f(q)
            if name == self.target and n == self.k:
                if self.kind in ("ValueError", "LinAlgError") and not in_solver():
                    self.skipped = True      # exceptions are only in scope inside an iterative solve
                    return out
                self.fired = True
                if self.kind == "ValueError":
                    raise ValueError("injected")
                if self.kind == "LinAlgError":
                    raise np.linalg.LinAlgError("injected")
                val = {"nan": np.nan, "inf": np.inf, "neginf": -np.inf}[self.kind]
                if callable(out):
                    return lambda v: np.full_like(np.asarray(out(v), dtype=float), val)
                return np.full_like(np.asarray(out, dtype=float), val) if np.ndim(out) else val
            return out
        return g


def build(inj, sysname):
    import mici.systems as S
    w = inj.wrap
    if sysname == "euclid":
        return S.EuclideanMetricSystem(w("nld", lambda q: 0.5 * q @ zoo.AM @ q), grad_neg_log_dens=w("grad", lambda q: zoo.AM @ q), metric=zoo.MDENSE)
    if sysname == "riem":
        return S.DiagonalRiemannianMetricSystem(w("nld", lambda q: 0.5 * q @ zoo.AM @ q), w("metric", lambda q: 1.0 + q ** 2),
                                                vjp_metric_diagonal_func=w("vjp", lambda q: (lambda v: 2 * q * v)),
                                                grad_neg_log_dens=w("grad", lambda q: zoo.AM @ q))
    return S.DenseConstrainedEuclideanMetricSystem(w("nld", lambda q: 0.5 * np.sum((q - 0.2) ** 2)), w("constr", zoo.constr_fn), metric=zoo.MC,
                                                   dens_wrt_hausdorff=True, grad_neg_log_dens=w("grad", lambda q: q - 0.2), jacob_constr=w("jacob", zoo.jac_fn))


def configs(thorough):
    import mici.integrators as I
    import mici.solvers as sol
    import mici.transitions as T
    out = []
    for tname in ("static", "multinomial", "slice"):
        mk_t = {"static": lambda s, i: T.MetropolisStaticIntegrationTransition(s, i, n_step=3),
                "multinomial": lambda s, i: T.MultinomialDynamicIntegrationTransition(s, i, max_tree_depth=3),
                "slice": lambda s, i: T.SliceDynamicIntegrationTransition(s, i, max_tree_depth=3)}[tname]
        out.append(("euclid", "LF", lambda s: I.LeapfrogIntegrator(s, 0.3), tname, mk_t, ["nld", "grad"]))
        for fp in (sol.solve_fixed_point_direct, sol.solve_fixed_point_steffensen):
            out.append(("riem", f"ILF_{fp.__name__[18:]}", lambda s, fp=fp: I.ImplicitLeapfrogIntegrator(s, 0.1, fixed_point_solver=fp), tname, mk_t,
                        ["nld", "grad", "metric", "vjp"]))
        out.append(("riem", "IMP", lambda s: I.ImplicitMidpointIntegrator(s, 0.1), tname, mk_t, ["nld", "grad", "metric", "vjp"]))
        for ps in (sol.solve_projection_onto_manifold_newton, sol.solve_projection_onto_manifold_quasi_newton,
                   sol.solve_projection_onto_manifold_newton_with_line_search):
            out.append(("constr", f"CLF_{ps.__name__[31:] or 'newton'}", lambda s, ps=ps: I.ConstrainedLeapfrogIntegrator(s, 0.15, projection_solver=ps),
                        tname, mk_t, ["nld", "grad", "constr", "jacob"]))
    if not thorough:
        out = [c for c in out if not (c[3] == "slice" and c[0] != "euclid")]
    return out


def fault_grid(ctx):
    import mici
    from mici.states import ChainState
    bad = 0
    inj = Injector()
    for sysname, iname, mk_i, tname, mk_t, callbacks in configs(ctx.thorough):
        s = build(inj, sysname)
        integ = mk_i(s)
        trans = mk_t(s, integ)
        mom_t = mici.transitions.IndependentMomentumTransition(s)
        seed = int(ctx.rng.integers(0, 2 ** 31))
        q0 = zoo.on_manifold_point(np.random.default_rng(5)) if sysname == "constr" else 0.3 * np.random.default_rng(5).standard_normal(zoo.D)

        def chain(n_iter=3):
            rng = np.random.default_rng(seed)
            st = ChainState(pos=q0.copy(), mom=None, dir=1)
            st.mom = s.sample_momentum(st, rng)
            recs = []
            for it in range(n_iter):
                fired_before = inj.fired
                st, _ = mom_t.sample(st, rng)
                st, stats = trans.sample(st, rng)
                recs.append((st, stats, inj.fired and not fired_before))
            return recs
        inj.arm(None, None, None)
        clean = chain()
        base_counts = dict(inj.counts)
        inj.arm(None, None, None)
        chain(1)
        first_counts = dict(inj.counts)
        for cb in callbacks:
            lo, hi = first_counts.get(cb, 0), base_counts.get(cb, 0)
            ks = list(range(lo, hi, max(1, (hi - lo) // (6 if not ctx.thorough else 40))))
            for k in ks:
                for kind in KINDS:
                    inj.arm(cb, k, kind)
                    ctx.case(("fault", sysname, iname, tname, cb, k, kind))
                    ctx.count(f"grid:{sysname}:{kind}")
                    try:
                        recs = chain()
                    except Exception as e:  # noqa: BLE001
                        key = f"escape:{type(e).__module__.split('.')[0]}.{type(e).__name__}:{cb}:{sysname}"
                        bad += not ctx.is_known(key)
                        ctx.fail(key, f"{type(e).__name__} escaped a {tname} transition ({iname} on {sysname}) when call #{k} of the user "
                                 f"{cb} function faulted with {kind}: {str(e)[:100]}", {"system": sysname, "integrator": iname, "transition": tname,
                                                                                      "callback": cb, "call_index": k, "kind": kind, "seed": seed})
                        continue
                    if inj.skipped:
                        ctx.count("grid:exception_outside_solver(skipped)")
                        continue
                    probs = []
                    for it, (st, stats, fired_here) in enumerate(recs):
                        if not (np.all(np.isfinite(st.pos)) and np.all(np.isfinite(st.mom))):
                            probs.append(f"iteration {it}: the returned chain state is not finite")
                        if not np.isfinite(stats["accept_stat"]):
                            probs.append(f"iteration {it}: accept_stat is {stats['accept_stat']}")
                        if fired_here and tname != "static" and kind in ("nan", "inf") and cb in ("nld", "grad") \
                                and not (stats.get("diverging") or stats["convergence_error"] or stats["non_reversible_step"]):
                            probs.append(f"iteration {it}: a {kind} from {cb} inside the trajectory was not recorded (diverging / error flags all False)")
                        if fired_here and kind in ("ValueError", "LinAlgError") and cb in ("constr", "metric", "vjp") and not (
                                stats["convergence_error"] or stats["non_reversible_step"] or stats.get("diverging")) and False:
                            probs.append("solver failure not recorded")
                    if inj.nan_calls > 25:
                        probs.append(f"user functions were called {inj.nan_calls} times at non-finite positions after the fault")
                    if probs:
                        bad += 1
                        ctx.fail(f"contain:{tname}:{cb}:{kind}", f"{tname} transition ({iname} on {sysname}), call #{k} of {cb} faulted with {kind}: {probs[0]}",
                                 {"system": sysname, "integrator": iname, "transition": tname, "callback": cb, "call_index": k, "kind": kind, "seed": seed,
                                  "problems": probs[:4]})
    ctx.oblige("fault grid: every callback x call index (sampled) x fault kind (NaN, +-inf, ValueError, LinAlgError) x integrator/solver x transition type "
               "over 3-iteration chains: nothing escapes, states stay finite, faults inside dynamic trajectories are recorded", bad == 0, f"{bad} failures")


KNOWN_ESCAPES = {}


def solver_direct_search(ctx):
    """Fixed-point solvers driven directly with scripted functions: never an unconverged result, only ConvergenceError."""
    import mici.solvers as sol
    from mici.errors import ConvergenceError
    bad = 0
    for solver in (sol.solve_fixed_point_direct, sol.solve_fixed_point_steffensen):
        for trial in range(60 if not ctx.thorough else 600):
            rng = np.random.default_rng(int(ctx.rng.integers(0, 2 ** 31)))
            contraction = rng.uniform(0.1, 1.4)
            fault_at, kind = int(rng.integers(0, 12)), KINDS[int(rng.integers(0, 5))] if rng.random() < 0.7 else None
            calls = [0]
            target = rng.standard_normal(3)

            def f(x):
                calls[0] += 1
                if kind and calls[0] - 1 == fault_at:
                    if kind == "ValueError":
                        raise ValueError("x")
                    if kind == "LinAlgError":
                        raise np.linalg.LinAlgError("x")
                    return np.full(3, {"nan": np.nan, "inf": np.inf, "neginf": -np.inf}[kind])
                return target + contraction * (x - target)
            ctx.case(("solver", solver.__name__, trial))
            ctx.count("search:solver_direct")
            try:
                x = solver(f, rng.standard_normal(3), max_iters=30)
                resid = np.abs(f.__wrapped__(x) - x).max() if hasattr(f, "__wrapped__") else np.abs(target + contraction * (x - target) - x).max()
                if not resid < 1e-6:
                    bad += 1
                    ctx.fail(f"unconverged:{solver.__name__}", f"{solver.__name__} returned x with |f(x) - x| = {resid:.2e}", {"solver": solver.__name__, "contraction": contraction})
            except ConvergenceError:
                pass
            except Exception as e:  # noqa: BLE001
                bad += 1
                ctx.fail(f"foreign:{solver.__name__}:{type(e).__name__}", f"{solver.__name__} let {type(e).__name__} escape (fault {kind} at call {fault_at})",
                         {"solver": solver.__name__, "kind": kind, "fault_at": fault_at})
    ctx.oblige("search: fixed-point solvers on scripted contractions / expansions with faults: converged result or ConvergenceError only", bad == 0, f"{bad} failures")


def reversibility_check_search(ctx):
    """a step whose reversibility check fails must not move the chain and must be recorded: on strongly curved manifolds with large steps and several inner steps,
    every ACCEPTED move not flagged non_reversible_step / convergence_error is undone by one step from the accepted state with the direction flipped"""
    import mici
    import zoo
    from mici.errors import IntegratorError
    from mici.states import ChainState
    bad = 0
    counts = {"accepted": 0, "flagged": 0}
    for kind, metric in (("curve", None), ("surface", np.array([1.0, 2.0, 0.5]))):
        s, point, d = zoo.make_curved(kind, metric)
        rng = np.random.default_rng(int(ctx.rng.integers(0, 2 ** 31)))
        for n_inner in (1, 2, 3):
            for eps in (0.5, 0.9, 1.3):
                integ = mici.integrators.ConstrainedLeapfrogIntegrator(s, eps, n_inner_step=n_inner)
                trans = mici.transitions.MetropolisStaticIntegrationTransition(s, integ, n_step=1)
                for _ in range(12 if not ctx.thorough else 60):
                    q = point(rng)
                    st = ChainState(pos=q, mom=None, dir=1)
                    st.mom = s.sample_momentum(st, rng)
                    start = st.copy()
                    new, stats = trans.sample(st, rng)
                    ctx.case(("revcheck", kind, n_inner, eps, tuple(np.round(q, 4))))
                    ctx.count("search:reversibility_recorded")
                    if stats["non_reversible_step"] or stats["convergence_error"]:
                        counts["flagged"] += 1
                        if not np.array_equal(new.pos, start.pos):
                            bad += 1
                            ctx.fail("flagged_step_moved", f"{kind}, n_inner_step={n_inner}, eps={eps}: a transition flagged non_reversible_step / convergence_error moved the chain", {})
                        continue
                    if np.array_equal(new.pos, start.pos):
                        continue
                    counts["accepted"] += 1
                    back = ChainState(pos=new.pos.copy(), mom=new.mom.copy(), dir=-start.dir if new.dir == start.dir else new.dir)
                    # the Metropolis transition flips the direction on acceptance twice (net unchanged): step back along the reversed direction
                    back.dir = -start.dir
                    try:
                        r = integ.step(back)
                        err = np.abs(r.pos - start.pos).max()
                    except IntegratorError:
                        # a loud failure on the way back is allowed (rounding-level differences can tip a borderline solve): inconclusive, not a silent irreversible move
                        ctx.count("search:reversibility_recorded:way_back_raised")
                        continue
                    if not err <= 1e-5:
                        bad += 1
                        ctx.fail("unrecorded_irreversible_step", f"{kind} manifold, n_inner_step={n_inner}, eps={eps}: the chain accepted a move with non_reversible_step=False and "
                                 f"convergence_error=False, but one step back from the accepted state ends {err:.2e} from the start (the step was not reversible and was not recorded)",
                                 {"kind": kind, "n_inner": n_inner, "eps": eps, "pos": start.pos.tolist(), "mom": start.mom.tolist()})
    ctx.extra["reversibility_check_counts"] = counts
    ctx.oblige("search: constrained transitions on strongly curved manifolds with large steps and 1-3 inner steps: flagged steps leave the state unchanged, accepted unflagged "
               "moves are reversible", bad == 0, f"{bad} failures; {counts}")


def run(ctx):
    ctx.rule = "fault grid cases: (system, integrator/solver, transition, callback, call index, fault kind); distinct = distinct tuple"
    ctx.assume("the solver loop model abstracts each iteration's callbacks into one outcome (value with its error norm / NaN-valued / exception)",
               "faults are injected through the user callbacks only (density, gradient, constraint, Jacobian, metric, vjp) after the first clean iteration")
    ctx.trust("translator T6 tie/translate_protect.py (fail-closed structural checks of the solvers)")
    ok = ctx.regen("ProtectGen", translate_protect.generate)
    if ok and ctx.build(["Props/C12.vo"]):
        ctx.props()
    solver_direct_search(ctx)
    reversibility_check_search(ctx)
    fault_grid(ctx)
