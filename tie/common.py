"""Shared machinery of the mici verification checks (see /verif/DESIGN.md section 2).

A check is a Python function ``run(ctx)`` in ``tie/cXX.py``.  It
  1. regenerates the Coq files derived from /repo (translators, fail closed),
  2. builds the property's Coq cone (full .vo build) and reads ``Print Assumptions``,
  3. runs correspondence checks between the executable Coq model and the implementation,
  4. runs the violation search (direct oracle on the implementation).
``ctx.finish()`` applies the decision rule, writes the evidence file and exits.
"""
from __future__ import annotations

import fcntl
import hashlib
import json
import os
import re
import shutil
import subprocess
import sys
import tempfile
import time
import traceback
from fractions import Fraction
from pathlib import Path

VERIF = Path(__file__).resolve().parent.parent
REPO = Path(os.environ.get("MICI_REPO", "/repo"))
COQ = VERIF / "coq"
BUILD = VERIF / "build"
EVID = VERIF / "evidence"
REPLAY = VERIF / "replay"
KNOWN = VERIF / "known_findings.json"
PY = "/venv/bin/python"

COQ_TIMEOUT = int(os.environ.get("VERIF_COQ_TIMEOUT", "900"))

BASE_TRUST = [
    "Coq 8.16.1 kernel (coqc full .vo build; vm_compute used for finite table checks and model evaluation; no native_compute)",
    "Python-side harness: float -> exact rational conversion (float.as_integer_ratio), tolerance comparisons, cases.v generators",
    "NumPy/SciPy/LAPACK/libm, pickle, multiprocessing: exercised as black boxes, not modelled",
]


class Untranslatable(Exception):
    """A translator met source it does not understand: the tie is broken (fail closed)."""


def sh(cmd, timeout=None, cwd=None, env=None, inp=None):
    p = subprocess.run(cmd, shell=isinstance(cmd, str), cwd=cwd, env=env, input=inp,
                       capture_output=True, text=True, timeout=timeout)
    return p.returncode, p.stdout, p.stderr


def q_of_float(x: float) -> Fraction:
    return Fraction(*float(x).as_integer_ratio())


def coq_q(x) -> str:
    f = x if isinstance(x, Fraction) else q_of_float(x)
    return f"({f.numerator} # {f.denominator})"


def coq_z(n: int) -> str:
    return f"({int(n)})%Z"


def coq_list(items) -> str:
    return "[" + "; ".join(items) + "]"


def parse_coq_value(txt: str):
    """Parse the printed form of nested lists / tuples of Z, bool, option into Python lists."""
    t = re.sub(r"%[A-Za-z_]+", "", txt)
    t = t.replace(";", ",").replace("true", "True").replace("false", "False")
    t = re.sub(r"\bSome\b", "", t).replace("None", "None")
    t = re.sub(r"(-?\d+) # (\d+)", r"Fraction(\1,\2)", t)
    t = re.sub(r"\s+", " ", t)
    return eval(t, {"Fraction": Fraction, "__builtins__": {}})  # noqa: S307 - output of our own coqc run


def coq_eval_outputs(stdout: str):
    """Split coqc stdout into the values printed by successive `Eval ... in` commands."""
    vals = []
    for m in re.finditer(r"^\s*= (.*?)\n\s*: [^\n]*(?:\n(?=\s*=|\Z)|\n)", stdout + "\n", re.S | re.M):
        vals.append(m.group(1))
    return vals


class Failure:
    def __init__(self, key, kind, what, replay=None):
        self.key, self.kind, self.what, self.replay = key, kind, what, replay


class Ctx:
    def __init__(self, prop: str, tier: str, seed: int, level: str):
        import numpy as np

        self.prop, self.tier, self.seed, self.level = prop, tier, seed, level
        self.t0 = time.time()
        self.rng = np.random.default_rng(seed)
        self.obligations = []      # (name, ok, detail)
        self.failures: list[Failure] = []
        self.samples = []
        self.dist = {}
        self.evaluations = 0
        self.nontrivial = set()
        self.notes = []
        self.trusted = list(BASE_TRUST)
        self.assumptions = []
        self.axioms = {}
        self.extra = {}
        self.thorough = tier == "thorough"
        self.known = json.loads(KNOWN.read_text())["findings"] if KNOWN.exists() else []
        self.rule = ""
        BUILD.mkdir(exist_ok=True)
        EVID.mkdir(exist_ok=True)
        REPLAY.mkdir(exist_ok=True)

    # ------------------------------------------------------------------ bookkeeping
    def count(self, key, n=1):
        self.dist[key] = self.dist.get(key, 0) + n

    def case(self, label=None, nontrivial=True):
        """Register one evaluated case; `label` identifies it for the distinct-nontrivial count."""
        self.evaluations += 1
        if nontrivial and label is not None:
            self.nontrivial.add(label if isinstance(label, str) else repr(label))

    def sample(self, s, cap=6):
        if len(self.samples) < cap:
            self.samples.append(s)

    def oblige(self, name, ok, detail=""):
        self.obligations.append((name, bool(ok), detail))

    def fail(self, key, what, replay=None, kind="impl"):
        """Record a failure.  kind: impl (concrete failing input on the implementation),
        proof (a Coq obligation no longer checks), corr (model/implementation disagree),
        tie (translator could not regenerate the model)."""
        self.failures.append(Failure(key, kind, what, replay))

    def is_known(self, key):
        return any(k.get("status") == "known" and k["property"] == self.prop and k["key"] == key for k in self.known)

    def trust(self, *items):
        for i in items:
            if i not in self.trusted:
                self.trusted.append(i)

    def assume(self, *items):
        for i in items:
            if i not in self.assumptions:
                self.assumptions.append(i)

    # ------------------------------------------------------------------ translators / coq
    def regen(self, name, producer):
        """Regenerate coq/Gen/<name>.v from /repo via `producer()` (returns Coq text).
        Fail closed: an Untranslatable (or any crash) is a broken tie."""
        path = COQ / "Gen" / f"{name}.v"
        path.parent.mkdir(exist_ok=True)
        try:
            text = producer()
        except Exception as e:  # noqa: BLE001
            detail = f"{type(e).__name__}: {e}"
            self.oblige(f"translate:{name}", False, detail)
            self.fail(f"tie:{name}", f"translator for Gen/{name}.v failed closed on the current source: {detail}",
                      {"translator": name, "error": detail, "trace": traceback.format_exc()[-1500:]}, kind="tie")
            return False
        with open(COQ / ".lock", "w") as lk:
            fcntl.flock(lk, fcntl.LOCK_EX)
            if not path.exists() or path.read_text() != text:
                path.write_text(text)
        self.oblige(f"translate:{name}", True, f"sha1 {hashlib.sha1(text.encode()).hexdigest()[:12]}")
        return True

    def build(self, targets, label=None):
        """Full .vo build of the given targets (relative to coq/). Returns True on success."""
        ensure_makefile()
        t = time.time()
        with open(COQ / ".lock", "w") as lk:
            fcntl.flock(lk, fcntl.LOCK_EX)
            rc, out, err = sh(["timeout", str(COQ_TIMEOUT), "make", "-C", str(COQ), "-j8", *targets], timeout=COQ_TIMEOUT + 30)
        ok = rc == 0
        self.extra.setdefault("build_s", 0)
        self.extra["build_s"] = round(self.extra["build_s"] + time.time() - t, 1)
        if not ok:
            m = re.search(r'File "\./([^"]+)", line (\d+)', err)
            where = f"{m.group(1)}:{m.group(2)}" if m else "?"
            tail = err.strip()[-1200:]
            self.oblige(f"build:{' '.join(targets)}", False, where)
            self.fail(f"proof:{where.split(':')[0]}", f"Coq build of {' '.join(targets)} failed at {where}",
                      {"targets": targets, "where": where, "stderr_tail": tail}, kind="proof")
        else:
            self.oblige(f"build:{' '.join(targets)}", True, label or "full .vo build")
        return ok

    def props(self, relpath=None):
        """Recompile coq/Props/<prop>.v and read the theorems and their Print Assumptions output."""
        rel = relpath or f"Props/{self.prop}.v"
        src = (COQ / rel).read_text()
        theorems = re.findall(r"^(?:Theorem|Corollary)\s+([A-Za-z0-9_']+)", src, re.M)
        with open(COQ / ".lock", "w") as lk:
            fcntl.flock(lk, fcntl.LOCK_EX)
            rc, out, err = sh(["timeout", "600", "coqc", "-Q", ".", "Mici", rel], cwd=COQ, timeout=630)
        if rc != 0:
            self.oblige(f"props:{rel}", False, err.strip()[-400:])
            self.fail(f"proof:{rel}", f"{rel} no longer compiles", {"stderr_tail": err.strip()[-1200:]}, kind="proof")
            return {}
        # Print Assumptions output blocks, in order
        blocks = re.split(r"(?m)^(?=Closed under the global context|Axioms:)", out)
        blocks = [b for b in blocks if b.startswith(("Closed under", "Axioms:"))]
        printed = re.findall(r"^Print Assumptions\s+([A-Za-z0-9_'.]+)\.", src, re.M)
        res = {}
        for name, blk in zip(printed, blocks):
            if blk.startswith("Closed"):
                res[name] = []
            else:
                res[name] = sorted(set(re.findall(r"^([A-Za-z][A-Za-z0-9_'.]*)\s*(?::|$)", blk.split("\n", 1)[1] if "\n" in blk else "", re.M)))
        for th in theorems:
            ax = res.get(th)
            self.oblige(f"theorem:{th}", True, "closed under the global context" if ax == [] else
                        ("axioms: " + ", ".join(ax) if ax else "compiled"))
            if ax:
                for a in ax:
                    self.trust(f"stdlib axiom {a}")
        self.axioms.update(res)
        return res

    def coq_eval(self, body: str, name="cases", requires=(), timeout=600):
        """Compile a generated cases file against the built development; return printed values."""
        d = Path(tempfile.mkdtemp(prefix=f"{self.prop}_", dir=BUILD))
        try:
            f = d / f"{name}.v"
            hdr = "From Coq Require Import ZArith QArith List String.\nImport ListNotations.\n"
            hdr += "".join(f"Require Import {r}.\n" for r in requires)
            hdr += "Set Printing Width 1000000.\nSet Printing Depth 1000000.\n"
            f.write_text(hdr + body)
            rc, out, err = sh(f"ulimit -s unlimited 2>/dev/null; exec timeout {timeout} coqc -Q {COQ} Mici {f}", cwd=d, timeout=timeout + 30)
            if rc != 0:
                raise RuntimeError(f"coqc failed on generated cases: {err.strip()[-800:]}")
            return coq_eval_outputs(out)
        finally:
            shutil.rmtree(d, ignore_errors=True)

    # ------------------------------------------------------------------ decision rule
    def finish(self):
        gate_failures = grep_gate()
        for g in gate_failures:
            self.oblige("grep-gate", False, g)
            self.fail("gate", f"forbidden construct in the Coq development: {g}", {"gate": g}, kind="proof")
        if not gate_failures:
            self.oblige("grep-gate: no Admitted/admit/Axiom/Parameter/Conjecture/guard switches in coq/", True)
        known_hits, violations = [], []
        for f in self.failures:
            k = next((k for k in self.known if k.get("status") == "known" and k["property"] == self.prop
                      and k["key"] == f.key), None)
            (known_hits if k else violations).append((f, k))
        seen = set()
        for f, k in known_hits:
            if f.key not in seen:
                seen.add(f.key)
                print(f"KNOWN-FINDING: property={self.prop} {k['id']} {k['what']}")
        out_viol = []
        for old in REPLAY.glob(f"{self.prop}_*.json"):
            old.unlink()
        if violations:
            concrete = [f for f, _ in violations if f.kind in ("impl", "corr") and f.replay is not None]
            broken = [f for f, _ in violations if f.kind in ("proof", "tie") or f.replay is None]
            if concrete:
                for i, f in enumerate(dedup(concrete)[:5]):
                    path = REPLAY / f"{self.prop}_{i}.json"
                    path.write_text(json.dumps({"property": self.prop, "key": f.key, "kind": f.kind, "what": f.what,
                                                "replay": f.replay, "seed": self.seed, "tier": self.tier,
                                                "also_broken": [b.what for b in broken][:5]}, indent=1, default=str))
                    out_viol.append(f"VIOLATION property={self.prop} replay={path}")
                    print(f"  ({f.kind}) {f.what}", file=sys.stderr)
            else:
                path = REPLAY / f"{self.prop}_broken.json"
                path.write_text(json.dumps({"property": self.prop, "no_failing_input_found": True,
                                            "broken": [{"key": f.key, "kind": f.kind, "what": f.what, "detail": f.replay}
                                                       for f in broken], "seed": self.seed, "tier": self.tier},
                                           indent=1, default=str))
                out_viol.append(f"VIOLATION property={self.prop} replay={path} no-failing-input-found")
                for f in broken[:5]:
                    print(f"  ({f.kind}) {f.what}", file=sys.stderr)
        self.write_evidence(len(violations), [f.key for f, _ in known_hits])
        for line in out_viol:
            print(line)
        sys.stdout.flush()
        sys.exit(1 if out_viol else 0)

    def write_evidence(self, n_viol, known_keys):
        obl = len(self.obligations)
        dis = sum(1 for _, ok, _ in self.obligations if ok)
        cov = {
            "obligations": obl,
            "discharged": dis,
            "checker_cmd": f"make -C /verif/coq Props/{self.prop}.vo  &&  coqc -Q . Mici Props/{self.prop}.v (Print Assumptions)  [driven by ./check {self.prop} --tier {self.tier}]",
            "trusted_base": self.trusted,
            "evaluations": self.evaluations,
            "distinct_nontrivial": len(self.nontrivial),
            "rule": self.rule,
            "samples": self.samples or [o[0] for o in self.obligations[:5]],
            "obligation_list": [{"name": n, "ok": ok, "detail": d} for n, ok, d in self.obligations],
            "input_distribution": self.dist,
            "axioms_per_theorem": self.axioms,
            "known_findings_observed": sorted(set(known_keys)),
            "notes": self.notes,
        }
        cov.update(self.extra)
        ev = {
            "property_id": self.prop,
            "tier": self.tier,
            "seed": int(self.seed),
            "level": self.level,
            "coverage": cov,
            "assumptions": self.assumptions,
            "wall_s": round(time.time() - self.t0, 2),
            "violations": n_viol,
        }
        (EVID / f"{self.prop}.json").write_text(json.dumps(ev, indent=1, default=str))


def dedup(fs):
    seen, out = set(), []
    for f in fs:
        if f.key not in seen:
            seen.add(f.key)
            out.append(f)
    return out


GATE_RE = re.compile(r"\b(Admitted|admit|Axiom|Parameter|Parameters|Conjecture|Admit Obligations|bypass_check)\b|Unset Guard|Unset Positivity|Unset Universe|type-in-type|impredicative-set")


def grep_gate():
    bad = []
    for p in sorted(COQ.rglob("*.v")):
        txt = re.sub(r"\(\*.*?\*\)", "", p.read_text(), flags=re.S)
        for i, line in enumerate(txt.splitlines(), 1):
            if GATE_RE.search(line):
                bad.append(f"{p.relative_to(COQ)}:{i}: {line.strip()[:80]}")
    cp = (COQ / "_CoqProject").read_text()
    if "type-in-type" in cp or "impredicative" in cp:
        bad.append("_CoqProject passes a forbidden flag")
    # a Variable/Hypothesis outside a section declares an axiom
    for p in sorted(COQ.rglob("*.v")):
        depth = 0
        txt = re.sub(r"\(\*.*?\*\)", "", p.read_text(), flags=re.S)
        for i, line in enumerate(txt.splitlines(), 1):
            s = line.strip()
            if re.match(r"Section\s", s):
                depth += 1
            elif re.match(r"End\s", s) and depth > 0:
                depth -= 1
            elif depth == 0 and re.match(r"(Variable|Variables|Hypothesis|Hypotheses|Context)\b", s):
                bad.append(f"{p.relative_to(COQ)}:{i}: {s[:60]} outside a section")
    return bad


def ensure_makefile():
    """(Re)create coq/_CoqProject and coq/Makefile when the set of .v files changed."""
    with open(COQ / ".lock", "w") as lk:
        fcntl.flock(lk, fcntl.LOCK_EX)
        files = sorted(str(p.relative_to(COQ)) for p in COQ.rglob("*.v") if "/." not in str(p))
        text = "-Q . Mici\n-arg -w -arg -all\n" + "\n".join(files) + "\n"
        cp = COQ / "_CoqProject"
        if not cp.exists() or cp.read_text() != text or not (COQ / "Makefile").exists():
            cp.write_text(text)
            rc, out, err = sh(["coq_makefile", "-f", "_CoqProject", "-o", "Makefile"], cwd=COQ)
            if rc != 0:
                raise RuntimeError("coq_makefile failed: " + err)


def repo_env():
    env = dict(os.environ)
    env["PYTHONPATH"] = str(REPO / "src")
    env["PYTHONHASHSEED"] = "0"
    env["MICI_VERIF"] = "1"
    return env


def relerr(a, b):
    import numpy as np

    a, b = np.asarray(a, dtype=float), np.asarray(b, dtype=float)
    return float(np.max(np.abs(a - b) / (1.0 + np.maximum(np.abs(a), np.abs(b))))) if a.size else 0.0
