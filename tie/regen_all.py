"""Regenerate every coq/Gen/*.v from /repo and (re)create the Makefile. Used by setup.sh."""
import importlib
import sys

import common

GEN = {"LogSpaceGen": "translate_utils", "StagersGen": "translate_stagers", "DepsGen": "translate_systems", "SystemsGen": "translate_bodies", "SchedulesGen": "translate_integrators", "ProtectGen": "translate_protect", "MatFieldsGen": "translate_matfields", "ProjectionGen": "translate_projection", "AdaptersGen": "translate_adapters", "LogDetGen": "translate_logdet"}


def main():
    (common.COQ / "Gen").mkdir(exist_ok=True)
    for name, mod in GEN.items():
        try:
            text = importlib.import_module(mod).generate()
        except Exception as e:  # noqa: BLE001
            print(f"regen {name}: FAILED ({type(e).__name__}: {e})", file=sys.stderr)
            continue
        p = common.COQ / "Gen" / f"{name}.v"
        if not p.exists() or p.read_text() != text:
            p.write_text(text)
        print(f"regen {name}: ok")
    common.ensure_makefile()


main()
