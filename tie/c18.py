"""C18 -- memoisation delivers its efficiency contract."""
from __future__ import annotations

import inspect
import pickle

import numpy as np

import cache_corr
import common
import translate_systems
import zoo

LEVEL = "proof"
USER_KEYS = ["nld", "grad", "hess", "mtp", "metric", "vjp", "constr", "jacob", "mhp"]


def snapshot(c):
    return {k: c.get(k, 0) for k in USER_KEYS}


def diff(a, b):
    return {k: b[k] - a[k] for k in USER_KEYS if b[k] != a[k]}


def method_search(ctx):
    """second call / copy / unrelated assignment / auxiliary outputs: no user function evaluated again."""
    import mici
    from mici.states import ChainState
    classes, conc, tabs, res = translate_systems.tables()
    bad = 0
    for conv in ("bare", "tuple"):
        systems, c = zoo.make_systems(conv)
        for name, sysm in systems.items():
            cls = type(sysm).__name__
            rng = np.random.default_rng(int(ctx.rng.integers(0, 2 ** 31)))
            base = zoo.random_state(name, sysm, rng)
            for row in tabs.get(cls, []):
                m = row["name"]
                if not inspect.ismethod(getattr(sysm, m, None)):
                    continue
                st = ChainState(pos=np.array(base.pos), mom=np.array(base.mom), dir=1)
                try:
                    getattr(sysm, m)(st)
                except Exception:  # noqa: BLE001 - method not applicable to this configuration
                    continue
                ctx.case(("method", name, conv, m))
                ctx.count("search:method_cases")
                # 1. same state again; 2. a copy; 3. a read-only copy; 4. after assigning a variable outside the declared deps
                scen = {"again": st, "copy": st.copy(), "ro_copy": st.copy(read_only=True)}
                for v in ("pos", "mom", "dir"):
                    producers = [r for r in tabs[cls] if r["name"] == m or m in [a for a, _ in r["aux"]]]
                    if all(v not in r["decl"] for r in producers):
                        s2 = st.copy()
                        setattr(s2, v, -s2.dir if v == "dir" else getattr(s2, v) + 0.0)
                        scen[f"assign_{v}"] = s2
                for sname, s2 in scen.items():
                    before = snapshot(c)
                    getattr(sysm, m)(s2)
                    d = diff(before, snapshot(c))
                    if d:
                        bad += 1
                        ctx.fail(f"recompute:{cls}.{m}:{sname}", f"{cls}.{m} ({conv} convention) evaluated user functions {d} when called {sname} "
                                 "although a cached value was available", {"system": name, "class": cls, "method": m, "scenario": sname, "conv": conv, "evaluated": d})
                # 5. auxiliary outputs: after the method returned lower-order values, requesting them costs nothing
                if conv == "tuple":
                    # the documented return conventions, independent of what the decorators declare
                    lower = {"grad_neg_log_dens": ["neg_log_dens"], "hess_neg_log_dens": ["grad_neg_log_dens", "neg_log_dens"],
                             "mtp_neg_log_dens": ["hess_neg_log_dens", "grad_neg_log_dens", "neg_log_dens"], "jacob_constr": ["constr"],
                             "mhp_constr": ["jacob_constr", "constr"], "vjp_metric_func": ["metric_func"]}.get(m, [])
                    for aux in sorted(set(lower) | {a for a, _ in row["aux"]}):
                        if not inspect.ismethod(getattr(sysm, aux, None)):
                            continue
                        s3 = ChainState(pos=np.array(base.pos), mom=np.array(base.mom), dir=1)
                        getattr(sysm, m)(s3)
                        before = snapshot(c)
                        getattr(sysm, aux)(s3)
                        d = diff(before, snapshot(c))
                        if d:
                            bad += 1
                            ctx.fail(f"aux:{cls}.{m}->{aux}", f"after {cls}.{m} returned its lower-order values, {aux} still evaluated user functions {d}",
                                     {"system": name, "class": cls, "method": m, "aux": aux, "evaluated": d})
    ctx.oblige("search: every cached method of every system class (both return conventions): second call, copy, read-only copy, unrelated assignment, "
               "auxiliary outputs evaluate no user function", bad == 0, f"{bad} failures")


def trajectory_search(ctx):
    """gradient evaluations along trajectories: at most once per new position."""
    import mici
    bad = 0
    for conv in ("bare", "tuple"):
        systems, c = zoo.make_systems(conv, which=["euclid_identity", "euclid_dense", "gauss_dense"])
        for name, sysm in systems.items():
            rng = np.random.default_rng(int(ctx.rng.integers(0, 2 ** 31)))
            for iname, n_per in (("LF", 1), ("BCSS2", 2), ("BCSS3", 3), ("BCSS4", 4)):
                integ = zoo.integrators_for(name, sysm, 0.1)[iname]
                for n in (1, 2, 5, 9):
                    st = zoo.random_state(name, sysm, rng)
                    before = snapshot(c)
                    s = st
                    for _ in range(n):
                        s = integ.step(s)
                    g = diff(before, snapshot(c)).get("grad", 0)
                    ctx.case(("traj", name, conv, iname, n))
                    ctx.count("search:integrator_trajectories")
                    if g > n * n_per + 1:
                        bad += 1
                        ctx.fail(f"grad_count:{iname}", f"{n} steps of {iname} on {name} evaluated the gradient {g} times (at most {n * n_per + 1} new positions)",
                                 {"system": name, "integrator": iname, "n": n, "grad_evals": g, "conv": conv})
            # transitions (copies made by the transition must keep the cache)
            integ = mici.integrators.LeapfrogIntegrator(sysm, 0.2)
            for tname, mk in (("static", lambda: mici.transitions.MetropolisStaticIntegrationTransition(sysm, integ, n_step=4)),
                              ("random", lambda: mici.transitions.MetropolisRandomIntegrationTransition(sysm, integ, n_step_range=(2, 6))),
                              ("multinomial", lambda: mici.transitions.MultinomialDynamicIntegrationTransition(sysm, integ, max_tree_depth=4)),
                              ("slice", lambda: mici.transitions.SliceDynamicIntegrationTransition(sysm, integ, max_tree_depth=4))):
                tr = mk()
                for rep in range(4 if not ctx.thorough else 20):
                    st = zoo.random_state(name, sysm, rng)
                    cold = True
                    for it in range(3):
                        before = snapshot(c)
                        st, stats = tr.sample(st, rng)
                        g = diff(before, snapshot(c)).get("grad", 0)
                        n = int(stats["n_step"])
                        ctx.case(("trans", name, conv, tname, rep, it))
                        ctx.count(f"search:transition:{tname}")
                        if g > n + 1:
                            key = ("dynamic_cold_start_regrad" if tname in ("multinomial", "slice") and g == n + 2 else f"grad_count:{tname}")
                            bad += key != "dynamic_cold_start_regrad"
                            ctx.fail(key, f"{tname} transition on {name}: {n} integrator steps but {g} gradient evaluations "
                                     f"({'cold' if cold else 'warm'} start, iteration {it})", {"system": name, "transition": tname, "n_step": n, "grad_evals": g})
                        cold = False
    ctx.oblige("search: explicit integrator trajectories and all four transition types: gradient evaluated at most once per new position "
               "(known finding: dynamic transitions re-evaluate the start position once per direction)", bad == 0, f"{bad} failures")


def bidirectional_corr(ctx):
    """Model/GradCount.grow_both evaluated by Coq vs the real leapfrog integrator growing both directions from one state object."""
    import mici
    hi = 4 if not ctx.thorough else 8
    grid = [(w, nf, nb) for w in (False, True) for nf in range(hi) for nb in range(hi)]
    mk = lambda w: "{| pv := 0; mv := 0; cg := %s; cvv := None |}" % ("Some 0%nat" if w else "None")
    body = ("Require Import Mici.Model.GradCount.\nOpen Scope nat_scope.\nEval vm_compute in "
            + common.coq_list([f"Z.of_nat (grow_both {nf} {nb} {mk(w)} 0)" for w, nf, nb in grid]) + ".\n")
    model = common.parse_coq_value(ctx.coq_eval(body, name="grow_cases")[0])
    bad = 0
    for conv in ("bare", "tuple"):
        systems, c = zoo.make_systems(conv, which=["euclid_identity", "euclid_dense", "gauss_dense"])
        for name, sysm in systems.items():
            rng = np.random.default_rng(int(ctx.rng.integers(0, 2 ** 31)))
            integ = mici.integrators.LeapfrogIntegrator(sysm, 0.1)
            for (w, nf, nb), m in zip(grid, model):
                st = zoo.random_state(name, sysm, rng)
                if w:
                    sysm.grad_neg_log_dens(st)
                before = snapshot(c)
                for d, k in ((1, nf), (-1, nb)):
                    s = st.copy()
                    s.dir = d
                    for _ in range(k):
                        s = integ.step(s)
                g = diff(before, snapshot(c)).get("grad", 0)
                ctx.case(("grow", name, conv, w, nf, nb))
                ctx.count("corr:grow_both")
                if g < m:
                    ctx.count("corr:grow_both:implementation_cheaper_than_model")  # fewer evaluations never break the property
                if g > m:
                    bad += 1
                    ctx.fail("corr:grow_both", f"{nf} forward + {nb} backward leapfrog steps from one {'warm' if w else 'cold'} state on {name}: "
                             f"{g} gradient evaluations, model grow_both says {m}", {"system": name, "conv": conv, "warm": w, "nf": nf, "nb": nb, "grad_evals": g, "model": m}, kind="corr")
    ctx.oblige(f"correspondence: Model/GradCount.grow_both evaluated by Coq on {len(grid)} (cold/warm, nf, nb) cases bounds from above (and on this tree equals) the gradient evaluations of the real "
               "LeapfrogIntegrator growing both directions from one state object (3 systems x 2 return conventions)", bad == 0, f"{bad} mismatches")


def run(ctx):
    ctx.rule = ("model correspondence: random op histories comparing evaluation counts; search: every cached method x scenario x return convention, "
                "integrator trajectories and transitions counting user-callback invocations")
    ctx.assume("the leapfrog count theorem is about the focused call-pattern model Model/GradCount.v (tied by the call-count search)")
    ctx.trust("hand model coq/Model/StateCache.v tied by correspondence (tie/cache_corr.py)", "translator T4 for the declared dependencies used by the search")
    model_ok = ctx.build(["Model/StateCache.vo"], label="executable model")
    if model_ok and ctx.build(["Props/C18.vo"]):
        ctx.props()
    if model_ok:
        cache_corr.run(ctx, 40 if not ctx.thorough else 300, 30 if not ctx.thorough else 50, tag="eval-counts")
    if model_ok and ctx.build(["Model/GradCount.vo"], label="gradient-count model"):
        bidirectional_corr(ctx)
    method_search(ctx)
    trajectory_search(ctx)
