"""C02 -- every integrator step is time-reversible or fails loudly."""
from __future__ import annotations

import numpy as np

import integ_corr
import translate_integrators
import zoo

LEVEL = "proof"


def reverse_search(ctx):
    import mici
    from mici.errors import IntegratorError
    from mici.states import ChainState
    bad = 0
    stats = {"returned": 0, "raised": 0}

    def trial(label, integ, st0, n, tol):
        nonlocal bad
        snap = (st0.pos.copy(), st0.mom.copy(), st0.dir)
        try:
            st = st0
            for _ in range(n):
                st = integ.step(st)
            mid_ok = True
            st = st.copy()
            st.dir *= -1
            for _ in range(n):
                st = integ.step(st)
        except IntegratorError:
            stats["raised"] += 1
            ctx.count("search:loud_failure")
            mid_ok = False
        ctx.case(("rev", label, n, tuple(np.round(snap[0], 5))))
        if not (np.array_equal(st0.pos, snap[0]) and np.array_equal(st0.mom, snap[1]) and st0.dir == snap[2]):
            bad += 1
            ctx.fail(f"input_modified:{label.split('|')[0]}", f"{label}: the state passed to step() was modified", {"integrator": label})
        if mid_ok:
            stats["returned"] += 1
            ctx.count("search:returned")
            err = max(np.abs(st.pos - snap[0]).max(), np.abs(st.mom - snap[1]).max())
            if not err <= tol:
                bad += 1
                ctx.fail(f"irreversible:{label.split('|')[0]}", f"{label}: {n} steps, flip, {n} steps return to a state {err:.2e} away from the start (no error raised)",
                         {"integrator": label, "n": n, "error": float(err), "pos": snap[0].tolist(), "mom": snap[1].tolist(), "step_size": integ.step_size})
    systems, _ = zoo.make_systems("bare")
    for name, s in systems.items():
        rng = np.random.default_rng(int(ctx.rng.integers(0, 2 ** 31)))
        for eps in ((0.05, 0.2) if not ctx.thorough else (0.02, 0.05, 0.2, 0.4)):
            for iname, integ in zoo.integrators_for(name, s, eps).items():
                for n in (1, 4):
                    trial(f"{iname}|{name}|eps={eps}", integ, zoo.random_state(name, s, rng), n, 5e-6)
    # strongly curved manifolds, large steps: the retraction's reverse check must fire instead of returning irreversible states
    for kind, metric in (("curve", None), ("surface", np.array([1.0, 2.0, 0.5])), ("surface", None)):
        s, point, d = zoo.make_curved(kind, metric)
        rng = np.random.default_rng(int(ctx.rng.integers(0, 2 ** 31)))
        for solver in (mici.solvers.solve_projection_onto_manifold_newton, mici.solvers.solve_projection_onto_manifold_quasi_newton):
            for n_inner in (1, 2, 3):
                for eps in (0.3, 0.5, 0.8, 1.0):
                    integ = mici.integrators.ConstrainedLeapfrogIntegrator(s, eps, n_inner_step=n_inner, projection_solver=solver)
                    for _ in range(6 if not ctx.thorough else 30):
                        q = point(rng)
                        st = ChainState(pos=q, mom=None, dir=1)
                        st.mom = s.sample_momentum(st, rng)
                        trial(f"CLF_{solver.__name__[31:]}_n{n_inner}|{kind}|eps={eps}", integ, st, 1, 1e-5)
    # implicit integrators on strongly varying metrics with large steps: the implicit equations have several solutions / non-contractive iterations, so the
    # reverse checks must fire instead of returning irreversible states
    import mici.systems as S
    rsys = {"1.5+sin(3q)": S.DiagonalRiemannianMetricSystem(lambda q: 0.5 * np.sum(q ** 2), grad_neg_log_dens=lambda q: q, metric_diagonal_func=lambda q: 1.5 + np.sin(3 * q),
                                                           vjp_metric_diagonal_func=lambda q: (lambda m: 3 * m * np.cos(3 * q))),
            "1+q^2": S.DiagonalRiemannianMetricSystem(lambda q: 0.5 * np.sum(q ** 2), grad_neg_log_dens=lambda q: q, metric_diagonal_func=lambda q: 1 + q ** 2,
                                                     vjp_metric_diagonal_func=lambda q: (lambda m: 2 * m * q))}
    for mname, sysm in rsys.items():
        rng = np.random.default_rng(int(ctx.rng.integers(0, 2 ** 31)))
        for solver in (mici.solvers.solve_fixed_point_direct, mici.solvers.solve_fixed_point_steffensen):
            for eps in (0.5, 1.0, 1.5):
                for icls in (mici.integrators.ImplicitLeapfrogIntegrator, mici.integrators.ImplicitMidpointIntegrator):
                    integ = icls(sysm, eps, fixed_point_solver=solver)
                    for _ in range(12 if not ctx.thorough else 60):
                        st = ChainState(pos=1.5 * rng.standard_normal(2), mom=2.0 * rng.standard_normal(2), dir=int(rng.choice([-1, 1])))
                        trial(f"{icls.__name__[:12]}_{solver.__name__[18:]}|riem {mname}|eps={eps}", integ, st, int(rng.choice([1, 2])), 1e-4)
    ctx.extra["returned_vs_loud_failures"] = stats
    ctx.oblige("search: n steps / flip / n steps on every integrator x system pair (all solvers, inner step counts, both density conventions) and on strongly "
               "curved manifolds / strongly varying Riemannian metrics with large steps: returned states reverse to the start, failures are IntegratorErrors, inputs untouched",
               bad == 0, f"{bad} failures; {stats}")


def run(ctx):
    ctx.rule = ("reversal trials: integrator x system x step size x trajectory length (+ curved manifolds x solvers x inner steps x large step sizes); "
                "schedule correspondence: recorded sub-steps of real integrators in both directions")
    ctx.assume("exact arithmetic, solver tolerance 0: a solver returns an exact fixed point or an error (numerical slack is explored with tolerance 5e-6)",
               "component flows h1_flow / h2_flow are exact flows undone by the negative time (C07)",
               "for the constrained integrator: the projection / retraction facts ca_inv, ca_cot, retract_back (Lagrange-multiplier form, C04) are hypotheses")
    ctx.trust("translator T3 tie/translate_integrators.py (fail-closed; sub-step bodies matched statement for statement)")
    ok = ctx.regen("SchedulesGen", translate_integrators.generate)
    model_ok = ok and ctx.build(["Gen/SchedulesGen.vo"], label="executable model")
    if model_ok and ctx.build(["Props/C02.vo"]):
        ctx.props()
    if model_ok:
        integ_corr.run(ctx, zoo)
    reverse_search(ctx)
