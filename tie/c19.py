"""C19 -- matrix objects behave as immutable values."""
from __future__ import annotations

import copy
import itertools
import pickle

import numpy as np

import matzoo
import translate_matfields

LEVEL = "proof"
LAZY = ["T", "inv", "sqrt", "eigval", "eigvec", "array", "diagonal", "log_abs_det", "__hash__"]


def arrays_of(obj, seen=None, depth=0):
    """all ndarrays reachable from a matrix object's attributes (parameters, caches, nested matrices)"""
    import mici.matrices as mm
    seen = {} if seen is None else seen
    if depth > 4:
        return seen
    for k, v in list(getattr(obj, "__dict__", {}).items()):
        if isinstance(v, np.ndarray):
            seen[id(v)] = v
        elif isinstance(v, mm.Matrix):
            arrays_of(v, seen, depth + 1)
        elif isinstance(v, (tuple, list)):
            for x in v:
                if isinstance(x, np.ndarray):
                    seen[id(x)] = x
                elif isinstance(x, mm.Matrix):
                    arrays_of(x, seen, depth + 1)
    return seen


def val(m, a):
    import mici.matrices as mm
    if "." in a:                      # compound request, e.g. "T.inv": the inverse of the (lazily built) transpose
        v = m
        for part in a.split("."):
            v = getattr(v, part)
    else:
        v = hash(m) if a == "__hash__" else getattr(m, a)
    if isinstance(v, mm.Matrix):
        return np.asarray(v.array).copy()
    return np.asarray(v).copy()


def alias_correspondence(ctx):
    """T5's alias pairs and field names vs live objects."""
    import mici.matrices as mm
    text = translate_matfields.generate()
    bad = 0
    rng = np.random.default_rng(0)
    for kind in ("lowrank_sym", "lowrank_pd", "lowrank_pd_down"):
        m, _ = matzoo.make_leaf(rng, 3, kind)
        for a, b in (("factor_matrix", "left_factor_matrix"), ("symmetric_matrix", "square_matrix"), ("inner_symmetric_matrix", "inner_square_matrix")):
            ctx.case(("alias", kind, a))
            if f'("{a}", "{b}")' not in text or getattr(m, a) is not getattr(m, b):
                bad += 1
                ctx.fail("corr:alias", f"{type(m).__name__}: attributes {a} and {b} are not aliases of one object (T5 alias table)", {"class": type(m).__name__, "a": a, "b": b}, kind="corr")
    for cname in [l.split('"')[1] for l in text.splitlines() if l.strip().startswith('("') and "[" in l]:
        if not hasattr(mm, cname):
            bad += 1
            ctx.fail("corr:class", f"T5 lists class {cname} which does not exist", {"class": cname}, kind="corr")
    ctx.oblige("correspondence[T5]: alias pairs hold on live objects; listed classes exist", bad == 0, f"{bad}")


EQ_FIELDS = {}


def relayout(m, depth=0):
    """flip the memory order of every 2-D array held (recursively) by the object, reset cached hashes; None if nothing could be flipped"""
    import mici.matrices as mm
    changed = False
    for name, val in list(vars(m).items()):
        if isinstance(val, np.ndarray) and val.ndim == 2 and min(val.shape) > 1:
            new = np.asfortranarray(val) if val.flags.c_contiguous else np.ascontiguousarray(val)
            new.flags.writeable = val.flags.writeable
            setattr(m, name, new)
            changed = True
        elif isinstance(val, mm.Matrix) and depth < 4:
            changed |= relayout(val, depth + 1) is not None
        elif isinstance(val, tuple) and depth < 4:
            for v in val:
                if isinstance(v, mm.Matrix):
                    changed |= relayout(v, depth + 1) is not None
    if hasattr(m, "_hash"):
        m._hash = None
    return m if changed else None


def load_fields():
    import re
    for line in translate_matfields.generate().splitlines():
        mt = re.match(r'\s*\[?\("(\w+)", \[(.*?)\], \[', line)
        if mt:
            EQ_FIELDS[mt.group(1)] = set(re.findall(r'"(\w+)"', mt.group(2)))


def search(ctx):
    import mici.matrices as mm
    load_fields()
    rng = ctx.rng
    bad = 0
    sizes = (1, 3) if not ctx.thorough else (1, 2, 3, 4)
    for kind in matzoo.KINDS:
        for n in (sizes if "lowrank" not in kind or 4 in sizes else sizes + (4,)):      # rank-2 updates (non-symmetric capacitance matrices) need n >= 4
            seed = int(rng.integers(0, 2 ** 31))
            m, d = matzoo.make_leaf(np.random.default_rng(seed), n, kind)
            cls = type(m).__name__
            attrs = [a for a in LAZY if a == "__hash__" or hasattr(type(m), a)]
            attrs = [a for a in attrs if not (a in ("eigval", "eigvec") and not isinstance(m, mm.SymmetricMatrix))]
            if isinstance(m, mm.InvertibleMatrix) and n > 1:
                attrs += ["T.inv", "inv.T"]       # derived objects inherit cached pieces: their values must not depend on what was cached when they were built
            # 1. lazy order: every permutation of the first accesses (capped) gives identical values
            base = None
            perms = list(itertools.islice(itertools.permutations(attrs), 24 if not ctx.thorough else 200))
            extra = [tuple(np.random.default_rng(seed + i).permutation(attrs)) for i in range(12 if not ctx.thorough else 60)]
            for perm in perms + extra:
                mc, _ = matzoo.make_leaf(np.random.default_rng(seed), n, kind)
                try:
                    for a in perm:
                        val(mc, a)
                    out = {a: val(mc, a) for a in attrs}
                except NotImplementedError:
                    break
                except Exception as e:  # noqa: BLE001
                    bad += 1
                    ctx.fail(f"lazy:raises:{cls}", f"{cls}: requesting {perm} raised {type(e).__name__}: {str(e)[:80]}", {"kind": kind, "n": n, "order": perm, "seed": seed})
                    break
                ctx.case(("order", kind, n, tuple(perm)))
                ctx.count("search:lazy_orders")
                if base is None:
                    base = out
                    # the derived objects mean what they say (independently of any order): inverse of the transpose = transpose of the inverse of the dense meaning
                    for a in ("T.inv", "inv.T"):
                        if a in out and not np.allclose(out[a], np.linalg.inv(d).T, rtol=1e-8, atol=1e-9):
                            bad += 1
                            ctx.fail(f"derived_value:{cls}.{a}", f"{cls} ({kind}, n={n}): {a} differs from the dense computation by "
                                     f"{np.abs(out[a] - np.linalg.inv(d).T).max():.2e}", {"kind": kind, "n": n, "attribute": a, "seed": seed})
                else:
                    for a in attrs:
                        if not (base[a].shape == out[a].shape and np.allclose(base[a], out[a], rtol=1e-10, atol=1e-12)):
                            bad += 1
                            ctx.fail(f"lazy_order:{cls}.{a}", f"{cls} ({kind}, n={n}): {a} differs by {np.abs(base[a] - out[a]).max():.2e} when attributes are first "
                                     f"requested in the order {perm} rather than {perms[0]}", {"kind": kind, "n": n, "order": perm, "attribute": a, "seed": seed})
                            break
            # 2. operations never change operands or caller arrays; parameters not writeable
            m, d = matzoo.make_leaf(np.random.default_rng(seed), n, kind)
            held = arrays_of(m)
            snap = {k: v.copy() for k, v in held.items()}
            r2 = np.random.default_rng(seed + 1)
            v, V, W = r2.standard_normal(n), r2.standard_normal((n, 2)), r2.standard_normal((2, n))
            callers = {"v": v, "V": V, "W": W}
            csnap = {k: x.copy() for k, x in callers.items()}
            ops = [("m@v", lambda: m @ v), ("m@V", lambda: m @ V), ("v@m", lambda: v @ m), ("W@m", lambda: W @ m), ("2*m", lambda: 2.0 * m), ("m/3", lambda: m / 3.0),
                   ("-m", lambda: -m), ("m.T@v", lambda: m.T @ v), ("m.T@V", lambda: m.T @ V)]
            if isinstance(m, mm.InvertibleMatrix):
                ops += [("m.inv@v", lambda: m.inv @ v), ("m.inv@V", lambda: m.inv @ V), ("(2*m).inv@v", lambda: (2.0 * m).inv @ v), ("m.inv.T@V", lambda: m.inv.T @ V)]
            if isinstance(m, mm.PositiveDefiniteMatrix):
                ops += [("m.sqrt@v", lambda: m.sqrt @ v), ("m.sqrt@V", lambda: m.sqrt @ V), ("m.inv.sqrt@V", lambda: m.inv.sqrt @ V), ("m.sqrt.T@V", lambda: m.sqrt.T @ V)]
            if isinstance(m, mm.DifferentiableMatrix):
                ops += [("grad_qf", lambda: m.grad_quadratic_form_inv(v)), ("grad_qf_again", lambda: m.grad_quadratic_form_inv(v)), ("grad_logdet", lambda: m.grad_log_abs_det)]
            for name, f in ops:
                try:
                    f()
                except NotImplementedError:
                    continue
                except RuntimeError as e:
                    if "differentiable" in str(e):      # documented: a block matrix is differentiable only if all its blocks are
                        continue
                    bad += 1
                    ctx.fail(f"op:raises:{cls}:{name}", f"{cls}: {name} raised RuntimeError: {str(e)[:80]}", {"kind": kind, "n": n, "op": name, "seed": seed})
                    continue
                except Exception as e:  # noqa: BLE001
                    bad += 1
                    ctx.fail(f"op:raises:{cls}:{name}", f"{cls}: {name} raised {type(e).__name__}: {str(e)[:80]}", {"kind": kind, "n": n, "op": name, "seed": seed})
                    continue
                ctx.case(("mutate", kind, n, name))
                ctx.count("search:operations")
                for k, x in callers.items():
                    if not np.array_equal(x, csnap[k]):
                        bad += 1
                        ctx.fail(f"caller_array_modified:{name}", f"{cls} ({kind}, n={n}): {name} modified the caller's array {k}", {"kind": kind, "n": n, "op": name, "seed": seed})
                        x[...] = csnap[k]
                for k, x in held.items():
                    if not np.array_equal(x, snap[k], equal_nan=True):
                        bad += 1
                        ctx.fail(f"operand_modified:{cls}:{name}", f"{cls} ({kind}, n={n}): {name} changed an array held by the operand", {"kind": kind, "n": n, "op": name, "seed": seed})
                        x.flags.writeable and x.__setitem__(Ellipsis, snap[k])
            dense_after = np.asarray(m.array)
            if not np.allclose(dense_after, d, rtol=1e-10, atol=1e-12):
                bad += 1
                ctx.fail(f"content_changed:{cls}", f"{cls} ({kind}, n={n}): the dense content changed after operations", {"kind": kind, "n": n, "seed": seed})
            if n > 1:
                for k, x in arrays_of(m).items():
                    if x.flags.writeable and x.size > 1 and any(x is getattr(m, a, None) for a in vars(m) if not a.startswith("__")):
                        pass      # cached intermediates may be writeable; constructor parameters are checked below
            for pname, pval in vars(m).items():
                if isinstance(pval, np.ndarray) and pval.size > 1 and pval.flags.writeable and pname.lstrip("_") in EQ_FIELDS.get(cls, ()) \
                        and (pname != "_array" or isinstance(m, mm.ExplicitArrayMatrix)):
                    bad += 1
                    ctx.fail(f"writeable:{cls}.{pname}", f"{cls}: defining parameter array {pname} can be modified in place after construction", {"kind": kind, "n": n, "attr": pname})
            # 3. equality / hash / copies
            m2, _ = matzoo.make_leaf(np.random.default_rng(seed), n, kind)
            ctx.case(("eq", kind, n))
            try:
                same = (m == m2) and hash(m) == hash(m2) and np.array_equal(np.asarray(m.array), np.asarray(m2.array))
                if not same:
                    bad += 1
                    ctx.fail(f"eq:{cls}", f"{cls}: two objects built from equal parameters do not compare / hash equal", {"kind": kind, "n": n, "seed": seed})
                for cname, c in (("copy", copy.copy(m)), ("deepcopy", copy.deepcopy(m)), ("pickle", pickle.loads(pickle.dumps(m)))):
                    if not (c == m and hash(c) == hash(m) and np.allclose(np.asarray(c.array), np.asarray(m.array))):
                        bad += 1
                        ctx.fail(f"copy:{cls}:{cname}", f"{cls}: {cname} does not equal its original", {"kind": kind, "n": n, "seed": seed})
                # memory layout is not part of a matrix's value: the same parameters held in Fortran order (as the library's own .T / .inv views are)
                ml = relayout(copy.deepcopy(m2))
                if n > 1 and ml is not None and not (ml == m and hash(ml) == hash(m)):
                    bad += 1
                    ctx.fail(f"eq_layout:{cls}", f"{cls}: an object whose parameter arrays hold the same values in a different memory order "
                             f"{'does not compare equal' if not ml == m else 'compares equal but hashes differently'}", {"kind": kind, "n": n, "seed": seed})
                # the library's own transposed views: (M.T).T and a matrix rebuilt from M.T's contiguous array
                if isinstance(m, (mm.DenseSquareMatrix, mm.TriangularMatrix, mm.OrthogonalMatrix)) and n > 1:
                    t = m.T
                    rebuilt = type(t)(np.ascontiguousarray(np.asarray(t.array))) if not isinstance(t, mm.TriangularMatrix) else type(t)(np.ascontiguousarray(np.asarray(t.array)), lower=t.lower)
                    if not (t == rebuilt and hash(t) == hash(rebuilt)):
                        bad += 1
                        ctx.fail(f"eq_layout:{cls}:transpose", f"{cls}: M.T and the same matrix rebuilt from a contiguous copy of its array "
                                 f"{'do not compare equal' if not t == rebuilt else 'compare equal but hash differently'}", {"kind": kind, "n": n, "seed": seed})
                m3, d3 = matzoo.make_leaf(np.random.default_rng(seed + 7), n, kind)
                if m == m3 and not np.allclose(np.asarray(m.array), np.asarray(m3.array)):
                    bad += 1
                    ctx.fail(f"eq_not_array:{cls}", f"{cls}: objects compare equal but their dense arrays differ", {"kind": kind, "n": n, "seed": seed})
            except Exception as e:  # noqa: BLE001
                bad += 1
                ctx.fail(f"eq:raises:{cls}", f"{cls}: equality / hash / copy raised {type(e).__name__}: {str(e)[:80]}", {"kind": kind, "n": n, "seed": seed})
    # rectangular block matrices (not in the square zoo): every layout of blocks incl. identity / scaled-identity blocks, which return (views of) their argument
    for cls_name in ("BlockRowMatrix", "BlockColumnMatrix"):
        for layout in (("I", "A"), ("A", "I"), ("I", "I", "A"), ("S", "A"), ("A", "D", "I")):
            brng = np.random.default_rng(int(rng.integers(0, 2 ** 31)))
            n = 3
            mk = {"I": lambda: (mm.IdentityMatrix(n), np.eye(n)), "S": lambda: (mm.ScaledIdentityMatrix(1.7, n), 1.7 * np.eye(n)),
                  "D": lambda: (lambda d: (mm.DiagonalMatrix(d), np.diag(d)))(brng.uniform(0.5, 2, n)),
                  "A": lambda: (lambda a: (mm.DenseSquareMatrix(a), a))(brng.standard_normal((n, n)) + 2 * np.eye(n))}
            parts = [mk[k]() for k in layout]
            M = getattr(mm, cls_name)([p_[0] for p_ in parts])
            dense = np.hstack([p_[1] for p_ in parts]) if cls_name == "BlockRowMatrix" else np.vstack([p_[1] for p_ in parts])
            r, c_ = dense.shape
            ops = {"M@v": (lambda M=M, x=None: None)}
            for opname, mkarg, f, ref in (("M@v", lambda: brng.standard_normal(c_), lambda x: M @ x, lambda x: dense @ x),
                                          ("M@V", lambda: brng.standard_normal((c_, 2)), lambda x: M @ x, lambda x: dense @ x),
                                          ("W@M", lambda: brng.standard_normal((2, r)), lambda x: x @ M, lambda x: x @ dense),
                                          ("M.T@v", lambda: brng.standard_normal(r), lambda x: M.T @ x, lambda x: dense.T @ x),
                                          ("M.T@V", lambda: brng.standard_normal((r, 2)), lambda x: M.T @ x, lambda x: dense.T @ x)):
                x = mkarg()
                x0 = x.copy()
                try:
                    got = np.asarray(f(x))
                except Exception as e:  # noqa: BLE001
                    bad += 1
                    ctx.fail(f"op:raises:{cls_name}:{opname}", f"{cls_name}{layout}: {opname} raised {type(e).__name__}: {str(e)[:80]}", {"class": cls_name, "layout": layout, "op": opname})
                    continue
                ctx.case(("blockrect", cls_name, layout, opname))
                ctx.count("search:rectangular_blocks")
                if not np.array_equal(x, x0):
                    bad += 1
                    ctx.fail(f"caller_array_modified:{cls_name}:{opname}", f"{cls_name} with blocks {layout}: {opname} modified the caller's array", {"class": cls_name, "layout": layout, "op": opname})
                elif not np.allclose(got, ref(x0), rtol=1e-10, atol=1e-12):
                    bad += 1
                    ctx.fail(f"value:{cls_name}:{opname}", f"{cls_name} with blocks {layout}: {opname} differs from the dense computation", {"class": cls_name, "layout": layout, "op": opname})
    ctx.oblige("search: every matrix class x sizes: all orders of first lazy accesses, operands and caller arrays bitwise unchanged by every operation, "
               "parameters frozen, eq / hash / copy / deepcopy / pickle", bad == 0, f"{bad} failures")


def run(ctx):
    ctx.rule = "per (class kind, size): orders of lazy attribute requests; operations with operand / caller array snapshots; eq / hash / copies"
    ctx.assume("the value model abstracts objects to immutable field assignments; in-place mutation through NumPy views is Python runtime behaviour, explored by the search only")
    ctx.trust("translator T5 tie/translate_matfields.py (fail-closed; alias pairs validated on live objects)")
    ok = ctx.regen("MatFieldsGen", translate_matfields.generate)
    if ok and ctx.build(["Props/C19.vo"]):
        ctx.props()
    if ok:
        alias_correspondence(ctx)
    search(ctx)
