"""C20 -- log-space arithmetic matches real arithmetic (translator T1 + Coq proofs over R + correspondence + search)."""
from __future__ import annotations

import math
from decimal import Decimal, getcontext
from fractions import Fraction

import numpy as np

import translate_utils
from common import coq_list, coq_q, parse_coq_value

LEVEL = "proof"
getcontext().prec = 80
HELPERS = ["log1p_exp", "log1m_exp", "log_sum_exp", "log_diff_exp"]
METHODS = ["__add__", "__iadd__", "__sub__", "__mul__", "__truediv__", "__eq__", "__ne__", "__lt__", "__gt__", "__le__", "__ge__"]
RMETHODS = ["__radd__", "__rsub__", "__rmul__", "__rtruediv__"]
PRIM_CODE = {"exp": 1, "expm1": 2, "log": 3, "log1p": 4}


def xq(v: float) -> str:
    if math.isnan(v):
        return "QNaN"
    if math.isinf(v):
        return "QPInf" if v > 0 else "QNInf"
    return f"(QFin {coq_q(v)})"


def xq_code(v: float):
    if math.isnan(v):
        return [4]
    if math.isinf(v):
        return [2] if v > 0 else [3]
    f = Fraction(*v.as_integer_ratio())
    return [1, f.numerator, f.denominator]


def same_value(code, v: float) -> bool:
    """model value (exact rational / special) vs the implementation's float: special values exactly, finite values to one rounding (2 ulp)"""
    want = xq_code(v)
    if code[0] != 1 or want[0] != 1:
        return code == want
    exact = Fraction(code[1], code[2])
    got = Fraction(want[1], want[2])
    return abs(exact - got) <= Fraction(1, 2 ** 51) * max(abs(exact), abs(got))


class Recorder:
    """Replaces the math primitives inside mici.utils by recording wrappers."""

    def __init__(self, utils):
        self.utils, self.calls, self.orig = utils, [], {}

    def __enter__(self):
        for n in PRIM_CODE:
            self.orig[n] = getattr(self.utils, n)

            def w(x, _n=n, _f=self.orig[n]):
                self.calls.append(PRIM_CODE[_n])
                return _f(x)
            setattr(self.utils, n, w)
        return self

    def __exit__(self, *a):
        for n, f in self.orig.items():
            setattr(self.utils, n, f)


def gen_values(rng, n):
    """Mostly-valid log-values: dyadic moderate values, huge/tiny magnitudes, -inf, a few +inf/nan."""
    out = []
    for _ in range(n):
        k = rng.integers(0, 10)
        if k <= 4:
            out.append(float(rng.integers(-4096, 4096)) / 64.0)
        elif k == 5:
            out.append(float(rng.integers(-600, 600)))
        elif k == 6:
            out.append(-math.inf)
        elif k == 7:
            out.append(float(np.ldexp(float(rng.integers(1, 1 << 20)), int(rng.integers(-60, 40))) * rng.choice([-1, 1])))
        elif k == 8:
            out.append(float(rng.integers(-3, 4)))
        else:
            out.append(float(rng.integers(-4096, 4096)) / 64.0)
    return out


def run_impl(utils, kind, name, a, b):
    """Run the implementation; return (kind_code, prim sequence, value code or None)."""
    L = utils.LogRepFloat
    with Recorder(utils) as rec:
        try:
            if kind == "helper":
                r = getattr(utils, name)(*([a] if b is None else [a, b]))
            elif kind == "init":
                r = L(val=a)
            else:
                obj = L(log_val=a)
                other = L(log_val=b[1]) if b[0] == "L" else b[1]
                r = getattr(obj, name)(other) if b is not None else getattr(obj, name)()
        except (ValueError, ZeroDivisionError, OverflowError):
            return [4], [], None
    if isinstance(r, L):
        return [0], rec.calls, r.log_val
    if isinstance(r, (bool, np.bool_)):
        return [2 if r else 3], [], None
    return [1], rec.calls, float(r)


def correspondence(ctx, utils):
    rng = ctx.rng
    n = 120 if not ctx.thorough else 600
    log2 = coq_q(utils.LOG_2)
    cases, terms = [], []
    vals = gen_values(rng, 8 * n)
    it = iter(vals)
    # boundary stream for log1m_exp: the branch point and its neighbours, tiny negatives
    bnd = [-utils.LOG_2, math.nextafter(-utils.LOG_2, 0), math.nextafter(-utils.LOG_2, -1), -1e-300, -5e-324, -1e-17, -0.0, 0.0,
           -745.5, -1e308]
    for v in bnd:
        cases.append(("helper", "log1m_exp", v, None))
        cases.append(("helper", "log1p_exp", v, None))
        cases.append(("helper", "log1p_exp", -v, None))
    for _ in range(n):
        h = HELPERS[rng.integers(0, 4)]
        a = next(it)
        b = next(it) if h in ("log_sum_exp", "log_diff_exp") else None
        if rng.random() < 0.15 and b is not None:
            b = a
        cases.append(("helper", h, a, b))
    for _ in range(n):
        m = METHODS[rng.integers(0, len(METHODS))]
        a, b = next(it), next(it)
        if rng.random() < 0.15:
            b = a
        if rng.random() < 0.5:
            if m == "__iadd__" and not (b == -math.inf or b > -700):
                b = -math.inf
            cases.append(("method", m, a, ("L", b)))
        else:
            if m == "__truediv__" and b == 0.0:
                b = 1.0
            if m == "__iadd__":
                b = abs(b) if math.isfinite(b) else 0.0
            elif m in ("__eq__", "__ne__", "__lt__", "__gt__", "__le__", "__ge__") and rng.random() < 0.7:
                b = -abs(b) if math.isfinite(b) else 0.0     # decidable without evaluating exp numerically
            bb = b if math.isfinite(b) else 0.0
            if m == "__truediv__" and bb == 0.0:
                bb = 1.0                           # division by a plain zero raises in Python: outside the arithmetic the property is about
            cases.append(("method", m, a, ("F", bb)))
    for _ in range(n // 3):
        m = RMETHODS[rng.integers(0, len(RMETHODS))]
        b = next(it)
        a = next(it)
        if m == "__rtruediv__" and not (math.isfinite(a) and a > -700):
            a = 0.5                                # other / 0.0 raises: decided by a primitive's value
        cases.append(("method", m, a, ("F", b if math.isfinite(b) else 1.5)))
    for v in [0.0, 1.0, 2.5, 1e-300, 1e300, -1.0, -1e-300]:
        cases.append(("init", "init", v, None))
    for kind, name, a, b in cases:
        if kind == "helper":
            env = f"(fun n => match n with O => {xq(a)} | _ => {xq(b if b is not None else 0.0)} end)"
            args = "(Var 0)" if b is None else "(Var 0) (Var 1)"
            terms.append(f"obs_ex {env} {log2} (gen_{name} {args})")
        elif kind == "init":
            env = f"(fun n => {xq(a)})"
            terms.append(f"obs_ex {env} {log2} (gen_LogRepFloat_init_val (Var 0))")
        else:
            env = f"(fun n => match n with O => {xq(a)} | _ => {xq(b[1])} end)"
            other = "(PL (Var 1))" if b[0] == "L" else "(PF (Var 1))"
            terms.append(f"obs_pv {env} {log2} (gen_LogRepFloat{name} (Var 0) {other})")
        ctx.count(f"corr:{kind}:{name}")
    body = "Require Import Mici.Model.LogSpace Mici.Gen.LogSpaceGen.\nOpen Scope Z_scope.\n"
    body += "Eval vm_compute in " + coq_list(terms) + ".\n"
    out = ctx.coq_eval(body)
    model = parse_coq_value(out[0])
    assert len(model) == len(cases)
    dis = 0
    for (kind, name, a, b), (mk, mp, mv) in zip(cases, model):
        ik, ip, iv = run_impl(utils, kind, name, a, b)
        if kind == "init" and list(mk) == [1]:
            mk = [0]                               # the constructor's result is stored as log_val
        ctx.case(("corr", name, tuple(ik), tuple(ip)))
        ctx.count("corr:result:" + {0: "LogRepFloat", 1: "float", 2: "True", 3: "False", 4: "exception"}[ik[0]])
        ok = list(mk) == ik and (ik[0] in (2, 3, 4) or list(mp) == ip)
        if ok and ik[0] in (0, 1) and list(mv) != [0] and iv is not None:
            ok = same_value(list(mv), iv)         # primitive-free results agree up to the rounding of the one float operation involved
        if list(mk) == [5]:
            # the branch depends on the numerical value of a primitive (e.g. exp(log_val) < plain number):
            # outside what the branch-selection model decides; covered by the theorems and the search only
            ctx.count("corr:undecided_by_model")
            continue
        if (not ok and kind == "method" and name in ("__eq__", "__ne__", "__lt__", "__gt__", "__le__", "__ge__") and b is not None and b[0] == "F"
                and isinstance(a, float) and (a < -700 or a > 700)):
            # mixed comparison of a value whose plain rendering underflows / overflows: decided by the dedicated oracle of the search (known finding G24)
            ctx.count("corr:mixed_comparison_of_extreme_value")
            continue
        if not ok:
            dis += 1
            ctx.fail(f"corr:{name}", f"model and implementation disagree on {name}({a!r}, {b!r}): "
                     f"model kind/prims/value {mk}/{mp}/{mv} vs implementation {ik}/{ip}/{iv!r}",
                     {"function": name, "kind": kind, "a": repr(a), "b": repr(b), "model": [mk, mp, mv], "impl": [ik, ip, repr(iv)]},
                     kind="corr")
        if len(ctx.samples) < 4:
            ctx.sample({"case": [kind, name, repr(a), repr(b)], "kind": ik, "primitive_calls": ip})
    ctx.oblige(f"correspondence: {len(cases)} cases, branch structure / primitive-call sequence / exact special values", dis == 0,
               f"{dis} disagreements")
    ctx.extra["traces_validated_against_impl"] = len(cases)


# ---------------------------------------------------------------------------------------- search oracle
def D(x):
    return Decimal(x)


def ln1p_dec(x):
    """ln(1 + x) to ~75 digits, also for |x| far below the working precision."""
    if abs(x) < D("1e-25"):
        return x - x * x / 2 + x * x * x / 3
    return (D(1) + x).ln()


def one_minus_exp(v):
    """1 - exp(v) for v < 0 to ~75 significant digits."""
    if abs(v) < D("1e-25"):
        return -v - v * v / 2 - v * v * v / 6
    return D(1) - v.exp()


def ref_helper(name, a, b=None):
    """High-precision reference (Decimal, 80 digits, series where 1 +- tiny would cancel) or the symbols 'nan', '-inf'."""
    if name == "log1p_exp":
        return ln1p_dec(D(a).exp()) if a < 0 else D(a) + ln1p_dec((-D(a)).exp())
    if name == "log1m_exp":
        if a >= 0:
            return "nan"
        return ln1p_dec(-(D(a).exp())) if a < -1 else one_minus_exp(D(a)).ln()
    if name == "log_sum_exp":
        if a == -math.inf and b == -math.inf:
            return "-inf"
        m = max(a, b)
        lo = min(a, b)
        if lo == -math.inf:
            return D(m)
        return D(m) + ln1p_dec((D(lo) - D(m)).exp())
    if name == "log_diff_exp":
        if a == -math.inf and b == -math.inf:
            return "-inf"
        if a < b:
            return "nan"
        if a == b:
            return "-inf"
        if b == -math.inf:
            return D(a)
        d = D(b) - D(a)
        return D(a) + (ln1p_dec(-(d.exp())) if d < -1 else one_minus_exp(d).ln())
    raise KeyError(name)


def close(got, ref, scale, tol):
    if isinstance(ref, str):
        return (ref == "nan" and isinstance(got, float) and math.isnan(got)) or (ref == "-inf" and got == -math.inf)
    if not isinstance(got, float) or not math.isfinite(got):
        return False
    err = abs(D(got) - ref)
    return err <= D(tol) * max(abs(ref), D(scale)) or err <= D(5e-324)


def search(ctx, utils):
    rng = ctx.rng
    n = 400 if not ctx.thorough else 4000
    TOL = 2e-14
    pts = []
    # one-argument functions: magnitudes across the double range, both signs, branch points +- ulps
    for e in list(range(-320, 3, 8 if not ctx.thorough else 1)):
        for m in (1.0, 1.7, 9.99):
            v = m * 10.0 ** e
            pts += [("log1m_exp", -v, None), ("log1p_exp", -v, None), ("log1p_exp", v, None)]
    for v in [1, 5, 30, 36.7, 37, 40, 100, 700, 745, 746, 1000, 1e5, 1e300]:
        pts += [("log1m_exp", -float(v), None), ("log1p_exp", -float(v), None), ("log1p_exp", float(v), None)]
    b0 = -utils.LOG_2
    x = b0
    for _ in range(4):
        x = math.nextafter(x, 0)
        pts.append(("log1m_exp", x, None))
    x = b0
    for _ in range(4):
        pts.append(("log1m_exp", x, None))
        x = math.nextafter(x, -1)
    for _ in range(n):
        a = float(rng.normal() * 10 ** rng.uniform(-3, 4))
        d = float(abs(rng.normal()) * 10 ** rng.uniform(-18, 3))
        pts.append(("log_sum_exp", a, a - d))
        pts.append(("log_sum_exp", a - d, a))
        pts.append(("log_diff_exp", a, a - d))
        pts.append(("log1m_exp", -d, None))
    for a in (0.0, -5.0, 700.0, -1e6):
        pts += [("log_sum_exp", a, -math.inf), ("log_sum_exp", -math.inf, a), ("log_diff_exp", a, -math.inf),
                ("log_diff_exp", a, a), ("log_sum_exp", a, a)]
    pts += [("log_sum_exp", -math.inf, -math.inf), ("log_diff_exp", -math.inf, -math.inf)]
    bad = 0
    for name, a, b in pts:
        try:
            got = getattr(utils, name)(*([a] if b is None else [a, b]))
        except Exception as e:  # noqa: BLE001
            got = f"raised {type(e).__name__}: {e}"
        ref = ref_helper(name, a, b)
        # absolute scale: only the operands' magnitude for the two-argument functions (cancellation is inherent there)
        scale = 0 if b is None else max(abs(a) if math.isfinite(a) else 0, abs(b) if math.isfinite(b) else 0)
        ok = close(got, ref, scale, TOL)
        ctx.case(("search", name, a, b))
        ctx.count(f"search:{name}")
        if not ok:
            bad += 1
            ctx.fail(f"precision:{name}", f"{name}({a!r}{'' if b is None else ', ' + repr(b)}) = {got!r}, exact value {ref if isinstance(ref, str) else float(ref)!r}",
                     {"function": name, "args": [repr(a), repr(b)], "got": repr(got), "exact": str(ref)[:40], "tolerance": TOL})
    ctx.oblige(f"search: {len(pts)} helper evaluations against 80-digit decimal arithmetic (rel. tol {TOL})", bad == 0, f"{bad} failures")
    # LogRepFloat: accumulation sequences, products/ratios, ordering, zero weights
    L = utils.LogRepFloat
    bad = 0
    nseq = 40 if not ctx.thorough else 400
    for s in range(nseq):
        k = int(rng.integers(1, 30))
        center = float(rng.choice([0.0, 800.0, -800.0, 5000.0, -1e5]))
        ls = [center + float(rng.normal() * 20) if rng.random() > 0.15 else -math.inf for _ in range(k)]
        acc = L(log_val=-math.inf) if rng.random() < 0.5 else L(val=0.0)
        addends = []
        for l in ls:
            if rng.random() < 0.3 and math.isfinite(l) and abs(l) < 600:
                acc += math.exp(l)            # mixed with plain numbers
            else:
                addends.append((l, L(log_val=l)))
                acc += addends[-1][1]
        # operands are values: accumulating must not change (or alias) any addend
        for l, obj in addends:
            if not (obj.log_val == l) or obj is acc:
                bad += 1
                ctx.fail("logrep:iadd_mutates_operand", f"after accumulating log-values {ls}, the addend created with log_val {l!r} "
                         f"has log_val {obj.log_val!r}" + (" and is aliased by the accumulator" if obj is acc else ""),
                         {"sequence": [repr(x) for x in ls], "addend": repr(l), "now": repr(obj.log_val), "aliased": obj is acc})
                break
        fin = [l for l in ls if math.isfinite(l)]
        ctx.case(("seq", s))
        ctx.count("search:iadd_sequence")
        if not fin:
            ok = acc.log_val == -math.inf
            ref = "-inf"
        else:
            m = max(fin)
            ref = D(m) + sum((D(l) - D(m)).exp() for l in fin).ln()
            ok = math.isfinite(acc.log_val) and abs(D(acc.log_val) - ref) <= D(1e-13) * max(abs(ref), D(abs(m)), D(1)) * k
        if not ok:
            bad += 1
            ctx.fail("precision:iadd_sequence", f"in-place accumulation of log-values {ls} gives log_val {acc.log_val!r}, exact {ref}",
                     {"sequence": [repr(l) for l in ls], "got": repr(acc.log_val), "exact": str(ref)[:40]})
        # products, ratios, order on a pair
        a, b = ls[0], ls[-1]
        A, B = L(log_val=a), L(log_val=b)
        checks = [("mul", (A * B).log_val, a + b if not (a == -math.inf or b == -math.inf) else -math.inf)]
        if math.isfinite(b):
            checks.append(("div", (A / B).log_val, a - b))
        for nm, got, want in checks:
            if not (got == want or abs(got - want) <= 1e-12 * max(1.0, abs(want))):
                bad += 1
                ctx.fail(f"logrep:{nm}", f"LogRepFloat {nm} of log-values {a!r},{b!r}: log_val {got!r}, expected {want!r}",
                         {"op": nm, "a": repr(a), "b": repr(b), "got": repr(got)})
        for nm, got, want in [("lt", A < B, a < b), ("gt", A > B, a > b), ("le", A <= B, a <= b), ("ge", A >= B, a >= b),
                              ("eq", A == B, a == b), ("ne", A != B, a != b)]:
            if bool(got) != want:
                bad += 1
                ctx.fail(f"logrep:order:{nm}", f"LogRepFloat comparison {nm} on log-values {a!r},{b!r} gives {got}",
                         {"op": nm, "a": repr(a), "b": repr(b)})
        d = A - B if a >= b else B - A
        hi, lo = max(a, b), min(a, b)
        if isinstance(d, L):
            ref = ref_helper("log_diff_exp", hi, lo)
            if not close(d.log_val, ref, abs(hi) if math.isfinite(hi) else 0, 1e-13):
                bad += 1
                ctx.fail("logrep:sub", f"LogRepFloat difference of log-values {hi!r},{lo!r}: log_val {d.log_val!r}, exact {ref}",
                         {"a": repr(hi), "b": repr(lo), "got": repr(d.log_val)})
        else:
            bad += 1
            ctx.fail("logrep:sub", f"difference of LogRepFloat values with log-values {hi!r} >= {lo!r} is not a LogRepFloat: {d!r}",
                     {"a": repr(hi), "b": repr(lo)})
    ctx.oblige(f"search: {nseq} LogRepFloat accumulation sequences, products, ratios, differences, orderings", bad == 0, f"{bad} failures")


def mixed_comparison_search(ctx, utils):
    """comparisons with plain numbers order a value as the real number it represents, also when that number underflows or overflows as a plain float"""
    L = utils.LogRepFloat
    bad = 0
    import operator
    ops = {"==": operator.eq, "!=": operator.ne, "<": operator.lt, ">": operator.gt, "<=": operator.le, ">=": operator.ge}
    for lv in (-15086.5, -800.0, -746.0, -3.0, 0.0, 5.0, 709.0, 711.0, 800.0, 1e5):
        for other in (0.0, 5e-324, 1e-300, 0.5, 1.0, 1e300, 1.7976931348623157e308, math.inf, -1.0, -math.inf):
            # the real number exp(lv) against the plain number: exp(lv) > 0 always, finite always; use logs where both are positive
            if other <= 0:
                sign = 1                     # exp(lv) > other
            elif math.isinf(other):
                sign = -1
            else:
                lo = math.log(other)
                sign = 0 if lv == lo and abs(lv) < 700 else (1 if lv > lo else -1)
                if abs(lv - lo) < 1e-9 * max(1.0, abs(lo)) and sign != 0:
                    continue                 # too close to decide independently of rounding
            want = {"==": sign == 0, "!=": sign != 0, "<": sign < 0, ">": sign > 0, "<=": sign <= 0, ">=": sign >= 0}
            for name, f in ops.items():
                for flipped in (False, True):
                    got = f(other, L(log_val=lv)) if flipped else f(L(log_val=lv), other)
                    w = want[{"<": ">", ">": "<", "<=": ">=", ">=": "<="}.get(name, name)] if flipped else want[name]
                    ctx.case(("mixedcmp", lv, other, name, flipped))
                    ctx.count("search:mixed_comparisons")
                    if bool(got) != w:
                        extreme = lv < -700 or lv > 700
                        key = "compare:plain:value_underflows_or_overflows" if extreme else f"compare:plain:{name}"
                        bad += not ctx.is_known(key)
                        ctx.fail(key, f"LogRepFloat(log_val={lv}) {name} {other!r}" + (" (operands swapped)" if flipped else "") + f" is {bool(got)}, the real number exp({lv}) "
                                 f"{'=' if sign == 0 else '>' if sign > 0 else '<'} {other!r}", {"log_val": lv, "other": repr(other), "op": name, "flipped": flipped})
    ctx.oblige("search: all six comparisons of LogRepFloat values (incl. underflowing / overflowing ones) with plain numbers 0, tiny, 1, huge, inf, negative, both operand orders",
               bad == 0, f"{bad} failures")


def weights_in_transitions_search(ctx):
    """where the log-space arithmetic is USED: the dynamic transitions weigh states by exp(-h).  Adding a constant to the potential changes no ratio of
    weights, so a seeded chain must not change -- including constants that make every weight underflow (h > 745) or overflow as a plain float"""
    import mici
    bad = 0
    for kind in ("multinomial", "slice", "static"):
        ref = None
        for off in (0.0, 5.0, 740.0, 800.0, 4096.0, -800.0, -4096.0):
            system = mici.systems.EuclideanMetricSystem(lambda q, off=off: 0.5 * q @ q + off, grad_neg_log_dens=lambda q: q)
            integ = mici.integrators.LeapfrogIntegrator(system, 0.9)
            rng = np.random.default_rng(20260930)
            cls = {"multinomial": mici.samplers.DynamicMultinomialHMC, "slice": mici.samplers.DynamicSliceHMC, "static": mici.samplers.StaticMetropolisHMC}[kind]
            sampler = cls(system, integ, rng, **({"n_step": 3} if kind == "static" else {"max_tree_depth": 4}))
            out = sampler.sample_chains(0, 40, [np.array([0.3, -1.1, 0.8])], trace_funcs=[lambda st: {"pos": st.pos}], display_progress=False)
            pos = np.asarray(out.traces["pos"][0])
            acc = np.asarray(out.statistics["accept_stat"][0])
            ctx.case(("shift", kind, off))
            ctx.count("search:weights_in_transitions")
            if ref is None:
                ref = (pos, acc)
                continue
            moved = int(np.sum(np.any(np.diff(pos, axis=0) != 0, axis=1)))
            if not (np.allclose(pos, ref[0], rtol=1e-7, atol=1e-9) and np.allclose(acc, ref[1], rtol=1e-6, atol=1e-9)):
                bad += 1
                ctx.fail(f"weights:{kind}:shifted_potential", f"{kind} transition: adding the constant {off:g} to the negative log density changes the seeded chain (the chain moved on "
                         f"{moved} of 39 iterations; first differing row {int(np.argmax(np.any(~np.isclose(pos, ref[0], rtol=1e-7, atol=1e-9), axis=1)))}): ratios of underflowing / "
                         f"overflowing weights are not computed in log space", {"kind": kind, "offset": off})
    ctx.oblige("search: seeded multinomial / slice / static chains are unchanged by adding 5, 740, 800, 4096, -800, -4096 to the potential (weights that underflow or overflow "
               "as plain floats)", bad == 0, f"{bad} failures")


def run(ctx):
    import mici.utils as utils
    ctx.rule = ("correspondence cases: helper functions and LogRepFloat methods on mostly-valid log-values (dyadic, huge/tiny, -inf, "
                "branch-point neighbours); distinct = distinct (function, result kind, primitive-call sequence) or distinct search input; "
                "search: helper functions against 80-digit decimal arithmetic across the double range + LogRepFloat operation sequences")
    ctx.assume("real-number semantics of exp/expm1/log/log1p (IEEE rounding of libm is not modelled; explored by the search with tolerance 2e-14)",
               "first-order error model: a branch is well conditioned iff the amplification factor of its inner primitive is bounded (kappaA/kappaB)")
    ctx.trust("translator T1 tie/translate_utils.py (fail-closed Python-ast walker); its output is exercised by the correspondence")
    ok = ctx.regen("LogSpaceGen", translate_utils.generate)
    model_ok = ok and ctx.build(["Gen/LogSpaceGen.vo"], label="executable model")
    if model_ok and ctx.build(["Props/C20.vo"]):
        ctx.props()
    if model_ok:
        correspondence(ctx, utils)
    search(ctx, utils)
    mixed_comparison_search(ctx, utils)
    weights_in_transitions_search(ctx)
