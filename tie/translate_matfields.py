"""T5: src/mici/matrices.py -> coq/Gen/MatFieldsGen.v  (fail closed).

Per matrix class (method resolution along the class's MRO): the instance attributes read by `_check_equality` and by
`_compute_hash` (following simple properties / helper methods of the same object), with leading underscores stripped, and
the aliases between attribute names introduced by the symmetric / positive-definite low-rank subclasses passing their
arguments to the parent constructor."""
from __future__ import annotations

import ast

from common import REPO, Untranslatable


def generate():
    tree = ast.parse((REPO / "src/mici/matrices.py").read_text())
    classes = {n.name: n for n in tree.body if isinstance(n, ast.ClassDef)}

    def bases(c):
        out = []
        for b in classes[c].bases:
            if isinstance(b, ast.Name):
                if b.id in classes:
                    out.append(b.id)
            elif not (isinstance(b, ast.Attribute) and b.attr == "ABC"):
                raise Untranslatable(f"matrices.py:{b.lineno}: unsupported base class expression")
        return out

    def c3(cls):
        def merge(seqs):
            res = []
            seqs = [list(s) for s in seqs if s]
            while seqs:
                for s in seqs:
                    h = s[0]
                    if not any(h in t[1:] for t in seqs):
                        break
                else:
                    raise Untranslatable(f"inconsistent MRO for {cls}")
                res.append(h)
                seqs = [[x for x in t if x != h] for t in seqs]
                seqs = [t for t in seqs if t]
            return res
        bs = bases(cls)
        return [cls] + merge([c3(b) for b in bs] + [bs])

    def find(cls, name):
        for c in c3(cls):
            for it in classes[c].body:
                if isinstance(it, ast.FunctionDef) and it.name == name:
                    return c, it
        return None, None

    def is_abstract(f):
        return any((isinstance(d, ast.Attribute) and d.attr == "abstractmethod") or (isinstance(d, ast.Name) and d.id == "abstractmethod")
                   for d in f.decorator_list)

    def self_attrs(fn, cls, seen=None):
        seen = set() if seen is None else seen
        out = set()
        for n in ast.walk(fn):
            if isinstance(n, ast.Attribute) and isinstance(n.value, ast.Name) and n.value.id == "self":
                a = n.attr
                owner, f = find(cls, a)
                if f is not None and (owner, a) not in seen and a not in ("array", "T", "transpose", "inv", "sqrt", "shape"):
                    seen.add((owner, a))
                    sub = self_attrs(f, cls, seen)
                    out |= sub if sub else {a}
                else:
                    out.add(a)
        return out
    rows = []
    for cls in classes:
        o_eq, f_eq = find(cls, "_check_equality")
        o_h, f_h = find(cls, "_compute_hash")
        if f_eq is None or f_h is None or is_abstract(f_eq) or is_abstract(f_h):
            continue
        eq = sorted({a.lstrip("_") for a in self_attrs(f_eq, cls)} - {""})
        hs = sorted({a.lstrip("_") for a in self_attrs(f_h, cls)} - {""})
        rows.append((cls, eq, hs))
    # aliases: the symmetric low-rank class forwards its arguments to SquareLowRankUpdateMatrix.__init__
    aliases = []
    sym = classes.get("SymmetricLowRankUpdateMatrix")
    sq = classes.get("SquareLowRankUpdateMatrix")
    if sym is None or sq is None:
        raise Untranslatable("low-rank update classes missing")
    sq_init = next(f for f in sq.body if isinstance(f, ast.FunctionDef) and f.name == "__init__")
    sq_params = [a.arg for a in sq_init.args.args][1:]
    sq_assign = {ast.unparse(s.value): ast.unparse(s.targets[0])[5:].lstrip("_") for s in ast.walk(sq_init)
                 if isinstance(s, ast.Assign) and ast.unparse(s.targets[0]).startswith("self.")}
    sym_init = next(f for f in sym.body if isinstance(f, ast.FunctionDef) and f.name == "__init__")
    sup = [n for n in ast.walk(sym_init) if isinstance(n, ast.Call) and ast.unparse(n.func) == "super().__init__"]
    if len(sup) != 1:
        raise Untranslatable("SymmetricLowRankUpdateMatrix.__init__: super().__init__ call not found")
    passed = dict(zip(sq_params, [ast.unparse(a) for a in sup[0].args]))
    passed.update({k.arg: ast.unparse(k.value) for k in sup[0].keywords})
    sym_assign = {ast.unparse(s.value): ast.unparse(s.targets[0])[5:].lstrip("_") for s in ast.walk(sym_init)
                  if isinstance(s, ast.Assign) and ast.unparse(s.targets[0]).startswith("self.")}
    for param, expr in passed.items():
        if param in sq_assign and expr in sym_assign and sym_assign[expr] != sq_assign[param]:
            aliases.append((sym_assign[expr], sq_assign[param]))
    pd = classes.get("PositiveDefiniteLowRankUpdateMatrix")
    if pd is not None:
        pd_init = next(f for f in pd.body if isinstance(f, ast.FunctionDef) and f.name == "__init__")
        sup = [n for n in ast.walk(pd_init) if isinstance(n, ast.Call) and ast.unparse(n.func) == "super().__init__"]
        pd_assign = {ast.unparse(s.value): ast.unparse(s.targets[0])[5:].lstrip("_") for s in ast.walk(pd_init)
                     if isinstance(s, ast.Assign) and ast.unparse(s.targets[0]).startswith("self.")}
        if len(sup) == 1:
            for k in sup[0].keywords:
                e = ast.unparse(k.value)
                if e in pd_assign and k.arg in sym_assign.values() or e in pd_assign:
                    # keyword name = parameter of the symmetric class; it is stored there under sym_assign[param]
                    tgt = sym_assign.get(k.arg)
                    if tgt and pd_assign[e] != tgt:
                        aliases.append((pd_assign[e], tgt))

    def sl(xs):
        return "[" + "; ".join(f'"{x}"' for x in xs) + "]"
    out = ["(* generated by tie/translate_matfields.py (T5) from src/mici/matrices.py -- do not edit *)",
           "From Coq Require Import List String.", "Import ListNotations.", "Open Scope string_scope.", "",
           "Definition gen_fields : list (string * list string * list string) :=\n  [" + ";\n   ".join(
               f'("{c}", {sl(e)}, {sl(h)})' for c, e, h in rows) + "].\n",
           "Definition gen_aliases : list (string * string) :=\n  [" + "; ".join(f'("{a}", "{b}")' for a, b in sorted(set(aliases))) + "].\n"]
    return "\n".join(out)


if __name__ == "__main__":
    print(generate())
