"""C04 -- constrained dynamics stay on the constraint manifold and in its cotangent space; projection solvers return only
converged iterates of Lagrange-multiplier form."""
from __future__ import annotations

from fractions import Fraction

import numpy as np

import translate_projection
from common import coq_list, coq_q, parse_coq_value

LEVEL = "proof"
SOLVER_NAMES = {"quasi_newton": "solve_projection_onto_manifold_quasi_newton", "newton": "solve_projection_onto_manifold_newton",
                "newton_ls": "solve_projection_onto_manifold_newton_with_line_search"}
HDR = ("From Coq Require Import QArith List.\nRequire Import Mici.Lib.QMat Mici.Model.Matrices Mici.Model.Projection Mici.Model.ProjectionInst Mici.Gen.ProjectionGen.\n"
       "Import ListNotations.\nOpen Scope Q_scope.\n")


# ----------------------------------------------------------------------------------------------- exact-instance correspondence
def dy(rng, n, bits=4, scale=1.0):
    return [Fraction(int(v), 2 ** bits) for v in rng.integers(-int(scale * 2 ** bits), int(scale * 2 ** bits) + 1, n)]


def ql(v):
    return "[" + "; ".join(coq_q(Fraction(x)) for x in v) + "]"


def qm(M):
    return "(of_list [" + "; ".join(ql(r) for r in M) + "])"


class Inst:
    """one rational instance shared by the model (as Coq literals) and the implementation (as float arrays, exactly representable)"""

    def __init__(self, rng, kind):
        import mici
        self.kind, self.d, self.k = kind, (3 if kind == 0 else 4), (1 if kind == 0 else 2)
        d = self.d
        while True:
            q = dy(rng, d)
            if sum(abs(x) for x in q) > 1 and (kind == 0 or abs(q[1]) > 0):
                break
        self.q = q
        self.r = sum(x * x for x in q)
        self.b = (q[0] + Fraction(1, 2) * q[1] * q[1] - Fraction(3, 10) * q[3]) if kind else Fraction(0)
        self.p = dy(rng, d)
        self.Mi = [[Fraction([1, 2, 4][int(rng.integers(0, 3))], 2) if i == j else Fraction(0) for j in range(d)] for i in range(d)]
        if rng.random() < 0.5:   # dense inverse metric, diagonally dominant
            for i in range(d):
                for j in range(i):
                    self.Mi[i][j] = self.Mi[j][i] = Fraction(int(rng.integers(-1, 2)), 8)
        self.S = [[Fraction(int(rng.integers(1, 4)), 2) if i == j else Fraction(0) for j in range(d)] for i in range(d)]
        self.m0 = dy(rng, d, 2)
        f = lambda M: np.array([[float(x) for x in r_] for r_ in M])  # noqa: E731
        Mi, S, m0, r, b = f(self.Mi), f(self.S), np.array([float(x) for x in self.m0]), float(self.r), float(self.b)
        # 3/10 is not a binary fraction: the model gets the exact rational of the float the implementation uses
        self.c3 = Fraction(0.3)
        if kind == 0:
            constr = lambda x: np.array([x @ x - r])  # noqa: E731
            jac = lambda x: 2 * x[None]  # noqa: E731
        else:
            constr = lambda x: np.array([x @ x - r, x[0] + 0.5 * x[1] * x[1] - 0.3 * x[3] - b])  # noqa: E731
            jac = lambda x: np.stack([2 * x, np.array([1.0, x[1], 0.0, -0.3])])  # noqa: E731
        self.n_constr = [0]

        def counted(x):
            self.n_constr[0] += 1
            return constr(x)
        self.system = mici.systems.DenseConstrainedEuclideanMetricSystem(
            lambda x: 0.5 * (x - m0) @ S @ (x - m0), counted, metric=np.linalg.inv(Mi), grad_neg_log_dens=lambda x: S @ (x - m0), jacob_constr=jac)
        # the implementation inverts the metric numerically; make its inverse the exact one
        self.Mi_f = Mi

    def args(self):
        return f"{self.kind} {self.d} {self.k} {coq_q(self.r)} {coq_q(self.b)} {qm(self.Mi)}"


def to_arr(m):
    return np.array([a / b for row in m for a, b in row], dtype=float)


def par_eval(ctx, terms, shards=14):
    """evaluate the terms (same type) by vm_compute in parallel coqc processes; results in order"""
    from concurrent.futures import ThreadPoolExecutor
    if not terms:
        return []
    groups = [list(range(i, len(terms), shards)) for i in range(min(shards, len(terms)))]

    def one(ix):
        out = ctx.coq_eval(HDR + "Eval vm_compute in " + coq_list([terms[i] for i in ix]) + ".\n", name="corr", timeout=1200)
        return parse_coq_value(out[0])
    with ThreadPoolExecutor(len(groups)) as ex:
        res = list(ex.map(one, groups))
    flat = [None] * len(terms)
    for ix, vals in zip(groups, res):
        for i, v in zip(ix, vals):
            flat[i] = v
    return flat


def correspondence(ctx):
    import mici
    from mici.errors import IntegratorError
    from mici.states import ChainState
    rng = ctx.rng
    n_sol, n_step, n_proj = (36, 12, 12) if not ctx.thorough else (150, 60, 40)
    terms, expect = [], []
    # exact arithmetic: the size of the rationals grows about fourfold per solver iteration, so iteration budgets are small
    tolsets = [(Fraction(1, 10 ** 5), Fraction(1, 10 ** 4), 6), (Fraction(1, 10 ** 7), Fraction(1, 10 ** 3), 6), (Fraction(1, 10 ** 3), Fraction(1, 10 ** 8), 5),
               (Fraction(1, 10 ** 6), Fraction(1, 10 ** 5), 2)]
    for i in range(n_sol):
        inst = Inst(rng, int(rng.integers(0, 2)))
        kind = list(SOLVER_NAMES)[i % 3]
        ctol, ptol, mi = tolsets[int(rng.integers(0, len(tolsets)))]
        if inst.kind == 1:   # two constraints: sizes grow faster
            ctol, mi = max(ctol, Fraction(1, 10 ** 5)), min(mi, 4)
        dt = Fraction(int(rng.choice([-4, -2, -1, 1, 2, 4])), 16)
        sysm = inst.system
        prev = ChainState(pos=np.array([float(x) for x in inst.q]), mom=np.array([float(x) for x in inst.p]), dir=1)
        st = prev.copy()
        sysm.h2_flow(st, float(dt))
        inst.n_constr[0] = 0
        try:
            out = getattr(mici.solvers, SOLVER_NAMES[kind])(st, prev, float(dt), sysm, constraint_tol=float(ctol), position_tol=float(ptol), max_iters=mi)
            res = ("ok", out.pos.copy(), out.mom.copy(), inst.n_constr[0])
        except IntegratorError:
            res = ("err", None, None, inst.n_constr[0])
        terms.append(f"run_solver {inst.args()} gen_shape_{kind} {coq_q(ctol)} {coq_q(ptol)} 10000000000 10 {mi} {coq_q(dt)} {ql(inst.q)} {ql(inst.p)}")
        expect.append(("solver", kind, res, dict(kind=kind, q=[str(x) for x in inst.q], p=[str(x) for x in inst.p], dt=str(dt), ctol=str(ctol), ptol=str(ptol), max_iters=mi,
                                                 constraint=inst.kind)))
        ctx.count(f"corr:solver:{kind}:{res[0]}")
    sterms, sexpect = [], []
    for i in range(n_step):
        kind = list(SOLVER_NAMES)[i % 3]
        n_inner = 1 + (i // 3) % 2
        inst = Inst(rng, int(rng.integers(0, 2)) if n_inner == 1 else 0)
        ctol, ptol, mi = (tolsets[i % 2][0], tolsets[i % 2][1], 5) if (n_inner == 1 and inst.kind == 0) else (Fraction(1, 10 ** 3), Fraction(1, 10 ** 2), 4)
        t = Fraction(int(rng.choice([1, 2, 3])), 16)
        integ = mici.integrators.ConstrainedLeapfrogIntegrator(inst.system, float(t), n_inner_step=n_inner, projection_solver=getattr(mici.solvers, SOLVER_NAMES[kind]),
                                                                projection_solver_kwargs=dict(constraint_tol=float(ctol), position_tol=float(ptol), max_iters=mi), reverse_check_tol=1e-4)
        direction = int(rng.choice([-1, 1]))
        st = ChainState(pos=np.array([float(x) for x in inst.q]), mom=np.array([float(x) for x in inst.p]), dir=direction)
        try:
            out = integ.step(st)
            res = ("ok", out.pos.copy(), out.mom.copy())
        except IntegratorError as e:
            res = ("err:" + type(e).__name__, None, None)
        ts = t * direction
        sterms.append(f"run_step {inst.args()} {qm(inst.S)} (col {ql(inst.m0)}) gen_shape_{kind} gen_proj_exp (gen_cstep {n_inner}) {coq_q(ctol)} {coq_q(ptol)} 10000000000 "
                      f"(1 # 10000) 10 {mi} {coq_q(ts)} {coq_q(ts / n_inner)} {ql(inst.q)} {ql(inst.p)}")
        sexpect.append(("step", kind, res, dict(kind=kind, n_inner=n_inner, q=[str(x) for x in inst.q], p=[str(x) for x in inst.p], t=str(ts), constraint=inst.kind)))
        ctx.count(f"corr:step:{kind}:{res[0]}")
    pterms, pexpect = [], []
    for i in range(n_proj):
        inst = Inst(rng, i % 2)
        st = ChainState(pos=np.array([float(x) for x in inst.q]), mom=None, dir=1)
        pm = inst.system.project_onto_cotangent_space(np.array([float(x) for x in inst.p]), st)
        nrm = np.random.default_rng(5 + i)
        sm = inst.system.sample_momentum(st, nrm)
        raw = np.asarray(inst.system.metric.sqrt @ np.random.default_rng(5 + i).standard_normal(inst.d))
        rawq = [Fraction(float(x)) for x in raw]
        pa = f"{inst.kind} {inst.d} {inst.k} {qm(inst.Mi)}"
        pterms.append(f"[run_proj {pa} gen_proj_exp {ql(inst.q)} {ql(inst.p)}; run_proj {pa} gen_proj_exp {ql(inst.q)} {ql(rawq)}]")
        pexpect.append((pm, sm))
    # the constant 3/10 of the second constraint: floats use the nearest double; the difference (5e-18 relative) is far below the comparison tolerance
    import time
    t0 = time.time()
    msol = par_eval(ctx, terms)
    t1 = time.time()
    mstep = par_eval(ctx, sterms)
    t2 = time.time()
    mproj = par_eval(ctx, pterms)
    ctx.notes.append(f"model evaluation: solvers {t1 - t0:.0f} s, steps {t2 - t1:.0f} s, projections {time.time() - t2:.0f} s")
    bad = 0
    for (what, kind, res, info), m in list(zip(expect, msol)) + list(zip(sexpect, mstep)):
        ctx.case((what, kind, str(info)))
        ok_model = m is not None and m != "None"
        if ok_model != (res[0] == "ok"):
            bad += 1
            ctx.fail(f"corr:{what}:{kind}:status", f"{what} {kind}: the implementation {'returned' if res[0] == 'ok' else 'raised ' + res[0]} but the model "
                     f"{'returns' if ok_model else 'fails to converge'}", info, kind="corr")
            continue
        if not ok_model:
            continue
        mv = m[1] if (isinstance(m, tuple) and m[0] == "Some") else m
        mq, mp = to_arr(mv[0]), to_arr(mv[1])
        err = max(np.abs(mq - res[1]).max(), np.abs(mp - res[2]).max())
        if not err <= 1e-9:
            bad += 1
            ctx.fail(f"corr:{what}:{kind}:value", f"{what} {kind}: returned state differs from the model's by {err:.2e}", dict(info, impl_pos=res[1].tolist(), impl_mom=res[2].tolist(),
                                                                                                                           model_pos=mq.tolist(), model_mom=mp.tolist()), kind="corr")
            continue
        if what == "solver" and kind != "newton_ls" and len(mv) > 2 and int(mv[2]) + 1 != res[3]:
            bad += 1
            ctx.fail(f"corr:solver:{kind}:iterations", f"solver {kind}: the implementation evaluated the constraint {res[3]} times, the model converged at iteration {mv[2]}", info, kind="corr")
    for (pm, sm), m in zip(pexpect, mproj):
        ctx.case(("proj", float(pm[0])))
        e1, e2 = np.abs(to_arr(m[0]) - pm).max(), np.abs(to_arr(m[1]) - sm).max()
        if not max(e1, e2) <= 1e-10:
            bad += 1
            ctx.fail("corr:projection", f"project_onto_cotangent_space / sample_momentum differ from the generated formula evaluated by Coq by {max(e1, e2):.2e}", {"proj": e1, "sample": e2}, kind="corr")
    ctx.oblige(f"correspondence: {len(terms)} direct solver calls, {len(sterms)} whole constrained integrator steps (both directions, 1-2 inner steps), {len(pterms)} projections / "
               f"sampled momenta: exact rational model (Coq vm_compute on the generated shapes, operation list and projection formula) vs the implementation "
               f"(returned state, convergence-error status, iteration count)", bad == 0, f"{bad} differences")


# ----------------------------------------------------------------------------------------------------------- implementation search
D = 4


def constraint_sets():
    H1 = np.zeros((D, D))
    H1[1, 1] = 1.0
    return {
        "sphere": (lambda q: np.array([q @ q - 1.0]), lambda q: 2 * q[None], lambda q: (lambda m: 2 * m[0])),
        "sphere+parabolic": (lambda q: np.array([q @ q - 1.0, q[0] + 0.5 * q[1] ** 2 - 0.3 * q[3]]), lambda q: np.stack([2 * q, np.array([1.0, q[1], 0.0, -0.3])]),
                             lambda q: (lambda m: 2 * m[0] + m[1] @ H1)),
        "sphere_x1000": (lambda q: np.array([1e3 * (q @ q - 1.0)]), lambda q: 2e3 * q[None], lambda q: (lambda m: 2e3 * m[0])),
        "linear": (lambda q: np.array([q[0] + 2 * q[1] - q[2] - 0.5]), lambda q: np.array([[1.0, 2.0, -1.0, 0.0]]), lambda q: (lambda m: np.zeros(D))),
    }


def metrics(rng):
    ev = np.exp(0.6 * rng.standard_normal(D))
    Q = np.linalg.qr(rng.standard_normal((D, D)))[0]
    return {"identity": None, "diagonal": ev.copy(), "dense": (Q * ev) @ Q.T}


def make_system(kind, cset, metric, hausdorff):
    import mici.systems as S
    constr, jac, mhp = cset
    if kind == "plain":
        return S.DenseConstrainedEuclideanMetricSystem(lambda q: 0.5 * np.sum((q - 0.2) ** 2), constr, metric=metric, dens_wrt_hausdorff=hausdorff,
                                                       grad_neg_log_dens=lambda q: q - 0.2, jacob_constr=jac, mhp_constr=mhp)
    # the Gaussian-split system always includes the Gram-determinant term
    return S.GaussianDenseConstrainedEuclideanMetricSystem(lambda q: 0.1 * np.sum(q ** 4), constr, metric=metric,
                                                           grad_neg_log_dens=lambda q: 0.4 * q ** 3, jacob_constr=jac, mhp_constr=mhp)


def on_manifold(constr, jac, rng):
    q = rng.standard_normal(D)
    q /= np.linalg.norm(q)
    for _ in range(100):
        c, J = constr(q), jac(q)
        if np.abs(c).max() < 1e-13 * max(1.0, np.abs(J).max()):
            break
        q = q - J.T @ np.linalg.solve(J @ J.T, c)
    return q


def search(ctx):
    import mici
    from mici.errors import IntegratorError
    from mici.states import ChainState
    rng = ctx.rng
    bad = 0
    csets = constraint_sets()
    tolsets = [dict(), dict(constraint_tol=1e-12, position_tol=1e-5), dict(constraint_tol=1e-6, position_tol=1e-11), dict(constraint_tol=1e-10, position_tol=1e-3, max_iters=8)]
    reps = 1 if not ctx.thorough else 4
    for rep in range(reps):
        for cname, cset in csets.items():
            constr, jac, _ = cset
            for mname, metric in metrics(rng).items():
                for skind in ("plain", "gaussian"):
                    for hausdorff in (True, False):
                        if skind == "gaussian" and hausdorff:
                            continue
                        sysm = make_system(skind, cset, metric, hausdorff)
                        q0 = on_manifold(constr, jac, rng)
                        prev = ChainState(pos=q0.copy(), mom=None, dir=1)
                        # every sampled momentum and every projection lies in the cotangent space
                        for _ in range(2):
                            prev.mom = sysm.sample_momentum(prev, rng)
                            Jq = sysm.jacob_constr(prev)
                            scale = max(1.0, np.abs(Jq).max() * np.abs(prev.mom).max())
                            ce = np.abs(Jq @ sysm.dh_dmom(prev)).max() / scale
                            ctx.case(("sample", cname, mname, skind, hausdorff, float(prev.mom[0])))
                            ctx.count("search:sample_momentum")
                            if not ce <= 1e-10:
                                bad += 1
                                ctx.fail(f"cotangent:sample_momentum:{skind}", f"sample_momentum on {skind}/{cname}/{mname}: |J M^-1 p| = {ce:.2e} (relative)",
                                         dict(system=skind, constraint=cname, metric=mname, pos=q0.tolist(), mom=prev.mom.tolist()))
                            raw = rng.standard_normal(D)
                            pr = sysm.project_onto_cotangent_space(raw.copy(), prev)
                            tmp = ChainState(pos=q0.copy(), mom=pr.copy(), dir=1)
                            ce = np.abs(Jq @ sysm.dh_dmom(tmp)).max() / max(1.0, np.abs(Jq).max() * np.abs(raw).max())
                            pr2 = sysm.project_onto_cotangent_space(pr.copy(), prev)
                            if not (ce <= 1e-10 and np.abs(pr2 - pr).max() <= 1e-10 * max(1.0, np.abs(raw).max())):
                                bad += 1
                                ctx.fail(f"cotangent:projection:{skind}", f"project_onto_cotangent_space on {skind}/{cname}/{mname}: |J M^-1 p| = {ce:.2e}, "
                                         f"idempotence error {np.abs(pr2 - pr).max():.2e}", dict(system=skind, constraint=cname, metric=mname, pos=q0.tolist(), mom=raw.tolist()))
                        # direct solver calls: residual below tolerance on return, Lagrange-multiplier form with ONE multiplier vector
                        for kind, sname in SOLVER_NAMES.items():
                            solver = getattr(mici.solvers, sname)
                            for kw in tolsets:
                                for dt in (0.2, -0.5, 0.9):
                                    st = prev.copy()
                                    sysm.h2_flow(st, dt)
                                    pos_flow, mom_flow = st.pos.copy(), st.mom.copy()
                                    ctx.count(f"search:solver:{kind}")
                                    try:
                                        out = solver(st, prev, dt, sysm, **kw)
                                    except IntegratorError:
                                        ctx.count("search:solver:raised")
                                        continue
                                    ctx.case(("solver", kind, cname, mname, skind, str(kw), dt, rep))
                                    ctol = kw.get("constraint_tol", 1e-9)
                                    resid = np.abs(constr(out.pos)).max()
                                    info = dict(solver=sname, system=skind, constraint=cname, metric=mname, kwargs=kw, time_step=dt, pos_prev=q0.tolist(), mom_prev=prev.mom.tolist())
                                    if not resid < ctol:
                                        bad += 1
                                        ctx.fail(f"residual:{kind}", f"{sname} returned with |constr| = {resid:.3e} >= constraint_tol = {ctol:.1e} ({skind}/{cname}/{mname}, "
                                                 f"dt={dt}, {kw})", dict(info, residual=float(resid)))
                                        continue
                                    Dp, Dm = sysm.dh2_flow_dmom(prev, abs(dt))
                                    Jp = np.asarray(sysm.jacob_constr(prev))
                                    A = np.asarray(Dp @ Jp.T)
                                    lam = np.linalg.lstsq(A, pos_flow - out.pos, rcond=None)[0]
                                    sc = max(1.0, np.abs(pos_flow - out.pos).max())
                                    pe = np.abs(A @ lam - (pos_flow - out.pos)).max() / sc
                                    me = np.abs(mom_flow - np.sign(dt) * np.asarray(Dm @ (Jp.T @ lam)) - out.mom).max() / max(1.0, np.abs(Jp.T @ lam).max())
                                    if not (pe <= 1e-9 and me <= 1e-8):
                                        bad += 1
                                        ctx.fail(f"lagrange_form:{kind}:{skind}", f"{sname} on {skind}/{cname}/{mname}, dt={dt}: correction is not of Lagrange-multiplier form "
                                                 f"(position residual {pe:.2e}, momentum residual {me:.2e} with the multipliers of the position correction)",
                                                 dict(info, pos_err=float(pe), mom_err=float(me)))
                            # whole integrator steps
                            for n_inner in (1, 3):
                                for kw in tolsets[:2]:
                                    integ = mici.integrators.ConstrainedLeapfrogIntegrator(sysm, 0.15, n_inner_step=n_inner, projection_solver=solver, projection_solver_kwargs=kw)
                                    st = prev.copy()
                                    st.dir = int(rng.choice([-1, 1]))
                                    ctol = kw.get("constraint_tol", 1e-9)
                                    try:
                                        for stepi in range(3):
                                            st = integ.step(st)
                                            ctx.count("search:step")
                                            resid = np.abs(constr(st.pos)).max()
                                            Jq = np.asarray(sysm.jacob_constr(st))
                                            ce = np.abs(Jq @ sysm.dh_dmom(st)).max() / max(1.0, np.abs(Jq).max() * np.abs(st.mom).max())
                                            ctx.case(("step", kind, cname, mname, skind, hausdorff, n_inner, str(kw), stepi, rep))
                                            if not (resid < ctol and ce <= 1e-10):
                                                bad += 1
                                                ctx.fail(f"step:{kind}:{skind}", f"ConstrainedLeapfrogIntegrator(n_inner_step={n_inner}, {sname}, {kw}) on {skind}/{cname}/{mname}"
                                                         f"/hausdorff={hausdorff}: after step {stepi + 1} |constr| = {resid:.2e} (tol {ctol:.0e}), |J M^-1 p| = {ce:.2e}",
                                                         dict(solver=sname, system=skind, constraint=cname, metric=mname, hausdorff=hausdorff, n_inner=n_inner, kwargs=kw,
                                                              pos=q0.tolist(), mom=prev.mom.tolist()))
                                                break
                                    except IntegratorError:
                                        ctx.count("search:step:raised")
    # the ambient metric is a public attribute (metric adapters re-assign it between stages): momenta sampled afterwards lie in the cotangent space for the NEW metric,
    # also on a state that was used under the old one
    import mici.matrices as mm
    for skind in ("plain", "gaussian"):
        cset = csets["sphere+parabolic"]
        sysm = make_system(skind, cset, None, False)
        q0 = on_manifold(cset[0], cset[1], rng)
        used = ChainState(pos=q0.copy(), mom=None, dir=1)
        used.mom = sysm.sample_momentum(used, rng)          # caches everything that depends on the position
        ev = np.exp(0.8 * rng.standard_normal(D))
        sysm.metric = mm.PositiveDiagonalMatrix(ev)
        for label, st in (("a state used before the metric was re-assigned", used), ("a fresh state", ChainState(pos=q0.copy(), mom=None, dir=1))):
            st.mom = sysm.sample_momentum(st, rng)
            Jq = np.asarray(sysm.jacob_constr(st))
            ce = np.abs(Jq @ (st.mom / ev)).max() / max(1.0, np.abs(Jq).max() * np.abs(st.mom).max())
            ctx.case(("metric-reassigned", skind, label))
            ctx.count("search:sample_momentum:metric_reassigned")
            if not ce <= 1e-10:
                key = "cotangent:sample_momentum:stale_gram_after_metric_reassignment" if st is used else f"cotangent:sample_momentum:metric_reassigned:{skind}"
                bad += not ctx.is_known(key)
                ctx.fail(key, f"{type(sysm).__name__}: after re-assigning system.metric, sample_momentum on {label} gives |J M_new^-1 p| = {ce:.2e} (relative): "
                         f"the Gram matrix cached in the state under the old metric is re-used", dict(system=skind, pos=q0.tolist(), new_metric_diagonal=ev.tolist()))
    # two live systems of one class (different constraint function or ambient metric) applied to ONE state object (comparing formulations from a common start
    # state): what the first cached in the state must not be served to the second - sampled and projected momenta are cotangent for the system that produced them
    mets2 = metrics(rng)
    for skind in ("plain", "gaussian"):
        pairs = [(("sphere", None), ("sphere+parabolic", None)), (("sphere", None), ("sphere", mets2["dense"])), (("sphere+parabolic", mets2["diagonal"]), ("sphere+parabolic", mets2["dense"]))]
        for (c1, m1), (c2, m2) in pairs:
            sys1, sys2 = make_system(skind, csets[c1], m1, False), make_system(skind, csets[c2], m2, False)
            q0 = on_manifold(csets["sphere+parabolic"][0], csets["sphere+parabolic"][1], rng)     # lies on both manifolds
            st = ChainState(pos=q0.copy(), mom=None, dir=1)
            for which, sysm, cn, mv in (("first", sys1, c1, m1), ("second", sys2, c2, m2), ("first again", sys1, c1, m1)):
                Mi = np.eye(D) if mv is None else (np.diag(1 / mv) if np.ndim(mv) == 1 else np.linalg.inv(mv))
                Jq = csets[cn][1](q0)
                st.mom = sysm.sample_momentum(st, rng)
                ce1 = np.abs(Jq @ Mi @ st.mom).max() / max(1.0, np.abs(Jq).max() * np.abs(st.mom).max())
                st.mom = rng.standard_normal(D)
                st.mom = sysm.project_onto_cotangent_space(st.mom, st)
                ce2 = np.abs(Jq @ Mi @ st.mom).max() / max(1.0, np.abs(Jq).max() * np.abs(st.mom).max())
                ctx.case(("two-systems", skind, c1, c2, which))
                ctx.count("search:two_systems_one_state")
                if not (ce1 <= 1e-10 and ce2 <= 1e-10):
                    bad += 1
                    ctx.fail(f"cotangent:two_systems_one_state:{skind}", f"{type(sysm).__name__}: two systems ({c1} / {c2}, metrics {'same' if m1 is m2 else 'different'}) used on one "
                             f"state object: for the {which} system sampled momentum has |J M^-1 p| = {ce1:.2e}, projected momentum {ce2:.2e} (relative), with ITS constraint and metric",
                             dict(system=skind, constraints=[c1, c2], pos=q0.tolist()))
                    break
    # a constraint function with a restricted domain (raises ValueError off it): a failed solve is a ConvergenceError, nothing else
    import math

    def log_constr(q):
        return np.array([math.log(q[0]) + q[1]])

    def log_jac(q):
        return np.array([[1.0 / q[0], 1.0, 0.0, 0.0]])
    import mici.systems as S
    dsys = S.DenseConstrainedEuclideanMetricSystem(lambda q: 0.5 * q @ q, log_constr, grad_neg_log_dens=lambda q: q, jacob_constr=log_jac)
    for kind, sname in SOLVER_NAMES.items():
        solver = getattr(mici.solvers, sname)
        for rep in range(40 if not ctx.thorough else 300):
            x = float(rng.uniform(0.05, 2.0))
            q0 = np.array([x, -math.log(x), float(rng.standard_normal()), float(rng.standard_normal())])
            prev = ChainState(pos=q0.copy(), mom=None, dir=1)
            prev.mom = dsys.sample_momentum(prev, rng) * 3
            dt = float(rng.choice([0.4, 0.8, -0.8, 1.5]))
            st = prev.copy()
            dsys.h2_flow(st, dt)
            ctx.count("search:solver:restricted_domain")
            try:
                out = solver(st, prev, dt, dsys)
                ok = abs(log_constr(out.pos)[0]) < 1e-9
                why = f"returned with residual {abs(log_constr(out.pos)[0]):.2e}"
            except mici.errors.ConvergenceError:
                ok, why = True, ""
            except Exception as e:  # noqa: BLE001
                ok, why = False, f"raised {type(e).__name__} ({str(e)[:60]}) instead of ConvergenceError"
            ctx.case(("domain", kind, rep))
            if not ok:
                bad += 1
                ctx.fail(f"not_convergence_error:{kind}", f"{sname} on a constraint function that raises ValueError outside its domain (log q0 + q1 = 0), dt={dt}: {why}",
                         dict(solver=sname, pos_prev=q0.tolist(), mom_prev=prev.mom.tolist(), time_step=dt))
                break
    ctx.oblige("search: sampled momenta, momentum projections (cotangent condition, idempotence), direct calls of the three projection solvers (residual below the configured "
               "tolerance on return; position and momentum corrections generated by one multiplier vector) and whole constrained steps, over 4 constraint sets (1-2 constraints, "
               "curved / linear / badly scaled), 3 metrics, plain and Gaussian-split systems, both density conventions, 4 tolerance settings, 3 time steps, 1 and 3 inner steps; a constraint with a restricted domain (failed solves are ConvergenceErrors)",
               bad == 0, f"{bad} failures")


def run(ctx):
    ctx.rule = "per solver call / integrator step / projection: residual below configured tolerance, cotangent residual, Lagrange form by least squares"
    ctx.assume("exact rational arithmetic in the model: the cotangent condition is exact there and holds to rounding error in the implementation (measured by the search)",
               "the linear solve inside the solvers is an arbitrary function in the theorems (no assumption that it is a good Newton direction): convergence speed is not claimed",
               "Gaussian-split flow derivatives (sin / cos of the metric eigenvalues) enter the theorems as arbitrary matrices Dpos, Dmom; that they are the derivatives of h2_flow "
               "is checked on the implementation by the search only")
    ctx.trust("translator T7 (solver shapes, constrained step operation list, projection formula); Model/Projection.v interpreter of the shapes")
    ok = ctx.regen("ProjectionGen", translate_projection.generate)
    model_ok = ok and ctx.build(["Gen/ProjectionGen.vo", "Model/ProjectionInst.vo"], label="executable model")
    if model_ok:
        if ctx.build(["Props/C04.vo"]):
            ctx.props()
        correspondence(ctx)
    search(ctx)
