"""C13 -- sampler outputs record exactly the post-iteration chain states."""
from __future__ import annotations

import tempfile
from pathlib import Path

import numpy as np

import sampler_corr
import translate_stagers
from hmc_zoo import make_sampler, rederive, trace_pos

LEVEL = "proof"


class _St:
    """minimal stand-in for a chain state when re-evaluating trace functions on recorded positions"""

    def __init__(self, pos):
        self.pos = np.asarray(pos)


class SummaryTrace:
    def __call__(self, state):
        return {"sumsq": float(np.sum(state.pos ** 2)), "first": state.pos[0]}


class IntNorm:
    def __call__(self, state):
        return {"norm": int(np.floor(np.sum(np.abs(state.pos)) * 8))}


class FloatNorm:
    def __call__(self, state):
        return {"norm": float(np.sum(np.abs(state.pos)))}


def sampler_fresh(kind, seed):
    return make_sampler(kind, seed)


def storage_search(ctx):
    """Real HMC: rows vs an independently re-derived chain; RAM vs memmap (temp / user dir) vs processes; dtypes; lengths."""
    bad = 0
    kinds = ["static", "multinomial"] if not ctx.thorough else ["static", "random", "multinomial", "slice"]
    grid = [(k, nc, n) for k in kinds for nc in (1, 3) for n in (0, 1, 5)]
    for kind, n_chain, n_iter in grid:
        seed = int(ctx.rng.integers(0, 2 ** 31))
        inits = [list(ctx.rng.standard_normal(2)) for _ in range(n_chain)]
        ref = rederive(kind, seed, inits, n_iter)
        variants = [("ram", dict()), ("memmap_tmp", dict(force_memmap=True)), ("memmap_dir", dict(force_memmap=True, memmap_path="USER")),
                    ("proc2", dict(n_process=2)), ("init_state", dict())]
        if ctx.thorough or (kind == "static" and n_chain == 3 and n_iter == 5):
            variants.append(("all_cpus", dict(n_process=None)))
        for vname, kw in variants:
            with tempfile.TemporaryDirectory(dir="/verif/build") as td:
                kw = dict(kw)
                if kw.get("memmap_path") == "USER":
                    kw["memmap_path"] = td
                sampler = make_sampler(kind, seed)
                from mici.states import ChainState
                init = ([np.array(q) for q in inits] if vname != "init_state"
                        else [ChainState(pos=np.array(q), mom=None, dir=1) for q in inits])
                try:
                    out = sampler.sample_chains(0, n_iter, init, trace_funcs=[trace_pos], display_progress=False, **kw)
                except Exception as e:  # noqa: BLE001
                    bad += 1
                    ctx.fail(f"storage:{vname}:raises", f"sample_chains({kind}, chains={n_chain}, n_main={n_iter}, {vname}) raised {type(e).__name__}: {e}",
                             {"kind": kind, "n_chain": n_chain, "n_iter": n_iter, "variant": vname, "seed": seed})
                    continue
                ctx.case(("storage", kind, n_chain, n_iter, vname))
                ctx.count(f"search:{vname}")
                probs = []
                for c in range(n_chain):
                    rows, stats, last = ref[c]
                    tr = np.asarray(out.traces["pos"][c])
                    if tr.shape != (n_iter, 2):
                        probs.append(f"chain {c}: trace shape {tr.shape}, expected {(n_iter, 2)}")
                        continue
                    if n_iter and not np.array_equal(tr, np.array(rows)):
                        probs.append(f"chain {c}: trace rows differ from the re-derived chain at rows {np.nonzero(np.any(tr != np.array(rows), axis=1))[0][:3].tolist()}")
                    if np.isnan(tr).any():
                        probs.append(f"chain {c}: a fill value survives in the trace array")
                    if not np.array_equal(np.asarray(out.final_states[c].pos), np.asarray(last.pos)):
                        probs.append(f"chain {c}: final state is not the state after the last iteration")
                    for key, arr in out.statistics.items():
                        arr = np.asarray(arr[c])
                        want = [s[key] for s in stats]
                        dt, fill = sampler.transitions["integration_transition"].statistic_types[key]
                        if arr.dtype != np.dtype(dt):
                            probs.append(f"statistic {key}: dtype {arr.dtype}, declared {np.dtype(dt)}")
                        if len(arr) != n_iter or (n_iter and not np.array_equal(arr, np.array(want, dtype=dt), equal_nan=True)):
                            probs.append(f"chain {c}: statistic {key} rows differ from the re-derived chain")
                if kw.get("memmap_path"):
                    files = sorted(Path(kw["memmap_path"]).glob("trace_*pos*.npy"))
                    if len(files) != n_chain:
                        probs.append(f"{len(files)} trace files in the user directory for {n_chain} chains")
                    else:
                        for c, f in enumerate(files):
                            if not np.array_equal(np.load(f), np.asarray(out.traces["pos"][c])):
                                probs.append(f"memmap file {f.name} differs from the returned array")
                if probs:
                    bad += 1
                    ctx.fail(f"rows:{vname}", f"sample_chains({kind}, chains={n_chain}, n_main={n_iter}, {vname}): {probs[0]}",
                             {"kind": kind, "n_chain": n_chain, "n_iter": n_iter, "variant": vname, "seed": seed, "inits": inits, "problems": probs[:5]})
    # trace-function sets: several functions, disjoint and SHARED keys (documented: the last function returning a key wins), scalar / vector / integer values
    for kind, vname, kw in (("static", "ram", dict()), ("multinomial", "memmap_tmp", dict(force_memmap=True)), ("static", "proc2", dict(n_process=2))):
        seed = int(ctx.rng.integers(0, 2 ** 31))
        inits = [list(ctx.rng.standard_normal(2)) for _ in range(2)]
        n_iter = 6
        ref = rederive(kind, seed, inits, n_iter)
        sampler = make_sampler(kind, seed)
        fsets = {"pos+summary": [trace_pos, SummaryTrace()], "int-then-float": [IntNorm(), trace_pos, FloatNorm()], "float-then-int": [FloatNorm(), IntNorm()]}
        for sname, funcs in fsets.items():
            try:
                out = sampler_fresh(kind, seed).sample_chains(0, n_iter, [np.array(q) for q in inits], trace_funcs=funcs, display_progress=False, **kw)
            except Exception as e:  # noqa: BLE001
                bad += 1
                ctx.fail(f"tracefuncs:{sname}:raises", f"sample_chains with trace functions {sname} ({vname}) raised {type(e).__name__}: {e}", {"kind": kind, "set": sname, "variant": vname})
                continue
            ctx.case(("tracefuncs", kind, vname, sname))
            ctx.count("search:trace_function_sets")
            probs = []
            for c in range(2):
                rows = np.array(ref[c][0])
                want = {}
                for f in funcs:
                    for key in f(_St(rows[0])).keys():
                        want[key] = np.array([np.asarray(f(_St(r))[key]) for r in rows])
                for key, w in want.items():
                    got = np.asarray(out.traces[key][c])
                    if got.shape != w.shape or not np.allclose(got, w, rtol=0, atol=0, equal_nan=True):
                        probs.append(f"chain {c}: trace '{key}' rows are not the values of the last trace function returning that key "
                                     f"(stored dtype {got.dtype}, first row {got[0].tolist() if got.size else None} vs {w[0].tolist()})")
            if probs:
                bad += 1
                ctx.fail(f"tracefuncs:{sname}", f"sample_chains({kind}, {vname}) with trace functions {sname}: {probs[0]}", {"kind": kind, "variant": vname, "set": sname, "seed": seed,
                                                                                                                             "inits": inits, "problems": probs[:4]})
    ctx.oblige(f"search: {len(grid)} real HMC configurations x storage/process/init variants, rows re-derived with an independent chain loop; trace-function sets with "
               f"disjoint and shared keys of different dtypes", bad == 0, f"{bad} failures")


def run(ctx):
    ctx.rule = ("correspondence: random stage lists / real stagers x adapter configs x chains x trace options through the real sample_chains with "
                "recording stubs; search: real HMC samplers re-derived row by row; distinct = distinct case tuple")
    ctx.assume("sequential execution is modelled; equality of memory-mapped / multi-process storage with in-memory storage is explored by the search, not proved",
               "recorded history is a ghost variable of the model appended by the step that performs the transition")
    ctx.trust("hand model coq/Model/Sampler.v tied by correspondence through tie/sampler_stubs.py", "translator T2 (stagers)")
    ok = ctx.regen("StagersGen", translate_stagers.generate)
    model_ok = ok and ctx.build(["Gen/StagersGen.vo", "Model/SamplerInst.vo"], label="executable model")
    if model_ok and ctx.build(["Props/C13.vo"]):
        ctx.props()
    if model_ok:
        n = 60 if not ctx.thorough else 400
        cases = [sampler_corr.gen_case(ctx.rng, "plain") for _ in range(n)]
        sampler_corr.run_cases(ctx, cases, "rows")
        # storage variants of the stub runs must return the same values as in-memory sequential runs
        bad = 0
        for c in cases[: 12 if not ctx.thorough else 60]:
            base = sampler_corr.real_outcome(c)
            with tempfile.TemporaryDirectory(dir="/verif/build") as td:
                for vname, kw in (("memmap_tmp", dict(force_memmap=True)), ("memmap_dir", dict(force_memmap=True, memmap_path=td)), ("init_dict", dict(init_kind="dict"))):
                    got = sampler_corr.real_outcome(c, **kw)
                    ctx.case(("stub-storage", vname, repr(c["stager"]), c["seed"]))
                    if any(got[k] != base[k] for k in ("traces", "stats", "final", "par")):
                        bad += 1
                        ctx.fail(f"storage:{vname}", f"{vname} run returns different values than the in-memory run", {"case": c, "variant": vname})
        ctx.oblige("stub runs: memmap (temp / user directory) and dict initial states return the same values as in-memory runs", bad == 0, f"{bad} failures")
    storage_search(ctx)
