"""T4: src/mici/systems.py (+ the decorators of states.py) -> coq/Gen/DepsGen.v  (fail closed).

For every class: its bases and C3 linearisation; for every concrete system class the table of its cached methods
after method resolution: declared dependencies, auxiliary outputs, and the *transitive syntactic reads* of state
variables (through `self.m(state ...)` and `super().m(state ...)` calls, resolved along the MRO).  Also the method
resolution table of the Hamiltonian interface (which class defines h, h1, h2, dh1_dpos, ...), used by C05.
The MRO computed here is validated against the live classes' __mro__ / resolved attributes by the correspondence.
"""
from __future__ import annotations

import ast

from common import REPO, Untranslatable

VARS = {"pos": 0, "mom": 1, "dir": 2}
IFACE = ["h", "h1", "h2", "dh1_dpos", "dh2_dpos", "dh2_dmom", "dh_dpos", "dh_dmom", "h1_flow", "h2_flow", "sample_momentum",
         "dh2_flow_dmom", "neg_log_dens", "grad_neg_log_dens"]


def strs(n):
    if isinstance(n, ast.Constant) and isinstance(n.value, str):
        return [n.value]
    if isinstance(n, (ast.Tuple, ast.List)):
        return [s for e in n.elts for s in strs(e)]
    raise Untranslatable(f"systems.py:{n.lineno}: decorator argument is not a string / tuple of strings")


def parse():
    tree = ast.parse((REPO / "src/mici/systems.py").read_text())
    # the decorators must be the ones from mici.states
    imp = [n for n in tree.body if isinstance(n, ast.ImportFrom) and n.module == "mici.states"]
    if not any({"cache_in_state", "cache_in_state_with_aux"} <= {a.name for a in n.names} for n in imp):
        raise Untranslatable("systems.py no longer imports cache_in_state / cache_in_state_with_aux from mici.states")
    classes = {}
    for node in tree.body:
        if not isinstance(node, ast.ClassDef):
            continue
        bases = []
        for b in node.bases:
            if isinstance(b, ast.Name):
                bases.append(b.id)
            elif isinstance(b, ast.Attribute):
                bases.append(b.attr)
            else:
                raise Untranslatable(f"systems.py:{b.lineno}: unsupported base class expression")
        methods = {}
        for item in node.body:
            if not isinstance(item, ast.FunctionDef):
                continue
            params = [a.arg for a in item.args.args]
            decl, aux, cached, abstract = None, [], False, False
            for dec in item.decorator_list:
                if isinstance(dec, ast.Call) and isinstance(dec.func, ast.Name) and dec.func.id in ("cache_in_state", "cache_in_state_with_aux"):
                    if dec.keywords:
                        raise Untranslatable(f"systems.py:{dec.lineno}: keyword arguments in cache decorator")
                    cached = True
                    if dec.func.id == "cache_in_state":
                        decl = [s for a in dec.args for s in strs(a)]
                    else:
                        if len(dec.args) != 2:
                            raise Untranslatable(f"systems.py:{dec.lineno}: cache_in_state_with_aux needs 2 arguments")
                        decl, aux = strs(dec.args[0]), strs(dec.args[1])
                    for d in decl:
                        if d not in VARS:
                            raise Untranslatable(f"systems.py:{dec.lineno}: unknown state variable {d!r} in cache decorator")
                elif isinstance(dec, ast.Name) and dec.id == "abstractmethod":
                    abstract = True
                elif isinstance(dec, ast.Name) and dec.id in ("property", "staticmethod"):
                    pass
                else:
                    raise Untranslatable(f"systems.py:{dec.lineno}: unknown decorator {ast.unparse(dec)}")
            if "state" not in params:
                continue
            reads, calls, super_calls = set(), set(), set()
            for n in ast.walk(item):
                if isinstance(n, ast.Attribute) and isinstance(n.value, ast.Name) and n.value.id == "state":
                    if n.attr in VARS:
                        reads.add(n.attr)
                    elif n.attr not in ("copy",):
                        raise Untranslatable(f"systems.py:{n.lineno}: state.{n.attr} is not a known state variable")
                if isinstance(n, ast.Call):
                    passes = any(isinstance(a, ast.Name) and a.id == "state" for a in list(n.args) + [k.value for k in n.keywords])
                    if not passes:
                        continue
                    f = n.func
                    if isinstance(f, ast.Attribute) and isinstance(f.value, ast.Name) and f.value.id == "self":
                        calls.add(f.attr)
                    elif (isinstance(f, ast.Attribute) and isinstance(f.value, ast.Call) and isinstance(f.value.func, ast.Name)
                          and f.value.func.id == "super"):
                        super_calls.add(f.attr)
                    else:
                        raise Untranslatable(f"systems.py:{n.lineno}: state passed to {ast.unparse(f)} (not a method of self / super)")
            methods[item.name] = dict(decl=decl, aux=aux, cached=cached, reads=sorted(reads), calls=sorted(calls),
                                      super_calls=sorted(super_calls), abstract=abstract, line=item.lineno)
        classes[node.name] = dict(bases=bases, methods=methods)
    return classes


def c3(classes, cls):
    def merge(seqs):
        res = []
        seqs = [list(s) for s in seqs if s]
        while seqs:
            for s in seqs:
                h = s[0]
                if not any(h in t[1:] for t in seqs):
                    break
            else:
                raise Untranslatable(f"inconsistent method resolution order for {cls}")
            res.append(h)
            seqs = [[x for x in t if x != h] for t in seqs]
            seqs = [t for t in seqs if t]
        return res
    bs = [b for b in classes[cls]["bases"] if b in classes]
    return [cls] + merge([c3(classes, b) for b in bs] + [bs])


def resolve(classes, cls, meth, after=None):
    mro = c3(classes, cls)
    if after is not None:
        mro = mro[mro.index(after) + 1:]
    for c in mro:
        if meth in classes[c]["methods"]:
            return c
    return None


def closure_reads(classes, cls, meth, seen=None, start_after=None):
    seen = set() if seen is None else seen
    owner = resolve(classes, cls, meth, start_after)
    if owner is None or (owner, meth) in seen:
        return set()
    seen.add((owner, meth))
    m = classes[owner]["methods"][meth]
    r = set(m["reads"])
    for c in m["calls"]:
        r |= closure_reads(classes, cls, c, seen)
    for c in m["super_calls"]:
        r |= closure_reads(classes, cls, c, seen, start_after=owner)
    return r


def concrete_classes(classes):
    out = []
    for c in classes:
        mro = c3(classes, c)
        abstract = False
        for o in mro:
            for n, m in classes[o]["methods"].items():
                if m["abstract"] and resolve(classes, c, n) == o:
                    abstract = True
        if not abstract and "System" in mro and c != "System":
            out.append(c)
    return out


def tables():
    classes = parse()
    conc = concrete_classes(classes)
    tabs = {}
    for cls in conc:
        rows = []
        for o in c3(classes, cls):
            for name, m in classes[o]["methods"].items():
                if not m["cached"] or resolve(classes, cls, name) != o:
                    continue
                reads = sorted(closure_reads(classes, cls, name))
                auxr = [(a, sorted(closure_reads(classes, cls, a))) for a in m["aux"]]
                for a, _ in auxr:
                    if resolve(classes, cls, a) is None:
                        raise Untranslatable(f"{o}.{name}: auxiliary output {a!r} is not a method of {cls}")
                rows.append(dict(name=name, owner=o, decl=m["decl"], reads=reads, aux=auxr))
        tabs[cls] = rows
    res = {cls: {m: resolve(classes, cls, m) for m in IFACE if resolve(classes, cls, m)} for cls in conc}
    return classes, conc, tabs, res


def vl(vs):
    return "[" + "; ".join(str(VARS[v]) for v in vs) + "]"


def generate():
    classes, conc, tabs, res = tables()
    out = ["(* generated by tie/translate_systems.py (T4) from src/mici/systems.py -- do not edit *)",
           "From Coq Require Import List String.", "Require Import Mici.Model.Deps.", "Import ListNotations.", "Open Scope string_scope.", ""]
    out.append("Definition gen_bases : list (string * list string) :=\n  [" + ";\n   ".join(
        f'("{c}", [' + "; ".join(f'"{b}"' for b in d["bases"]) + "])" for c, d in classes.items()) + "].\n")
    out.append("Definition gen_mro : list (string * list string) :=\n  [" + ";\n   ".join(
        f'("{c}", [' + "; ".join(f'"{b}"' for b in c3(classes, c)) + "])" for c in classes) + "].\n")
    for cls in conc:
        rows = []
        for r in tabs[cls]:
            aux = "[" + "; ".join(f'("{a}", {vl(rs)})' for a, rs in r["aux"]) + "]"
            rows.append(f'{{| cm_name := "{r["name"]}"; cm_owner := "{r["owner"]}"; cm_decl := {vl(r["decl"])}; cm_reads := {vl(r["reads"])}; cm_aux := {aux} |}}')
        out.append(f"Definition gen_table_{cls} : list cmeth :=\n  [" + ";\n   ".join(rows) + "].\n")
    out.append("Definition gen_tables : list (string * list cmeth) :=\n  [" + ";\n   ".join(f'("{c}", gen_table_{c})' for c in conc) + "].\n")
    out.append("Definition gen_resolution : list (string * list (string * string)) :=\n  [" + ";\n   ".join(
        f'("{c}", [' + "; ".join(f'("{m}", "{o}")' for m, o in res[c].items()) + "])" for c in conc) + "].\n")
    return "\n".join(out)


if __name__ == "__main__":
    print(generate())
