"""A zoo of concrete instances of every system class (with hand-written exact derivatives and call counters),
compatible integrators, and helpers shared by the searches of C02-C09, C12, C18."""
from __future__ import annotations

import numpy as np

import mici
import mici.integrators as I
import mici.solvers as sol
import mici.systems as S
from mici.states import ChainState

D, DC = 3, 4
_r = np.random.default_rng(7)
_A = _r.standard_normal((D, D))
AM = _A @ _A.T / D + np.eye(D)
_ev = np.exp(0.3 * _r.standard_normal(D))
_Q = np.linalg.qr(_r.standard_normal((D, D)))[0]
MDENSE = (_Q * _ev) @ _Q.T
MC = np.diag([1.0, 2.0, 0.5, 1.5])
SGN = np.array([1.0, -1.0, 1.0])      # column signs of the negative-diagonal Cholesky-type factor


class Counters(dict):
    def hit(self, k):
        self[k] = self.get(k, 0) + 1


def make_systems(conv="bare", counters=None, which=None):
    """conv: 'bare' (derivative functions return only the derivative) or 'tuple' (they also return lower-order values)."""
    c = counters if counters is not None else Counters()
    t = conv == "tuple"

    def nld(q):
        c.hit("nld")
        return 0.5 * q @ AM @ q + 0.1 * np.sum(q ** 4)

    def gnld(q):
        c.hit("grad")
        g = AM @ q + 0.4 * q ** 3
        return (g, 0.5 * q @ AM @ q + 0.1 * np.sum(q ** 4)) if t else g

    def hess(q):
        c.hit("hess")
        h = AM + np.diag(1.2 * q ** 2)
        return (h, AM @ q + 0.4 * q ** 3, 0.5 * q @ AM @ q + 0.1 * np.sum(q ** 4)) if t else h

    def mtp(q):
        c.hit("mtp")

        def f(m):
            return 2.4 * q * np.diag(m)
        return (f, AM + np.diag(1.2 * q ** 2), AM @ q + 0.4 * q ** 3, 0.5 * q @ AM @ q + 0.1 * np.sum(q ** 4)) if t else f

    def nld4(q):
        c.hit("nld")
        return 0.1 * np.sum(q ** 4)

    def gnld4(q):
        c.hit("grad")
        return (0.4 * q ** 3, 0.1 * np.sum(q ** 4)) if t else 0.4 * q ** 3

    def metric_diag(q):
        c.hit("metric")
        return 1.0 + q ** 2

    def vjp_diag(q):
        c.hit("vjp")
        f = lambda v: 2 * q * v  # noqa: E731
        return (f, 1.0 + q ** 2) if t else f

    def metric_scalar(q):
        c.hit("metric")
        return 1 + q @ q

    def vjp_scalar(q):
        c.hit("vjp")
        f = lambda v: 2 * q * v  # noqa: E731
        return (f, 1 + q @ q) if t else f

    def chol_f(q):
        c.hit("metric")
        return np.tril(np.eye(D) + 0.1 * np.outer(q, q))

    def vjp_chol(q):
        c.hit("vjp")

        def f(v):
            v = np.tril(v)
            return 0.1 * (v @ q + v.T @ q)
        return (f, np.tril(np.eye(D) + 0.1 * np.outer(q, q))) if t else f

    def vjp_chol_neg(q):
        r = vjp_chol(q)
        f0 = r[0] if t else r
        f = lambda v: f0(v * SGN[None, :])  # noqa: E731
        return (f, np.tril(np.eye(D) + 0.1 * np.outer(q, q)) * SGN[None, :]) if t else f

    def dense_f(q):
        c.hit("metric")
        return np.eye(D) * (1 + q @ q) + np.outer(q, q)

    def vjp_dense(q):
        c.hit("vjp")

        def f(v):
            return 2 * q * np.trace(v) + (v + v.T) @ q
        return (f, np.eye(D) * (1 + q @ q) + np.outer(q, q)) if t else f

    def nldc(q):
        c.hit("nld")
        return 0.5 * np.sum((q - 0.2) ** 2) + 0.1 * np.sum(q ** 4)

    def gnldc(q):
        c.hit("grad")
        g = (q - 0.2) + 0.4 * q ** 3
        return (g, 0.5 * np.sum((q - 0.2) ** 2) + 0.1 * np.sum(q ** 4)) if t else g

    def constr(q):
        c.hit("constr")
        return np.array([q @ q - 1.0, q[0] * q[1] - 0.1 * q[3]])

    def jac(q):
        c.hit("jacob")
        j = np.array([2 * q, [q[1], q[0], 0, -0.1]])
        return (j, np.array([q @ q - 1.0, q[0] * q[1] - 0.1 * q[3]])) if t else j

    def mhp(q):
        c.hit("mhp")

        def f(m):
            h0 = 2 * np.eye(DC)
            h1 = np.zeros((DC, DC))
            h1[0, 1] = h1[1, 0] = 1
            return m[0] @ h0 + m[1] @ h1
        return (f, np.array([2 * q, [q[1], q[0], 0, -0.1]]), np.array([q @ q - 1.0, q[0] * q[1] - 0.1 * q[3]])) if t else f

    mk = {
        "euclid_identity": lambda: S.EuclideanMetricSystem(nld, grad_neg_log_dens=gnld),
        "euclid_diag": lambda: S.EuclideanMetricSystem(nld, grad_neg_log_dens=gnld, metric=np.array([0.5, 2.0, 1.3])),
        "euclid_dense": lambda: S.EuclideanMetricSystem(nld, grad_neg_log_dens=gnld, metric=MDENSE),
        # metrics that have been used (factor / inverse / capacitance cached) and then rescaled, as e.g. a unit-determinant normalisation does
        "euclid_rescaled": lambda: S.EuclideanMetricSystem(nld, grad_neg_log_dens=gnld, metric=rescaled_metric("densepd")),
        "gauss_rescaled": lambda: S.GaussianEuclideanMetricSystem(nld4, grad_neg_log_dens=gnld4, metric=rescaled_metric("lowrank_pd")),
        "gauss_identity": lambda: S.GaussianEuclideanMetricSystem(nld4, grad_neg_log_dens=gnld4),
        "gauss_dense": lambda: S.GaussianEuclideanMetricSystem(nld4, grad_neg_log_dens=gnld4, metric=MDENSE),
        "riem_diag": lambda: S.DiagonalRiemannianMetricSystem(nld, metric_diag, vjp_metric_diagonal_func=vjp_diag, grad_neg_log_dens=gnld),
        "riem_scalar": lambda: S.ScalarRiemannianMetricSystem(nld, metric_scalar, vjp_metric_scalar_func=vjp_scalar, grad_neg_log_dens=gnld),
        "riem_chol": lambda: S.CholeskyFactoredRiemannianMetricSystem(nld, chol_f, vjp_metric_chol_func=vjp_chol, grad_neg_log_dens=gnld),
        # a triangular factor with negative diagonal entries is a legitimate factor (only non-singularity is assumed)
        "riem_chol_negdiag": lambda: S.CholeskyFactoredRiemannianMetricSystem(nld, lambda q: chol_f(q) * SGN[None, :], vjp_metric_chol_func=lambda q: vjp_chol_neg(q),
                                                                            grad_neg_log_dens=gnld),
        "riem_dense": lambda: S.DenseRiemannianMetricSystem(nld, dense_f, vjp_metric_func=vjp_dense, grad_neg_log_dens=gnld),
        "riem_softabs": lambda: S.SoftAbsRiemannianMetricSystem(nld, grad_neg_log_dens=gnld, hess_neg_log_dens=hess, mtp_neg_log_dens=mtp, softabs_coeff=1.5),
        "constr_hTrue": lambda: S.DenseConstrainedEuclideanMetricSystem(nldc, constr, metric=MC, dens_wrt_hausdorff=True, grad_neg_log_dens=gnldc,
                                                                      jacob_constr=jac, mhp_constr=mhp),
        "constr_hFalse": lambda: S.DenseConstrainedEuclideanMetricSystem(nldc, constr, metric=MC, dens_wrt_hausdorff=False, grad_neg_log_dens=gnldc,
                                                                       jacob_constr=jac, mhp_constr=mhp),
        "gauss_constr": lambda: S.GaussianDenseConstrainedEuclideanMetricSystem(nld4, constr, metric=MC, grad_neg_log_dens=gnld4, jacob_constr=jac,
                                                                               mhp_constr=mhp),
    }
    names = which or list(mk)
    return {n: mk[n]() for n in names}, c


def rescaled_metric(kind):
    import matzoo
    m, _ = matzoo.make_leaf(np.random.default_rng(11), D, kind)
    matzoo.touch(m)
    return m / float(np.exp(m.log_abs_det / D))      # unit determinant


def is_constrained(name):
    return "constr" in name


def dim(name):
    return DC if is_constrained(name) else D


def constr_fn(q):
    return np.array([q @ q - 1.0, q[0] * q[1] - 0.1 * q[3]])


def jac_fn(q):
    return np.array([2 * q, [q[1], q[0], 0, -0.1]])


def on_manifold_point(rng):
    q = rng.standard_normal(DC)
    for _ in range(100):
        c, J = constr_fn(q), jac_fn(q)
        q = q - J.T @ np.linalg.solve(J @ J.T, c)
    return q


def random_state(name, system, rng, scale=0.5):
    q = on_manifold_point(rng) if is_constrained(name) else scale * rng.standard_normal(D)
    st = ChainState(pos=q.copy(), mom=None, dir=1)
    st.mom = system.sample_momentum(st, rng)
    return st


def integrators_for(name, s, eps):
    if is_constrained(name):
        return {f"CLF_{sv.__name__[31:] or 'newton'}_n{n}": I.ConstrainedLeapfrogIntegrator(s, eps, n_inner_step=n, projection_solver=sv)
                for sv in (sol.solve_projection_onto_manifold_newton, sol.solve_projection_onto_manifold_quasi_newton,
                           sol.solve_projection_onto_manifold_newton_with_line_search) for n in (1, 3)}
    if "riem" in name:
        return {"ILF": I.ImplicitLeapfrogIntegrator(s, eps), "IMP": I.ImplicitMidpointIntegrator(s, eps),
                "ILF_steff": I.ImplicitLeapfrogIntegrator(s, eps, fixed_point_solver=sol.solve_fixed_point_steffensen)}
    return {"LF": I.LeapfrogIntegrator(s, eps), "BCSS2": I.BCSSTwoStageIntegrator(s, eps), "BCSS3": I.BCSSThreeStageIntegrator(s, eps),
            "BCSS4": I.BCSSFourStageIntegrator(s, eps),
            "SC_free": I.SymmetricCompositionIntegrator(s, (0.2, 0.3, 0.1, 0.15), step_size=eps, initial_h1_flow_step=False),
            "SC_free2": I.SymmetricCompositionIntegrator(s, (0.25, 0.4, 0.1), step_size=eps, initial_h1_flow_step=True),
            "IMP": I.ImplicitMidpointIntegrator(s, eps)}


def fd_grad(f, x, h=1e-6):
    g = np.zeros_like(x)
    for i in range(x.size):
        xp = x.copy()
        xp[i] += h
        xm = x.copy()
        xm[i] -= h
        g[i] = (f(xp) - f(xm)) / (2 * h)
    return g


CACHED_METHODS = ["neg_log_dens", "grad_neg_log_dens", "h1", "h2", "h", "dh1_dpos", "dh2_dpos", "dh2_dmom", "dh_dpos", "dh_dmom",
                  "constr", "jacob_constr", "gram", "inv_gram", "log_det_sqrt_gram", "grad_log_det_sqrt_gram", "metric_func", "vjp_metric_func",
                  "metric", "hess_neg_log_dens", "mtp_neg_log_dens"]


def as_array(v):
    """Dense numerical content of a method result (matrix objects -> arrays; callables are not compared)."""
    if hasattr(v, "array"):
        return np.asarray(v.array)
    if callable(v):
        return None
    return np.asarray(v, dtype=float)


def make_curved(kind="curve", metric=None):
    """Strongly curved constraint manifolds (reversibility checks of the retraction do fire on them)."""
    if kind == "curve":          # q1 = sin(3 q0) in R^2
        d = 2
        constr = lambda q: np.array([q[1] - np.sin(3 * q[0])])  # noqa: E731
        jac = lambda q: np.array([[-3 * np.cos(3 * q[0]), 1.0]])  # noqa: E731
        point = lambda rng: (lambda x: np.array([x, np.sin(3 * x)]))(rng.uniform(-1.5, 1.5))  # noqa: E731
    elif kind == "surface":      # q2 = sin(3 q0) cos(2 q1) in R^3
        d = 3
        constr = lambda q: np.array([q[2] - np.sin(3 * q[0]) * np.cos(2 * q[1])])  # noqa: E731
        jac = lambda q: np.array([[-3 * np.cos(3 * q[0]) * np.cos(2 * q[1]), 2 * np.sin(3 * q[0]) * np.sin(2 * q[1]), 1.0]])  # noqa: E731
        point = lambda rng: (lambda x, y: np.array([x, y, np.sin(3 * x) * np.cos(2 * y)]))(*rng.uniform(-1.5, 1.5, size=2))  # noqa: E731
    else:                        # unit sphere in R^3, zero potential: geodesic flow is known in closed form
        d = 3
        constr = lambda q: np.array([q @ q - 1.0])  # noqa: E731
        jac = lambda q: 2 * q[None, :]  # noqa: E731
        point = lambda rng: (lambda v: v / np.linalg.norm(v))(rng.standard_normal(3))  # noqa: E731
    pot = (lambda q: 0.0) if kind == "sphere" else (lambda q: 0.5 * float(q @ q))
    gpot = (lambda q: np.zeros_like(q)) if kind == "sphere" else (lambda q: q)
    s = S.DenseConstrainedEuclideanMetricSystem(pot, constr, metric=metric, grad_neg_log_dens=gpot, jacob_constr=jac,
                                               mhp_constr=None, dens_wrt_hausdorff=True)
    return s, point, d
