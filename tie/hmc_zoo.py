"""Small real HMC set-ups shared by the sampler-level searches (C13, C14, C15)."""
from __future__ import annotations

import numpy as np

import mici


def neg_log_dens(q):
    return 0.5 * float(q @ q) + 0.1 * float(np.sum(q ** 4))


def grad_neg_log_dens(q):
    return q + 0.4 * q ** 3


def trace_pos(state):
    return {"pos": state.pos, "sq": float(state.pos @ state.pos)}


def make_sampler(kind, seed, bitgen="PCG64"):
    system = mici.systems.EuclideanMetricSystem(neg_log_dens, grad_neg_log_dens=grad_neg_log_dens)
    integrator = mici.integrators.LeapfrogIntegrator(system, step_size=0.3)
    rng = np.random.Generator(getattr(np.random, bitgen)(seed))
    if kind == "static":
        return mici.samplers.StaticMetropolisHMC(system, integrator, rng, n_step=3)
    if kind == "random":
        return mici.samplers.RandomMetropolisHMC(system, integrator, rng, n_step_range=(1, 4))
    if kind == "multinomial":
        return mici.samplers.DynamicMultinomialHMC(system, integrator, rng, max_tree_depth=3)
    if kind == "slice":
        return mici.samplers.DynamicSliceHMC(system, integrator, rng, max_tree_depth=3)
    raise KeyError(kind)


def rederive(kind, seed, inits, n_iter, bitgen="PCG64"):
    """Independent re-derivation of the chains: step a copy of every chain with its own generator."""
    from mici.samplers import _get_per_chain_rngs
    from mici.states import ChainState
    sampler = make_sampler(kind, seed, bitgen)
    # sample_chains draws the missing initial momenta from the base generator before deriving the per-chain generators
    states = []
    for q0 in inits:
        st = ChainState(pos=np.array(q0, dtype=float), mom=None, dir=1)
        st.mom = sampler.system.sample_momentum(st, sampler.rng)
        states.append(st)
    rngs = _get_per_chain_rngs(sampler.rng, len(inits))
    out = []
    for state, rng in zip(states, rngs):
        rows, stats = [], []
        for _ in range(n_iter):
            st = {}
            for key, tr in sampler.transitions.items():
                state, s = tr.sample(state, rng)
                if s is not None:
                    st.update(s)
            rows.append(np.array(state.pos))
            stats.append(st)
        out.append((rows, stats, state))
    return out
