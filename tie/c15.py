"""C15 -- interrupting sampling returns a consistent prefix of the run."""
from __future__ import annotations

import tempfile
from pathlib import Path

import numpy as np

import sampler_corr
import translate_stagers
import hmc_zoo

LEVEL = "proof"


class Raiser:
    """Raises KeyboardInterrupt at entry of the k-th call (0-based) of any wrapped callback.  Picklable (module level)."""

    def __init__(self, k):
        self.k, self.n = k, 0

    exclusive = None          # path of a flag file: only the first PROCESS to reach call k raises (one chain of a multi-process run is interrupted, the others are not)

    def tick(self):
        n = self.n
        self.n += 1
        if self.k is not None and n == self.k:
            if self.exclusive is not None:
                import os
                try:
                    os.close(os.open(self.exclusive, os.O_CREAT | os.O_EXCL))
                except FileExistsError:
                    return
            self.flushes_at_raise = len(FLUSHES)
            raise KeyboardInterrupt


FLUSHES = []
_orig_flush = np.memmap.flush


def _rec_flush(self):
    FLUSHES.append(("f", str(getattr(self, "filename", "?"))))
    return _orig_flush(self)


_orig_setitem = np.memmap.__setitem__


def _rec_setitem(self, key, val):
    if _R.n > 0:      # ignore the fill written when the arrays are created, before sampling starts
        FLUSHES.append(("w", str(getattr(self, "filename", "?"))))
    return _orig_setitem(self, key, val)


_R = Raiser(None)


def nld(q):
    _R.tick()
    return hmc_zoo.neg_log_dens(q)


def gnld(q):
    _R.tick()
    return hmc_zoo.grad_neg_log_dens(q)


def trace(state):
    if getattr(_R, "sizing", True) and _R.n == 0 and not getattr(_R, "sized", False):
        _R.sized = True           # the call made by _init_traces to size the arrays: before sampling starts
    else:
        _R.tick()
    return {"pos": state.pos}


def make(kind, seed):
    import mici
    system = mici.systems.EuclideanMetricSystem(nld, grad_neg_log_dens=gnld)
    integrator = mici.integrators.LeapfrogIntegrator(system, step_size=0.3)
    rng = np.random.default_rng(seed)
    if kind == "static":
        return mici.samplers.StaticMetropolisHMC(system, integrator, rng, n_step=2)
    if kind == "implicit":      # gradient evaluations inside the fixed-point iterations of an implicit integrator are interrupt sites too
        return mici.samplers.StaticMetropolisHMC(system, mici.integrators.ImplicitMidpointIntegrator(system, step_size=0.3), rng, n_step=2)
    return mici.samplers.DynamicMultinomialHMC(system, integrator, rng, max_tree_depth=2)


def make_count(kind, seed, init, n_warm, n_main, kw):
    """number of callback calls one chain makes in an uninterrupted sequential run of the same configuration"""
    global _R
    _R = Raiser(None)
    s = make(kind, seed)
    metric0 = s.system.metric
    try:
        s.sample_chains(n_warm, n_main, [init.copy()], **dict(kw, n_process=1))
    finally:
        s.system.metric = metric0
    return _R.n


def ctrl_c_search(ctx):
    """Ctrl-C on a terminal reaches the parent process as well as (or instead of) the workers: a multi-process, multi-stage run interrupted during warm-up returns
    normally and starts no later stage.  Run in a process of its own (tie/ctrl_c_scenario.py): the signal is delivered to that process, not to this harness."""
    import json
    import os
    import subprocess
    import sys
    bad = 0
    here = os.path.dirname(os.path.abspath(__file__))
    for mode in ("also_raise", "only_parent"):
        for k in (4, 9):
            seed = int(ctx.rng.integers(0, 2 ** 31))
            ctx.case(("ctrl-c", mode, k))
            ctx.count(f"search:interrupt:ctrl_c:{mode}")
            try:
                r = subprocess.run([sys.executable, "-W", "ignore", os.path.join(here, "ctrl_c_scenario.py"), mode, str(k), str(seed)], capture_output=True, text=True, timeout=300,
                                   env=dict(os.environ))
                line = next((ln for ln in r.stdout.splitlines() if ln.startswith("RESULT ")), None)
                res = json.loads(line[7:]) if line else {"returned": False, "escaped": f"process ended with status {r.returncode} without a result: {r.stderr.strip()[-200:]}", "late_rows": []}
            except subprocess.TimeoutExpired:
                res = {"returned": False, "escaped": "did not return within 300 s (hang)", "late_rows": []}
            if not res["returned"]:
                bad += 1
                ctx.fail("interrupt:ctrl_c:escapes", f"sample_chains did not return normally when SIGINT reached the parent process during warm-up (mode {mode}, worker call #{k}): "
                         f"{res['escaped']}", {"mode": mode, "k": k, "seed": seed})
            elif res["late_rows"]:
                bad += 1
                ctx.fail("interrupt:ctrl_c:later_stage_started", f"SIGINT reached the parent process during the first warm-up stage (mode {mode}, worker call #{k}) but main-stage rows of "
                         f"chains {res['late_rows']} were written afterwards: later stages were started", {"mode": mode, "k": k, "seed": seed})
    ctx.oblige("search: SIGINT delivered to the parent process during warm-up of a 2-process, multi-stage run (with and without the worker raising too): returns normally, "
               "no row of a later stage written", bad == 0, f"{bad} failures")


def real_interrupt_search(ctx):
    import mici
    global _R
    bad = 0
    configs = [("static", 2, 0, 4, False, 1), ("static", 3, 3, 3, True, 1), ("multinomial", 2, 0, 3, False, 1), ("static", 2, 2, 3, True, 2),
               ("static", 3, 0, 5, False, 2), ("static:notrace", 2, 2, 3, True, 1), ("implicit", 1, 0, 4, False, 1)]      # :notrace = statistics recorded but no trace functions (trace_funcs=[])
    if ctx.thorough:
        configs += [("multinomial", 3, 4, 3, True, 1), ("static", 2, 0, 4, False, 2), ("multinomial", 2, 3, 2, True, 2)]
    for kind, n_chain, n_warm, n_main, memmap, n_process in configs:
        notrace = kind.endswith(":notrace")
        kind = kind.split(":")[0]
        seed = int(ctx.rng.integers(0, 2 ** 31))
        inits = [np.array(ctx.rng.standard_normal(2)) for _ in range(n_chain)]
        kw = dict(trace_funcs=[] if notrace else [trace], display_progress=False, trace_warm_up=True, n_process=n_process,
                  adapters=[mici.adapters.DualAveragingStepSizeAdapter(0.8), mici.adapters.OnlineVarianceMetricAdapter()] if n_warm else None,
                  stager=mici.stagers.WindowedWarmUpStager(2, 1, 0, 2) if n_warm else None)

        def run(k, path=None, exclusive=None):
            global _R
            _R = Raiser(k)
            _R.exclusive = exclusive
            s = make(kind, seed)
            metric0 = s.system.metric
            del FLUSHES[:]
            np.memmap.flush = _rec_flush
            np.memmap.__setitem__ = _rec_setitem
            try:
                return s.sample_chains(n_warm, n_main, [q.copy() for q in inits], force_memmap=memmap, memmap_path=path, **kw), _R.n
            finally:
                np.memmap.flush = _orig_flush
                np.memmap.__setitem__ = _orig_setitem
                s.system.metric = metric0
        full, total_calls = run(None)
        fulltr = [np.asarray(a).copy() for a in full.traces["pos"]] if not notrace else None
        fullst = [np.asarray(a).copy() for a in full.statistics["accept_stat"]]
        if n_process == 1:
            ks = list(range(0, total_calls, max(1, total_calls // (25 if not ctx.thorough else 120))))
        else:
            # callbacks run in the workers (each with its own copy of the counter): sweep every call index of a chain for the multi-stage configuration
            # (this includes the last iteration of every non-final stage), a few for the others
            per_chain = make_count(kind, seed, inits[0], n_warm, n_main, kw)
            ks = list(range(0, per_chain + 1)) if (n_warm or ctx.thorough) else [3, 17, 40]
        for k in ks:
            with tempfile.TemporaryDirectory(dir="/verif/build") as td:
                try:
                    out, _ = run(k, td if memmap else None)
                except BaseException as e:  # noqa: BLE001
                    bad += 1
                    ctx.fail("interrupt:escapes", f"{type(e).__name__} escaped sample_chains when the callback call #{k} raised KeyboardInterrupt "
                             f"({kind}, chains={n_chain}, warm={n_warm}, main={n_main}, memmap={memmap}, n_process={n_process}): {e}",
                             {"kind": kind, "n_chain": n_chain, "n_warm": n_warm, "n_main": n_main, "memmap": memmap, "n_process": n_process,
                              "seed": seed, "k": k})
                    continue
                ctx.case(("real-intr", kind, n_chain, n_warm, n_main, memmap, n_process, k))
                ctx.count(f"search:interrupt:{'parallel' if n_process > 1 else 'sequential'}")
                probs = []
                for c in range(n_chain):
                    if notrace:      # statistics arrays play the role of the trace arrays
                        sa = np.asarray(out.statistics["accept_stat"][c])
                        wr = ~np.isnan(sa)
                        if not np.all(wr[:int(wr.sum())]) or not np.array_equal(sa[wr], fullst[c][wr]):
                            probs.append(f"chain {c}: statistics rows are not a prefix of the uninterrupted run's")
                        continue
                    tr = np.asarray(out.traces["pos"][c])
                    written = ~np.isnan(tr).any(axis=1)
                    nw = int(written.sum())
                    if n_process == 1:
                        if not np.all(written[:nw]):
                            probs.append(f"chain {c}: written rows are not a prefix")
                        if c == n_chain - 1 and k < total_calls - 1 and nw == len(written) and not n_warm:
                            probs.append(f"the interrupt raised at callback call #{k} of {total_calls} was lost: every row of the last chain was written")
                        if not np.array_equal(tr[:nw], fulltr[c][:nw]):
                            probs.append(f"chain {c}: rows before the interrupt differ from the uninterrupted run")
                    else:
                        # parallel: chains run concurrently; every written row must still equal the uninterrupted row
                        if not np.array_equal(tr[written], fulltr[c][written]) and n_warm == 0:
                            probs.append(f"chain {c}: written rows differ from the uninterrupted run")
                        # ... and per chain the written rows are a prefix: nothing of a later stage is written after an iteration that was cut short
                        if not np.all(written[:nw]):
                            probs.append(f"chain {c}: rows {np.nonzero(written)[0].tolist()} are written but row {int(np.argmin(written))} is not: sampling went on after the interrupt")
                    if memmap:
                        files = sorted(Path(td).glob("trace_*pos*.npy"))
                        if len(files) == n_chain and not np.array_equal(np.load(files[c]), tr, equal_nan=True):
                            probs.append(f"chain {c}: memmap file on disk differs from the returned array (not flushed)")
                if memmap and n_process == 1:
                    last = {}
                    for ev, fn in FLUSHES:
                        last[fn] = ev
                    unflushed = sorted(fn for fn, ev in last.items() if ev == "w")
                    if unflushed:
                        probs.append(f"{len(unflushed)} memory-mapped outputs were written after their last flush (e.g. {Path(unflushed[0]).name})")
                if n_process > 1 and not notrace:
                    with_rows = sum(1 for c in range(n_chain) if not np.isnan(np.asarray(out.traces["pos"][c])).all())
                    if len(out.final_states) < with_rows:
                        probs.append(f"{len(out.final_states)} final states returned although {with_rows} chains recorded iterations")
                for st in out.final_states:
                    if not (np.all(np.isfinite(st.pos)) and (st.mom is None or np.all(np.isfinite(st.mom)))):
                        probs.append("a returned final state is not finite")
                if probs:
                    bad += 1
                    ctx.fail("interrupt:prefix", f"interrupt at callback call #{k} ({kind}, chains={n_chain}, warm={n_warm}, main={n_main}, memmap={memmap}, "
                             f"n_process={n_process}): {probs[0]}", {"kind": kind, "n_chain": n_chain, "n_warm": n_warm, "n_main": n_main,
                                                                      "memmap": memmap, "n_process": n_process, "seed": seed, "k": k, "problems": probs[:4]})
        # multi-process, multi-stage: only ONE worker is interrupted at call k (the other chains go on): still a normal return, consistent per-chain prefixes
        if n_process > 1 and n_warm:
            for k in range(0, per_chain + 1, 2 if not ctx.thorough else 1):
                with tempfile.TemporaryDirectory(dir="/verif/build") as td:
                    try:
                        out, _ = run(k, td if memmap else None, exclusive=str(Path(td) / "first.flag"))
                    except BaseException as e:  # noqa: BLE001
                        bad += 1
                        ctx.fail("interrupt:one_worker:escapes", f"{type(e).__name__} escaped sample_chains when ONE worker's callback call #{k} raised KeyboardInterrupt "
                                 f"({kind}, chains={n_chain}, warm={n_warm}, main={n_main}, n_process={n_process}): {e}", {"kind": kind, "seed": seed, "k": k})
                        continue
                    ctx.case(("real-intr-one", kind, n_chain, n_warm, n_main, k))
                    ctx.count("search:interrupt:parallel_one_worker")
                    for c in range(n_chain):
                        tr = np.asarray(out.traces["pos"][c])
                        written = ~np.isnan(tr).any(axis=1)
                        if not np.all(written[:int(written.sum())]):
                            bad += 1
                            ctx.fail("interrupt:prefix", f"one worker interrupted at callback call #{k}: chain {c} has rows {np.nonzero(written)[0].tolist()} written but an earlier row is not",
                                     {"kind": kind, "seed": seed, "k": k})
                            break
    _R = Raiser(None)
    ctx.oblige(f"search: real HMC runs interrupted inside density / gradient / trace callbacks ({len(configs)} configurations x call indices)",
               bad == 0, f"{bad} failures")


def run(ctx):
    ctx.rule = ("correspondence: stub runs interrupted at every / random callback-call indices (transition.sample or trace function), all stager and adapter "
                "configurations; search: real HMC interrupted inside model callbacks, sequential and 2 processes, RAM and memmap")
    ctx.assume("the interrupt is raised synchronously by a user callback (signal delivery by the OS and inside worker processes is explored, not modelled)",
               "sequential execution is modelled; multi-process interrupts are only explored")
    ctx.trust("hand model coq/Model/Sampler.v tied by correspondence through tie/sampler_stubs.py", "translator T2 (stagers)")
    ok = ctx.regen("StagersGen", translate_stagers.generate)
    model_ok = ok and ctx.build(["Gen/StagersGen.vo", "Model/SamplerInst.vo"], label="executable model")
    if model_ok and ctx.build(["Props/C15.vo"]):
        ctx.props()
    if model_ok:
        # every interrupt point of a few configurations, plus random ones
        cases = []
        base = [sampler_corr.gen_case(ctx.rng, "plain") for _ in range(3 if not ctx.thorough else 12)]
        for b in base:
            total = (b["n_warm"] + b["n_main"]) * len(b["inits"]) * 2 + 1
            for k in range(total):
                cases.append({**b, "intr": k})
        cases = cases[: 90 if not ctx.thorough else 900]
        cases += [sampler_corr.gen_case(ctx.rng, "intr") for _ in range(40 if not ctx.thorough else 300)]
        sampler_corr.run_cases(ctx, cases, "interrupt")
    real_interrupt_search(ctx)
    ctrl_c_search(ctx)
