"""C11 -- differentiable matrices report the true parameter gradients."""
from __future__ import annotations

from fractions import Fraction

import numpy as np

import matzoo
from c10 import qmat, rq
from common import coq_list, parse_coq_value

LEVEL = "proof"


def cases(rng, n):
    """-> list of (label, theta (dict of arrays), build(theta) -> matrix object, dense(theta) -> array, grad_param key, direction maker)"""
    import mici.matrices as mm
    out = []
    s0 = float(rng.choice([-1, 1]) * rng.uniform(0.5, 2))
    out.append(("ScaledIdentity", {"p": np.array(s0)}, lambda t: mm.ScaledIdentityMatrix(float(t["p"]), n), lambda t: float(t["p"]) * np.eye(n), None))
    out.append(("PositiveScaledIdentity", {"p": np.array(abs(s0))}, lambda t: mm.PositiveScaledIdentityMatrix(float(t["p"]), n), lambda t: float(t["p"]) * np.eye(n), None))
    d0 = rng.uniform(0.5, 2, n) * rng.choice([-1, 1], n)
    out.append(("Diagonal", {"p": d0}, lambda t: mm.DiagonalMatrix(t["p"]), lambda t: np.diag(t["p"]), None))
    out.append(("PositiveDiagonal", {"p": np.abs(d0)}, lambda t: mm.PositiveDiagonalMatrix(t["p"]), lambda t: np.diag(t["p"]), None))
    for lower in (True, False):
        a = rng.standard_normal((n, n)) + 3 * np.eye(n)
        L0 = np.tril(a) if lower else np.triu(a)
        tri = (lambda x, lower=lower: np.tril(x) if lower else np.triu(x))
        for sign in (1, -1):
            out.append((f"TriangularFactoredDefinite(sign={sign},lower={lower})", {"p": L0},
                        lambda t, sign=sign, lower=lower: mm.TriangularFactoredDefiniteMatrix(t["p"], sign=sign, factor_is_lower=lower),
                        lambda t, sign=sign, tri=tri: sign * tri(t["p"]) @ tri(t["p"]).T, tri))
        out.append((f"TriangularFactoredPositiveDefinite(lower={lower})", {"p": L0},
                    lambda t, lower=lower: mm.TriangularFactoredPositiveDefiniteMatrix(t["p"], factor_is_lower=lower), lambda t, tri=tri: tri(t["p"]) @ tri(t["p"]).T, tri))
    sym = lambda x: 0.5 * (x + x.T)  # noqa: E731
    A0 = matzoo.spd(rng, n)
    for pd in (True, False):
        out.append((f"DenseDefinite(is_posdef={pd})", {"p": A0 if pd else -A0}, lambda t, pd=pd: mm.DenseDefiniteMatrix(t["p"], is_posdef=pd), lambda t: t["p"], sym))
    out.append(("DensePositiveDefinite", {"p": A0}, lambda t: mm.DensePositiveDefiniteMatrix(t["p"]), lambda t: t["p"], sym))
    k = n + 1
    R0, P0 = rng.standard_normal((n, k)), matzoo.spd(rng, k)
    out.append(("DensePositiveDefiniteProduct", {"p": R0}, lambda t: mm.DensePositiveDefiniteProductMatrix(t["p"], mm.DensePositiveDefiniteMatrix(P0)), lambda t: t["p"] @ P0 @ t["p"].T, None))
    out.append(("DensePositiveDefiniteProduct(no inner)", {"p": R0}, lambda t: mm.DensePositiveDefiniteProductMatrix(t["p"]), lambda t: t["p"] @ t["p"].T, None))
    S0 = sym(rng.standard_normal((n, n))) * 2
    for c in (0.5, 1.5):
        def dsoft(t, c=c):
            ev, evec = np.linalg.eigh(t["p"])
            return (evec * (ev / np.tanh(ev * c))) @ evec.T
        out.append((f"SoftAbs(coeff={c})", {"p": S0}, lambda t, c=c: mm.SoftAbsRegularizedPositiveDefiniteMatrix(t["p"], c), dsoft, sym))
    kk = max(1, n // 2)
    F0 = 0.3 * rng.standard_normal((n, kk))
    Pd, Kd = matzoo.spd(rng, n), matzoo.spd(rng, kk)
    for sign in (1, -1):
        Fs = F0
        if sign == -1:      # keep the downdate positive definite with a margin for every draw
            lam = np.max(np.abs(np.linalg.eigvals(np.linalg.solve(Pd, F0 @ Kd @ F0.T))))
            Fs = F0 * np.sqrt(0.4 / max(lam, 1e-12))
        out.append((f"PositiveDefiniteLowRankUpdate(sign={sign})", {"p": Fs},
                    lambda t, sign=sign: mm.PositiveDefiniteLowRankUpdateMatrix(mm.DenseRectangularMatrix(t["p"]), mm.DensePositiveDefiniteMatrix(Pd), mm.DensePositiveDefiniteMatrix(Kd), sign=sign),
                    lambda t, sign=sign: Pd + sign * t["p"] @ Kd @ t["p"].T, None))
        out.append((f"PositiveDefiniteLowRankUpdate(sign={sign},no inner)", {"p": Fs},
                    lambda t, sign=sign: mm.PositiveDefiniteLowRankUpdateMatrix(mm.DenseRectangularMatrix(t["p"]), mm.DensePositiveDefiniteMatrix(Pd), sign=sign),
                    lambda t, sign=sign: Pd + sign * t["p"] @ t["p"].T, None))
    return out


def contract(g, delta):
    return float(np.sum(np.asarray(g, dtype=float) * delta))


def search(ctx):
    import mici.matrices as mm
    rng = ctx.rng
    bad = 0
    for n in ((3,) if not ctx.thorough else (1, 2, 3, 4)):
        for rep in range(2 if not ctx.thorough else 6):
            crng = np.random.default_rng(int(rng.integers(0, 2 ** 31)))
            for label, theta, build, dense, proj in cases(crng, n):
                v = crng.standard_normal(n)
                m = build(theta)
                for call in range(3):      # repeated requests on the same object must keep giving the true gradient
                    vv = v if call != 1 else crng.standard_normal(n)
                    delta = crng.standard_normal(np.shape(theta["p"])) if np.ndim(theta["p"]) else np.array(1.0)
                    if proj is not None:
                        delta = proj(delta)
                    h = 1e-6

                    def f(t):
                        D = dense({"p": theta["p"] + t * delta})
                        return np.linalg.slogdet(D)[1], vv @ np.linalg.solve(D, vv)
                    (l1, q1), (l2, q2) = f(h), f(-h)
                    fd_logdet, fd_qf = (l1 - l2) / (2 * h), (q1 - q2) / (2 * h)
                    try:
                        g_ld, g_qf = m.grad_log_abs_det, m.grad_quadratic_form_inv(vv)
                    except Exception as e:  # noqa: BLE001
                        bad += 1
                        ctx.fail(f"raises:{label}", f"{label}: gradient request raised {type(e).__name__}: {str(e)[:80]}", {"class": label, "n": n})
                        break
                    ctx.case(("grad", label, n, rep, call))
                    ctx.count(f"search:{label.split('(')[0]}")
                    for what, g, fd in (("grad_log_abs_det", g_ld, fd_logdet), ("grad_quadratic_form_inv", g_qf, fd_qf)):
                        if np.shape(g) != np.shape(theta["p"]):
                            bad += 1
                            ctx.fail(f"structure:{label}:{what}", f"{label}: {what} has shape {np.shape(g)}, the parameter has shape {np.shape(theta['p'])}", {"class": label})
                            continue
                        if proj is not None and np.ndim(g) == 2 and "Triangular" in label and not np.allclose(g, proj(np.asarray(g))):
                            bad += 1
                            ctx.fail(f"structure:{label}:{what}", f"{label}: {what} has entries outside the stored triangle", {"class": label})
                        if proj is not None and np.ndim(g) == 2 and "Triangular" not in label and not np.allclose(g, np.asarray(g).T, rtol=1e-9, atol=1e-11):
                            bad += 1
                            ctx.fail(f"structure:{label}:{what}", f"{label}: {what} is not symmetric although the parameter is a symmetric array", {"class": label})
                        got = contract(g, delta)
                        if not abs(got - fd) <= 2e-5 * max(1.0, abs(fd)):
                            bad += 1
                            ctx.fail(f"{label.split('(')[0]}.{what}" + (":repeat" if call else ""), f"{label} (n={n}, request #{call + 1} on the same object): <{what}, delta> = {got:.8f} but the "
                                     f"directional derivative of the dense formula is {fd:.8f}", {"class": label, "n": n, "what": what, "call": call, "got": got, "fd": fd,
                                                                                                 "param": np.asarray(theta["p"]).tolist(), "v": vv.tolist(), "delta": np.asarray(delta).tolist()})
            # block diagonal of differentiable blocks: tuple of block gradients
            blocks = [mm.PositiveDiagonalMatrix(crng.uniform(0.5, 2, 2)), mm.DensePositiveDefiniteMatrix(matzoo.spd(crng, 2)), mm.PositiveScaledIdentityMatrix(1.3, 1)]
            B = mm.PositiveDefiniteBlockDiagonalMatrix(blocks)
            vb = crng.standard_normal(5)
            gl, gq = B.grad_log_abs_det, B.grad_quadratic_form_inv(vb)
            ctx.case(("block", n, rep))
            parts = np.split(vb, [2, 4])
            ok = isinstance(gl, tuple) and isinstance(gq, tuple) and len(gl) == 3 and all(
                np.allclose(a, b.grad_log_abs_det) and np.allclose(c, b.grad_quadratic_form_inv(p)) for a, c, b, p in zip(gl, gq, blocks, parts))
            if not ok:
                bad += 1
                ctx.fail("BlockDiagonal.grads", "PositiveDefiniteBlockDiagonalMatrix gradients are not the tuple of the blocks' gradients", {})
    # SoftAbs at special parameter values: exactly repeated eigenvalues (identity, multiples, repeated blocks), +/- eigenvalue pairs (equal after
    # regularisation, different before), numerically repeated ones
    def soft_dense(S, c):
        ev, evec = np.linalg.eigh(S)
        return (evec * (ev / np.tanh(ev * c))) @ evec.T
    Q3 = matzoo.orth(np.random.default_rng(3), 3)
    specials = {"identity": np.eye(3), "2*identity(2)": 2 * np.eye(2), "diag(1,1,-0.5)": np.diag([1.0, 1.0, -0.5]), "rotated(1,1,-0.5)": 0.5 * ((Q3 * np.array([1.0, 1.0, -0.5])) @ Q3.T + ((Q3 * np.array([1.0, 1.0, -0.5])) @ Q3.T).T),
                "antidiag": np.array([[0.0, 1.3], [1.3, 0.0]]), "traceless": np.array([[0.7, 0.4], [0.4, -0.7]]), "diag(2,-2,0.7)": np.diag([2.0, -2.0, 0.7]),
                "block(+-)": np.array([[0.0, 0.9, 0.0], [0.9, 0.0, 0.0], [0.0, 0.0, 1.1]]), "triple": -0.8 * np.eye(3)}
    srng = np.random.default_rng(int(rng.integers(0, 2 ** 31)))
    for sname, S in specials.items():
        for c in (0.7, 1.5):
            n = S.shape[0]
            m = mm.SoftAbsRegularizedPositiveDefiniteMatrix(S, c)
            v = srng.standard_normal(n)
            g = np.asarray(m.grad_quadratic_form_inv(v))
            gl = np.asarray(m.grad_log_abs_det)
            ctx.case(("softabs-special", sname, c))
            ctx.count("search:SoftAbs:special_parameters")
            worst = 0.0
            for _ in range(3):
                Dd = srng.standard_normal((n, n))
                Dd = Dd + Dd.T
                h = 1e-5
                Mp, Mm = soft_dense(S + h * Dd, c), soft_dense(S - h * Dd, c)
                fdq = (v @ np.linalg.solve(Mp, v) - v @ np.linalg.solve(Mm, v)) / (2 * h)
                fdl = (np.linalg.slogdet(Mp)[1] - np.linalg.slogdet(Mm)[1]) / (2 * h)
                worst = max(worst, abs(np.sum(g * Dd) - fdq) / max(1.0, abs(fdq)), abs(np.sum(gl * Dd) - fdl) / max(1.0, abs(fdl))) if np.all(np.isfinite(g)) and np.all(np.isfinite(gl)) else np.inf
            if np.all(np.isfinite(g)) and not (np.allclose(g, g.T, rtol=1e-9, atol=1e-11) and np.allclose(gl, gl.T, rtol=1e-9, atol=1e-11)):
                bad += 1
                ctx.fail("SoftAbs.grads:structure", f"SoftAbsRegularizedPositiveDefiniteMatrix(param={sname}, coeff={c}): the reported gradient is not symmetric although the parameter is a "
                         f"symmetric array (asymmetry {np.abs(g - g.T).max():.2e})", {"param": S.tolist(), "coeff": c, "vector": v.tolist()})
            if not worst <= 1e-4:
                bad += 1
                ctx.fail("SoftAbs.grads:special_parameter", f"SoftAbsRegularizedPositiveDefiniteMatrix(param={sname}, coeff={c}): gradients differ from central differences of the dense formula "
                         f"by {worst:.2e} (relative)" if np.isfinite(worst) else f"SoftAbsRegularizedPositiveDefiniteMatrix(param={sname}, coeff={c}): gradient is not finite",
                         {"param": S.tolist(), "coeff": c, "vector": v.tolist()})
    # derived objects: a differentiable matrix that has been used (inverse / capacitance / factor cached) and then rescaled keeps reporting true gradients
    for rep in range(2 if not ctx.thorough else 8):
        drng = np.random.default_rng(int(rng.integers(0, 2 ** 31)))
        n = 3
        for label, theta, build, dense, proj in cases(drng, n):
            if label.startswith(("ScaledIdentity", "Diagonal", "SoftAbs")) or "sign=-1" in label and "Triangular" in label:
                continue
            m0 = build(theta)
            matzoo.touch(m0)
            try:
                m0.grad_log_abs_det
            except Exception:  # noqa: BLE001
                pass
            sc = float(drng.choice([0.4, 3.0]))
            variants = [("divided", m0 / sc, 1 / sc), ("multiplied", sc * m0, sc)]
            if label.startswith("DenseDefinite("):      # a definite matrix times a negative scalar is the definite matrix of the other sign
                variants += [("multiplied by a negative scalar", (-sc) * m0, -sc), ("divided by a negative scalar", m0 / (-sc), -1 / sc)]
            for how, m1, fac in variants:
                if not isinstance(m1, mm.DifferentiableMatrix) or (type(m1) is not type(m0) and fac > 0):
                    continue
                vv = drng.standard_normal(n)
                delta = drng.standard_normal(np.shape(theta["p"]))
                if proj is not None:
                    delta = proj(delta)
                # the rescaled object's parameter: factor-type parameters scale by sqrt(fac), array-type parameters by fac
                root = label.startswith(("TriangularFactored", "DensePositiveDefiniteProduct", "PositiveDefiniteLowRankUpdate"))
                h = 1e-6

                def f(t, fac=fac):
                    D = fac * dense({"p": theta["p"] + t * delta})
                    return np.linalg.slogdet(D)[1], vv @ np.linalg.solve(D, vv)
                (l1, q1), (l2, q2) = f(h), f(-h)
                # d/dt at the ORIGINAL parameter; the reported gradient is w.r.t. the rescaled object's own parameter p1 = k p0 (k = sqrt(fac) or fac)
                kpar = np.sqrt(fac) if root else fac
                ctx.case(("derived", label, how, rep))
                ctx.count("search:derived_objects")
                try:
                    g_ld, g_qf = np.asarray(m1.grad_log_abs_det), np.asarray(m1.grad_quadratic_form_inv(vv))
                except Exception as e:  # noqa: BLE001
                    bad += 1
                    ctx.fail(f"raises:derived:{label}", f"{label} used then {how} by {sc}: gradient request raised {type(e).__name__}: {str(e)[:80]}", {"class": label})
                    continue
                if label.startswith("PositiveDefiniteLowRankUpdate"):
                    continue_ok = True     # rescaling a low-rank update rescales the base and inner matrices, the factor parameter is unchanged
                    kpar = 1.0
                for what, g, fdv in (("grad_log_abs_det", g_ld, (l1 - l2) / (2 * h)), ("grad_quadratic_form_inv", g_qf, (q1 - q2) / (2 * h))):
                    got = contract(g, delta) * kpar
                    if not abs(got - fdv) <= 5e-5 * max(1.0, abs(fdv)):
                        bad += 1
                        ctx.fail(f"{label.split('(')[0]}.{what}:derived", f"{label} (n={n}) used (inverse / factor / capacitance cached) and then {how} by {sc}: <{what}, delta> = {got:.8f} but the "
                                 f"directional derivative of the dense formula is {fdv:.8f}", {"class": label, "how": how, "scalar": sc, "what": what, "got": got, "fd": fdv,
                                                                                                 "param": np.asarray(theta["p"]).tolist(), "v": vv.tolist()})
    ctx.oblige("search: every differentiable class / option (both signs, lower and upper factors, with and without inner matrix, SoftAbs coefficients, block "
               "composition): <reported gradient, direction> vs central differences of the dense formulas, three requests per object; SoftAbs at exactly / numerically repeated eigenvalues and +/- eigenvalue pairs; objects used and then rescaled", bad == 0, f"{bad} failures")


def correspondence(ctx):
    """Coq's exact directional derivative (dual-number second component, Lib/Dual.v) for the triangular-factored class vs the implementation."""
    import mici.matrices as mm
    rng = ctx.rng
    terms, expect = [], []
    for _ in range(6 if not ctx.thorough else 24):
        n = int(rng.integers(2, 4))
        s = int(rng.choice([-1, 1]))
        L = rq(np.tril(rng.standard_normal((n, n)) + 3 * np.eye(n)))
        D = rq(np.tril(rng.standard_normal((n, n))))
        v = rq(rng.standard_normal((n, 1)))
        m = mm.TriangularFactoredDefiniteMatrix(L, sign=s, factor_is_lower=True)
        terms.append(f"to_list 1 1 (dquad {n} {qmat(L)} {qmat(np.linalg.inv(L))} ({s} # 1) {qmat(v)} {qmat(D)})")
        expect.append((contract(m.grad_quadratic_form_inv(v[:, 0]), D), dict(n=n, sign=s)))
    body = "Require Import Mici.Lib.QMat Mici.Lib.Dual Mici.Model.Matrices.\nOpen Scope Z_scope.\nEval vm_compute in " + coq_list(terms) + ".\n"
    model = parse_coq_value(ctx.coq_eval(body, name="grad_cases", timeout=900)[0])
    bad = 0
    for (impl, info), m in zip(expect, model):
        mv = m[0][0][0] / m[0][0][1]
        ctx.case(("dual", tuple(sorted(info.items())), round(impl, 6)))
        if not abs(mv - impl) <= 1e-4 * max(1, abs(impl)):
            bad += 1
            ctx.fail("corr:trifactor_grad", f"triangular-factored grad_quadratic_form_inv ({info}): Coq's exact directional derivative {mv} vs implementation {impl}", info, kind="corr")
    ctx.oblige(f"correspondence: {len(terms)} exact directional derivatives (dual-number second component evaluated by Coq) vs <grad_quadratic_form_inv, D>", bad == 0, f"{bad}")


def _fr(a, den=200):
    return [[Fraction(float(x)).limit_denominator(den) for x in row] for row in np.atleast_2d(a)]


def _fl(F):
    return np.array([[float(x) for x in row] for row in F])


def _mul(A, B):
    return [[sum((A[i][l] * B[l][j] for l in range(len(B))), Fraction(0)) for j in range(len(B[0]))] for i in range(len(A))]


def _tr(A):
    return [list(r) for r in zip(*A)]


def _add(A, B, c=1):
    return [[a + c * b for a, b in zip(ra, rb)] for ra, rb in zip(A, B)]


def _eye(n):
    return [[Fraction(int(i == j)) for j in range(n)] for i in range(n)]


def _inv(A):
    """exact Gauss-Jordan inverse over the rationals"""
    n = len(A)
    a = [list(r) + e for r, e in zip(A, _eye(n))]
    for c in range(n):
        p = next(r for r in range(c, n) if a[r][c] != 0)
        a[c], a[p] = a[p], a[c]
        a[c] = [x / a[c][c] for x in a[c]]
        for r in range(n):
            if r != c and a[r][c] != 0:
                a[r] = [x - a[r][c] * y for x, y in zip(a[r], a[c])]
    return [r[n:] for r in a]


def _qm(F):
    return "(of_list " + coq_list([coq_list([f"({x.numerator} # {x.denominator})" for x in row]) for row in F]) + ")"


def _spd(rng, n):
    a = _fr(rng.standard_normal((n, n)), 20)
    return _add(_mul(a, _tr(a)), _eye(n), Fraction(1, 2))


def param_cases(rng):
    """-> (label, implementation's <grad_quadratic_form_inv(v), D>, Coq term of the exact dual-number derivative, Coq term of the
    model's reported gradient contracted with D) for every rational parametrisation of Lib/DualGrad.v"""
    import mici.matrices as mm
    out = []
    n, k = int(rng.integers(2, 4)), int(rng.integers(1, 3))
    v = _fr(rng.standard_normal((n, 1)), 50)
    vq, vf = _qm(v), _fl(v)[:, 0]
    q1 = lambda t: f"to_list 1 1 (fun _ _ => {t})"  # noqa: E731

    def factor(label, obj, M, F, K, c, D):
        Mi = _inv(M)
        kk = len(K)
        dM = f"(mscal ({c} # 1) (madd (mmul {kk} {_qm(D)} (mmul {kk} {_qm(K)} (mtr {_qm(F)}))) (mmul {kk} {_qm(F)} (mmul {kk} {_qm(K)} (mtr {_qm(D)})))))"
        out.append((label, contract(obj.grad_quadratic_form_inv(vf), _fl(D)),
                    q1(f"dqf_du_fast {n} {_qm(Mi)} ({dM}) {vq}"),
                    q1(f"factor_contract_fast {n} {kk} {_qm(Mi)} {_qm(F)} {_qm(K)} {vq} ({c} # 1) {_qm(D)}")))

    # triangular-factored, both signs, lower and upper factors
    for lower in (True, False):
        tri = np.tril if lower else np.triu
        L = _fr(tri(rng.standard_normal((n, n)) + 3 * np.eye(n)), 20)
        D = _fr(tri(rng.standard_normal((n, n))), 20)
        for sg in (1, -1):
            M = [[sg * x for x in row] for row in _mul(L, _tr(L))]
            factor(f"TriangularFactoredDefinite(sign={sg},lower={lower})", mm.TriangularFactoredDefiniteMatrix(_fl(L), sign=sg, factor_is_lower=lower), M, L, _eye(n), sg, D)
        factor(f"TriangularFactoredPositiveDefinite(lower={lower})", mm.TriangularFactoredPositiveDefiniteMatrix(_fl(L), factor_is_lower=lower), _mul(L, _tr(L)), L, _eye(n), 1, D)
    # symmetric products R P R^T
    kp = n + 1
    R, P, D = _fr(rng.standard_normal((n, kp)), 20), _spd(rng, kp), _fr(rng.standard_normal((n, kp)), 20)
    factor("DensePositiveDefiniteProduct", mm.DensePositiveDefiniteProductMatrix(_fl(R), mm.DensePositiveDefiniteMatrix(_fl(P))), _mul(R, _mul(P, _tr(R))), R, P, 1, D)
    factor("DensePositiveDefiniteProduct(no inner)", mm.DensePositiveDefiniteProductMatrix(_fl(R)), _mul(R, _tr(R)), R, _eye(kp), 1, D)
    # low-rank updates A + s F K F^T, gradient with respect to F
    A, K = _spd(rng, n), _spd(rng, k)
    F0, D = _fr(0.3 * rng.standard_normal((n, k)), 20), _fr(rng.standard_normal((n, k)), 20)
    for sg in (1, -1):
        F = F0
        if sg == -1:
            lam = np.max(np.abs(np.linalg.eigvals(np.linalg.solve(_fl(A), _fl(F0) @ _fl(K) @ _fl(F0).T))))
            F = _fr(_fl(F0) * np.sqrt(0.4 / max(lam, 1e-12)), 40)
        for Kx, lab in ((K, ""), (None, ",no inner")):
            Ke = Kx if Kx is not None else _eye(k)
            M = _add(A, _mul(F, _mul(Ke, _tr(F))), sg)
            args = (mm.DenseRectangularMatrix(_fl(F)), mm.DensePositiveDefiniteMatrix(_fl(A))) + ((mm.DensePositiveDefiniteMatrix(_fl(Kx)),) if Kx is not None else ())
            factor(f"PositiveDefiniteLowRankUpdate(sign={sg}{lab})", mm.PositiveDefiniteLowRankUpdateMatrix(*args, sign=sg), M, F, Ke, sg, D)
    # the matrix itself is the parameter
    S, D = _spd(rng, n), _fr(rng.standard_normal((n, n)), 20)
    for label, obj, M in (("DenseDefinite(is_posdef=True)", lambda a: mm.DenseDefiniteMatrix(a, is_posdef=True), S),
                          ("DenseDefinite(is_posdef=False)", lambda a: mm.DenseDefiniteMatrix(a, is_posdef=False), [[-x for x in r] for r in S]),
                          ("DensePositiveDefinite", mm.DensePositiveDefiniteMatrix, S)):
        Mi = _inv(M)
        out.append((label, contract(obj(_fl(M)).grad_quadratic_form_inv(vf), _fl(D)),
                    q1(f"dqf_du_fast {n} {_qm(Mi)} ({_qm(D)}) {vq}"),
                    q1(f"contract {n} {n} (dense_grad {n} {_qm(Mi)} {vq}) {_qm(D)}")))
    # diagonal and scalar parameters
    d = [Fraction(int(sgn) * int(m), 10) for sgn, m in zip(rng.choice([-1, 1], n), rng.integers(5, 21, n))]
    dl = [Fraction(int(m), 10) for m in rng.integers(-15, 16, n)]
    for label, cls, dd in (("Diagonal", mm.DiagonalMatrix, d), ("PositiveDiagonal", mm.PositiveDiagonalMatrix, [abs(x) for x in d])):
        M = [[dd[i] if i == j else Fraction(0) for j in range(n)] for i in range(n)]
        Mi = _inv(M)
        dlq = "(of_vec " + coq_list([f"({x.numerator} # {x.denominator})" for x in dl]) + ")"
        out.append((label, contract(cls(np.array([float(x) for x in dd])).grad_quadratic_form_inv(vf), np.array([float(x) for x in dl])),
                    q1(f"dqf_du_fast {n} {_qm(Mi)} (mdiag {dlq}) {vq}"),
                    q1(f"sumn {n} (fun i => diag_grad {n} {_qm(Mi)} {vq} i * {dlq} i)")))
    sc, ds = Fraction(int(rng.choice([-1, 1])) * int(rng.integers(5, 21)), 10), Fraction(int(rng.integers(-15, 16)), 10)
    for label, cls, s0 in (("ScaledIdentity", mm.ScaledIdentityMatrix, sc), ("PositiveScaledIdentity", mm.PositiveScaledIdentityMatrix, abs(sc))):
        sq, dsq = f"({s0.numerator} # {s0.denominator})", f"({ds.numerator} # {ds.denominator})"
        out.append((label, float(cls(float(s0), n).grad_quadratic_form_inv(vf)) * float(ds),
                    q1(f"dqf_du_fast {n} (mscal (/ {sq}) mI) (mscal {dsq} mI) {vq}"),
                    q1(f"scaled_grad {n} {vq} {sq} * {dsq}")))
    return out


def param_correspondence(ctx):
    """Lib/DualGrad.v: for every rational parametrisation the exact directional derivative (second dual component, exact inverse)
    and the model's reported gradient, both evaluated by Coq, vs the implementation's reported gradient contracted with D."""
    labels, impl, terms = [], [], []
    for _ in range(2 if not ctx.thorough else 8):
        for label, g, t_exact, t_model in param_cases(ctx.rng):
            labels.append(label)
            impl.append(g)
            terms += [t_exact, t_model]
    body = ("Require Import Mici.Lib.QMat Mici.Lib.Dual Mici.Lib.DualGrad Mici.Model.Matrices.\nOpen Scope Q_scope.\nEval vm_compute in "
            + coq_list(terms) + ".\n")
    vals = parse_coq_value(ctx.coq_eval(body, name="param_grad_cases", timeout=900)[0])
    bad = 0
    for i, (label, g) in enumerate(zip(labels, impl)):
        ex, mo = (Fraction(*vals[2 * i][0][0]), Fraction(*vals[2 * i + 1][0][0]))
        ctx.case(("param-grad", label, round(g, 6)))
        ctx.count(f"corr:param_grad:{label.split('(')[0]}")
        if ex != mo:
            bad += 1
            ctx.fail("corr:param_grad_model", f"{label}: the model's reported gradient contracted with D ({float(mo)}) is not the exact dual-number derivative ({float(ex)})", {"class": label}, kind="corr")
        if not abs(float(ex) - g) <= 1e-8 * max(1.0, abs(g)):
            bad += 1
            ctx.fail(f"corr:param_grad:{label}", f"{label}.grad_quadratic_form_inv contracted with a direction gives {g}; the exact directional derivative of v^T M^-1 v "
                     f"(dual-number second component evaluated by Coq with the exact rational inverse) is {float(ex)}", {"class": label, "impl": g, "exact": float(ex)}, kind="corr")
    ctx.oblige(f"correspondence: {len(labels)} (class / option) cases over all rational parametrisations (triangular factors both signs and shapes, symmetric products, "
               "low-rank updates both signs with / without inner matrix, dense, diagonal, scaled identity): exact directional derivative evaluated by Coq = model's reported "
               "gradient contracted with D (exactly) = implementation's <grad_quadratic_form_inv, D> (1e-8)", bad == 0, f"{bad}")


def run(ctx):
    ctx.rule = "per (class / option, size, repetition, request number): directional finite difference of the dense formula vs the reported gradient contracted with the direction"
    ctx.assume("log-determinant gradients for dense / low-rank parameters rest on Jacobi's formula (not formalised); SoftAbs gradients (eigen-perturbation calculus) are covered by "
               "the search only (partial)", "finite differences with step 1e-6, tolerance 2e-5")
    ctx.trust("Lib/Dual.v, Lib/DualGrad.v dual-number calculus tied by correspondence for every rational parametrisation (triangular-factored, product, low-rank, dense, "
              "diagonal, scaled identity); SoftAbs and log-determinant gradients are not formalised")
    model_ok = ctx.build(["Model/Matrices.vo", "Lib/Dual.vo", "Lib/DualGrad.vo"], label="executable model")
    if model_ok and ctx.build(["Props/C11.vo"]):
        ctx.props()
    if model_ok:
        correspondence(ctx)
        param_correspondence(ctx)
    search(ctx)
