"""C11 -- differentiable matrices report the true parameter gradients."""
from __future__ import annotations

from fractions import Fraction

import numpy as np

import matzoo
from c10 import qmat, rq
from common import coq_list, parse_coq_value

LEVEL = "proof"


def cases(rng, n):
    """-> list of (label, theta (dict of arrays), build(theta) -> matrix object, dense(theta) -> array, grad_param key, direction maker)"""
    import mici.matrices as mm
    out = []
    s0 = float(rng.choice([-1, 1]) * rng.uniform(0.5, 2))
    out.append(("ScaledIdentity", {"p": np.array(s0)}, lambda t: mm.ScaledIdentityMatrix(float(t["p"]), n), lambda t: float(t["p"]) * np.eye(n), None))
    out.append(("PositiveScaledIdentity", {"p": np.array(abs(s0))}, lambda t: mm.PositiveScaledIdentityMatrix(float(t["p"]), n), lambda t: float(t["p"]) * np.eye(n), None))
    d0 = rng.uniform(0.5, 2, n) * rng.choice([-1, 1], n)
    out.append(("Diagonal", {"p": d0}, lambda t: mm.DiagonalMatrix(t["p"]), lambda t: np.diag(t["p"]), None))
    out.append(("PositiveDiagonal", {"p": np.abs(d0)}, lambda t: mm.PositiveDiagonalMatrix(t["p"]), lambda t: np.diag(t["p"]), None))
    for lower in (True, False):
        a = rng.standard_normal((n, n)) + 3 * np.eye(n)
        L0 = np.tril(a) if lower else np.triu(a)
        tri = (lambda x, lower=lower: np.tril(x) if lower else np.triu(x))
        for sign in (1, -1):
            out.append((f"TriangularFactoredDefinite(sign={sign},lower={lower})", {"p": L0},
                        lambda t, sign=sign, lower=lower: mm.TriangularFactoredDefiniteMatrix(t["p"], sign=sign, factor_is_lower=lower),
                        lambda t, sign=sign, tri=tri: sign * tri(t["p"]) @ tri(t["p"]).T, tri))
        out.append((f"TriangularFactoredPositiveDefinite(lower={lower})", {"p": L0},
                    lambda t, lower=lower: mm.TriangularFactoredPositiveDefiniteMatrix(t["p"], factor_is_lower=lower), lambda t, tri=tri: tri(t["p"]) @ tri(t["p"]).T, tri))
    sym = lambda x: 0.5 * (x + x.T)  # noqa: E731
    A0 = matzoo.spd(rng, n)
    for pd in (True, False):
        out.append((f"DenseDefinite(is_posdef={pd})", {"p": A0 if pd else -A0}, lambda t, pd=pd: mm.DenseDefiniteMatrix(t["p"], is_posdef=pd), lambda t: t["p"], sym))
    out.append(("DensePositiveDefinite", {"p": A0}, lambda t: mm.DensePositiveDefiniteMatrix(t["p"]), lambda t: t["p"], sym))
    k = n + 1
    R0, P0 = rng.standard_normal((n, k)), matzoo.spd(rng, k)
    out.append(("DensePositiveDefiniteProduct", {"p": R0}, lambda t: mm.DensePositiveDefiniteProductMatrix(t["p"], mm.DensePositiveDefiniteMatrix(P0)), lambda t: t["p"] @ P0 @ t["p"].T, None))
    out.append(("DensePositiveDefiniteProduct(no inner)", {"p": R0}, lambda t: mm.DensePositiveDefiniteProductMatrix(t["p"]), lambda t: t["p"] @ t["p"].T, None))
    S0 = sym(rng.standard_normal((n, n))) * 2
    for c in (0.5, 1.5):
        def dsoft(t, c=c):
            ev, evec = np.linalg.eigh(t["p"])
            return (evec * (ev / np.tanh(ev * c))) @ evec.T
        out.append((f"SoftAbs(coeff={c})", {"p": S0}, lambda t, c=c: mm.SoftAbsRegularizedPositiveDefiniteMatrix(t["p"], c), dsoft, sym))
    kk = max(1, n // 2)
    F0 = 0.3 * rng.standard_normal((n, kk))
    Pd, Kd = matzoo.spd(rng, n), matzoo.spd(rng, kk)
    for sign in (1, -1):
        Fs = F0
        if sign == -1:      # keep the downdate positive definite with a margin for every draw
            lam = np.max(np.abs(np.linalg.eigvals(np.linalg.solve(Pd, F0 @ Kd @ F0.T))))
            Fs = F0 * np.sqrt(0.4 / max(lam, 1e-12))
        out.append((f"PositiveDefiniteLowRankUpdate(sign={sign})", {"p": Fs},
                    lambda t, sign=sign: mm.PositiveDefiniteLowRankUpdateMatrix(mm.DenseRectangularMatrix(t["p"]), mm.DensePositiveDefiniteMatrix(Pd), mm.DensePositiveDefiniteMatrix(Kd), sign=sign),
                    lambda t, sign=sign: Pd + sign * t["p"] @ Kd @ t["p"].T, None))
        out.append((f"PositiveDefiniteLowRankUpdate(sign={sign},no inner)", {"p": Fs},
                    lambda t, sign=sign: mm.PositiveDefiniteLowRankUpdateMatrix(mm.DenseRectangularMatrix(t["p"]), mm.DensePositiveDefiniteMatrix(Pd), sign=sign),
                    lambda t, sign=sign: Pd + sign * t["p"] @ t["p"].T, None))
    return out


def contract(g, delta):
    return float(np.sum(np.asarray(g, dtype=float) * delta))


def search(ctx):
    import mici.matrices as mm
    rng = ctx.rng
    bad = 0
    for n in ((3,) if not ctx.thorough else (1, 2, 3, 4)):
        for rep in range(2 if not ctx.thorough else 6):
            crng = np.random.default_rng(int(rng.integers(0, 2 ** 31)))
            for label, theta, build, dense, proj in cases(crng, n):
                v = crng.standard_normal(n)
                m = build(theta)
                for call in range(3):      # repeated requests on the same object must keep giving the true gradient
                    vv = v if call != 1 else crng.standard_normal(n)
                    delta = crng.standard_normal(np.shape(theta["p"])) if np.ndim(theta["p"]) else np.array(1.0)
                    if proj is not None:
                        delta = proj(delta)
                    h = 1e-6

                    def f(t):
                        D = dense({"p": theta["p"] + t * delta})
                        return np.linalg.slogdet(D)[1], vv @ np.linalg.solve(D, vv)
                    (l1, q1), (l2, q2) = f(h), f(-h)
                    fd_logdet, fd_qf = (l1 - l2) / (2 * h), (q1 - q2) / (2 * h)
                    try:
                        g_ld, g_qf = m.grad_log_abs_det, m.grad_quadratic_form_inv(vv)
                    except Exception as e:  # noqa: BLE001
                        bad += 1
                        ctx.fail(f"raises:{label}", f"{label}: gradient request raised {type(e).__name__}: {str(e)[:80]}", {"class": label, "n": n})
                        break
                    ctx.case(("grad", label, n, rep, call))
                    ctx.count(f"search:{label.split('(')[0]}")
                    for what, g, fd in (("grad_log_abs_det", g_ld, fd_logdet), ("grad_quadratic_form_inv", g_qf, fd_qf)):
                        if np.shape(g) != np.shape(theta["p"]):
                            bad += 1
                            ctx.fail(f"structure:{label}:{what}", f"{label}: {what} has shape {np.shape(g)}, the parameter has shape {np.shape(theta['p'])}", {"class": label})
                            continue
                        if proj is not None and np.ndim(g) == 2 and "Triangular" in label and not np.allclose(g, proj(np.asarray(g))):
                            bad += 1
                            ctx.fail(f"structure:{label}:{what}", f"{label}: {what} has entries outside the stored triangle", {"class": label})
                        if proj is not None and np.ndim(g) == 2 and "Triangular" not in label and not np.allclose(g, np.asarray(g).T, rtol=1e-9, atol=1e-11):
                            bad += 1
                            ctx.fail(f"structure:{label}:{what}", f"{label}: {what} is not symmetric although the parameter is a symmetric array", {"class": label})
                        got = contract(g, delta)
                        if not abs(got - fd) <= 2e-5 * max(1.0, abs(fd)):
                            bad += 1
                            ctx.fail(f"{label.split('(')[0]}.{what}" + (":repeat" if call else ""), f"{label} (n={n}, request #{call + 1} on the same object): <{what}, delta> = {got:.8f} but the "
                                     f"directional derivative of the dense formula is {fd:.8f}", {"class": label, "n": n, "what": what, "call": call, "got": got, "fd": fd,
                                                                                                 "param": np.asarray(theta["p"]).tolist(), "v": vv.tolist(), "delta": np.asarray(delta).tolist()})
            # block diagonal of differentiable blocks: tuple of block gradients
            blocks = [mm.PositiveDiagonalMatrix(crng.uniform(0.5, 2, 2)), mm.DensePositiveDefiniteMatrix(matzoo.spd(crng, 2)), mm.PositiveScaledIdentityMatrix(1.3, 1)]
            B = mm.PositiveDefiniteBlockDiagonalMatrix(blocks)
            vb = crng.standard_normal(5)
            gl, gq = B.grad_log_abs_det, B.grad_quadratic_form_inv(vb)
            ctx.case(("block", n, rep))
            parts = np.split(vb, [2, 4])
            ok = isinstance(gl, tuple) and isinstance(gq, tuple) and len(gl) == 3 and all(
                np.allclose(a, b.grad_log_abs_det) and np.allclose(c, b.grad_quadratic_form_inv(p)) for a, c, b, p in zip(gl, gq, blocks, parts))
            if not ok:
                bad += 1
                ctx.fail("BlockDiagonal.grads", "PositiveDefiniteBlockDiagonalMatrix gradients are not the tuple of the blocks' gradients", {})
    # SoftAbs at special parameter values: exactly repeated eigenvalues (identity, multiples, repeated blocks), +/- eigenvalue pairs (equal after
    # regularisation, different before), numerically repeated ones
    def soft_dense(S, c):
        ev, evec = np.linalg.eigh(S)
        return (evec * (ev / np.tanh(ev * c))) @ evec.T
    Q3 = matzoo.orth(np.random.default_rng(3), 3)
    specials = {"identity": np.eye(3), "2*identity(2)": 2 * np.eye(2), "diag(1,1,-0.5)": np.diag([1.0, 1.0, -0.5]), "rotated(1,1,-0.5)": 0.5 * ((Q3 * np.array([1.0, 1.0, -0.5])) @ Q3.T + ((Q3 * np.array([1.0, 1.0, -0.5])) @ Q3.T).T),
                "antidiag": np.array([[0.0, 1.3], [1.3, 0.0]]), "traceless": np.array([[0.7, 0.4], [0.4, -0.7]]), "diag(2,-2,0.7)": np.diag([2.0, -2.0, 0.7]),
                "block(+-)": np.array([[0.0, 0.9, 0.0], [0.9, 0.0, 0.0], [0.0, 0.0, 1.1]]), "triple": -0.8 * np.eye(3)}
    srng = np.random.default_rng(int(rng.integers(0, 2 ** 31)))
    for sname, S in specials.items():
        for c in (0.7, 1.5):
            n = S.shape[0]
            m = mm.SoftAbsRegularizedPositiveDefiniteMatrix(S, c)
            v = srng.standard_normal(n)
            g = np.asarray(m.grad_quadratic_form_inv(v))
            gl = np.asarray(m.grad_log_abs_det)
            ctx.case(("softabs-special", sname, c))
            ctx.count("search:SoftAbs:special_parameters")
            worst = 0.0
            for _ in range(3):
                Dd = srng.standard_normal((n, n))
                Dd = Dd + Dd.T
                h = 1e-5
                Mp, Mm = soft_dense(S + h * Dd, c), soft_dense(S - h * Dd, c)
                fdq = (v @ np.linalg.solve(Mp, v) - v @ np.linalg.solve(Mm, v)) / (2 * h)
                fdl = (np.linalg.slogdet(Mp)[1] - np.linalg.slogdet(Mm)[1]) / (2 * h)
                worst = max(worst, abs(np.sum(g * Dd) - fdq) / max(1.0, abs(fdq)), abs(np.sum(gl * Dd) - fdl) / max(1.0, abs(fdl))) if np.all(np.isfinite(g)) and np.all(np.isfinite(gl)) else np.inf
            if np.all(np.isfinite(g)) and not (np.allclose(g, g.T, rtol=1e-9, atol=1e-11) and np.allclose(gl, gl.T, rtol=1e-9, atol=1e-11)):
                bad += 1
                ctx.fail("SoftAbs.grads:structure", f"SoftAbsRegularizedPositiveDefiniteMatrix(param={sname}, coeff={c}): the reported gradient is not symmetric although the parameter is a "
                         f"symmetric array (asymmetry {np.abs(g - g.T).max():.2e})", {"param": S.tolist(), "coeff": c, "vector": v.tolist()})
            if not worst <= 1e-4:
                bad += 1
                ctx.fail("SoftAbs.grads:special_parameter", f"SoftAbsRegularizedPositiveDefiniteMatrix(param={sname}, coeff={c}): gradients differ from central differences of the dense formula "
                         f"by {worst:.2e} (relative)" if np.isfinite(worst) else f"SoftAbsRegularizedPositiveDefiniteMatrix(param={sname}, coeff={c}): gradient is not finite",
                         {"param": S.tolist(), "coeff": c, "vector": v.tolist()})
    # derived objects: a differentiable matrix that has been used (inverse / capacitance / factor cached) and then rescaled keeps reporting true gradients
    for rep in range(2 if not ctx.thorough else 8):
        drng = np.random.default_rng(int(rng.integers(0, 2 ** 31)))
        n = 3
        for label, theta, build, dense, proj in cases(drng, n):
            if label.startswith(("ScaledIdentity", "Diagonal", "SoftAbs")) or "sign=-1" in label and "Triangular" in label:
                continue
            m0 = build(theta)
            matzoo.touch(m0)
            try:
                m0.grad_log_abs_det
            except Exception:  # noqa: BLE001
                pass
            sc = float(drng.choice([0.4, 3.0]))
            variants = [("divided", m0 / sc, 1 / sc), ("multiplied", sc * m0, sc)]
            if label.startswith("DenseDefinite("):      # a definite matrix times a negative scalar is the definite matrix of the other sign
                variants += [("multiplied by a negative scalar", (-sc) * m0, -sc), ("divided by a negative scalar", m0 / (-sc), -1 / sc)]
            for how, m1, fac in variants:
                if not isinstance(m1, mm.DifferentiableMatrix) or (type(m1) is not type(m0) and fac > 0):
                    continue
                vv = drng.standard_normal(n)
                delta = drng.standard_normal(np.shape(theta["p"]))
                if proj is not None:
                    delta = proj(delta)
                # the rescaled object's parameter: factor-type parameters scale by sqrt(fac), array-type parameters by fac
                root = label.startswith(("TriangularFactored", "DensePositiveDefiniteProduct", "PositiveDefiniteLowRankUpdate"))
                h = 1e-6

                def f(t, fac=fac):
                    D = fac * dense({"p": theta["p"] + t * delta})
                    return np.linalg.slogdet(D)[1], vv @ np.linalg.solve(D, vv)
                (l1, q1), (l2, q2) = f(h), f(-h)
                # d/dt at the ORIGINAL parameter; the reported gradient is w.r.t. the rescaled object's own parameter p1 = k p0 (k = sqrt(fac) or fac)
                kpar = np.sqrt(fac) if root else fac
                ctx.case(("derived", label, how, rep))
                ctx.count("search:derived_objects")
                try:
                    g_ld, g_qf = np.asarray(m1.grad_log_abs_det), np.asarray(m1.grad_quadratic_form_inv(vv))
                except Exception as e:  # noqa: BLE001
                    bad += 1
                    ctx.fail(f"raises:derived:{label}", f"{label} used then {how} by {sc}: gradient request raised {type(e).__name__}: {str(e)[:80]}", {"class": label})
                    continue
                if label.startswith("PositiveDefiniteLowRankUpdate"):
                    continue_ok = True     # rescaling a low-rank update rescales the base and inner matrices, the factor parameter is unchanged
                    kpar = 1.0
                for what, g, fdv in (("grad_log_abs_det", g_ld, (l1 - l2) / (2 * h)), ("grad_quadratic_form_inv", g_qf, (q1 - q2) / (2 * h))):
                    got = contract(g, delta) * kpar
                    if not abs(got - fdv) <= 5e-5 * max(1.0, abs(fdv)):
                        bad += 1
                        ctx.fail(f"{label.split('(')[0]}.{what}:derived", f"{label} (n={n}) used (inverse / factor / capacitance cached) and then {how} by {sc}: <{what}, delta> = {got:.8f} but the "
                                 f"directional derivative of the dense formula is {fdv:.8f}", {"class": label, "how": how, "scalar": sc, "what": what, "got": got, "fd": fdv,
                                                                                                 "param": np.asarray(theta["p"]).tolist(), "v": vv.tolist()})
    ctx.oblige("search: every differentiable class / option (both signs, lower and upper factors, with and without inner matrix, SoftAbs coefficients, block "
               "composition): <reported gradient, direction> vs central differences of the dense formulas, three requests per object; SoftAbs at exactly / numerically repeated eigenvalues and +/- eigenvalue pairs; objects used and then rescaled", bad == 0, f"{bad} failures")


def correspondence(ctx):
    """Coq's exact directional derivative (dual-number second component, Lib/Dual.v) for the triangular-factored class vs the implementation."""
    import mici.matrices as mm
    rng = ctx.rng
    terms, expect = [], []
    for _ in range(6 if not ctx.thorough else 24):
        n = int(rng.integers(2, 4))
        s = int(rng.choice([-1, 1]))
        L = rq(np.tril(rng.standard_normal((n, n)) + 3 * np.eye(n)))
        D = rq(np.tril(rng.standard_normal((n, n))))
        v = rq(rng.standard_normal((n, 1)))
        m = mm.TriangularFactoredDefiniteMatrix(L, sign=s, factor_is_lower=True)
        terms.append(f"to_list 1 1 (dquad {n} {qmat(L)} {qmat(np.linalg.inv(L))} ({s} # 1) {qmat(v)} {qmat(D)})")
        expect.append((contract(m.grad_quadratic_form_inv(v[:, 0]), D), dict(n=n, sign=s)))
    body = "Require Import Mici.Lib.QMat Mici.Lib.Dual Mici.Model.Matrices.\nOpen Scope Z_scope.\nEval vm_compute in " + coq_list(terms) + ".\n"
    model = parse_coq_value(ctx.coq_eval(body, name="grad_cases", timeout=900)[0])
    bad = 0
    for (impl, info), m in zip(expect, model):
        mv = m[0][0][0] / m[0][0][1]
        ctx.case(("dual", tuple(sorted(info.items())), round(impl, 6)))
        if not abs(mv - impl) <= 1e-4 * max(1, abs(impl)):
            bad += 1
            ctx.fail("corr:trifactor_grad", f"triangular-factored grad_quadratic_form_inv ({info}): Coq's exact directional derivative {mv} vs implementation {impl}", info, kind="corr")
    ctx.oblige(f"correspondence: {len(terms)} exact directional derivatives (dual-number second component evaluated by Coq) vs <grad_quadratic_form_inv, D>", bad == 0, f"{bad}")


def run(ctx):
    ctx.rule = "per (class / option, size, repetition, request number): directional finite difference of the dense formula vs the reported gradient contracted with the direction"
    ctx.assume("log-determinant gradients for dense / low-rank parameters rest on Jacobi's formula (not formalised); SoftAbs gradients (eigen-perturbation calculus) are covered by "
               "the search only (partial)", "finite differences with step 1e-6, tolerance 2e-5")
    ctx.trust("Lib/Dual.v dual-number calculus tied by correspondence for the triangular-factored class")
    model_ok = ctx.build(["Model/Matrices.vo", "Lib/Dual.vo"], label="executable model")
    if model_ok and ctx.build(["Props/C11.vo"]):
        ctx.props()
    if model_ok:
        correspondence(ctx)
    search(ctx)
