"""C17 -- adapters compute the estimators they document for any history."""
from __future__ import annotations

import copy
import math
from fractions import Fraction

import numpy as np

import translate_adapters
from common import coq_list, coq_q, parse_coq_value

LEVEL = "proof"
HDR = ("From Coq Require Import QArith List Bool.\nRequire Import Mici.Model.Adapters Mici.Gen.AdaptersGen Mici.Model.AdaptersModel.\nImport ListNotations.\nOpen Scope Q_scope.\n"
       "Definition vof (l : list Q) : vec := fun i => nth i l 0.\n"
       "Definition qout (q : Q) : Z * Z := let r := Qred q in (Qnum r, Zpos (Qden r)).\n"
       "Definition vout (d : nat) (o : option vec) := match o with Some v => Some (map (fun i => qout (v i)) (seq 0 d)) | None => None end.\n"
       "Definition mout (d : nat) (o : option mat') := match o with Some v => Some (map (fun i => map (fun j => qout (v i j)) (seq 0 d)) (seq 0 d)) | None => None end.\n"
       "Definition tab (t : list (Q * Q * Q)) (a b : Q) : Q := match find (fun e => Qeq_bool (fst (fst e)) a && Qeq_bool (snd (fst e)) b) t with Some e => snd e | None => 0 end.\n"
       "Definition tab1 (t : list (Q * Q)) (a : Q) : Q := match find (fun e => Qeq_bool (fst e) a) t with Some e => snd e | None => 0 end.\n"
       "Definition otab (t : list (Q * outcome)) (a : Q) : outcome := match find (fun e => Qeq_bool (fst e) a) t with Some e => snd e | None => Failed end.\n"
       "Definition dout (r : dstate * list Q) := let '((it, err, sm, mu), es) := r in (map qout [it; err; sm; mu], map qout es).\n")


def ql(v):
    return "[" + "; ".join(coq_q(Fraction(float(x))) for x in v) + "]"


def fr(m):
    return np.array([a / b for a, b in m], dtype=float)


class StubSystem:
    def __init__(self, dim):
        import mici
        self.real = mici.systems.EuclideanMetricSystem(lambda q: 0.5 * q @ q, grad_neg_log_dens=lambda q: q)
        self.metric = self.real.metric

    def sample_momentum(self, state, rng):
        self.real.metric = self.metric
        return self.real.sample_momentum(state, rng)


class Obj:
    pass


def make_transition(dim):
    t = Obj()
    t.system = StubSystem(dim)
    t.integrator = Obj()
    t.integrator.step_size = None
    return t


def run_metric_adapter(adapter, chains, rng_seed=3):
    """drive the real adapter over the given per-chain position histories; returns (estimate, states, transition, old momenta)"""
    from mici.states import ChainState
    tr = make_transition(len(chains[0][0]))
    states, cstates = [], []
    for hist in chains:
        cs = ChainState(pos=np.array(hist[0], dtype=float), mom=np.zeros(len(hist[0])), dir=1)
        st = adapter.initialize(cs, tr)
        for x in hist:
            cs.pos = np.array(x, dtype=float)
            adapter.update(st, cs, {"accept_stat": 0.5}, tr)
        states.append(st)
        cstates.append(cs)
    rngs = [np.random.default_rng(rng_seed + i) for i in range(len(chains))]
    if len(chains) == 1:
        adapter.finalize(states[0], cstates[0], tr, rngs[0])
    else:
        adapter.finalize(states, cstates, tr, rngs)
    return tr, cstates


def correspondence(ctx):
    import mici
    from mici.adapters import DualAveragingStepSizeAdapter, OnlineCovarianceMetricAdapter, OnlineVarianceMetricAdapter
    from mici.errors import AdaptationError, IntegratorError
    rng = ctx.rng
    bad = 0
    n_metric, n_da, n_search = (24, 16, 30) if not ctx.thorough else (120, 80, 200)
    # ---- variance / covariance adapters
    terms, expect = [], []
    for i in range(n_metric):
        d = int(rng.integers(1, 4))
        n_ch = int(rng.integers(1, 5))
        sizes = [int(rng.integers(1, 7)) for _ in range(n_ch)]
        if i % 6 == 0:
            sizes = [1] if i % 12 == 0 else [1, 1]
        off = float(rng.choice([0.0, 3.0, 1024.0]))
        chains = [[[off + float(rng.integers(-64, 65)) / 16 for _ in range(d)] for _ in range(s)] for s in sizes]
        o = [0, 5, 2.5, 50][int(rng.integers(0, 4))]
        scale = [1e-3, 0.5][int(rng.integers(0, 2))]
        for cls, tag in ((OnlineVarianceMetricAdapter, "var"), (OnlineCovarianceMetricAdapter, "cov")):
            if tag == "cov" and not o and 2 <= sum(sizes) <= d:
                ctx.count("corr:cov:singular-estimate")      # rank-deficient by construction without regularisation (documented): no metric to compare
                continue
            ad = cls(reg_iter_offset=o, reg_scale=scale)
            try:
                tr, _ = run_metric_adapter(ad, chains)
                est = (1.0 / np.asarray(tr.system.metric.diagonal)) if tag == "var" else np.linalg.inv(np.asarray(tr.system.metric.array))
                res = ("ok", est)
            except AdaptationError:
                res = ("err", None)
            except (mici.errors.LinAlgError, ValueError):
                # documented: without enough regularisation the sample (co)variance of a few positions is singular and cannot be a metric
                ctx.count(f"corr:{tag}:singular-estimate")
                continue
            ch = "[" + "; ".join(f"{tag}_chain [" + "; ".join(f"vof {ql(x)}" for x in h) + "]" for h in chains) + "]"
            terms.append((tag, f"{'vout' if tag == 'var' else 'mout'} {d} ({tag}_finalize {coq_q(Fraction(o))} {coq_q(Fraction(scale))} {ch})"))
            expect.append((tag, res, dict(adapter=cls.__name__, chains=chains, reg_iter_offset=o, reg_scale=scale)))
            ctx.count(f"corr:{tag}:{res[0]}:chains={n_ch}")
    body = HDR + "Eval vm_compute in " + coq_list([t for g, t in terms if g == "var"]) + ".\nEval vm_compute in " + coq_list([t for g, t in terms if g == "cov"]) + ".\n"
    outs = ctx.coq_eval(body, name="metric", timeout=600)
    mv, mc = parse_coq_value(outs[0]), parse_coq_value(outs[1])
    it = {"var": iter(mv), "cov": iter(mc)}
    for (tag, res, info) in expect:
        m = next(it[tag])
        ctx.case((tag, str(info)[:200]))
        ok_model = not (m is None or m == "None")
        if ok_model != (res[0] == "ok"):
            bad += 1
            ctx.fail(f"corr:{tag}:status", f"{info['adapter']}.finalize {'returned' if res[0] == 'ok' else 'raised AdaptationError'} but the model {'returns' if ok_model else 'raises'}", info, kind="corr")
            continue
        if not ok_model:
            continue
        mval = m[1] if (isinstance(m, tuple) and m[0] == "Some") else m
        arr = fr(mval) if tag == "var" else np.array([fr(r) for r in mval])
        err = np.abs(arr - res[1]).max() / max(1.0, np.abs(arr).max())
        if not err <= 1e-8:
            bad += 1
            ctx.fail(f"corr:{tag}:value", f"{info['adapter']}: metric estimate differs from the generated model's by {err:.2e} (relative)", dict(info, impl=np.asarray(res[1]).tolist(), model=arr.tolist()), kind="corr")
    ctx.oblige(f"correspondence: {len(expect)} variance / covariance finalisations (1-4 chains of 1-6 positions incl. single-position chains and totals below 2, offsets up to 1024, "
               f"4 regularisation offsets): generated arithmetic evaluated exactly by Coq vs the implementation's metric", bad == 0, f"{bad} differences")
    # ---- dual averaging
    bad2 = 0
    terms, expect = [], []
    for i in range(n_da):
        t0 = [0, 10, 3][i % 3]
        delta = [0.8, 0.65, 0.234][int(rng.integers(0, 3))]
        kappa = [0.75, 1.0, 0.5625][int(rng.integers(0, 3))]
        gamma = [0.05, 0.25][int(rng.integers(0, 2))]
        target = [None, 0.0, -1.5, 2.0][i % 4]
        m = int(rng.integers(1, 12))
        stats = [float(rng.integers(0, 65)) / 64 for _ in range(m)]
        ad = DualAveragingStepSizeAdapter(adapt_stat_target=delta, log_step_size_reg_target=target, log_step_size_reg_coefficient=gamma, iter_decay_coeff=kappa, iter_offset=t0)
        eps0 = float(2.0 ** int(rng.integers(-4, 3)))
        # initialize through the real method with a stubbed search (the search itself is compared below)
        ad._find_and_set_init_step_size = lambda *a, _e=eps0: _e
        tr = make_transition(2)
        st = ad.initialize(None, tr)
        sizes = []
        for a in stats:
            ad.update(st, None, {"accept_stat": a}, tr)
            sizes.append(math.log(tr.integrator.step_size))
        ad.finalize(st, None, tr, None)
        fin = tr.integrator.step_size
        ptab = [(Fraction(1, k), Fraction(kappa), Fraction(float((1 / k) ** kappa))) for k in range(1, m + 1)] + [(Fraction(k), Fraction(1, 2), Fraction(float(k ** 0.5))) for k in range(1, m + 1)]
        pt = "[" + "; ".join(f"({coq_q(a)}, {coq_q(b)}, {coq_q(c)})" for a, b, c in ptab) + "]"
        lt = f"[({coq_q(Fraction(10 * eps0))}, {coq_q(Fraction(math.log(10 * eps0)))})]"
        tg = "None" if target is None else f"(Some {coq_q(Fraction(target))})"
        terms.append(f"dout (da_run (tab {pt}) (fun x => x) {coq_q(Fraction(t0))} {coq_q(Fraction(delta))} {coq_q(Fraction(kappa))} {coq_q(Fraction(gamma))} "
                     f"(da_init (tab1 {lt}) {tg} {coq_q(Fraction(eps0))}) {ql(stats)})")
        expect.append((st, sizes, fin, dict(iter_offset=t0, target=delta, kappa=kappa, gamma=gamma, reg_target=target, eps0=eps0, stats=stats)))
        ctx.count(f"corr:da:target={'None' if target is None else target}")
    outs = ctx.coq_eval(HDR + "Eval vm_compute in " + coq_list(terms) + ".\n", name="da", timeout=600)
    for (st, sizes, fin, info), m in zip(expect, parse_coq_value(outs[0])):
        ctx.case(("da", str(info)[:200]))
        ms, mes = fr(m[0]), fr(m[1])
        impl = np.array([st["iter"], st["adapt_stat_error"], st["smoothed_log_step_size"], st["log_step_size_reg_target"]])
        e1 = np.abs(ms - impl).max() / max(1.0, np.abs(impl).max())
        e2 = np.abs(mes - np.array(sizes)).max() / max(1.0, np.abs(mes).max())
        e3 = abs(math.log(fin) - ms[2])
        if not max(e1, e2, e3) <= 1e-9:
            bad2 += 1
            ctx.fail("corr:da", f"dual averaging: adapter state / log step sizes / finalised step size differ from the generated recursion evaluated by Coq (state {e1:.2e}, step sizes {e2:.2e}, "
                     f"final {e3:.2e})", dict(info, impl_state=impl.tolist(), model_state=ms.tolist()), kind="corr")
    ctx.oblige(f"correspondence: {len(expect)} dual-averaging histories (1-11 updates; iter_offset 0/3/10; regularisation target None / 0.0 / negative / positive; 3 decay exponents): "
               f"generated recursion evaluated exactly by Coq (powers supplied as a table of the floats NumPy computes) vs adapter state, every step size set, finalised step size",
               bad2 == 0, f"{bad2} differences")
    # ---- initial step-size search against scripted outcomes
    bad3 = 0
    terms, expect = [], []
    for i in range(n_search):
        lo, hi = sorted(int(v) for v in rng.integers(-8, 8, 2))
        table = {}
        for e in range(-40, 41):
            r = rng.random()
            if e <= lo:
                o = "Below" if r < 0.9 else ("NaN" if r < 0.95 else "Failed")
            elif e <= hi:
                o = ["Below", "Above", "NaN", "Failed"][int(rng.integers(0, 4))]
            else:
                o = "Above" if r < 0.8 else ("NaN" if r < 0.9 else "Failed")
            table[e] = o
        if i % 7 == 0:
            table = {e: "Below" for e in table}            # improper target: never crosses
        max_iters = int(rng.integers(1, 25))
        ad = DualAveragingStepSizeAdapter(max_init_step_size_iters=max_iters)

        class Sys:
            def h(self, state):
                return state.hval

        class Integ:
            step_size = None

            def step(self, state):
                e = int(round(math.log2(self.step_size)))
                o = table[e]
                if o == "Failed":
                    raise mici.errors.ConvergenceError("scripted")
                s = Obj()
                s.hval = {"Below": 0.3, "Above": 5.0, "NaN": float("nan")}[o]
                return s
        st0 = Obj()
        st0.hval = 0.0
        st0.copy = lambda _s=st0: _s
        try:
            got = ad._find_and_set_init_step_size(st0, Sys(), Integ())
            res = ("ok", got)
        except AdaptationError:
            res = ("err", None)
        tt = "[" + "; ".join(f"({coq_q(Fraction(2) ** e)}, {o})" for e, o in table.items()) + "]"
        terms.append(f"match find_init_step_size (otab {tt}) {max_iters} with Some r => Some (qout r) | None => None end")
        expect.append((res, dict(table={str(k): v for k, v in table.items() if -12 <= k <= 12}, max_iters=max_iters)))
        ctx.count(f"corr:search:{res[0]}")
    outs = ctx.coq_eval(HDR + "Eval vm_compute in " + coq_list(terms) + ".\n", name="search", timeout=600)
    for (res, info), m in zip(expect, parse_coq_value(outs[0])):
        ctx.case(("search", str(info)[:300]))
        ok_model = not (m is None or m == "None")
        mval = (m[1] if (isinstance(m, tuple) and m[0] == "Some") else m) if ok_model else None
        if ok_model != (res[0] == "ok") or (ok_model and abs(mval[0] / mval[1] - res[1]) > 0):
            bad3 += 1
            ctx.fail("corr:search", f"initial step-size search: implementation {res}, model {mval}", info, kind="corr")
    ctx.oblige(f"correspondence: {len(expect)} initial step-size searches against scripted one-step outcomes (below / above log 2, NaN, integrator error, never-crossing tables, "
               f"budgets 1-24): generated decision logic evaluated by Coq vs _find_and_set_init_step_size (returned step size or AdaptationError)", bad3 == 0, f"{bad3} differences")


# -------------------------------------------------------------------------------------------------------------------------- search
def ref_dual_averaging(stats, mu, delta, gamma, kappa, t0):
    """Hoffman & Gelman (2014), algorithm 5: independent reference"""
    hbar, logeps_bar, out = 0.0, 0.0, []
    for m, a in enumerate(stats, start=1):
        hbar = (1 - 1 / (m + t0)) * hbar + (delta - a) / (m + t0)
        logeps = mu - math.sqrt(m) / gamma * hbar
        eta = m ** (-kappa)
        logeps_bar = eta * logeps + (1 - eta) * logeps_bar
        out.append((math.exp(logeps), logeps_bar))
    return out


def search(ctx):
    import mici
    from mici.adapters import (DualAveragingStepSizeAdapter, OnlineCovarianceMetricAdapter, OnlineVarianceMetricAdapter, arithmetic_mean_log_step_size_reducer,
                               geometric_mean_log_step_size_reducer, min_log_step_size_reducer)
    from mici.errors import AdaptationError, IntegratorError
    from mici.states import ChainState
    rng = ctx.rng
    bad = 0
    reps = 40 if not ctx.thorough else 300
    # ---- dual averaging against the reference, through the real initialize (real search on a real system)
    for i in range(reps):
        scale = float(rng.choice([0.05, 1.0, 40.0]))
        sysm = mici.systems.EuclideanMetricSystem(lambda q, s=scale: 0.5 * np.sum((q / s) ** 2), grad_neg_log_dens=lambda q, s=scale: q / s ** 2)
        integ = mici.integrators.LeapfrogIntegrator(sysm, 0.1)
        trans = mici.transitions.MultinomialDynamicIntegrationTransition(sysm, integ)
        t0 = int(rng.choice([0, 10, 25]))
        delta = float(rng.choice([0.8, 0.6, 0.9]))
        kappa = float(rng.choice([0.75, 1.0, 0.51]))
        gamma = float(rng.choice([0.05, 0.5]))
        target = [None, 0.0, 0, -2.0, 1.0][i % 5]
        ad = DualAveragingStepSizeAdapter(adapt_stat_target=delta, log_step_size_reg_target=target, log_step_size_reg_coefficient=gamma, iter_decay_coeff=kappa, iter_offset=t0)
        state = ChainState(pos=scale * rng.standard_normal(3), mom=rng.standard_normal(3) / scale, dir=1)
        info = dict(scale=scale, iter_offset=t0, adapt_stat_target=delta, iter_decay_coeff=kappa, reg_coefficient=gamma, reg_target=target, pos=state.pos.tolist(), mom=state.mom.tolist())
        try:
            st = ad.initialize(state, trans)
        except AdaptationError:
            ctx.count("search:da:init_failed")
            continue
        eps0 = integ.step_size
        # the initial step size sits at a crossing of log 2
        def dh(e):
            integ.step_size = e
            try:
                return abs(sysm.h(state) - sysm.h(integ.step(state)))
            except IntegratorError:
                return float("inf")
        d0, dup, ddn = dh(eps0), dh(2 * eps0), dh(eps0 / 2)
        integ.step_size = eps0
        thr = math.log(2)
        ctx.case(("init", scale, eps0))
        ctx.count("search:init_step_size")
        if not ((d0 <= thr and not dup <= thr) or (d0 > thr and ddn <= thr)):
            bad += 1
            ctx.fail("init_search:crossing", f"initial step size {eps0:g}: |dh| = {d0:.3g} there, {dup:.3g} at twice and {ddn:.3g} at half of it: no crossing of log 2", dict(info, eps0=eps0))
        mu = math.log(10 * eps0) if target is None else float(target)
        if not abs(st["log_step_size_reg_target"] - mu) <= 1e-12:
            bad += 1
            ctx.fail("da:reg_target", f"log_step_size_reg_target={target!r} configured, adapter regularises towards {st['log_step_size_reg_target']!r} instead of {mu!r}", dict(info, eps0=eps0))
            continue
        m = int(rng.integers(1, 60))
        kind = i % 4
        stats = [0.0] * m if kind == 0 else [1.0] * m if kind == 1 else rng.random(m).tolist()
        ref = ref_dual_averaging(stats, mu, delta, gamma, kappa, t0)
        ok = True
        for a, (e_ref, sm_ref) in zip(stats, ref):
            ad.update(st, state, {"accept_stat": a}, trans)
            e = integ.step_size
            if not (np.isfinite(e) and e > 0 and abs(math.log(e) - math.log(e_ref)) <= 1e-9 * max(1, abs(math.log(e_ref))) and abs(st["smoothed_log_step_size"] - sm_ref) <= 1e-9 * max(1, abs(sm_ref))):
                ok = False
                break
        ctx.case(("da", str(info)))
        ctx.count(f"search:da:stats={['zeros', 'ones', 'random', 'random'][kind]}")
        if not ok:
            bad += 1
            ctx.fail("da:recursion", f"dual averaging deviates from the documented recursion (step size {e!r} vs {e_ref!r}, smoothed {st['smoothed_log_step_size']!r} vs {sm_ref!r})", dict(info, stats=stats))
            continue
        ad.finalize(st, state, trans, rng)
        if not abs(math.log(integ.step_size) - ref[-1][1]) <= 1e-9 * max(1, abs(ref[-1][1])):
            bad += 1
            ctx.fail("da:finalize", f"finalised step size {integ.step_size!r} is not exp(smoothed iterate) = {math.exp(ref[-1][1])!r}", dict(info, stats=stats))
        # multi-chain reducers
        sms = rng.normal(size=int(rng.integers(2, 6))).tolist()
        for red, f in ((None, lambda v: np.mean(np.exp(v))), (arithmetic_mean_log_step_size_reducer, lambda v: np.mean(np.exp(v))),
                       (geometric_mean_log_step_size_reducer, lambda v: math.exp(np.mean(v))), (min_log_step_size_reducer, lambda v: math.exp(min(v))),
                       (lambda v: 7.0, lambda v: 7.0)):
            ad2 = DualAveragingStepSizeAdapter(log_step_size_reducer=red)
            ad2.finalize([{"smoothed_log_step_size": s} for s in sms], [state] * len(sms), trans, [rng] * len(sms))
            if not abs(integ.step_size - f(sms)) <= 1e-12 * max(1, abs(f(sms))):
                bad += 1
                ctx.fail("da:reducer", f"multi-chain finalize with reducer {getattr(red, '__name__', red)} gives {integ.step_size!r}, expected {f(sms)!r}", dict(smoothed=sms))
    # ---- variance / covariance against NumPy on the pooled sample
    partitions = [(2, 10, 12), (1, 1, 1, 21), (1, 1), (5,), (2,), (12, 2, 10), (3, 3, 3, 3), (1, 30), (30, 1), (7, 1, 1, 9, 2)]
    for rep in range(2 if not ctx.thorough else 10):
        for part in partitions:
            for off in (0.0, 1e3, 1e6):
                d = 3
                N = sum(part)
                L = rng.standard_normal((d, d))
                X = off * np.array([1.0, -2.0, 0.5]) + rng.standard_normal((N, d)) @ L.T
                chains, k = [], 0
                for s in part:
                    chains.append(X[k:k + s].tolist())
                    k += s
                for o, scale in ((5, 1e-3), (0, 1e-3), (50, 0.3), (None, 1e-3)):
                    for cls in (OnlineVarianceMetricAdapter, OnlineCovarianceMetricAdapter):
                        if o is None and cls is OnlineCovarianceMetricAdapter:
                            continue
                        if cls is OnlineCovarianceMetricAdapter and not o and N <= d:
                            ctx.count("search:singular-estimate-without-regularisation")   # rank-deficient by construction: no metric exists (documented)
                            continue
                        perm = rng.permutation(len(chains))
                        results = []
                        try:
                            for order in (range(len(chains)), perm):
                                ch = [chains[j] for j in order]
                                ad = cls(reg_iter_offset=o, reg_scale=scale)
                                tr, cstates = run_metric_adapter(ad, ch)
                                results.append((tr, cstates))
                        except (mici.errors.LinAlgError, ValueError):
                            if not o and N <= d + 1:
                                ctx.count("search:singular-estimate-without-regularisation")
                                continue
                            raise
                        tr, cstates = results[0]
                        oo = 0 if o is None else o
                        w = N / (oo + N)
                        if cls is OnlineVarianceMetricAdapter:
                            ref = np.var(X, axis=0, ddof=1) * w + (scale * oo / (oo + N) if oo else 0)
                            est = 1.0 / np.asarray(tr.system.metric.diagonal)
                            est2 = 1.0 / np.asarray(results[1][0].system.metric.diagonal)
                            want_type = "PositiveDiagonalMatrix"
                        else:
                            ref = np.cov(X.T, ddof=1) * w + np.eye(d) * scale * oo / (oo + N)
                            est = np.linalg.inv(np.asarray(tr.system.metric.array))
                            est2 = np.linalg.inv(np.asarray(results[1][0].system.metric.array))
                            want_type = "DensePositiveDefiniteMatrix"
                        tol = 1e-9 if off == 0 else (2e-6 if off == 1e3 else 2e-3)      # rounding of the online updates grows with offset / spread (and is amplified by the inverse when unregularised)
                        info = dict(adapter=cls.__name__, partition=list(part), offset=off, reg_iter_offset=o, reg_scale=scale, seed_rep=rep)
                        ctx.case(("metric", cls.__name__, part, off, o, rep))
                        ctx.count(f"search:{cls.__name__}:chains={len(part)}")
                        # the estimate is recovered by inverting the metric the adapter set (itself an inverse): allow for the conditioning of the estimate
                        cond = float(np.linalg.cond(ref)) if np.ndim(ref) == 2 else float(np.max(ref) / np.min(ref))
                        tol = max(tol, 1e-12 * cond)
                        e1 = np.abs(est - ref).max() / np.abs(ref).max()
                        e2 = np.abs(est2 - est).max() / np.abs(ref).max()
                        if not (e1 <= tol and e2 <= tol):
                            bad += 1
                            ctx.fail(f"metric:{cls.__name__}:pooled", f"{cls.__name__} over chains of lengths {part} (offset {off:g}, reg offset {o}): estimate differs from the regularised pooled "
                                     f"sample {'variance' if 'Var' in cls.__name__ else 'covariance'} by {e1:.2e} (relative); chain order changes it by {e2:.2e}", dict(info, positions=X.tolist()))
                            continue
                        # the metric is the inverse of the estimate, of the documented type, and every chain's momentum is redrawn under it
                        inv_name = type(tr.system.metric).__name__
                        redrawn = True
                        for j, cs in enumerate(cstates):
                            r2 = np.random.default_rng(3 + j)
                            want = tr.system.sample_momentum(cs, r2)
                            redrawn &= bool(np.allclose(cs.mom, want, rtol=1e-12, atol=1e-12)) and not np.all(cs.mom == 0)
                        if not redrawn:
                            bad += 1
                            ctx.fail(f"metric:{cls.__name__}:momenta", f"{cls.__name__}.finalize: momenta are not redrawn under the new metric for every chain (metric type {inv_name})", info)
    ctx.oblige("search: dual averaging through the real initialize on Gaussian targets of 3 scales (initial step size at a log 2 crossing; regularisation target None / 0.0 / 0 / "
               "negative / positive; all-0, all-1 and random statistics; against an independent Hoffman-Gelman reference; single and multi-chain finalisation with all reducers); "
               "variance / covariance adapters against NumPy on the pooled sample for 10 partitions incl. (2,10,12), (1,1,1,21), (1,1), permuted chain order, offsets up to 1e6, "
               "4 regularisation settings; metric inverse; momenta redrawn", bad == 0, f"{bad} failures")


def run(ctx):
    ctx.rule = "per history / partition / setting: adapter output vs exact model (correspondence) and vs independent reference (search)"
    ctx.assume("exp, log and non-integer powers are arbitrary functions in the theorems (positivity / monotonicity / 1^kappa = 1 assumed where stated); floats are compared to the exact "
               "model within 1e-8..1e-9 relative",
               "chains handed to finalize are non-empty (a partition has non-empty parts); reg_iter_offset >= 0; log_step_size_reg_coefficient != 0; iter_offset >= 0",
               "that the momenta are redrawn under the new metric is matched syntactically by the translator and checked on the implementation by the search")
    ctx.trust("translator T8 (adapters.py -> Gen/AdaptersGen.v, fail closed) and the whole-history assembly Model/AdaptersModel.v")
    ok = ctx.regen("AdaptersGen", translate_adapters.generate)
    model_ok = ok and ctx.build(["Gen/AdaptersGen.vo", "Model/AdaptersModel.vo"], label="executable model")
    if model_ok:
        if ctx.build(["Props/C17.vo"]):
            ctx.props()
        correspondence(ctx)
    search(ctx)
