"""A zoo of instances of every matrix class of mici.matrices (every constructor option) with their dense meaning."""
from __future__ import annotations

import numpy as np
import scipy.linalg as sla

import mici.matrices as mm

KINDS = ["identity", "pscaled", "scaled", "pdiag", "diag", "tri", "invtri", "trifac", "trifacpd", "densedef", "densepd", "densesq", "densesym",
         "orth", "sorth", "eigsym", "eigpd", "softabs", "blockdiag", "symblockdiag", "pdblockdiag", "lowrank_sq", "lowrank_sym", "lowrank_pd",
         "lowrank_pd_down", "pdproduct", "invlu",
         # optional precomputed factors supplied at construction (any consistent order of the eigendecomposition is legitimate)
         "densesym_ev", "densesym_evec", "densesym_both", "densesq_lu", "densesq_lut", "densedef_fac", "densepd_fac",
         # derived objects: the base object has been USED (factorisations / inverse / capacitance cached) and is then rescaled, which hands the
         # cached pieces on to the new object
         "used*densepd", "used*densedef", "used*densesq", "used*densesym", "used*trifacpd", "used*eigpd", "used*lowrank_pd", "used*lowrank_pd_down",
         "used*lowrank_sym", "used*pdproduct"]
LEAF18 = KINDS[:18]


def spd(rng, n, scale=1.0):
    a = rng.standard_normal((n, n))
    return scale * (a @ a.T / n + np.eye(n))


def orth(rng, n):
    return np.linalg.qr(rng.standard_normal((n, n)))[0]


def touch(m):
    """populate every lazily computed piece of a matrix object"""
    for a in ("inv", "log_abs_det", "sqrt", "eigval", "eigvec", "T", "diagonal"):
        try:
            v = getattr(m, a)
            if a in ("inv", "sqrt"):
                np.asarray(v.array)
        except (NotImplementedError, AttributeError, RuntimeError):
            pass


def make_leaf(rng, n, kind):
    """-> (matrix object, dense array it must represent)"""
    if kind.startswith("used*"):
        m, d = make_leaf(rng, n, kind[5:])
        touch(m)
        s = float(rng.choice([0.3, 2.5, 7.0]))
        return (m / s, d / s) if rng.integers(2) else (s * m, s * d)
    if kind == "identity":
        return mm.IdentityMatrix(n), np.eye(n)
    if kind == "pscaled":
        s = float(rng.uniform(0.5, 2))
        return mm.PositiveScaledIdentityMatrix(s, n), s * np.eye(n)
    if kind == "scaled":
        s = float(rng.choice([-1, 1]) * rng.uniform(0.5, 2))
        return mm.ScaledIdentityMatrix(s, n), s * np.eye(n)
    if kind == "pdiag":
        d = rng.uniform(0.5, 2, n)
        return mm.PositiveDiagonalMatrix(d), np.diag(d)
    if kind == "diag":
        d = rng.uniform(0.5, 2, n) * rng.choice([-1, 1], n)
        return mm.DiagonalMatrix(d), np.diag(d)
    if kind in ("tri", "invtri", "trifac", "trifacpd"):
        lower = bool(rng.integers(2))
        a = rng.standard_normal((n, n)) + 3 * np.eye(n)
        t = np.tril(a) if lower else np.triu(a)
        if kind == "tri":
            return mm.TriangularMatrix(a, lower=lower), t
        if kind == "invtri":
            return mm.InverseTriangularMatrix(a, lower=lower), np.linalg.inv(t)
        if kind == "trifac":
            sign = int(rng.choice([-1, 1]))
            return mm.TriangularFactoredDefiniteMatrix(a, sign=sign, factor_is_lower=lower), sign * t @ t.T
        return mm.TriangularFactoredPositiveDefiniteMatrix(a, factor_is_lower=lower), t @ t.T
    if kind == "densedef":
        pd = bool(rng.integers(2))
        a = spd(rng, n)
        a = a if pd else -a
        return mm.DenseDefiniteMatrix(a, is_posdef=pd), a
    if kind == "densepd":
        a = spd(rng, n)
        return mm.DensePositiveDefiniteMatrix(a), a
    if kind == "densesq":
        a = rng.standard_normal((n, n)) + 2 * np.eye(n)
        if rng.integers(2):
            a = np.asfortranarray(a)        # memory layout is not part of a matrix's value
        return mm.DenseSquareMatrix(a), a.copy()
    if kind == "invlu":
        a = rng.standard_normal((n, n)) + 2 * np.eye(n)
        tr = bool(rng.integers(2))
        return mm.InverseLUFactoredSquareMatrix(a, sla.lu_factor(a.T if tr else a), inv_lu_transposed=tr), np.linalg.inv(a)
    if kind == "densesym":
        a = rng.standard_normal((n, n))
        a = a + a.T + 3 * np.eye(n)
        return mm.DenseSymmetricMatrix(a), a
    if kind.startswith("densesym_"):
        a = rng.standard_normal((n, n))
        a = a + a.T + 3 * np.eye(n)
        w, v = np.linalg.eigh(a)
        perm = rng.permutation(n) if n > 1 else np.arange(n)
        if n > 1 and np.all(perm == np.arange(n)):
            perm = perm[::-1].copy()
        if kind == "densesym_ev":
            return mm.DenseSymmetricMatrix(a, eigval=w[perm].copy()), a
        if kind == "densesym_evec":
            return mm.DenseSymmetricMatrix(a, eigvec=v[:, perm].copy()), a
        return mm.DenseSymmetricMatrix(a, eigvec=v[:, perm].copy(), eigval=w[perm].copy()), a
    if kind in ("densesq_lu", "densesq_lut"):
        a = rng.standard_normal((n, n)) + 2 * np.eye(n)
        tr = kind.endswith("t")
        return mm.DenseSquareMatrix(a, lu_and_piv=sla.lu_factor(a.T if tr else a), lu_transposed=tr), a
    if kind in ("densedef_fac", "densepd_fac"):
        a = spd(rng, n)
        lower = bool(rng.integers(2))
        c = np.linalg.cholesky(a)
        fac = mm.TriangularMatrix(c if lower else c.T.copy(), lower=lower) if lower else None
        if fac is None:     # an upper factor U with U U^T = a
            r = np.linalg.cholesky(a[::-1, ::-1])[::-1, ::-1]
            fac = mm.TriangularMatrix(r, lower=False)
        if kind == "densepd_fac":
            return mm.DensePositiveDefiniteMatrix(a, factor=fac), a
        pd = bool(rng.integers(2))
        return mm.DenseDefiniteMatrix(a if pd else -a, factor=fac, is_posdef=pd), (a if pd else -a)
    if kind == "orth":
        q = orth(rng, n)
        return mm.OrthogonalMatrix(q), q
    if kind == "sorth":
        q = orth(rng, n)
        s = float(rng.choice([-1, 1]) * rng.uniform(0.5, 2))
        return mm.ScaledOrthogonalMatrix(s, q), s * q
    if kind == "eigsym":
        q = orth(rng, n)
        e = rng.uniform(0.5, 2, n) * rng.choice([-1, 1], n)
        return mm.EigendecomposedSymmetricMatrix(q, e), (q * e) @ q.T
    if kind == "eigpd":
        q = orth(rng, n)
        e = rng.uniform(0.5, 2, n)
        return mm.EigendecomposedPositiveDefiniteMatrix(q, e), (q * e) @ q.T
    if kind == "softabs":
        a = rng.standard_normal((n, n))
        a = a + a.T
        c = float(rng.uniform(0.5, 2))
        ev, evec = np.linalg.eigh(a)
        return mm.SoftAbsRegularizedPositiveDefiniteMatrix(a, c), (evec * (ev / np.tanh(ev * c))) @ evec.T
    if kind in ("blockdiag", "symblockdiag", "pdblockdiag"):
        base = {"blockdiag": "densesq", "symblockdiag": "densesym", "pdblockdiag": "densepd"}[kind]
        if n < 2:
            return make_leaf(rng, n, base)
        k = int(rng.integers(1, n))
        ka, kb, cls = {"blockdiag": (["densesq", "tri", "diag", "orth"], ["densesq", "pdiag", "densesym"], mm.SquareBlockDiagonalMatrix),
                       "symblockdiag": (["densesym", "diag", "eigsym"], ["densepd", "pdiag", "densesym"], mm.SymmetricBlockDiagonalMatrix),
                       "pdblockdiag": (["densepd", "pdiag", "eigpd", "trifacpd", "pscaled"], ["densepd", "pdiag", "softabs"],
                                       mm.PositiveDefiniteBlockDiagonalMatrix)}[kind]
        a, da = make_leaf(rng, k, str(rng.choice(ka)))
        b, db = make_leaf(rng, n - k, str(rng.choice(kb)))
        return cls((a, b)), sla.block_diag(da, db)
    if kind.startswith("lowrank"):
        k = max(1, n // 2)
        U = 0.3 * rng.standard_normal((n, k))
        with_cap = bool(rng.integers(2))
        if kind == "lowrank_sq":
            V = 0.3 * rng.standard_normal((k, n))
            A, dA = make_leaf(rng, n, str(rng.choice(["densesq", "pdiag", "densepd"])))
            C, dC = make_leaf(rng, k, str(rng.choice(["densesq", "pdiag"])))
            s = int(rng.choice([-1, 1]))
            cap = mm.DenseSquareMatrix(np.linalg.inv(dC) + s * V @ np.linalg.solve(dA, U)) if with_cap else None
            return mm.SquareLowRankUpdateMatrix(mm.DenseRectangularMatrix(U), mm.DenseRectangularMatrix(V), A, C, capacitance_matrix=cap, sign=s), dA + s * U @ dC @ V
        if kind == "lowrank_sym":
            A, dA = make_leaf(rng, n, str(rng.choice(["densesym", "pdiag", "densepd"])))
            C, dC = make_leaf(rng, k, str(rng.choice(["densesym", "pdiag"])))
            s = int(rng.choice([-1, 1]))
            return mm.SymmetricLowRankUpdateMatrix(mm.DenseRectangularMatrix(U), A, C, sign=s), dA + s * U @ dC @ U.T
        A, dA = make_leaf(rng, n, str(rng.choice(["pdiag", "densepd", "pscaled"])))
        C, dC = make_leaf(rng, k, str(rng.choice(["densepd", "pdiag"])))
        s = -1 if kind.endswith("down") else 1
        if s == -1:
            # keep the downdate positive definite with a margin: largest eigenvalue of A^-1 U C U^T scaled to 0.5
            lam = np.max(np.abs(np.linalg.eigvals(np.linalg.solve(dA, U @ dC @ U.T))))
            U = U * np.sqrt(0.5 / max(lam, 1e-12))
        return mm.PositiveDefiniteLowRankUpdateMatrix(mm.DenseRectangularMatrix(U), A, C, sign=s), dA + s * U @ dC @ U.T
    if kind == "pdproduct":
        k = n + int(rng.integers(1, 3))
        R = rng.standard_normal((n, k))
        P, dP = make_leaf(rng, k, str(rng.choice(["pdiag", "densepd"])))
        return mm.DensePositiveDefiniteProductMatrix(R, P), R @ dP @ R.T
    raise KeyError(kind)
