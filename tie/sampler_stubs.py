"""Recording stub transition / adapters / trace function mirroring coq/Model/SamplerInst.v, built on the
public mici API, and a driver that runs the real sample_chains with them."""
from __future__ import annotations

import numpy as np

import mici
from mici.adapters import Adapter
from mici.samplers import MarkovChainMonteCarloMethod, _get_per_chain_rngs
from mici.stagers import ChainStage, Stager
from mici.states import ChainState
from mici.transitions import Transition

MOD = 1000003


class Interrupter:
    """Counts calls of user callbacks and raises KeyboardInterrupt at entry of the k-th (0-based)."""

    def __init__(self, k=None):
        self.k, self.n = k, 0

    def tick(self):
        n = self.n
        self.n += 1
        if self.k is not None and n == self.k:
            raise KeyboardInterrupt


class TraceFn:
    """Picklable trace function; its first call (made by _init_traces to size the arrays, before sampling starts) is not counted."""

    def __init__(self, intr):
        self.intr, self.first = intr, True

    def __call__(self, state):
        if self.first:
            self.first = False
        else:
            self.intr.tick()
        return {"v": float(2 * int(state.pos[0]) + 1)}


class RecTransition(Transition):
    def __init__(self, pp, pq, intr):
        self.pp, self.pq, self.intr, self.log = pp, pq, intr, []

    @property
    def state_variables(self):
        return {"pos"}

    @property
    def statistic_types(self):
        return {"s": (np.int64, -1)}

    def sample(self, state, rng):
        self.intr.tick()
        self.log.append(self.pp * 1000 + self.pq)
        d = int(rng.integers(0, 1000))
        v = (31 * int(state.pos[0]) + 7 * self.pp + 3 * self.pq + d) % MOD
        new = state.copy()
        new.pos = np.array([v], dtype=np.int64)
        return new, {"s": self.pp * 1000 + self.pq}


class FastAdapter(Adapter):
    is_fast = True

    def __init__(self, intr=None):
        self.intr = intr

    def initialize(self, chain_state, transition):
        if self.intr is not None:
            self.intr.tick()          # like the initial step size search: calls user model functions
        transition.pp = int(chain_state.pos[0]) % 3 + 50
        return {"sum": 0}

    def update(self, adapt_state, chain_state, trans_stats, transition):
        adapt_state["sum"] += int(chain_state.pos[0])
        transition.pp = adapt_state["sum"] % 7 + 1

    def finalize(self, adapt_states, chain_states, transition, rngs):
        if isinstance(adapt_states, dict):
            adapt_states = [adapt_states]
        transition.pp = sum(a["sum"] for a in adapt_states) % 11 + 10


class SlowAdapter(Adapter):
    is_fast = False

    def initialize(self, chain_state, transition):
        return {"sum": 0}

    def update(self, adapt_state, chain_state, trans_stats, transition):
        adapt_state["sum"] += 2 * int(chain_state.pos[0])
        transition.pq = adapt_state["sum"] % 5 + 1

    def finalize(self, adapt_states, chain_states, transition, rngs):
        if isinstance(adapt_states, dict):
            adapt_states = [adapt_states]
        transition.pq = sum(a["sum"] for a in adapt_states) % 13 + 20
        # like the metric adapters: refresh a state variable of every chain with that chain's generator
        for st, rng in zip(chain_states, rngs, strict=True):
            st.pos = np.array([(int(st.pos[0]) + int(rng.integers(0, 1000))) % MOD], dtype=np.int64)


class ListStager(Stager):
    """Stager returning a given list of (n_iter, ads, traced, stats)."""

    def __init__(self, spec):
        self.spec = spec

    def stages(self, n_warm_up_iter, n_main_iter, adapters, trace_funcs, *, trace_warm_up=False):
        out = {}
        fast = {k: [a for a in v if a.is_fast] for k, v in (adapters or {}).items()}
        for i, (n, ads, traced, stats) in enumerate(self.spec):
            out[f"stage {i}"] = ChainStage(n_iter=n, adapters={"All": adapters, "Fast": fast, "NoAd": None}[ads],
                                           trace_funcs=tuple(trace_funcs) if traced and trace_funcs is not None else None,
                                           record_stats=stats)
        return out


def draws_table(seed, n_chain, n_draw, bitgen="PCG64"):
    rng = np.random.Generator(getattr(np.random, bitgen)(seed))
    return [[int(x) for x in r.integers(0, 1000, size=n_draw)] for r in _get_per_chain_rngs(rng, n_chain)]


def run_real(seed, inits, p0, n_warm, n_main, stager, adapters_on, has_trace, trace_warm_up, intr_k=None, n_process=1,
             force_memmap=False, memmap_path=None, bitgen="PCG64", init_kind="state"):
    """Run the real sample_chains; return the observable outcome in the model's format."""
    intr = Interrupter(intr_k)
    trans = RecTransition(p0[0], p0[1], intr)
    rng = np.random.Generator(getattr(np.random, bitgen)(seed))
    sampler = MarkovChainMonteCarloMethod(rng, {"t": trans})

    trace = TraceFn(intr)

    if init_kind == "state":
        init_states = [ChainState(pos=np.array([v], dtype=np.int64)) for v in inits]
    else:
        init_states = [{"pos": np.array([v], dtype=np.int64)} for v in inits]
    adapters = {"t": [FastAdapter(intr), SlowAdapter()]} if adapters_on else None
    if adapters_on == "fast":
        adapters = {"t": [FastAdapter(intr)]}
    out = sampler.sample_chains(n_warm, n_main, init_states, trace_funcs=[trace] if has_trace else None, adapters=adapters,
                                stager=stager, n_process=n_process, trace_warm_up=trace_warm_up, display_progress=False,
                                force_memmap=force_memmap, memmap_path=memmap_path)
    final_states, traces, stats = out
    tr = [[-1 if np.isnan(x) else int(x) for x in np.asarray(a)] for a in traces["v"]] if traces is not None else None
    st = [[int(x) for x in np.asarray(a)] for a in stats["t"]["s"]]
    fs = [int(s.pos[0]) for s in final_states]
    return {"traces": tr, "stats": st, "final": fs, "par": [trans.pp, trans.pq], "parlog": list(trans.log),
            "interrupted": int(intr.k is not None and intr.n > intr.k), "calls": intr.n}
