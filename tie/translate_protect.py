"""T6: exception flow of src/mici/solvers.py, transitions.py, errors.py -> coq/Gen/ProtectGen.v  (fail closed).

For every iterative solver: the exception classes caught by the handler around its iteration loop and what the handler
raises; the calls reaching system / user functions that sit OUTSIDE that try block (unprotected sites); that every
`return` inside the loop is guarded by the convergence test and the fall-through raises ConvergenceError.  For
transitions.py: that integrator.step calls sit inside `try ... except IntegratorError`.  For errors.py: the class hierarchy."""
from __future__ import annotations

import ast

from common import REPO, Untranslatable

SOLVERS = ["solve_fixed_point_direct", "solve_fixed_point_steffensen", "solve_projection_onto_manifold_quasi_newton",
           "solve_projection_onto_manifold_newton", "solve_projection_onto_manifold_newton_with_line_search"]


def calls_in(node):
    out = []
    for n in ast.walk(node):
        if isinstance(n, ast.Call):
            f = ast.unparse(n.func)
            if f.startswith("system.") or f in ("func",):
                out.append(f)
    return out


def handler_names(h):
    if h.type is None:
        return ["BaseException"]
    if isinstance(h.type, ast.Tuple):
        return [ast.unparse(e) for e in h.type.elts]
    return [ast.unparse(h.type)]


def raises_name(stmts):
    for n in stmts:
        for m in ast.walk(n):
            if isinstance(m, ast.Raise) and m.exc is not None:
                return ast.unparse(m.exc.func) if isinstance(m.exc, ast.Call) else ast.unparse(m.exc)
    return None


def solver_row(fn):
    name = fn.name
    body = [s for s in fn.body if not (isinstance(s, ast.Expr) and isinstance(s.value, ast.Constant))]
    tries = [s for s in ast.walk(fn) if isinstance(s, ast.Try)]
    loops = [s for s in ast.walk(fn) if isinstance(s, ast.For) and ast.unparse(s.iter) == "range(max_iters)"]
    if len(tries) != 1 or len(loops) != 1:
        raise Untranslatable(f"solvers.py:{fn.lineno}: {name} must have exactly one try block and one `for i in range(max_iters)` loop")
    tr, loop = tries[0], loops[0]
    # the try must contain the loop or be the loop's whole body
    inside = any(n is loop for n in ast.walk(tr)) or (len(loop.body) == 1 and loop.body[0] is tr)
    if not inside:
        raise Untranslatable(f"solvers.py:{tr.lineno}: {name}: the try block and the iteration loop are not nested")
    if len(tr.handlers) != 1 or tr.finalbody or tr.orelse:
        raise Untranslatable(f"solvers.py:{tr.lineno}: {name}: expected a single except clause")
    handlers = handler_names(tr.handlers[0])
    hraise = raises_name(tr.handlers[0].body)
    # calls reaching user / system functions outside the try
    protected = set(id(n) for n in ast.walk(tr))
    unprot = sorted({ast.unparse(n.func) for n in ast.walk(fn) if isinstance(n, ast.Call) and id(n) not in protected
                     and (ast.unparse(n.func).startswith("system.") or ast.unparse(n.func) == "func")})
    # every return inside the loop is inside an `if` whose test mentions the tolerance
    for r in [n for n in ast.walk(loop) if isinstance(n, ast.Return)]:
        guards = [i for i in ast.walk(loop) if isinstance(i, ast.If) and any(m is r for m in ast.walk(i))]
        if not any("_tol" in ast.unparse(g.test) and "error <" in ast.unparse(g.test) for g in guards):
            raise Untranslatable(f"solvers.py:{r.lineno}: {name}: return not guarded by the convergence test")
    # divergence test present (error > divergence_tol or isnan)
    div = [i for i in ast.walk(loop) if isinstance(i, ast.If) and "divergence_tol" in ast.unparse(i.test) and "isnan" in ast.unparse(i.test)]
    if not div or raises_name(div[0].body) != "ConvergenceError":
        raise Untranslatable(f"solvers.py:{loop.lineno}: {name}: divergence / NaN test raising ConvergenceError not found")
    # fall-through after the loop raises ConvergenceError
    last = body[-1]
    if not (isinstance(last, ast.Raise) and raises_name([last]) == "ConvergenceError"):
        raise Untranslatable(f"solvers.py:{last.lineno}: {name}: does not end by raising ConvergenceError")
    return name, handlers, hraise, unprot


def generate():
    src = {f: (REPO / f"src/mici/{f}.py").read_text() for f in ("solvers", "transitions", "errors")}
    et = ast.parse(src["errors"])
    bases = [(n.name, [ast.unparse(b) for b in n.bases]) for n in et.body if isinstance(n, ast.ClassDef)]
    st = ast.parse(src["solvers"])
    imp = [n for n in st.body if isinstance(n, ast.ImportFrom) and n.module == "mici.errors"]
    if not any({"ConvergenceError", "LinAlgError"} <= {a.name for a in n.names} for n in imp):
        raise Untranslatable("solvers.py no longer imports ConvergenceError, LinAlgError from mici.errors")
    fns = {n.name: n for n in st.body if isinstance(n, ast.FunctionDef)}
    rows = []
    for s in SOLVERS:
        if s not in fns:
            raise Untranslatable(f"solver {s} missing")
        rows.append(solver_row(fns[s]))
    tt = ast.parse(src["transitions"])
    sites = []
    for fn in [n for n in ast.walk(tt) if isinstance(n, ast.FunctionDef)]:
        for c in [n for n in ast.walk(fn) if isinstance(n, ast.Call) and ast.unparse(n.func) == "self.integrator.step"]:
            tries = [t for t in ast.walk(fn) if isinstance(t, ast.Try) and any(m is c for b in t.body for m in ast.walk(b))]
            hs = sorted({h for t in tries for hd in t.handlers for h in handler_names(hd)})
            sites.append((fn.name, hs))
    pie = next((n for n in tt.body if isinstance(n, ast.FunctionDef) and n.name == "_process_integrator_error"), None)
    if pie is None:
        raise Untranslatable("_process_integrator_error missing")
    flags = []
    for n in ast.walk(pie):
        if isinstance(n, ast.If) and isinstance(n.test, ast.Call) and ast.unparse(n.test.func) == "isinstance":
            tgt = n.body[0]
            if isinstance(tgt, ast.Assign) and ast.unparse(tgt.value) == "True":
                flags.append((ast.unparse(n.test.args[1]), '"' + tgt.targets[0].slice.value + '"'))

    def sl(xs):
        return "[" + "; ".join(f'"{x}"' for x in xs) + "]"
    out = ["(* generated by tie/translate_protect.py (T6) from src/mici/{solvers,transitions,errors}.py -- do not edit *)",
           "From Coq Require Import List String.", "Import ListNotations.", "Open Scope string_scope.", "",
           "Definition gen_error_bases : list (string * list string) :=\n  [" + ";\n   ".join(f'("{c}", {sl(b)})' for c, b in bases) + "].\n",
           "(* solver, exception classes caught around the iteration loop, what the handler raises, system/user calls outside the try *)",
           "Definition gen_solvers : list (string * list string * string * list string) :=\n  [" + ";\n   ".join(
               f'("{n}", {sl(h)}, "{r}", {sl(u)})' for n, h, r, u in rows) + "].\n",
           "(* functions of transitions.py calling integrator.step, with the exception classes caught around the call *)",
           "Definition gen_step_sites : list (string * list string) :=\n  [" + ";\n   ".join(f'("{f}", {sl(h)})' for f, h in sites) + "].\n",
           "Definition gen_error_flags : list (string * string) :=\n  [" + "; ".join(f'("{c}", {f})' for c, f in flags) + "].\n"]
    return "\n".join(out)


if __name__ == "__main__":
    print(generate())
