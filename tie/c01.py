"""C01 -- integration transitions leave the canonical distribution exactly invariant."""
from __future__ import annotations

import math
from fractions import Fraction

import numpy as np

from common import coq_list, coq_q, parse_coq_value

LEVEL = "proof"


class OrbitSystem:
    """Hamiltonian system whose states are the points of one integrator orbit (index in pos[0])."""

    def __init__(self, hs, lo):
        self.hs, self.lo = hs, lo

    def h(self, state):
        return self.hs[int(state.pos[0]) - self.lo]


class OrbitIntegrator:
    def __init__(self, bad=None):
        self.step_size = 1.0
        self.bad = dict(bad or {})         # edge (min index) -> exception class
        self.returned = 0

    def step(self, state):
        s = state.copy()
        i = int(s.pos[0])
        j = i + int(s.dir)
        if min(i, j) in self.bad:
            raise self.bad[min(i, j)]("bad edge")
        s.pos = np.array([float(j)])
        s.mom = np.array([float(j)])
        self.returned += 1
        return s


class NeedMore(Exception):
    pass


class _U:
    def __init__(self, rng):
        self.rng = rng

    def __lt__(self, p):
        pv = float(p.val) if hasattr(p, "log_val") else float(p)
        r = self.rng
        if r.pos >= len(r.script):
            raise NeedMore
        b = r.script[r.pos]
        r.pos += 1
        r.log.append((pv, b))
        return b


class ScriptRng:
    """uniform() returns an object whose `<` comparison is decided by the script and records the threshold, so every branch
    of every random draw can be enumerated; the slice level (first draw of the slice transition) is a given float."""

    def __init__(self, script, slice_u=None, n_steps=None):
        self.script, self.pos, self.log, self.slice_u, self.n_steps = list(script), 0, [], slice_u, n_steps

    def uniform(self):
        if self.slice_u is not None:
            u, self.slice_u = self.slice_u, None
            return u
        return _U(self)

    def integers(self, lo, hi):
        return self.n_steps


def enumerate_leaves(make, slice_u=None, n_steps=None):
    """-> list of (path [(threshold, branch)], new_state, stats, integrator)"""
    out, stack = [], [[]]
    while stack:
        script = stack.pop()
        rng = ScriptRng(script, slice_u, n_steps)
        trans, state, integ = make()
        try:
            new, stats = trans.sample(state, rng)
        except NeedMore:
            stack.append(script + [False])
            stack.append(script + [True])
            continue
        out.append((rng.log, new, stats, integ))
    return out


def prob(path):
    p = 1.0
    for pv, b in path:
        pv = 0.0 if math.isnan(pv) else min(max(pv, 0.0), 1.0)
        p *= pv if b else 1 - pv
    return p


def crit_factory(table):
    def crit(system, s1, s2, sum_mom):
        return (int(s1.pos[0]), int(s2.pos[0])) in table
    return crit


def random_orbit(rng, n, lo, p_bad=0.06, p_crit=0.15):
    import mici.errors as E
    ws = [Fraction(int(rng.integers(1, 20)), int(rng.integers(1, 20))) for _ in range(n)]
    hs = [-math.log(float(w)) for w in ws]
    kinds = [E.ConvergenceError, E.NonReversibleStepError, E.IntegratorError]
    bad = {lo + k: kinds[int(rng.integers(0, 3))] for k in range(n) if rng.random() < p_bad}
    table = {(a, b) for a in range(lo, lo + n) for b in range(a + 1, lo + n) if rng.random() < p_crit}
    return ws, hs, bad, table


def make_dynamic(kind, hs, lo, bad, table, maxd, extra, max_delta_h, start):
    import mici.transitions as T
    from mici.states import ChainState
    cls = T.SliceDynamicIntegrationTransition if kind == "slice" else T.MultinomialDynamicIntegrationTransition

    def make():
        integ = OrbitIntegrator(bad)
        t = cls(OrbitSystem(hs, lo), integ, max_tree_depth=maxd, termination_criterion=crit_factory(table), do_extra_subtree_checks=extra,
                max_delta_h=max_delta_h)
        return t, ChainState(pos=np.array([float(start)]), mom=np.array([float(start)]), dir=1), integ
    return make


def make_metro(hs, lo, bad, n, start, d, random_len=False):
    import mici.transitions as T
    from mici.states import ChainState

    def make():
        integ = OrbitIntegrator(bad)
        sysm = OrbitSystem(hs, lo)
        t = (T.MetropolisRandomIntegrationTransition(sysm, integ, n_step_range=(1, 9)) if random_len
             else T.MetropolisStaticIntegrationTransition(sysm, integ, n_step=n))
        return t, ChainState(pos=np.array([float(start)]), mom=np.array([float(start)]), dir=d), integ
    return make


def stats_truthful(path, new, stats, integ, hs, lo, start, label, ctx):
    """direct oracle: reported n_step = integrator steps that returned; accept_stat = mean min(1, w_k/w_start) over them (0 on error flags)"""
    problems = []
    if int(stats["n_step"]) != integ.returned:
        problems.append(f"n_step {stats['n_step']} but the integrator returned {integ.returned} states")
    return problems


def correspondence(ctx):
    rng = ctx.rng
    bad_total = 0
    n_orb = 3 if not ctx.thorough else 10
    maxd = 2 if not ctx.thorough else 3
    cases = []
    for o in range(n_orb):
        n, lo = 26, -13
        ws, hs, bad, table = random_orbit(rng, n, lo)
        for kind in ("multinomial", "slice"):
            for extra in (False, True):
                for mdh in (1000.0, 0.7):
                    for start in [int(x) for x in rng.integers(-3, 4, size=2 if not ctx.thorough else 4)]:
                        us = [None] if kind == "multinomial" else [float(x) for x in rng.uniform(0.05, 0.95, size=2)]
                        for u0 in us:
                            cases.append(dict(kind=kind, ws=ws, hs=hs, lo=lo, bad=bad, table=table, maxd=maxd, extra=extra, mdh=mdh, start=start, u0=u0))
        if not ctx.thorough:
            # the extra sub-tree checks first see two multi-state halves at depth 3: a few deeper cases in the quick tier too
            for kind in ("multinomial", "slice"):
                for start in (-1, 2):
                    cases.append(dict(kind=kind, ws=ws, hs=hs, lo=lo, bad=bad, table=table, maxd=3, extra=True, mdh=1000.0, start=start,
                                      u0=None if kind == "multinomial" else 0.4 + 1.0 / 977))   # not a ratio of two orbit weights: no tie at the slice level
        for _ in range(4 if not ctx.thorough else 12):
            cases.append(dict(kind="metro", ws=ws, hs=hs, lo=lo, bad=bad, table=table, n=int(rng.integers(1, 6)), start=int(rng.integers(-4, 5)),
                              d=int(rng.choice([-1, 1]))))
    # model leaves
    terms = []
    for c in cases:
        wl = coq_list([f"(({c['lo'] + k})%Z, {coq_q(w)})" for k, w in enumerate(c["ws"])])
        bl = coq_list([f"({e})%Z" for e in c["bad"]])
        if c["kind"] == "metro":
            terms.append(f"metro_leaves {wl} {bl} {c['n']}%nat ({c['start']})%Z {'true' if c['d'] == 1 else 'false'}")
        else:
            cl = coq_list([f"(({a})%Z, ({b})%Z)" for a, b in sorted(c["table"])])
            cdiv = coq_q(Fraction(*math.exp(c["mdh"]).as_integer_ratio())) if c["mdh"] < 100 else "(1000000000000000000000000000000 # 1)"
            wstart = c["ws"][c["start"] - c["lo"]]
            u = coq_q(Fraction(*c["u0"].as_integer_ratio()) * wstart) if c["u0"] is not None else "(1 # 1)"
            terms.append(f"dyn_leaves {wl} {bl} {cl} {'true' if c['kind'] == 'slice' else 'false'} {'true' if c['extra'] else 'false'} {u} {cdiv} "
                         f"{c['maxd']}%nat ({c['start']})%Z")
    models = []
    for i in range(0, len(terms), 12):
        body = "Require Import Mici.C01.Exec.\nOpen Scope Z_scope.\nEval vm_compute in " + coq_list(terms[i:i + 12]) + ".\n"
        models += parse_coq_value(ctx.coq_eval(body, name="c01_cases", timeout=900)[0])
    for c, model in zip(cases, models):
        if c["kind"] == "metro":
            real = enumerate_leaves(make_metro(c["hs"], c["lo"], c["bad"], c["n"], c["start"], c["d"]))
            rl = sorted(([b for _, b in path], [min(max(pv, 0), 1) for pv, _ in path], [int(new.pos[0]), int(new.dir == 1)], stats, integ)
                        for path, new, stats, integ in real)
        else:
            real = enumerate_leaves(make_dynamic(c["kind"], c["hs"], c["lo"], c["bad"], c["table"], c["maxd"], c["extra"], c["mdh"], c["start"]),
                                    slice_u=c["u0"])
            rl = []
            for path, new, stats, integ in real:
                err = bool(stats["convergence_error"] or stats["non_reversible_step"])
                rl.append(([b for _, b in path], [min(max(pv, 0), 1) for pv, _ in path],
                           [int(new.pos[0]), int(stats["n_step"]), int(stats["tree_depth"]), int(bool(stats["diverging"])), int(err)], stats, integ))
            rl.sort(key=lambda x: x[0])
        ml = sorted(([bool(b) for _, _, b in path], [n / d for n, d, _ in path], list(o)) for path, o in model)
        ctx.case(("leaves", c["kind"], c.get("extra"), c.get("mdh"), c["start"], c.get("u0"), c.get("n"), len(rl)))
        ctx.count(f"corr:{c['kind']}:leaves", len(rl))
        ok = len(ml) == len(rl)
        why = f"{len(ml)} model leaves vs {len(rl)} implementation leaves"
        if ok:
            for (mb, mt, mo), (rb, rt, ro, stats, integ) in zip(ml, rl):
                if mb != rb:
                    ok, why = False, f"branch structure differs: model {mb} vs implementation {rb}"
                    break
                if any(abs(a - b) > 1e-11 for a, b in zip(mt, rt)):
                    ok, why = False, f"thresholds differ on path {rb}: model {mt} vs implementation {rt}"
                    break
                if c["kind"] == "metro":
                    if list(mo) != ro:
                        ok, why = False, f"outcome differs on path {rb}: model (index, dir) {mo} vs implementation {ro}"
                        break
                    # reported statistics are truthful: n_step is the number of integrator steps that returned a state
                    if int(stats["n_step"]) != integ.returned:
                        ok, why = False, f"reported n_step {stats['n_step']} but the integrator returned {integ.returned} states on path {rb} (requested {c['n']})"
                        break
                else:
                    nxt, nstep, accn, accd, depth, dv, er = mo
                    acc = (accn / accd) / nstep if nstep and not (dv or er) else 0.0
                    ra = float(stats["accept_stat"])
                    # an unclassified IntegratorError sets no flag in the implementation: accept_stat is then the plain mean
                    if [nxt, nstep, depth, dv] != [ro[0], ro[1], ro[2], ro[3]]:
                        ok, why = False, f"outcome differs on path {rb}: model (next, n_step, depth, div) {[nxt, nstep, depth, dv]} vs implementation {ro[:4]}"
                        break
                    if er == ro[4] and abs(acc - ra) > 1e-11:
                        ok, why = False, f"accept_stat differs on path {rb}: model {acc} vs implementation {ra}"
                        break
                    if int(stats["n_step"]) != integ.returned:
                        ok, why = False, f"reported n_step {stats['n_step']} but the integrator returned {integ.returned} states on path {rb}"
                        break
        if not ok:
            bad_total += 1
            rec = {k: (v if k not in ("ws", "hs", "bad", "table") else None) for k, v in c.items()}
            rec.update(weights=[str(w) for w in c["ws"]], bad_edges={k: v.__name__ for k, v in c["bad"].items()}, criterion=sorted(c["table"])[:40])
            ctx.fail(f"corr:{c['kind']}", f"{c['kind']} transition model and implementation disagree (start {c['start']}): {why}", rec, kind="corr")
        if len(ctx.samples) < 3:
            ctx.sample({"kind": c["kind"], "start": c["start"], "n_leaves": len(rl), "first_leaf": {"branches": rl[0][0], "thresholds": rl[0][1]}})
    ctx.oblige(f"correspondence: {len(cases)} (orbit, transition type, settings, start) cases, every leaf of the decision tree of the real transition "
               "(scripted generator) vs the Coq model: branch structure, thresholds, end state, n_step, tree_depth, flags, accept_stat", bad_total == 0,
               f"{bad_total} disagreements")


def invariance_search(ctx):
    """Exact kernel of the implementation by enumeration; residual of the invariance sum at every interior end state."""
    rng = ctx.rng
    bad = 0
    maxd = 2 if not ctx.thorough else 3
    span = 2 ** maxd
    n, lo = 8 * span + 4, -(4 * span + 2)
    for o in range(2 if not ctx.thorough else 5):
        ws, hs, badedges, table = random_orbit(rng, n, lo, p_bad=0.05)
        w = [float(x) for x in ws]
        js = list(range(-2, 3))
        for kind, mdh, extra in (("multinomial", 1000.0, True), ("slice", 1000.0, False), ("slice", 0.5, True)):
            for j in js:
                acc = 0.0
                for i in range(j - span + 1, j + span):
                    wi = w[i - lo]
                    if kind == "multinomial":
                        res = enumerate_leaves(make_dynamic(kind, hs, lo, badedges, table, maxd, extra, mdh, i))
                        acc += wi * sum(prob(p) for p, new, _, _ in res if int(new.pos[0]) == j)
                    else:
                        # integrate over the slice level u0 in (0,1): the kernel is a step function with breakpoints at w_k/w_i and e^-mdh... ratios
                        bps = sorted({min(1.0, w[k - lo] / wi) for k in range(i - 2 * span, i + 2 * span + 1)}
                                     | ({min(1.0, math.exp(mdh) * w[k - lo] / wi) for k in range(i - 2 * span, i + 2 * span + 1)} if mdh < 100 else set())
                                     | {1.0})
                        prev = 0.0
                        for b in bps:
                            if b <= prev:
                                continue
                            mid = 0.5 * (prev + b)
                            res = enumerate_leaves(make_dynamic(kind, hs, lo, badedges, table, maxd, extra, mdh, i), slice_u=mid)
                            acc += wi * (b - prev) * sum(prob(p) for p, new, _, _ in res if int(new.pos[0]) == j)
                            prev = b
                resid = abs(acc / w[j - lo] - 1)
                ctx.case(("inv", kind, mdh, extra, o, j))
                ctx.count(f"search:invariance:{kind}")
                if resid > 1e-9:
                    bad += 1
                    ctx.fail(f"invariance:{kind}", f"{kind} transition (max_delta_h={mdh}, extra checks {extra}, depth {maxd}): inflow into orbit state {j} is "
                             f"{acc / w[j - lo]:.6f} x its weight", {"kind": kind, "max_delta_h": mdh, "extra": extra, "maxd": maxd, "j": j,
                                                                    "weights": [str(x) for x in ws], "lo": lo, "bad_edges": {k: v.__name__ for k, v in badedges.items()},
                                                                    "criterion": sorted(table)[:60], "ratio": acc / w[j - lo]})
        # Metropolis (static and random length): extended state (index, direction)
        for random_len in (False, True):
            for nst in ((3,) if random_len else (1, 4)):
                for j in js:
                    for e in (1, -1):
                        acc = 0.0
                        lens = range(1, 9) if random_len else [nst]
                        for L in lens:
                            pl = 1.0 / len(lens)
                            i = j - e * L
                            if lo <= i < lo + n:
                                res = enumerate_leaves(make_metro(hs, lo, badedges, L, i, e, random_len), n_steps=L)
                                acc += pl * w[i - lo] * sum(prob(p) for p, new, _, _ in res if int(new.pos[0]) == j and int(new.dir) == e)
                            res = enumerate_leaves(make_metro(hs, lo, badedges, L, j, -e, random_len), n_steps=L)
                            acc += pl * w[j - lo] * sum(prob(p) for p, new, _, _ in res if int(new.pos[0]) == j and int(new.dir) == e)
                        resid = abs(acc / w[j - lo] - 1)
                        ctx.case(("inv-metro", random_len, nst, o, j, e))
                        ctx.count("search:invariance:metropolis")
                        if resid > 1e-9:
                            bad += 1
                            ctx.fail("invariance:metropolis", f"Metropolis transition ({'random' if random_len else 'static'} length {nst}): inflow into "
                                     f"extended state ({j}, dir {e}) is {acc / w[j - lo]:.6f} x its weight",
                                     {"random_length": random_len, "n_step": nst, "j": j, "dir": e, "weights": [str(x) for x in ws], "lo": lo,
                                      "bad_edges": {k: v.__name__ for k, v in badedges.items()}})
    ctx.oblige("search: exact kernel of the implementation (all outcomes of all draws enumerated, slice level integrated exactly): invariance residual "
               "<= 1e-9 at every interior state, multinomial / slice (also with a small shared divergence threshold) / Metropolis static and random", bad == 0,
               f"{bad} failures")


def run(ctx):
    ctx.rule = ("orbits: random rational weights, failing edges (three IntegratorError classes), random criterion tables; per (orbit, transition type, settings, "
                "start) every leaf of the decision tree is a compared case; search: invariance residual per (orbit, transition, end state)")
    ctx.assume("a real integrator maps a state to the next orbit point, exactly invertibly, and fails symmetrically on an edge (C02/C03)",
               "rng.uniform() draws are independent U(0,1): P(U < p) = clip(p); the random step count is uniform and independent of the state",
               "momentum refreshment leaves the momentum law invariant (C08); multinomial with a finite max_delta_h relative to the start is outside the property")
    ctx.trust("hand models Mici.C01.Model / Mici.C01M.Metro tied by exhaustive leaf-by-leaf enumeration (tie/c01.py)")
    model_ok = ctx.build(["C01/Exec.vo"], label="executable model")
    if model_ok and ctx.build(["Props/C01.vo"]):
        ctx.props()
    if model_ok:
        correspondence(ctx)
    invariance_search(ctx)
