"""C09 -- state-level caching is transparent."""
from __future__ import annotations

import inspect
import pickle

import numpy as np

import cache_corr
import translate_systems
import zoo
import mici

LEVEL = "proof"


def mro_correspondence(ctx):
    """The translator's class hierarchy, C3 linearisation and method resolution vs the live classes."""
    import mici.systems as S
    classes, conc, tabs, res = translate_systems.tables()
    bad = 0
    for cname in classes:
        live = getattr(S, cname)
        mro = [c.__name__ for c in live.__mro__ if c.__name__ in classes]
        if mro != translate_systems.c3(classes, cname):
            bad += 1
            ctx.fail("corr:mro", f"translator MRO of {cname} {translate_systems.c3(classes, cname)} differs from Python's {mro}", {"class": cname}, kind="corr")
        ctx.case(("mro", cname))
    for cname in conc:
        live = getattr(S, cname)
        if inspect.isabstract(live):
            bad += 1
            ctx.fail("corr:concrete", f"translator considers {cname} concrete but Python says abstract", {"class": cname}, kind="corr")
        for meth, owner in res[cname].items():
            real_owner = getattr(live, meth).__qualname__.split(".")[0]
            ctx.case(("resolve", cname, meth))
            if real_owner != owner:
                bad += 1
                ctx.fail("corr:resolve", f"{cname}.{meth}: translator resolves to {owner}, Python to {real_owner}", {"class": cname, "method": meth}, kind="corr")
    ctx.oblige(f"correspondence[T4]: MRO of {len(classes)} classes and resolution of the Hamiltonian interface of {len(conc)} concrete classes vs live Python", bad == 0, f"{bad} disagreements")


def real_history_search(ctx):
    """Random histories on real system objects: every cached method vs the same call on a freshly constructed state."""
    from mici.states import ChainState
    bad = 0
    n_hist = 6 if not ctx.thorough else 40
    for conv in ("bare", "tuple"):
        systems, _ = zoo.make_systems(conv)
        systems2, _ = zoo.make_systems(conv)
        for name, sysm in systems.items():
            other = systems2[name]           # a second system object of the same class sharing the states
            probe = zoo.random_state(name, sysm, np.random.default_rng(0))
            meths = []
            for m in zoo.CACHED_METHODS:
                if inspect.ismethod(getattr(sysm, m, None)):
                    try:
                        getattr(sysm, m)(probe.copy())
                        meths.append(m)
                    except Exception:  # noqa: BLE001 - not applicable to this configuration (e.g. Gram gradient with Hausdorff density)
                        pass
            for hno in range(n_hist):
                rng = np.random.default_rng(int(ctx.rng.integers(0, 2 ** 31)))
                states = [zoo.random_state(name, sysm, rng)]
                hist = []
                for step in range(14 if not ctx.thorough else 30):
                    r = rng.random()
                    i = int(rng.integers(0, len(states)))
                    st = states[i]
                    if r < 0.3:
                        var = ["pos", "mom", "dir"][int(rng.integers(0, 3))]
                        try:
                            if var == "dir":
                                st.dir = -st.dir
                            elif var == "pos":
                                st.pos = zoo.on_manifold_point(rng) if zoo.is_constrained(name) else st.pos + 0.1 * rng.standard_normal(st.pos.shape)
                            else:
                                st.mom = st.mom + 0.1 * rng.standard_normal(st.mom.shape)
                        except mici.errors.ReadOnlyStateError:
                            pass
                        hist.append(("assign", i, var))
                    elif r < 0.4 and len(states) < 5:
                        states.append(st.copy(read_only=bool(rng.random() < 0.3)))
                        hist.append(("copy", i))
                    elif r < 0.47 and len(states) < 5:
                        states.append(pickle.loads(pickle.dumps(st)))
                        hist.append(("pickle", i))
                    else:
                        m = meths[int(rng.integers(0, len(meths)))]
                        sy = sysm if rng.random() < 0.7 else other
                        hist.append(("call", i, m, "sys0" if sy is sysm else "sys1"))
                        try:
                            got = zoo.as_array(getattr(sy, m)(st))
                            fresh = ChainState(pos=np.array(st.pos, copy=True), mom=np.array(st.mom, copy=True), dir=st.dir)
                            want = zoo.as_array(getattr(sy, m)(fresh))
                        except Exception as e:  # noqa: BLE001
                            bad += 1
                            ctx.fail(f"cache:raises:{m}", f"{name}.{m} raised {type(e).__name__} after history {hist}", {"system": name, "conv": conv, "history": hist})
                            break
                        ctx.case(("hist", name, conv, hno, step))
                        ctx.count(f"search:call:{m}")
                        if got is not None and not (got.shape == want.shape and np.allclose(got, want, rtol=1e-12, atol=1e-12)):
                            bad += 1
                            ctx.fail(f"stale:{type(sysm).__name__}.{m}", f"{type(sysm).__name__}.{m} returned a value different from a from-scratch evaluation "
                                     f"(max diff {np.max(np.abs(got - want)) if got.shape == want.shape else 'shape'}) after history {hist}",
                                     {"system": name, "class": type(sysm).__name__, "method": m, "conv": conv, "history": hist})
                            break
    ctx.oblige("search: random histories (assign / copy / read-only copy / pickle / calls on two system objects) on every system class, both return "
               "conventions: cached result == from-scratch result", bad == 0, f"{bad} failures")


def integrator_cache_search(ctx):
    """Integrator steps / transitions with caching defeated (fresh state before every step) give the same result."""
    from mici.states import ChainState
    import mici
    bad = 0
    systems, _ = zoo.make_systems("bare")
    for name, sysm in systems.items():
        rng = np.random.default_rng(int(ctx.rng.integers(0, 2 ** 31)))
        st0 = zoo.random_state(name, sysm, rng)
        for iname, integ in zoo.integrators_for(name, sysm, 0.05).items():
            try:
                a = st0
                for _ in range(3):
                    a = integ.step(a)
                b = st0
                for _ in range(3):
                    b = integ.step(ChainState(pos=np.array(b.pos), mom=np.array(b.mom), dir=b.dir))
            except mici.errors.IntegratorError:
                continue
            ctx.case(("integ", name, iname))
            ctx.count("search:integrator_cached_vs_fresh")
            if not (np.allclose(a.pos, b.pos, rtol=1e-12, atol=1e-13) and np.allclose(a.mom, b.mom, rtol=1e-12, atol=1e-13)):
                bad += 1
                ctx.fail(f"integrator_cache:{name}:{iname}", f"3 steps of {iname} on {name} differ with caching active vs defeated "
                         f"(max diff {max(np.abs(a.pos - b.pos).max(), np.abs(a.mom - b.mom).max()):.2e})", {"system": name, "integrator": iname})
    ctx.oblige("search: integrator steps with caching active == with caching defeated (fresh state before every step), all integrator x system pairs", bad == 0, f"{bad} failures")


def recycled_system_search(ctx):
    """Several system objects created one after the other and applied to ONE state: each must get its own values.  The state-cache key contains id(system), which
    CPython hands out again once an earlier system has been freed."""
    import gc

    import mici
    from mici.states import ChainState
    st = ChainState(pos=np.array([1.0, 2.0]), mom=np.array([0.5, -0.5]), dir=1)
    bad = 0
    ids = set()
    for k in range(40):
        c = 1.0 + k
        system = mici.systems.EuclideanMetricSystem(lambda q, c=c: c * 0.5 * q @ q, grad_neg_log_dens=lambda q, c=c: c * q)
        recycled = id(system) in ids
        ids.add(id(system))
        got, want = float(system.neg_log_dens(st)), c * 0.5 * float(st.pos @ st.pos)
        ctx.case(("sequential-systems", k, recycled))
        ctx.count("search:sequential_systems" + (":id_recycled" if recycled else ""))
        if got != want:
            key = "stale_value:system_id_recycled" if recycled else "stale_value:sequential_systems"
            bad += not ctx.is_known(key)
            ctx.fail(key, f"system object #{k + 1} created after the earlier ones were freed (id recycled: {recycled}) applied to a state the earlier ones were applied to: "
                     f"neg_log_dens(state) = {got} but a fresh evaluation gives {want}", {"n_systems": k + 1, "pos": st.pos.tolist()})
            break
        del system
        gc.collect()
    ctx.oblige("search[sequential systems]: up to 40 systems created and freed in turn, each applied to the same state object, value vs fresh evaluation", bad == 0, f"{bad} failures")


def run(ctx):
    import mici  # noqa: F401
    ctx.rule = ("model correspondence: random op histories on a mock system decorated with the real decorators; search: random histories on every real system "
                "class comparing with a fresh state; distinct = distinct (history, op) / (system, integrator)")
    ctx.assume("a method's value depends only on the state variables it (transitively) reads syntactically and on immutable system attributes "
               "(pure user functions)", "in the model the system objects sharing a state are distinct keys; the implementation keys on id(system), which is recycled after a system is freed - the "
               "sequential-systems search exercises exactly that (known finding G26)", "in-place mutation of arrays returned by cached "
               "methods or held by other states is outside the model (values are immutable in the model)")
    ctx.trust("translator T4 tie/translate_systems.py (fail-closed; its MRO / resolution validated against live classes)",
              "hand model coq/Model/StateCache.v tied by correspondence through tie/cache_corr.py")
    ok = ctx.regen("DepsGen", translate_systems.generate)
    model_ok = ctx.build(["Model/StateCache.vo"], label="executable model")
    if ok and model_ok and ctx.build(["Props/C09.vo"]):
        ctx.props()
    if ok:
        mro_correspondence(ctx)
    if model_ok:
        cache_corr.run(ctx, 40 if not ctx.thorough else 300, 30 if not ctx.thorough else 50)
    real_history_search(ctx)
    integrator_cache_search(ctx)
    recycled_system_search(ctx)
