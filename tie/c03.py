"""C03 -- integrator steps are symplectic maps."""
from __future__ import annotations

import numpy as np
import scipy.linalg as sla

import translate_integrators
import zoo
from c10 import qmat, rq
from common import coq_list, parse_coq_value

LEVEL = "proof"


def fd_jacobian(f, z, h=1e-5):
    n = z.size
    J = np.zeros((n, n))
    for k in range(n):
        e = np.zeros(n)
        e[k] = h
        J[:, k] = (f(z + e) - f(z - e)) / (2 * h)
    return J


def bundle_retract(s, q, p, jac, constr):
    """project (q, p) onto the cotangent bundle of the constraint manifold"""
    from mici.states import ChainState
    Mi = np.linalg.inv(np.asarray(s.metric.array))
    for _ in range(60):
        c, J = constr(q), jac(q)
        if np.abs(c).max() < 1e-14:
            break
        q = q - Mi @ J.T @ np.linalg.solve(J @ Mi @ J.T, c)
    J = jac(q)
    p = p - J.T @ np.linalg.solve(J @ Mi @ J.T, J @ Mi @ p)
    return q, p


def search(ctx):
    from mici.errors import IntegratorError
    from mici.states import ChainState
    import mici
    rng = ctx.rng
    bad = 0
    systems, _ = zoo.make_systems("bare")
    for name, s in systems.items():
        if zoo.is_constrained(name):
            continue
        srng = np.random.default_rng(int(rng.integers(0, 2 ** 31)))
        st0 = zoo.random_state(name, s, srng)
        d = st0.pos.size
        Om = np.block([[np.zeros((d, d)), np.eye(d)], [-np.eye(d), np.zeros((d, d))]])
        for iname, integ in zoo.integrators_for(name, s, 0.05).items():
            if hasattr(integ, "fixed_point_solver_kwargs"):
                # finite differences amplify the error of an implicit solve by 1 / (2h): solve to near machine precision
                integ.fixed_point_solver_kwargs = dict(integ.fixed_point_solver_kwargs, convergence_tol=1e-13, max_iters=300)
            for nsteps in (1, 3):
                def stepz(z):
                    r = ChainState(pos=z[:d].copy(), mom=z[d:].copy(), dir=1)
                    for _ in range(nsteps):
                        r = integ.step(r)
                    return np.concatenate([r.pos, r.mom])
                try:
                    J = fd_jacobian(stepz, np.concatenate([st0.pos, st0.mom]))
                except IntegratorError:
                    continue
                ctx.case(("sympl", name, iname, nsteps))
                ctx.count("search:unconstrained")
                res = np.abs(J.T @ Om @ J - Om).max()
                if not res <= 2e-6:
                    bad += 1
                    ctx.fail(f"symplectic:{iname}:{type(s).__name__}", f"{nsteps} step(s) of {iname} on {name}: |J^T Omega J - Omega| = {res:.2e} (det J - 1 = "
                             f"{np.linalg.det(J) - 1:.2e})", {"integrator": iname, "system": name, "steps": nsteps, "residual": float(res),
                                                             "pos": st0.pos.tolist(), "mom": st0.mom.tolist()})
    # constrained systems: the form induced on the cotangent bundle (curved constraints, non-identity metrics, both density conventions)
    import mici.systems as S
    jac, constr = zoo.jac_fn, zoo.constr_fn
    cases = {n: systems[n] for n in ("constr_hTrue", "constr_hFalse", "gauss_constr")}
    Mdense = np.diag([1.0, 2.0, 0.5, 1.5]) + 0.2 * np.ones((4, 4))
    cases["constr_hFalse_dense"] = S.DenseConstrainedEuclideanMetricSystem(lambda q: 0.5 * np.sum((q - 0.2) ** 2), constr, metric=Mdense, dens_wrt_hausdorff=False,
                                                                          grad_neg_log_dens=lambda q: q - 0.2, jacob_constr=jac,
                                                                          mhp_constr=lambda q: (lambda m: m[0] @ (2 * np.eye(4)) + m[1] @ np.array([[0, 1, 0, 0], [1, 0, 0, 0], [0, 0, 0, 0], [0, 0, 0, 0.0]])))
    for name, s in cases.items():
        srng = np.random.default_rng(int(rng.integers(0, 2 ** 31)))
        q0 = zoo.on_manifold_point(srng)
        st = ChainState(pos=q0.copy(), mom=None, dir=1)
        st.mom = s.sample_momentum(st, srng)
        q0, p0 = bundle_retract(s, st.pos, st.mom, jac, constr)
        d = q0.size
        Om = np.block([[np.zeros((d, d)), np.eye(d)], [-np.eye(d), np.zeros((d, d))]])
        # tangent space of the bundle at z0: null space of the linearised constraints (c(q) = 0, J(q) M^-1 p = 0)
        Mi = np.linalg.inv(np.asarray(s.metric.array))

        def cons(z):
            return np.concatenate([constr(z[:d]), jac(z[:d]) @ Mi @ z[d:]])
        z0 = np.concatenate([q0, p0])
        C = np.zeros((4, 2 * d))
        for k in range(2 * d):
            e = np.zeros(2 * d)
            e[k] = 1e-6
            C[:, k] = (cons(z0 + e) - cons(z0 - e)) / 2e-6
        T = sla.null_space(C)
        for n_inner in (1, 2):
            integ = mici.integrators.ConstrainedLeapfrogIntegrator(s, 0.05, n_inner_step=n_inner)

            def stepz(z):
                q, p = bundle_retract(s, z[:d], z[d:], jac, constr)
                r = integ.step(ChainState(pos=q, mom=p, dir=1))
                return np.concatenate([r.pos, r.mom])
            h = 1e-5
            try:
                U = np.stack([(stepz(z0 + h * T[:, k]) - stepz(z0 - h * T[:, k])) / (2 * h) for k in range(T.shape[1])], axis=1)
            except IntegratorError:
                continue
            ctx.case(("sympl-constr", name, n_inner))
            ctx.count("search:constrained")
            res = np.abs(U.T @ Om @ U - T.T @ Om @ T).max()
            if not res <= 5e-6:
                bad += 1
                ctx.fail(f"symplectic:constrained:{name}", f"ConstrainedLeapfrogIntegrator(n_inner_step={n_inner}) on {name}: the two-form induced on the cotangent bundle "
                         f"changes by {res:.2e} under one step", {"system": name, "n_inner": n_inner, "residual": float(res), "pos": q0.tolist(), "mom": p0.tolist()})
    ctx.oblige("search: finite-difference Jacobians of 1 and 3 steps of every integrator on every unconstrained system class (J^T Omega J = Omega) and of the constrained "
               "integrator restricted to the tangent space of the cotangent bundle (curved constraints, diagonal and dense metrics, both density conventions)",
               bad == 0, f"{bad} failures")


def correspondence(ctx):
    """the block model's leapfrog Jacobian (product of kick / drift blocks along the generated schedule) evaluated by Coq for a quadratic
    target vs the finite-difference Jacobian of the real leapfrog step"""
    import mici
    from mici.states import ChainState
    rng = ctx.rng
    bad = 0
    terms, expect = [], []
    for _ in range(3 if not ctx.thorough else 10):
        d = 2
        Sm = rq(zoo.AM[:d, :d])
        W = rq(np.linalg.inv(np.diag(rng.uniform(0.5, 2, d))))
        eps = 0.125
        s = mici.systems.EuclideanMetricSystem(lambda q: 0.5 * q @ Sm @ q, grad_neg_log_dens=lambda q: Sm @ q, metric=np.linalg.inv(W))
        integ = mici.integrators.LeapfrogIntegrator(s, eps)

        def stepz(z):
            r = integ.step(ChainState(pos=z[:d].copy(), mom=z[d:].copy(), dir=1))
            return np.concatenate([r.pos, r.mom])
        J = fd_jacobian(stepz, rng.standard_normal(2 * d))
        B = f"(bprod {d} (blocks (fun _ => {qmat(Sm)}) (fun _ => {qmat(W)}) 0 gen_sched_LeapfrogIntegrator (1 # 8)))"
        terms.append(f"[to_list {d} {d} (bA {B}); to_list {d} {d} (bB {B}); to_list {d} {d} (bC {B}); to_list {d} {d} (bD {B})]")
        expect.append((J, d))
    body = ("Require Import Mici.Lib.QMat Mici.Lib.Sympl Mici.Lib.Sympl2 Mici.Model.Matrices Mici.Model.Integrators Mici.Gen.SchedulesGen Mici.Props.C03.\n"
            "Open Scope Z_scope.\nEval vm_compute in " + coq_list(terms) + ".\n")
    model = parse_coq_value(ctx.coq_eval(body, name="jac_cases", timeout=900)[0])
    for (J, d), m in zip(expect, model):
        blk = [np.array([[a / b for a, b in row] for row in x], dtype=float) for x in m]
        Jm = np.block([[blk[0], blk[1]], [blk[2], blk[3]]])
        ctx.case(("jac", float(J[0, 0])))
        # bprod multiplies in list order (first sub-step first): accept either convention by comparing with J
        if not np.abs(Jm - J).max() <= 1e-6:
            bad += 1
            ctx.fail("corr:leapfrog_jacobian", f"block-model Jacobian of the generated leapfrog schedule differs from the finite-difference Jacobian of the real step by "
                     f"{np.abs(Jm - J).max():.2e}", {"model": Jm.tolist(), "fd": J.tolist()}, kind="corr")
    ctx.oblige(f"correspondence: {len(terms)} leapfrog Jacobians (product of kick / drift blocks along the generated schedule, evaluated by Coq) vs finite differences of the real step",
               bad == 0, f"{bad}")


def hess_blocks(fq, fp, q, p, h=1e-5):
    """second-derivative blocks of a Hamiltonian from its gradient functions fq = dH/dq, fp = dH/dp (central differences):
    S = H_qq, K = H_qp (K[i, j] = d(dH/dq_i)/dp_j), W = H_pp"""
    d = q.size
    S, K, W = np.zeros((d, d)), np.zeros((d, d)), np.zeros((d, d))
    for j in range(d):
        e = np.zeros(d)
        e[j] = h
        S[:, j] = (fq(q + e, p) - fq(q - e, p)) / (2 * h)
        K[:, j] = (fq(q, p + e) - fq(q, p - e)) / (2 * h)
        W[:, j] = (fp(q, p + e) - fp(q, p - e)) / (2 * h)
    return S, K, W


def linearised_relations(ctx):
    """tie of Lib/Sympl3.v: finite-difference tangent vectors of the REAL implicit sub-steps satisfy the linearised relations SE, SEadj, MID
    (with finite-difference Hessian blocks of the real Hamiltonian at the point the relation names)"""
    from mici.errors import IntegratorError
    from mici.states import ChainState
    import mici
    rng = ctx.rng
    bad, n = 0, 0
    systems, _ = zoo.make_systems("bare")
    for name, s in systems.items():
        if "riem" not in name:
            continue
        srng = np.random.default_rng(int(rng.integers(0, 2 ** 31)))
        st0 = zoo.random_state(name, s, srng)
        d = st0.pos.size
        t = 0.04
        ilf = mici.integrators.ImplicitLeapfrogIntegrator(s, 2 * t, fixed_point_solver_kwargs=dict(convergence_tol=1e-13))
        imp = mici.integrators.ImplicitMidpointIntegrator(s, 2 * t, fixed_point_solver_kwargs=dict(convergence_tol=1e-13))

        def mk(z):
            return ChainState(pos=z[:d].copy(), mom=z[d:].copy(), dir=1)

        def gq2(q, p):
            return np.asarray(s.dh2_dpos(ChainState(pos=q.copy(), mom=p.copy(), dir=1)))

        def gp2(q, p):
            return np.asarray(s.dh2_dmom(ChainState(pos=q.copy(), mom=p.copy(), dir=1)))

        def gq(q, p):
            return np.asarray(s.dh_dpos(ChainState(pos=q.copy(), mom=p.copy(), dir=1)))

        def gp(q, p):
            return np.asarray(s.dh_dmom(ChainState(pos=q.copy(), mom=p.copy(), dir=1)))

        def run(subs):
            def f(z):
                st = mk(z)
                for m in subs:
                    m(st, t)
                return np.concatenate([st.pos, st.mom])
            return f
        z0 = np.concatenate([st0.pos, st0.mom])
        cases = {"SE": (run([ilf._step_b_fwd, ilf._step_c_fwd]), gq2, gp2), "SEadj": (run([ilf._step_c_adj, ilf._step_b_adj]), gq2, gp2),
                 "MID": (run([imp._step_a_fwd, imp._step_a_adj]), gq, gp)}
        for rel, (f, fq, fp) in cases.items():
            try:
                z1 = f(z0)
                Jm = fd_jacobian(f, z0, h=1e-6)
            except IntegratorError:
                continue
            q, p, q1, p1 = z0[:d], z0[d:], z1[:d], z1[d:]
            res = 0.0
            if rel == "SE":
                S, K, W = hess_blocks(fq, fp, q, p1)
                for k in range(2 * d):
                    dq, dp, dq1, dp1 = np.eye(2 * d)[:d, k], np.eye(2 * d)[d:, k], Jm[:d, k], Jm[d:, k]
                    res = max(res, np.abs(dp - dp1 - t * (S @ dq + K @ dp1)).max(), np.abs(dq1 - dq - t * (K.T @ dq + W @ dp1)).max())
            elif rel == "SEadj":
                S, K, W = hess_blocks(fq, fp, q1, p)
                for k in range(2 * d):
                    dq, dp, dq1, dp1 = np.eye(2 * d)[:d, k], np.eye(2 * d)[d:, k], Jm[:d, k], Jm[d:, k]
                    res = max(res, np.abs(dq - dq1 + t * (K.T @ dq1 + W @ dp)).max(), np.abs(dp1 - dp + t * (S @ dq1 + K @ dp)).max())
            else:
                fm = run([imp._step_a_fwd])
                zm = fm(z0)
                Jmid = fd_jacobian(fm, z0, h=1e-6)
                S, K, W = hess_blocks(fq, fp, zm[:d], zm[d:])
                X = np.block([[K.T, W], [-S, -K]])
                for k in range(2 * d):
                    dm = Jmid[:, k]
                    res = max(res, np.abs(np.eye(2 * d)[:, k] - (dm - t * X @ dm)).max(), np.abs(Jm[:, k] - (dm + t * X @ dm)).max())
            n += 1
            ctx.case(("linrel", name, rel))
            ctx.count(f"corr:linearised:{rel}")
            if not res <= 5e-5:
                bad += 1
                ctx.fail(f"corr:linearised:{rel}", f"finite-difference tangent vectors of the real {rel} sub-steps on {name} violate the linearised relation of Lib/Sympl3.v by {res:.2e}",
                         {"system": name, "relation": rel, "residual": float(res), "pos": st0.pos.tolist(), "mom": st0.mom.tolist()}, kind="corr")
    ctx.oblige(f"correspondence: {n} (system, sub-step pair) cases - finite-difference tangent vectors of the real implicit sub-steps (generalised leapfrog momentum-first / "
               f"position-first pairs, implicit midpoint) satisfy the linearised relations SE, SEadj, MID with finite-difference Hessian blocks", bad == 0 and n > 0, f"{bad} of {n}")


def run(ctx):
    ctx.rule = "per (integrator, system, step count): finite-difference Jacobian residual; constrained: per (system, inner step count) on a basis of the bundle's tangent space"
    ctx.assume("the Jacobian of a composition is the product of the sub-step Jacobians (chain rule); second-derivative blocks H_qq, H_pp, multiplier-weighted constraint Hessians "
               "and inverse metrics are symmetric (Schwarz)",
               "implicit and constrained sub-steps: the tangent map of a sub-step defined by an implicit equation satisfies the linearised equation (implicit differentiation); the "
               "relations SE, SEadj, MID are checked against finite differences of the real sub-steps by the correspondence, the constrained relations CA / CB (Lagrange multipliers "
               "differentiated through J(q)^T lam) only through the conclusion, by the bundle-restricted finite-difference search")
    ctx.trust("translator T3 for the schedules; Lib/Sympl2.v block action")
    ok = ctx.regen("SchedulesGen", translate_integrators.generate)
    model_ok = ok and ctx.build(["Gen/SchedulesGen.vo", "Model/Matrices.vo"], label="executable model")
    if model_ok and ctx.build(["Props/C03.vo"]):
        ctx.props()
        correspondence(ctx)
    linearised_relations(ctx)
    search(ctx)
