"""T3: src/mici/integrators.py -> coq/Gen/SchedulesGen.v  (fail closed).

Every integrator's `_step` is translated into a schedule: a list of (component, fraction of time_step).
`self.system.h1_flow / h2_flow(state, c * time_step)` become H1 / H2 entries; calls of the implicit / constrained
sub-steps `self._step_x(state, c * time_step)` become tagged entries (Bfwd, Badj, Cfwd, Cadj, Mfwd, Madj, CA, CB) after
the body of the sub-step has been matched, statement for statement, against the form the Coq model of that component
(Model/Integrators.v) describes -- including where the reversibility check sits and what it compares.  The coefficient
derivation in SymmetricCompositionIntegrator.__init__ is matched the same way against Model.Integrators.coefficients /
flows; the BCSS constants are emitted as exact rationals of their decimal literals.  Anything else: Untranslatable."""
from __future__ import annotations

import ast
from fractions import Fraction

from common import REPO, Untranslatable

SUBSTEPS = {
    ("ImplicitLeapfrogIntegrator", "_step_a"): ("H1", "self.system.h1_flow(state, time_step)"),
    ("ImplicitLeapfrogIntegrator", "_step_b_fwd"): ("Bfwd", """def fixed_point_func(mom: ArrayLike) -> ArrayLike:
    state.mom = mom
    return mom_init - time_step * self.system.dh2_dpos(state)
mom_init = state.mom
state.mom = self._solve_fixed_point(fixed_point_func, mom_init)"""),
    ("ImplicitLeapfrogIntegrator", "_step_b_adj"): ("Badj", """mom_init = state.mom.copy()
state.mom -= time_step * self.system.dh2_dpos(state)
state_back = state.copy()
self._step_b_fwd(state_back, -time_step)
rev_diff = self.reverse_check_norm(state_back.mom - mom_init)
if rev_diff > self.reverse_check_tol:
    msg = f'Non-reversible step. Distance between initial and forward-backward integrated momentums = {rev_diff:.1e}.'
    raise NonReversibleStepError(msg)"""),
    ("ImplicitLeapfrogIntegrator", "_step_c_fwd"): ("Cfwd", """pos_init = state.pos.copy()
state.pos += time_step * self.system.dh2_dmom(state)
state_back = state.copy()
self._step_c_adj(state_back, -time_step)
rev_diff = self.reverse_check_norm(state_back.pos - pos_init)
if rev_diff > self.reverse_check_tol:
    msg = f'Non-reversible step. Distance between initial and forward-backward integrated positions = {rev_diff:.1e}.'
    raise NonReversibleStepError(msg)"""),
    ("ImplicitLeapfrogIntegrator", "_step_c_adj"): ("Cadj", """def fixed_point_func(pos: ArrayLike) -> ArrayLike:
    state.pos = pos
    return pos_init + time_step * self.system.dh2_dmom(state)
pos_init = state.pos
state.pos = self._solve_fixed_point(fixed_point_func, pos_init)"""),
    ("ImplicitMidpointIntegrator", "_step_a_fwd"): ("Mfwd", """pos_mom_init = np.concatenate([state.pos, state.mom])

def fixed_point_func(pos_mom: ArrayLike) -> ArrayLike:
    state.pos, state.mom = np.split(pos_mom, 2)
    return pos_mom_init + np.concatenate([time_step * self.system.dh_dmom(state), -time_step * self.system.dh_dpos(state)])
state.pos, state.mom = np.split(self._solve_fixed_point(fixed_point_func, pos_mom_init), 2)"""),
    ("ImplicitMidpointIntegrator", "_step_a_adj"): ("Madj", """state_prev = state.copy()
state.pos += time_step * self.system.dh_dmom(state_prev)
state.mom -= time_step * self.system.dh_dpos(state_prev)
state_back = state.copy()
self._step_a_fwd(state_back, -time_step)
rev_diff = self.reverse_check_norm(np.concatenate([state_back.pos - state_prev.pos, state_back.mom - state_prev.mom]))
if rev_diff > self.reverse_check_tol:
    msg = f'Non-reversible step. Distance between initial and forward-backward integrated (pos, mom) pairs = {rev_diff:.1e}.'
    raise NonReversibleStepError(msg)"""),
    ("ConstrainedLeapfrogIntegrator", "_step_a"): ("CA", """self.system.h1_flow(state, time_step)
self._project_onto_cotangent_space(state)"""),
    ("ConstrainedLeapfrogIntegrator", "_step_b"): ("CB", """time_step_inner = time_step / self.n_inner_step
for i in range(self.n_inner_step):
    state_prev = state.copy()
    self._h2_flow_retraction_onto_manifold(state, state_prev, time_step_inner)
    if i == self.n_inner_step - 1:
        self.system.dh1_dpos(state)
    self._project_onto_cotangent_space(state)
    state_back = state.copy()
    self._h2_flow_retraction_onto_manifold(state_back, state, -time_step_inner)
    rev_diff = self.reverse_check_norm(state_back.pos - state_prev.pos)
    if rev_diff > self.reverse_check_tol:
        msg = f'Non-reversible step. Distance between initial and forward-backward integrated positions = {rev_diff:.1e}.'
        raise NonReversibleStepError(msg)"""),
}
HELPERS = {
    ("ConstrainedLeapfrogIntegrator", "_h2_flow_retraction_onto_manifold"): """self.system.h2_flow(state, time_step)
self.projection_solver(state, state_prev, time_step, self.system, **self.projection_solver_kwargs)""",
    ("ConstrainedLeapfrogIntegrator", "_project_onto_cotangent_space"): "state.mom = self.system.project_onto_cotangent_space(state.mom, state)",
    ("ImplicitLeapfrogIntegrator", "_solve_fixed_point"): "return self.fixed_point_solver(fixed_point_func, x_init, **self.fixed_point_solver_kwargs)",
    ("ImplicitMidpointIntegrator", "_solve_fixed_point"): "return self.fixed_point_solver(fixed_point_func, x_init, **self.fixed_point_solver_kwargs)",
    ("Integrator", "step"): """if self.step_size is None:
    msg = 'Integrator `step_size` is `None`. This value should only be used if a step size adapter is being used to set the step size.'
    raise AdaptationError(msg)
state = state.copy()
self._step(state, state.dir * self.step_size)
return state""",
    ("SymmetricCompositionIntegrator", "_step"): """for coefficient, flow in zip(self.coefficients, self.flows, strict=True):
    flow(state, coefficient * time_step)""",
}
SYM_INIT = """super().__init__(system, step_size)
self.initial_h1_flow_step = initial_h1_flow_step
n_free_coefficients = len(free_coefficients)
coefficients = list(free_coefficients)
coefficients.append(0.5 - sum(free_coefficients[n_free_coefficients % 2::2]))
coefficients.append(1 - 2 * sum(free_coefficients[(n_free_coefficients + 1) % 2::2]))
self.coefficients = coefficients + coefficients[-2::-1]
flow_a = system.h1_flow if initial_h1_flow_step else system.h2_flow
flow_b = system.h2_flow if initial_h1_flow_step else system.h1_flow
self.flows = [flow_a, flow_b] * (n_free_coefficients + 1) + [flow_a]"""


def body_src(fn):
    stmts = [s for s in fn.body if not (isinstance(s, ast.Expr) and isinstance(s.value, ast.Constant) and isinstance(s.value.value, str))]
    return norm("\n".join(ast.unparse(s) for s in stmts))


def norm(src):
    return "\n".join(l for l in src.split("\n") if l.strip())


def frac(e):
    """coefficient c of an expression c * time_step | time_step | time_step / c | time_step * c"""
    if isinstance(e, ast.Name) and e.id == "time_step":
        return Fraction(1)
    if isinstance(e, ast.BinOp) and isinstance(e.op, ast.Mult):
        for a, b in ((e.left, e.right), (e.right, e.left)):
            if isinstance(a, ast.Constant) and isinstance(a.value, (int, float)):
                return Fraction(repr(a.value)) * frac(b)
    if isinstance(e, ast.BinOp) and isinstance(e.op, ast.Div) and isinstance(e.right, ast.Constant) and isinstance(e.right.value, (int, float)):
        return frac(e.left) / Fraction(repr(e.right.value))
    raise Untranslatable(f"integrators.py:{e.lineno}: time argument is not a constant multiple of time_step: {ast.unparse(e)}")


def q(f):
    return f"({f.numerator} # {f.denominator})"


def generate():
    tree = ast.parse((REPO / "src/mici/integrators.py").read_text())
    classes = {n.name: n for n in tree.body if isinstance(n, ast.ClassDef)}
    meth = {(c, f.name): f for c, n in classes.items() for f in n.body if isinstance(f, ast.FunctionDef)}
    for key, want in list(HELPERS.items()) + [(k, v[1]) for k, v in SUBSTEPS.items()]:
        if key not in meth:
            raise Untranslatable(f"{key[0]}.{key[1]} is missing")
        got = body_src(meth[key])
        if got != norm(want):
            raise Untranslatable(f"integrators.py:{meth[key].lineno}: body of {key[0]}.{key[1]} no longer has the form the model describes")
    for key in SUBSTEPS:
        params = [a.arg for a in meth[key].args.args]
        if params != ["self", "state", "time_step"]:
            raise Untranslatable(f"{key[0]}.{key[1]}: unexpected parameters {params}")
    init = meth.get(("SymmetricCompositionIntegrator", "__init__"))
    if init is None or body_src(init) != norm(SYM_INIT):
        raise Untranslatable("SymmetricCompositionIntegrator.__init__ no longer derives its coefficients / flows in the modelled way")
    out = ["(* generated by tie/translate_integrators.py (T3) from src/mici/integrators.py -- do not edit *)",
           "From Coq Require Import QArith List.", "Require Import Mici.Model.Integrators.", "Import ListNotations.", ""]
    for cname in ("LeapfrogIntegrator", "ImplicitLeapfrogIntegrator", "ImplicitMidpointIntegrator", "ConstrainedLeapfrogIntegrator"):
        fn = meth.get((cname, "_step"))
        if fn is None:
            raise Untranslatable(f"{cname}._step is missing")
        if [a.arg for a in fn.args.args] != ["self", "state", "time_step"]:
            raise Untranslatable(f"{cname}._step: unexpected parameters")
        entries = []
        for st in fn.body:
            if isinstance(st, ast.Expr) and isinstance(st.value, ast.Constant):
                continue
            if not (isinstance(st, ast.Expr) and isinstance(st.value, ast.Call) and len(st.value.args) == 2 and not st.value.keywords
                    and isinstance(st.value.args[0], ast.Name) and st.value.args[0].id == "state"):
                raise Untranslatable(f"integrators.py:{st.lineno}: unsupported statement in {cname}._step: {ast.unparse(st)[:80]}")
            f = ast.unparse(st.value.func)
            c = frac(st.value.args[1])
            if f == "self.system.h1_flow":
                entries.append(("H1", c))
            elif f == "self.system.h2_flow":
                entries.append(("H2", c))
            elif f.startswith("self._step") and (cname, f[5:]) in SUBSTEPS:
                entries.append((SUBSTEPS[(cname, f[5:])][0], c))
            else:
                raise Untranslatable(f"integrators.py:{st.lineno}: unknown component {f} in {cname}._step")
        out.append(f"Definition gen_sched_{cname} : sched :=\n  [" + "; ".join(f"({t}, {q(c)})" for t, c in entries) + "].\n")
    # BCSS schemes: free coefficients and initial flow
    rows = []
    for cname in ("BCSSTwoStageIntegrator", "BCSSThreeStageIntegrator", "BCSSFourStageIntegrator"):
        fn = meth.get((cname, "__init__"))
        if fn is None:
            raise Untranslatable(f"{cname}.__init__ missing")
        env, call = {}, None
        for st in fn.body:
            if isinstance(st, ast.Expr) and isinstance(st.value, ast.Constant):
                continue
            if isinstance(st, ast.Assign) and isinstance(st.targets[0], ast.Name):
                src = ast.unparse(st.value)
                if src == "(3 - 3 ** 0.5) / 6":
                    env[st.targets[0].id] = Fraction(*((3 - 3 ** 0.5) / 6).as_integer_ratio())    # irrational: the double used at run time
                elif isinstance(st.value, ast.Constant) and isinstance(st.value.value, float):
                    env[st.targets[0].id] = Fraction(repr(st.value.value))
                else:
                    raise Untranslatable(f"integrators.py:{st.lineno}: unsupported constant in {cname}.__init__")
            elif isinstance(st, ast.Expr) and isinstance(st.value, ast.Call) and ast.unparse(st.value.func) == "super().__init__":
                call = st.value
            else:
                raise Untranslatable(f"integrators.py:{st.lineno}: unsupported statement in {cname}.__init__")
        if call is None or len(call.args) != 2 or not isinstance(call.args[1], ast.Tuple):
            raise Untranslatable(f"{cname}.__init__: super().__init__ call form")
        kw = {k.arg: ast.unparse(k.value) for k in call.keywords}
        if kw.get("step_size") != "step_size" or kw.get("initial_h1_flow_step") not in ("True", "False"):
            raise Untranslatable(f"{cname}.__init__: keyword arguments")
        free = [env[e.id] for e in call.args[1].elts]
        rows.append(f'({"true" if kw["initial_h1_flow_step"] == "True" else "false"}, [' + "; ".join(q(f) for f in free) + "])")
    out.append("Definition gen_bcss : list (bool * list Q) :=\n  [" + ";\n   ".join(rows) + "].\n")
    return "\n".join(out)


if __name__ == "__main__":
    print(generate())
