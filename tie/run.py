"""Dispatcher: ./check Cxx [--tier quick|thorough] [--replay file]"""
import argparse
import importlib
import os
import sys
import traceback

sys.path.insert(0, os.path.dirname(os.path.abspath(__file__)))
import common  # noqa: E402

LEVELS = {}


def main():
    ap = argparse.ArgumentParser()
    ap.add_argument("prop")
    ap.add_argument("--tier", default=os.environ.get("VERIF_TIER", "quick"), choices=["quick", "thorough"])
    ap.add_argument("--replay", default=None)
    a = ap.parse_args()
    seed = int(os.environ.get("VERIF_SEED", "20260930"))
    mod = importlib.import_module(a.prop.lower())
    ctx = common.Ctx(a.prop, a.tier, seed, getattr(mod, "LEVEL", "proof"))
    if a.replay:
        sys.exit(mod.replay(ctx, a.replay) if hasattr(mod, "replay") else 2)
    import signal

    class CheckTimeout(Exception):
        pass

    def on_alarm(signum, frame):
        raise CheckTimeout(f"check did not finish within {limit} s (deadlock or hang)")
    limit = int(os.environ.get("VERIF_TIMEOUT", "1500" if a.tier == "quick" else "5400"))
    signal.signal(signal.SIGALRM, on_alarm)
    signal.alarm(limit)
    try:
        mod.run(ctx)
    except SystemExit:
        raise
    except Exception as e:  # noqa: BLE001 - a crashing check must not pass silently
        tb = traceback.format_exc()
        print(tb, file=sys.stderr)
        ctx.oblige("harness", False, f"{type(e).__name__}: {e}")
        ctx.fail("harness", f"check harness crashed: {type(e).__name__}: {e}", {"traceback": tb[-3000:]}, kind="tie")
    ctx.finish()


main()
