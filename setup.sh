#!/bin/bash
# Build the Coq development from files on disk only (offline). Gen/*.v are regenerated from /repo first.
set -e
here="$(cd "$(dirname "$0")" && pwd)"
cd "$here"
export PYTHONPATH="${MICI_REPO:-/repo}/src:$here/tie"
export PYTHONHASHSEED=0
/venv/bin/python -W ignore tie/regen_all.py
cd coq
timeout 3000 make -j16 2>&1 | tail -5
