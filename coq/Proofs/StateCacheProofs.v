(* Proofs about the state cache model (Model/StateCache.v). *)
From Coq Require Import List Bool Arith Lia.
Require Import Mici.Model.StateCache.
Import ListNotations.

Section P.
Variable V R : Type.
Variable decl reads : key -> list var.
Variable aux : key -> list key.
Variable eval : key -> (var -> V) -> R.
Variable droppable : key -> bool.
Hypothesis eval_ext : forall k s s', (forall x, In x (reads k) -> s x = s' x) -> eval k s = eval k s'.
Hypothesis sound_self : forall k x, In x (reads k) -> In x (decl k).
Hypothesis sound_aux : forall m a x, In a (aux m) -> In x (reads a) -> In x (decl m).
Notation state := (state V R).
Notation heap := (heap V R).
Notation step := (step V R decl aux eval droppable).
Notation runs := (runs V R decl aux eval droppable).
Notation reg_keys := (reg_keys V R decl).
Notation fill_aux := (fill_aux V R aux eval).
Notation sts := (sts V R). Notation deps := (deps V R). Notation ngrp := (ngrp V R). Notation nst := (nst V R).
Notation vars := (vars V R). Notation cache := (cache V R). Notation grp := (grp V R). Notation ro := (ro V R).
Notation Absent := (Absent R). Notation Inval := (Inval R). Notation Val := (Val R).
Notation Assign := (Assign V). Notation Copy := (Copy V). Notation Pickle := (Pickle V). Notation Call := (Call V).

Definition Inv (h : heap) : Prop :=
  (forall i s, sts h i = Some s -> grp s < ngrp h) /\
  (forall g x k, deps h g x k = true -> forall y, In y (reads k) -> deps h g y k = true) /\
  (forall i s k, sts h i = Some s -> cache s k <> Absent -> forall y, In y (reads k) -> deps h (grp s) y k = true) /\
  (forall i s k r, sts h i = Some s -> cache s k = Val r -> r = eval k (vars s)).

Lemma register_mono d g dl k g' x k' : d g' x k' = true -> register d g dl k g' x k' = true.
Proof. unfold register. intros H. destruct (_ && _ && _); auto. Qed.
Lemma register_hit d g dl k x : In x dl -> register d g dl k g x k = true.
Proof. unfold register. intros H. rewrite !Nat.eqb_refl. apply memb_In in H. rewrite H. reflexivity. Qed.
Lemma register_inv d g dl k g' x k' : register d g dl k g' x k' = true -> d g' x k' = true \/ (g' = g /\ k' = k /\ In x dl).
Proof.
  unfold register. destruct (Nat.eqb_spec g' g), (memb x dl) eqn:M, (Nat.eqb_spec k' k); cbn; auto.
  intros _. right. repeat split; auto. apply memb_In; auto.
Qed.
Lemma reg_keys_mono (s : state) (m : key) ks : forall d g x k, d g x k = true -> reg_keys s m ks d g x k = true.
Proof. induction ks as [|a ks IH]; intros d g x k H; cbn; auto. apply IH. destruct (cache s a); auto. apply register_mono; auto. Qed.
Lemma reg_keys_hit (s : state) (m : key) ks : forall d k x, In k ks -> cache s k = Absent -> In x (decl m) -> reg_keys s m ks d (grp s) x k = true.
Proof.
  induction ks as [|a ks IH]; intros d k x Hk Hc Hx; [destruct Hk|]. cbn. destruct Hk as [->|Hk].
  - rewrite Hc. apply reg_keys_mono. apply register_hit; auto.
  - apply IH; auto.
Qed.
Lemma reg_keys_inv (s : state) (m : key) ks : forall d g x k, reg_keys s m ks d g x k = true -> d g x k = true \/ (g = grp s /\ In k ks /\ In x (decl m)).
Proof.
  induction ks as [|a ks IH]; intros d g x k H; cbn in H; auto.
  apply IH in H as [H|(?&?&?)]; [|right; repeat split; auto; right; auto].
  destruct (cache s a); auto. apply register_inv in H as [H|(?&?&?)]; auto. subst. right. repeat split; auto. left; auto.
Qed.
Lemma reads_in_decl (m k : key) : In k (m :: aux m) -> forall y, In y (reads k) -> In y (decl m).
Proof. intros [<-|H] y Hy; [apply sound_self; auto| eapply sound_aux; eauto]. Qed.

Lemma fill_aux_spec (s : state) : forall l c k, (fold_left (fun c a => upd c a (Val (eval a (vars s)))) l c) k = (if existsb (Nat.eqb k) l then Val (eval k (vars s)) else c k).
Proof.
  induction l as [|a l IH]; intros c k; cbn; auto. rewrite IH.
  destruct (existsb (Nat.eqb k) l) eqn:E.
  - rewrite orb_true_r. reflexivity.
  - rewrite orb_false_r. unfold upd. destruct (Nat.eqb_spec k a); subst; auto.
Qed.

Theorem call_transparent h i s m wa : Inv h -> sts h i = Some s ->
  snd (step h (Call i m wa)) = Some (eval m (vars s)).
Proof.
  intros (_ & _ & _ & Hv) Hs. cbn [step]. rewrite Hs.
  destruct (cache s m) eqn:E; cbn [snd]; auto. f_equal. eapply Hv; eauto.
Qed.

Theorem step_inv h o : Inv h -> Inv (fst (step h o)).
Proof.
  intros (Hg & HG & HS & Hv). destruct o as [i x v|i r|i|i m wa]; cbn [step].
  - (* Assign *)
    destruct (sts h i) as [s|] eqn:Es; [|repeat split; auto]. destruct (ro s); [repeat split; auto|]. cbn [fst].
    repeat split; cbn [sts deps ngrp].
    + intros j t Hj. unfold upd in Hj. destruct (Nat.eqb_spec j i); [inversion Hj; subst; cbn; eapply Hg; eauto| eapply Hg; eauto].
    + exact HG.
    + intros j t k Hj Hc y Hy. unfold upd in Hj. destruct (Nat.eqb_spec j i); [|eapply HS; eauto].
      inversion Hj; subst t; clear Hj. cbn [cache grp] in *.
      destruct (deps h (grp s) x k) eqn:D; [eapply HG; eauto| eapply HS; eauto].
    + intros j t k r Hj Hc. unfold upd in Hj. destruct (Nat.eqb_spec j i); [|eapply Hv; eauto].
      inversion Hj; subst t; clear Hj. cbn [cache vars] in *.
      destruct (deps h (grp s) x k) eqn:D; [discriminate|].
      rewrite (Hv _ _ _ _ Es Hc). apply eval_ext. intros y Hy. unfold upd.
      destruct (Nat.eqb_spec y x); auto. subst y.
      assert (cache s k <> Absent) by (rewrite Hc; discriminate).
      rewrite (HS _ _ _ Es H x Hy) in D. discriminate.
  - (* Copy *)
    destruct (sts h i) as [s|] eqn:Es; [|repeat split; auto]. cbn [fst].
    repeat split; cbn [sts deps ngrp].
    + intros j t Hj. unfold upd in Hj. destruct (Nat.eqb_spec j (nst h)); [inversion Hj; subst; cbn; eapply Hg; eauto| eapply Hg; eauto].
    + exact HG.
    + intros j t k Hj Hc y Hy. unfold upd in Hj. destruct (Nat.eqb_spec j (nst h)); [|eapply HS; eauto].
      inversion Hj; subst t; cbn [cache grp] in *. eapply HS; eauto.
    + intros j t k r0 Hj Hc. unfold upd in Hj. destruct (Nat.eqb_spec j (nst h)); [|eapply Hv; eauto].
      inversion Hj; subst t; cbn [cache vars] in *. eapply Hv; eauto.
  - (* Pickle *)
    destruct (sts h i) as [s|] eqn:Es; [|repeat split; auto]. cbn [fst].
    pose proof (Hg _ _ Es) as Hgs.
    repeat split; cbn [sts deps ngrp].
    + intros j t Hj. unfold upd in Hj. destruct (Nat.eqb_spec j (nst h)); [inversion Hj; subst; cbn; lia|].
      pose proof (Hg _ _ Hj). lia.
    + intros g x k D y Hy. destruct (Nat.eqb_spec g (ngrp h)); eapply HG; eauto.
    + intros j t k Hj Hc y Hy. unfold upd in Hj. destruct (Nat.eqb_spec j (nst h)).
      * inversion Hj; subst t; cbn [cache grp] in *. rewrite Nat.eqb_refl.
        eapply HS; eauto. intro A. rewrite A in Hc. congruence.
      * pose proof (Hg _ _ Hj). destruct (Nat.eqb_spec (grp t) (ngrp h)); [lia|]. eapply HS; eauto.
    + intros j t k r0 Hj Hc. unfold upd in Hj. destruct (Nat.eqb_spec j (nst h)); [|eapply Hv; eauto].
      inversion Hj; subst t; cbn [cache vars] in *.
      destruct (cache s k) eqn:E; try discriminate. destruct (droppable k); [discriminate|]. inversion Hc; subst. eapply Hv; eauto.
  - (* Call *)
    destruct (sts h i) as [s|] eqn:Es; [|repeat split; auto].
    set (d' := reg_keys s m (m :: aux m) (deps h)).
    assert (HG' : forall g x k, d' g x k = true -> forall y, In y (reads k) -> d' g y k = true).
    { intros g x k D y Hy. unfold d' in *. apply reg_keys_inv in D as [D|(-> & Hk & Hx)].
      - apply reg_keys_mono. eapply HG; eauto.
      - destruct (cache s k) eqn:Ec.
        + apply reg_keys_hit; auto. eapply reads_in_decl; eauto.
        + apply reg_keys_mono. eapply HS; eauto. rewrite Ec; discriminate.
        + apply reg_keys_mono. eapply HS; eauto. rewrite Ec; discriminate. }
    assert (HS' : forall j t k, sts h j = Some t -> cache t k <> Absent -> forall y, In y (reads k) -> d' (grp t) y k = true).
    { intros j t k Hj Hc y Hy. unfold d'. apply reg_keys_mono. eapply HS; eauto. }
    destruct (cache s m) eqn:Em; cbn [fst].
    + (* Absent: evaluate *)
      repeat split; cbn [sts deps ngrp]; auto.
      * intros j t Hj. unfold upd in Hj. destruct (Nat.eqb_spec j i); [inversion Hj; subst; cbn; eapply Hg; eauto| eapply Hg; eauto].
      * intros j t k Hj Hc y Hy. unfold upd in Hj. destruct (Nat.eqb_spec j i); [|eapply HS'; eauto].
        inversion Hj; subst t; clear Hj. cbn [cache grp] in *.
        destruct (cache s k) eqn:Ek; [| eapply HS'; eauto; rewrite Ek; discriminate| eapply HS'; eauto; rewrite Ek; discriminate].
        (* k was absent before: it is m or one of the aux keys *)
        assert (In k (m :: aux m)).
        { destruct wa.
          - unfold fill_aux in Hc. rewrite fill_aux_spec in Hc. destruct (existsb (Nat.eqb k) (aux m)) eqn:Ex.
            + right. apply existsb_exists in Ex as [a [Ha E]]. apply Nat.eqb_eq in E; subst; auto.
            + unfold upd in Hc. destruct (Nat.eqb_spec k m); [left; auto| congruence].
          - unfold upd in Hc. destruct (Nat.eqb_spec k m); [left; auto| congruence]. }
        unfold d'. apply reg_keys_hit; auto. eapply reads_in_decl; eauto.
      * intros j t k r0 Hj Hc. unfold upd in Hj. destruct (Nat.eqb_spec j i); [|eapply Hv; eauto].
        inversion Hj; subst t; clear Hj. cbn [cache vars] in *.
        destruct wa.
        -- unfold fill_aux in Hc. rewrite fill_aux_spec in Hc. destruct (existsb (Nat.eqb k) (aux m)); [inversion Hc; auto|].
           unfold upd in Hc. destruct (Nat.eqb_spec k m); [inversion Hc; subst; auto| eapply Hv; eauto].
        -- unfold upd in Hc. destruct (Nat.eqb_spec k m); [inversion Hc; subst; auto| eapply Hv; eauto].
    + (* Inval: evaluate, no registration for m *)
      repeat split; cbn [sts deps ngrp]; auto.
      * intros j t Hj. unfold upd in Hj. destruct (Nat.eqb_spec j i); [inversion Hj; subst; cbn; eapply Hg; eauto| eapply Hg; eauto].
      * intros j t k Hj Hc y Hy. unfold upd in Hj. destruct (Nat.eqb_spec j i); [|eapply HS'; eauto].
        inversion Hj; subst t; clear Hj. cbn [cache grp] in *.
        destruct (cache s k) eqn:Ek; [| eapply HS'; eauto; rewrite Ek; discriminate| eapply HS'; eauto; rewrite Ek; discriminate].
        assert (In k (m :: aux m)).
        { destruct wa.
          - unfold fill_aux in Hc. rewrite fill_aux_spec in Hc. destruct (existsb (Nat.eqb k) (aux m)) eqn:Ex.
            + right. apply existsb_exists in Ex as [a [Ha E]]. apply Nat.eqb_eq in E; subst; auto.
            + unfold upd in Hc. destruct (Nat.eqb_spec k m); [left; auto| congruence].
          - unfold upd in Hc. destruct (Nat.eqb_spec k m); [left; auto| congruence]. }
        unfold d'. apply reg_keys_hit; auto. eapply reads_in_decl; eauto.
      * intros j t k r0 Hj Hc. unfold upd in Hj. destruct (Nat.eqb_spec j i); [|eapply Hv; eauto].
        inversion Hj; subst t; clear Hj. cbn [cache vars] in *.
        destruct wa.
        -- unfold fill_aux in Hc. rewrite fill_aux_spec in Hc. destruct (existsb (Nat.eqb k) (aux m)); [inversion Hc; auto|].
           unfold upd in Hc. destruct (Nat.eqb_spec k m); [inversion Hc; subst; auto| eapply Hv; eauto].
        -- unfold upd in Hc. destruct (Nat.eqb_spec k m); [inversion Hc; subst; auto| eapply Hv; eauto].
    + (* hit *)
      repeat split; cbn [sts deps ngrp]; auto; try (intros; eapply HS'; eauto).
Qed.


Theorem history_transparent h ops i s m wa : Inv h -> sts (runs h ops) i = Some s ->
  snd (step (runs h ops) (Call i m wa)) = Some (eval m (vars s)).
Proof.
  revert h. induction ops as [|o r IH]; intros h HI Hs; cbn [StateCache.runs] in *.
  - apply call_transparent; auto.
  - apply IH; auto. apply step_inv; auto.
Qed.
Lemma inv_heap0 v0 : Inv (heap0 V R v0).
Proof.
  unfold Inv, heap0. cbn. repeat split.
  - intros i s H. destruct (Nat.eqb i 0); inversion H; subst; cbn; lia.
  - intros; discriminate.
  - intros i s k H Hc. destruct (Nat.eqb i 0); inversion H; subst; cbn in Hc; congruence.
  - intros i s k r H Hc. destruct (Nat.eqb i 0); inversion H; subst; cbn in Hc; congruence.
Qed.

(* ---- efficiency (C18): which calls evaluate ------------------------------------------------------------------ *)
Notation call_evaluates := (call_evaluates V R).

(* calling again on the same state evaluates nothing *)
Theorem second_call_free h i m wa s : sts h i = Some s ->
  call_evaluates (fst (step h (Call i m wa))) i m = false.
Proof.
  intros Hs. unfold StateCache.call_evaluates. cbn [StateCache.step]. rewrite Hs.
  destruct (cache s m) eqn:E; cbn [fst StateCache.sts].
  - rewrite upd_same. cbn [StateCache.cache]. destruct wa.
    + unfold StateCache.fill_aux. rewrite fill_aux_spec. destruct (existsb (Nat.eqb m) (aux m)); [reflexivity|]. rewrite upd_same. reflexivity.
    + rewrite upd_same. reflexivity.
  - rewrite upd_same. cbn [StateCache.cache]. destruct wa.
    + unfold StateCache.fill_aux. rewrite fill_aux_spec. destruct (existsb (Nat.eqb m) (aux m)); [reflexivity|]. rewrite upd_same. reflexivity.
    + rewrite upd_same. reflexivity.
  - rewrite Hs, E. reflexivity.
Qed.
(* when the method returned its auxiliary outputs, later requests for them evaluate nothing *)
Theorem aux_outputs_free h i m s a : sts h i = Some s -> cache s m <> Val (eval m (vars s)) -> (forall r, cache s m <> Val r) ->
  In a (aux m) -> call_evaluates (fst (step h (Call i m true))) i a = false.
Proof.
  intros Hs _ Hn Ha. unfold StateCache.call_evaluates. cbn [StateCache.step]. rewrite Hs.
  assert (Hex : existsb (Nat.eqb a) (aux m) = true) by (apply existsb_exists; exists a; split; [exact Ha|apply Nat.eqb_refl]).
  destruct (cache s m) eqn:E; cbn [fst StateCache.sts]; try (exfalso; eapply Hn; reflexivity);
    rewrite upd_same; cbn [StateCache.cache]; unfold StateCache.fill_aux; rewrite fill_aux_spec, Hex; reflexivity.
Qed.
(* a copy (read-only or not) inherits every cached value *)
Theorem copy_call_free h i r s m v : sts h i = Some s -> cache s m = Val v ->
  call_evaluates (fst (step h (Copy i r))) (nst h) m = false.
Proof.
  intros Hs Hc. unfold StateCache.call_evaluates. cbn [StateCache.step]. rewrite Hs. cbn [fst StateCache.sts]. rewrite upd_same.
  cbn [StateCache.cache]. rewrite Hc. reflexivity.
Qed.
(* ... and the original keeps its own *)
Theorem copy_keeps_original h i r s m v : sts h i = Some s -> cache s m = Val v -> i < nst h ->
  call_evaluates (fst (step h (Copy i r))) i m = false.
Proof.
  intros Hs Hc Hi. unfold StateCache.call_evaluates. cbn [StateCache.step]. rewrite Hs. cbn [fst StateCache.sts].
  rewrite upd_other by lia. rewrite Hs, Hc. reflexivity.
Qed.

(* registration only ever happens under declared dependencies of a method that produces the key *)
Definition RegDecl (h : heap) : Prop :=
  forall g x k, deps h g x k = true -> exists m, In k (m :: aux m) /\ In x (decl m).
Lemma regdecl_step h o : RegDecl h -> RegDecl (fst (step h o)).
Proof.
  intros HR. destruct o as [i x v|i r|i|i m wa]; cbn [StateCache.step].
  - destruct (sts h i) as [s|]; [|exact HR]. destruct (ro s); exact HR.
  - destruct (sts h i) as [s|]; exact HR.
  - destruct (sts h i) as [s|]; [|exact HR]. cbn [fst]. intros g x k. cbn [StateCache.deps]. destruct (Nat.eqb g (ngrp h)); apply HR.
  - destruct (sts h i) as [s|]; [|exact HR].
    assert (G : forall g x k, reg_keys s m (m :: aux m) (deps h) g x k = true -> exists m0, In k (m0 :: aux m0) /\ In x (decl m0)).
    { intros g x k D. apply reg_keys_inv in D as [D|(_ & Hk & Hx)]; [apply HR in D; exact D | exists m; auto]. }
    destruct (cache s m); cbn [fst StateCache.deps]; exact G.
Qed.
(* assigning a variable outside the declared dependencies of every method producing a key leaves that key's entry alone *)
Theorem assign_unrelated_free h i x v s k r : RegDecl h -> sts h i = Some s -> ro s = false -> cache s k = Val r ->
  (forall m, In k (m :: aux m) -> ~ In x (decl m)) ->
  call_evaluates (fst (step h (Assign i x v))) i k = false.
Proof.
  intros HR Hs Hro Hc Hx. unfold StateCache.call_evaluates. cbn [StateCache.step]. rewrite Hs, Hro. cbn [fst StateCache.sts].
  rewrite upd_same. cbn [StateCache.cache]. destruct (deps h (grp s) x k) eqn:D.
  - exfalso. apply HR in D as (m & Hk & Hd). exact (Hx m Hk Hd).
  - rewrite Hc. reflexivity.
Qed.
Lemma regdecl_heap0 v0 : RegDecl (heap0 V R v0).
Proof. intros g x k D. cbn in D. discriminate. Qed.
Lemma regdecl_runs ops : forall h, RegDecl h -> RegDecl (runs h ops).
Proof. induction ops as [|o r IH]; intros h H; cbn [StateCache.runs]; auto. apply IH, regdecl_step, H. Qed.
End P.
