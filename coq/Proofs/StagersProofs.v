(* Proofs about the stager functions generated from src/mici/stagers.py (Gen/StagersGen.v). *)
From Coq Require Import ZArith QArith List Bool Lia.
Require Import Mici.Model.Stagers Mici.Gen.StagersGen.
Import ListNotations.
Open Scope Z_scope.

Lemma sumz_app a b : sumz (a ++ b) = sumz a + sumz b.
Proof. unfold sumz. induction a; cbn [app fold_right]; lia. Qed.

(* ---- int_mul ------------------------------------------------------------------------------ *)
Lemma int_mul_nonneg c e : (0 <= Qnum c) -> 0 <= e -> 0 <= int_mul c e.
Proof. intros Hc He. unfold int_mul. apply Z.quot_pos; [apply Z.mul_nonneg_nonneg; lia | lia]. Qed.
Lemma int_mul_le c e : 0 <= Qnum c -> 0 <= e -> int_mul c e * Zpos (Qden c) <= Qnum c * e.
Proof.
  intros Hc He. unfold int_mul. assert (Hp : 0 <= Qnum c * e) by (apply Z.mul_nonneg_nonneg; lia).
  rewrite Z.quot_div_nonneg by lia.
  pose proof (Z.mul_div_le (Qnum c * e) (Zpos (Qden c)) ltac:(lia)). lia.
Qed.
Lemma int_mul_ge_arg c e : (1 <= c)%Q -> 0 <= e -> e <= int_mul c e.
Proof.
  intros Hc He. unfold Qle in Hc. cbn in Hc. unfold int_mul.
  assert (Hd : 0 < Zpos (Qden c)) by lia. assert (Hn : Zpos (Qden c) <= Qnum c) by lia.
  assert (Hp : 0 <= Qnum c * e) by (apply Z.mul_nonneg_nonneg; lia).
  rewrite Z.quot_div_nonneg by lia. apply Z.div_le_lower_bound; [lia|].
  apply Z.mul_le_mono_nonneg_r; lia.
Qed.
Lemma int_mul_pos c e : (1 <= c)%Q -> 1 <= e -> 1 <= int_mul c e.
Proof. intros Hc He. pose proof (int_mul_ge_arg c e Hc ltac:(lia)). lia. Qed.
Lemma one_plus_ge m : (0 <= m)%Q -> (1 <= (1 # 1) + m)%Q.
Proof. intros H. unfold Qle, Qplus in *. cbn [Qnum Qden] in *. lia. Qed.
Lemma fallback_split n : 0 <= n ->
  0 <= int_mul (3 # 20) n /\ 0 <= int_mul (1 # 10) n /\ int_mul (3 # 20) n + int_mul (1 # 10) n <= n
  /\ (0 < n -> 1 <= n - int_mul (3 # 20) n - int_mul (1 # 10) n).
Proof.
  intros Hn. pose proof (int_mul_nonneg (3 # 20) n ltac:(cbn; lia) Hn). pose proof (int_mul_nonneg (1 # 10) n ltac:(cbn; lia) Hn).
  pose proof (int_mul_le (3 # 20) n ltac:(cbn; lia) Hn) as A. pose proof (int_mul_le (1 # 10) n ltac:(cbn; lia) Hn) as B.
  cbn [Qnum Qden] in A, B. repeat split; intros; lia.
Qed.

(* ---- the while loop -------------------------------------------------------------------------- *)
Section Loop.
  Variables (s1 s2 s3 : Z) (m : Q).
  Hypothesis Hm0 : (0 <= m)%Q.
  Notation loop := (gen_WindowedWarmUpStager_stages_while1 s1 s2 s3 m).

  Lemma windows_sum fuel : forall w counter n_slow l,
    counter <= n_slow -> 0 <= w -> loop fuel w counter n_slow = Some l ->
    sumz l = n_slow - counter /\ Forall (fun x => 0 <= x) l.
  Proof.
    induction fuel as [|f IH]; intros w counter n_slow l Hc Hw H; cbn [gen_WindowedWarmUpStager_stages_while1] in H.
    - destruct (counter <? n_slow) eqn:E; [discriminate|]. inversion H; subst. apply Z.ltb_ge in E. cbn. split; [lia|constructor].
    - destruct (counter <? n_slow) eqn:E.
      + apply Z.ltb_lt in E. cbv zeta in H.
        set (w' := if n_slow <? counter + int_mul ((1 # 1) + m) w then n_slow - counter else w) in *.
        assert (Hw' : 0 <= w' /\ counter + w' <= n_slow).
        { unfold w'. destruct (n_slow <? counter + int_mul ((1 # 1) + m) w) eqn:E2; [lia|]. apply Z.ltb_ge in E2.
          pose proof (int_mul_ge_arg _ w (one_plus_ge m Hm0) Hw). lia. }
        destruct (loop f (int_mul m w') (counter + w') n_slow) as [l'|] eqn:R; [|discriminate].
        inversion H; subst l.
        assert (Hs2 : 0 <= int_mul m w') by (apply int_mul_nonneg; [unfold Qle in Hm0; cbn in Hm0; lia | lia]).
        apply IH in R; try lia. destruct R as [R1 R2]. cbn [sumz fold_right]. fold (sumz l'). split; [lia| constructor; [lia|auto]].
      + inversion H; subst. apply Z.ltb_ge in E. cbn. split; [lia|constructor].
  Qed.

  Hypothesis Hm1 : (1 <= m)%Q.
  Lemma windows_terminates fuel : forall w counter n_slow,
    1 <= w -> (Z.to_nat (n_slow - counter) < fuel)%nat -> loop fuel w counter n_slow <> None.
  Proof.
    induction fuel as [|f IH]; intros w counter n_slow Hw Hf; [lia|]. cbn [gen_WindowedWarmUpStager_stages_while1].
    destruct (counter <? n_slow) eqn:E; [|discriminate]. apply Z.ltb_lt in E. cbv zeta.
    set (w' := if n_slow <? counter + int_mul ((1 # 1) + m) w then n_slow - counter else w).
    assert (Hw' : 1 <= w') by (unfold w'; destruct (n_slow <? counter + int_mul ((1 # 1) + m) w); lia).
    specialize (IH (int_mul m w') (counter + w') n_slow (int_mul_pos m w' Hm1 Hw') ltac:(lia)).
    destruct (loop f (int_mul m w') (counter + w') n_slow); [discriminate| congruence].
  Qed.
End Loop.

(* ---- WindowedWarmUpStager.stages --------------------------------------------------------------- *)
Definition main_stage (n_main : Z) (has_trace : bool) : list stage :=
  if 0 <? n_main then [{| n_iter := n_main; ads := NoAd; traced := has_trace; stats := true |}] else [].
Definition warm_stage (a : adapters) (has_trace tw : bool) (n : Z) : stage :=
  {| n_iter := n; ads := a; traced := tw && has_trace; stats := tw |}.

Lemma windowed_shape s1 s2 s3 m n_warm n_main ht tw :
  0 <= n_warm -> 0 <= s2 -> 0 <= s3 -> 1 <= s1 -> (1 <= m)%Q ->
  (0 < n_warm ->
   exists nf ws nl,
    gen_WindowedWarmUpStager_stages s1 s2 s3 m n_warm n_main ht tw =
      Some (warm_stage Fast ht tw nf :: map (warm_stage All ht tw) ws ++ [warm_stage Fast ht tw nl] ++ main_stage n_main ht)
    /\ 0 <= nf /\ 0 <= nl /\ Forall (fun x => 0 <= x) ws /\ nf + sumz ws + nl = n_warm)
  /\ (n_warm = 0 -> gen_WindowedWarmUpStager_stages s1 s2 s3 m n_warm n_main ht tw = Some (main_stage n_main ht)).
Proof.
  intros Hw H2 H3 H1 Hm.
  assert (Hm0 : (0 <= m)%Q) by (eapply Qle_trans; [|exact Hm]; unfold Qle; cbn; lia).
  unfold gen_WindowedWarmUpStager_stages.
  set (sel := if n_warm <? s2 + s1 + s3 then _ else _).
  assert (Hsel : exists nf nl w0, sel = Some (nf, nl, w0) /\ 0 <= nf /\ 0 <= nl /\ nf + nl <= n_warm /\ (0 < n_warm -> 1 <= w0)).
  { unfold sel. destruct (n_warm <? s2 + s1 + s3) eqn:E.
    - cbv zeta. destruct (fallback_split n_warm Hw) as (A & B & C & D). do 3 eexists. split; [reflexivity|]. repeat split; auto.
    - apply Z.ltb_ge in E. cbv zeta. do 3 eexists. split; [reflexivity|]. repeat split; lia. }
  destruct Hsel as (nf & nl & w0 & -> & Hnf & Hnl & Hsum & Hw0).
  split.
  - intros Hpos. assert (E : (0 <? n_warm) = true) by (apply Z.ltb_lt; lia). rewrite E. cbv zeta.
    rewrite Z.sub_0_r.
    destruct (gen_WindowedWarmUpStager_stages_while1 s1 s2 s3 m (Z.to_nat (n_warm - nf - nl) + 1) w0 0 (n_warm - nf - nl)) as [ws|] eqn:W.
    + specialize (Hw0 Hpos). pose proof (windows_sum s1 s2 s3 m Hm0 _ w0 0 (n_warm - nf - nl) ws ltac:(lia) ltac:(lia) W) as [S1 S2].
      exists nf, ws, nl. split.
      * unfold main_stage, warm_stage. destruct (0 <? n_main); cbn [app]; rewrite <- ?app_assoc; cbn [app]; rewrite ?app_nil_r; reflexivity.
      * repeat split; auto; lia.
    + exfalso. specialize (Hw0 Hpos). revert W. apply windows_terminates; auto; lia.
  - intros ->. cbn [Z.ltb Z.compare]. unfold main_stage. destruct (0 <? n_main); reflexivity.
Qed.

Lemma warmup_shape n_warm n_main ht tw :
  gen_WarmUpStager_stages n_warm n_main ht tw =
    Some ((if 0 <? n_warm then [warm_stage All ht tw n_warm] else []) ++ main_stage n_main ht).
Proof.
  unfold gen_WarmUpStager_stages, main_stage, warm_stage. destruct (0 <? n_warm), (0 <? n_main); reflexivity.
Qed.

(* consequences used by the property statements *)
Lemma warm_main n ht : warm (main_stage n ht) = [].
Proof. unfold main_stage. destruct (0 <? n); reflexivity. Qed.
Lemma warm_map a ht tw ws : a <> NoAd -> warm (map (warm_stage a ht tw) ws) = map (warm_stage a ht tw) ws.
Proof. intros Ha. induction ws as [|w ws IH]; cbn; [reflexivity|]. unfold is_warm at 1. cbn. destruct a; try congruence; cbn; f_equal; exact IH. Qed.
Lemma niter_map a ht tw ws : map n_iter (map (warm_stage a ht tw) ws) = ws.
Proof. rewrite map_map. cbn. apply map_id. Qed.
Lemma recorded_main n ht : 0 <= n -> recorded (main_stage n ht) = n.
Proof. intros Hn. unfold main_stage, recorded. destruct (0 <? n) eqn:E; cbn; [lia|]. apply Z.ltb_ge in E. lia. Qed.
Lemma recorded_app a b : recorded (a ++ b) = recorded a + recorded b.
Proof. unfold recorded. rewrite filter_app, map_app, sumz_app. reflexivity. Qed.
Lemma recorded_warm a ht tw ws : recorded (map (warm_stage a ht tw) ws) = if tw then sumz ws else 0.
Proof.
  unfold recorded. destruct tw.
  - induction ws as [|w ws IH]; cbn [map filter warm_stage stats sumz fold_right]; [reflexivity|]. unfold sumz in IH. rewrite IH. reflexivity.
  - induction ws as [|w ws IH]; cbn [map filter warm_stage stats sumz fold_right]; [reflexivity|]. exact IH.
Qed.
Lemma recorded_cons s l : recorded (s :: l) = (if stats s then n_iter s else 0) + recorded l.
Proof. unfold recorded, sumz. cbn [filter]. destruct (stats s); cbn [map fold_right]; lia. Qed.
Lemma warm_cons s l : warm (s :: l) = if is_warm s then s :: warm l else warm l.
Proof. reflexivity. Qed.
Lemma warm_app a b : warm (a ++ b) = warm a ++ warm b.
Proof. apply filter_app. Qed.
