(* Tangent-map relation of a whole integrator step read off a generated schedule, implicit sub-steps included. *)
From Coq Require Import QArith Lia Lqa List Bool.
Require Import Mici.Lib.QMat Mici.Lib.Wood Mici.Lib.Sympl Mici.Lib.Sympl2 Mici.Lib.Sympl3 Mici.Lib.Sympl4 Mici.Model.Integrators.
Import ListNotations.
Open Scope Q_scope.

Section Sched.
Variable n : nat.
Variables (S W K : nat -> mat).     (* second-derivative blocks H_qq, H_pp, H_qp met by the k-th group of sub-steps *)
Variable eps : Q.
(* constrained integrator: number of constraints, inner steps, constraint Jacobians before / after each sub-step, the symmetric
   multiplier-weighted constraint Hessians, the (symplectic, linear) h2 flow block of each inner step *)
Variables (nc n_inner : nat) (Jc Jc' GL GM : nat -> mat) (Fl : nat -> blk).
Fixpoint cbs (m k : nat) : trel :=
  match m with O => rid n | Datatypes.S m' => rcomp (CBrel n nc (Jc k) (Jc' k) (GL k) (GM k) (Fl k)) (cbs m' (Datatypes.S k)) end.
Definition rfalse : trel := fun _ _ => False.
Fixpoint srel (l : sched) (k : nat) : trel :=
  match l with
  | [] => rid n
  | (H1, c) :: r => rcomp (of_blk n (kick (c * eps) (S k))) (srel r (Datatypes.S k))
  | (H2, c) :: r => rcomp (of_blk n (drift (c * eps) (W k))) (srel r (Datatypes.S k))
  | (Bfwd, c) :: (Cfwd, c') :: r => if Qeq_bool c c' then rcomp (SE n (S k) (W k) (K k) (c * eps)) (srel r (Datatypes.S k)) else rfalse
  | (Cadj, c) :: (Badj, c') :: r => if Qeq_bool c c' then rcomp (SEadj n (S k) (W k) (K k) (c * eps)) (srel r (Datatypes.S k)) else rfalse
  | (Mfwd, c) :: (Madj, c') :: r => if Qeq_bool c c' then rcomp (MID n (S k) (W k) (K k) (c * eps)) (srel r (Datatypes.S k)) else rfalse
  | (CA, c) :: r => rcomp (CArel n nc (Jc k) (GM k) (S k) (c * eps)) (srel r (Datatypes.S k))
  | (CB, c) :: r => rcomp (cbs n_inner k) (srel r (k + n_inner)%nat)
  | _ => rfalse
  end.
(* the schedules this reading covers (so that the theorem below is not vacuous for them) *)
Fixpoint supported (l : sched) : bool :=
  match l with
  | [] => true
  | (H1, _) :: r | (H2, _) :: r | (CA, _) :: r | (CB, _) :: r => supported r
  | (Bfwd, c) :: (Cfwd, c') :: r | (Cadj, c) :: (Badj, c') :: r | (Mfwd, c) :: (Madj, c') :: r => Qeq_bool c c' && supported r
  | _ => false
  end.

Hypothesis HS : forall k, msym n (S k).
Hypothesis HW : forall k, msym n (W k).
Hypothesis HGL : forall k, msym n (GL k).
Hypothesis HGM : forall k, msym n (GM k).
Hypothesis HFl : forall k, Sympl2.pres n (Fl k).
Lemma cbs_pres m : forall k, rpres n (cbs m k).
Proof. induction m as [|m IH]; intros k; cbn [cbs]; [apply rpres_id| apply rpres_comp; [apply CBrel_pres; auto| apply IH]]. Qed.
Lemma rfalse_pres : rpres n rfalse. Proof. intros a a' b b' []. Qed.

Lemma srel_pres_len m : forall l k, (length l <= m)%nat -> rpres n (srel l k).
Proof.
  induction m as [|m IH]; intros l k Hl.
  - destruct l; [apply rpres_id| cbn in Hl; lia].
  - destruct l as [|[c q] r]; [apply rpres_id|]. cbn [length] in Hl.
    assert (IH1 : forall k', rpres n (srel r k')) by (intros; apply IH; lia).
    destruct c; cbn [srel]; try apply rfalse_pres.
    + apply rpres_comp; [apply of_blk_pres, Sympl2.kick_pres, HS| apply IH1].
    + apply rpres_comp; [apply of_blk_pres, Sympl2.drift_pres, HW| apply IH1].
    + destruct r as [|[c2 q2] r2]; [apply rfalse_pres|]. destruct c2; try apply rfalse_pres.
      destruct (Qeq_bool q q2); [|apply rfalse_pres]. apply rpres_comp; [apply SE_pres; auto| apply IH; cbn [length] in Hl; lia].
    + destruct r as [|[c2 q2] r2]; [apply rfalse_pres|]. destruct c2; try apply rfalse_pres.
      destruct (Qeq_bool q q2); [|apply rfalse_pres]. apply rpres_comp; [apply SEadj_pres; auto| apply IH; cbn [length] in Hl; lia].
    + destruct r as [|[c2 q2] r2]; [apply rfalse_pres|]. destruct c2; try apply rfalse_pres.
      destruct (Qeq_bool q q2); [|apply rfalse_pres]. apply rpres_comp; [apply MID_pres; auto| apply IH; cbn [length] in Hl; lia].
    + apply rpres_comp; [apply CArel_pres; auto| apply IH1].
    + apply rpres_comp; [apply cbs_pres| apply IH1].
Qed.
Theorem srel_pres l k : rpres n (srel l k).
Proof. apply (srel_pres_len (length l)). lia. Qed.
End Sched.
Print Assumptions srel_pres.
