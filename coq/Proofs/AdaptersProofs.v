From Coq Require Import QArith Qminmax List Bool Lia Lqa Permutation.
Require Import Mici.Model.Adapters Mici.Gen.AdaptersGen Mici.Model.AdaptersModel.
Import ListNotations.
Open Scope Q_scope.

(* ---------- arithmetic helpers ---------- *)
Lemma qn_S n : qn (S n) == qn n + 1.
Proof. unfold qn. rewrite Nat2Z.inj_succ. unfold Z.succ. rewrite inject_Z_plus. reflexivity. Qed.
Lemma qn_pos n : 0 < qn (S n).
Proof. unfold qn. replace 0 with (inject_Z 0) by reflexivity. rewrite <- Zlt_Qlt. lia. Qed.
Lemma qn_nonneg n : 0 <= qn n.
Proof. unfold qn. replace 0 with (inject_Z 0) by reflexivity. rewrite <- Zle_Qle. lia. Qed.
Lemma qn_add a b : qn (a + b) == qn a + qn b.
Proof. unfold qn. rewrite Nat2Z.inj_add, inject_Z_plus. reflexivity. Qed.
Lemma qn_pos' n : (0 < n)%nat -> 0 < qn n.
Proof. destruct n; [lia| intros _; apply qn_pos]. Qed.
Lemma S1_snoc i l x : S1 i (l ++ [x]) == S1 i l + x i.
Proof. unfold S1. induction l; cbn; [lra| rewrite IHl; lra]. Qed.
Lemma P_snoc i j l x : P i j (l ++ [x]) == P i j l + x i * x j.
Proof. unfold P. induction l; cbn; [lra| rewrite IHl; lra]. Qed.
Lemma S1_app i a b : S1 i (a ++ b) == S1 i a + S1 i b.
Proof. unfold S1. induction a; cbn; [lra| rewrite IHa; lra]. Qed.
Lemma P_app i j a b : P i j (a ++ b) == P i j a + P i j b.
Proof. unfold P. induction a; cbn; [lra| rewrite IHa; lra]. Qed.
Lemma S1_perm i a b : Permutation a b -> S1 i a == S1 i b.
Proof. unfold S1. induction 1; cbn; lra. Qed.
Lemma P_perm i j a b : Permutation a b -> P i j a == P i j b.
Proof. unfold P. induction 1; cbn; lra. Qed.

(* ---------- the accumulated state represents the batch statistics ---------- *)
Definition ReprV (s : vstate) (l : list vec) : Prop :=
  let '(n, m, a) := s in n == qn (length l) /\ forall i, n * m i == S1 i l /\ a i == P i i l - n * m i * m i.
Definition ReprC (s : cstate) (l : list vec) : Prop :=
  let '(n, m, a) := s in n == qn (length l) /\ (forall i, n * m i == S1 i l) /\ forall i j, a i j == P i j l - n * m i * m j.

Lemma var_init_repr : ReprV var_init []. 
Proof. unfold ReprV, var_init, vzero, qn; cbn. split; [reflexivity|]. intros i. split; lra. Qed.
Lemma cov_init_repr : ReprC cov_init [].
Proof. unfold ReprC, cov_init, vzero, mzero, qn; cbn. split; [reflexivity|]. split; intros; lra. Qed.

Lemma var_step_repr s l x : ReprV s l -> ReprV (var_step s x) (l ++ [x]).
Proof.
  destruct s as [[n m] a]. intros [Hn H]. unfold var_step, gen_var_update, ReprV.
  assert (Hp : 0 < n + 1) by (rewrite Hn; pose proof (qn_nonneg (length l)); lra).
  split.
  - rewrite app_length; cbn [length]. rewrite Nat.add_1_r, qn_S, Hn. reflexivity.
  - intros i. destruct (H i) as [Hm Ha]. unfold vadd, vsub, vmul, vscal. split.
    + rewrite S1_snoc, <- Hm. field. lra.
    + rewrite P_snoc, Ha. field. lra.
Qed.
Lemma cov_step_repr s l x : ReprC s l -> ReprC (cov_step s x) (l ++ [x]).
Proof.
  destruct s as [[n m] a]. intros [Hn [Hm Ha]]. unfold cov_step, gen_cov_update, ReprC.
  assert (Hp : 0 < n + 1) by (rewrite Hn; pose proof (qn_nonneg (length l)); lra).
  split; [|split].
  - rewrite app_length; cbn [length]. rewrite Nat.add_1_r, qn_S, Hn. reflexivity.
  - intros i. unfold vadd, vsub, vscal. rewrite S1_snoc, <- (Hm i). field. lra.
  - intros i j. unfold madd', router, vadd, vsub, vscal. rewrite P_snoc, (Ha i j). field. lra.
Qed.

Lemma fold_var_repr l0 : forall s pre, ReprV s pre -> ReprV (fold_left var_step l0 s) (pre ++ l0).
Proof.
  induction l0 as [|x l0 IH]; intros s pre H; cbn [fold_left]. - rewrite app_nil_r; exact H.
  - replace (pre ++ x :: l0) with ((pre ++ [x]) ++ l0) by (rewrite <- app_assoc; reflexivity). apply IH. apply var_step_repr. exact H.
Qed.
Lemma fold_cov_repr l0 : forall s pre, ReprC s pre -> ReprC (fold_left cov_step l0 s) (pre ++ l0).
Proof.
  induction l0 as [|x l0 IH]; intros s pre H; cbn [fold_left]. - rewrite app_nil_r; exact H.
  - replace (pre ++ x :: l0) with ((pre ++ [x]) ++ l0) by (rewrite <- app_assoc; reflexivity). apply IH. apply cov_step_repr. exact H.
Qed.
Theorem var_chain_repr l : ReprV (var_chain l) l.
Proof. exact (fold_var_repr l var_init [] var_init_repr). Qed.
Theorem cov_chain_repr l : ReprC (cov_chain l) l.
Proof. exact (fold_cov_repr l cov_init [] cov_init_repr). Qed.

(* ---------- merging two chains' states = state of the concatenation ---------- *)
Lemma var_merge_repr sa sb la lb : ReprV sa la -> ReprV sb lb -> (0 < length la + length lb)%nat -> ReprV (var_merge sa sb) (la ++ lb).
Proof.
  destruct sa as [[n m] a], sb as [[k mk] ak]. intros [Hn Ha] [Hk Hb] Hpos. unfold var_merge, gen_var_merge, ReprV.
  assert (Hp : 0 < n + k) by (rewrite Hn, Hk, <- qn_add; apply qn_pos'; exact Hpos).
  split.
  - rewrite app_length, qn_add, Hn, Hk. reflexivity.
  - intros i. destruct (Ha i) as [Ha1 Ha2]. destruct (Hb i) as [Hb1 Hb2]. unfold vadd, vsub, vmul, vscal. split.
    + rewrite S1_app, <- Ha1, <- Hb1. field. lra.
    + rewrite P_app, Ha2, Hb2. field. lra.
Qed.
Lemma cov_merge_repr sa sb la lb : ReprC sa la -> ReprC sb lb -> (0 < length la + length lb)%nat -> ReprC (cov_merge sa sb) (la ++ lb).
Proof.
  destruct sa as [[n m] a], sb as [[k mk] ak]. intros [Hn [Ha1 Ha2]] [Hk [Hb1 Hb2]] Hpos. unfold cov_merge, gen_cov_merge, ReprC.
  assert (Hp : 0 < n + k) by (rewrite Hn, Hk, <- qn_add; apply qn_pos'; exact Hpos).
  split; [|split].
  - rewrite app_length, qn_add, Hn, Hk. reflexivity.
  - intros i. unfold vadd, vscal. rewrite S1_app, <- (Ha1 i), <- (Hb1 i). field. lra.
  - intros i j. unfold madd', mscal', mouter, vadd, vsub, vscal. rewrite P_app, (Ha2 i j), (Hb2 i j). field. lra.
Qed.

Lemma fold_var_merge ls : forall s pre, ReprV s pre -> (0 < length pre)%nat ->
  ReprV (fold_left var_merge (map var_chain ls) s) (pre ++ concat ls).
Proof.
  induction ls as [|l ls IH]; intros s pre H Hp; cbn [map fold_left concat]. - rewrite app_nil_r; exact H.
  - rewrite app_assoc. apply IH; [|rewrite app_length; lia]. apply var_merge_repr; [exact H| apply var_chain_repr| lia].
Qed.
Lemma fold_cov_merge ls : forall s pre, ReprC s pre -> (0 < length pre)%nat ->
  ReprC (fold_left cov_merge (map cov_chain ls) s) (pre ++ concat ls).
Proof.
  induction ls as [|l ls IH]; intros s pre H Hp; cbn [map fold_left concat]. - rewrite app_nil_r; exact H.
  - rewrite app_assoc. apply IH; [|rewrite app_length; lia]. apply cov_merge_repr; [exact H| apply cov_chain_repr| lia].
Qed.

(* ---------- finalize = regularised pooled sample (co)variance of ALL positions ---------- *)
Definition reg (o scale n x : Q) : Q := x * (n / (o + n)) + scale * (o / (o + n)).
Lemma ltb2_spec n : ltb2 n = true <-> n < 2.
Proof. unfold ltb2. rewrite Qlt_alt. destruct (n ?= 2); split; intros; congruence. Qed.
Lemma qn_lt2 k : qn k < 2 <-> (k < 2)%nat.
Proof. unfold qn. replace 2 with (inject_Z 2) by reflexivity. rewrite <- Zlt_Qlt. lia. Qed.

Theorem var_finalize_pooled o scale l0 ls : 0 <= o -> l0 <> [] ->
  let all := l0 ++ concat ls in
  match var_finalize o scale (map var_chain (l0 :: ls)) with
  | None => (length all < 2)%nat
  | Some v => (2 <= length all)%nat /\ forall i, v i == if Qeq_bool o 0 then pooled_cov i i all else reg o scale (qn (length all)) (pooled_cov i i all)
  end.
Proof.
  intros Ho Hne all. unfold var_finalize. cbn [map].
  assert (Hl0 : (0 < length l0)%nat) by (destruct l0; [congruence| cbn; lia]).
  pose proof (fold_var_merge ls (var_chain l0) l0 (var_chain_repr l0) Hl0) as R. fold all in R. clearbody all.
  destruct (fold_left var_merge (map var_chain ls) (var_chain l0)) as [[n m] a]. destruct R as [Hn R].
  destruct (ltb2 n) eqn:E.
  - apply ltb2_spec in E. rewrite Hn in E. apply qn_lt2. exact E.
  - assert (Hge : (2 <= length all)%nat).
    { destruct (le_lt_dec 2 (length all)); [assumption|]. exfalso. assert (ltb2 n = true); [|congruence]. apply ltb2_spec. rewrite Hn. apply qn_lt2. assumption. }
    split; [exact Hge|]. intros i. destruct (R i) as [Hm Ha].
    assert (Hq : 2 <= qn (length all)) by (unfold qn; replace 2 with (inject_Z 2) by reflexivity; rewrite <- Zle_Qle; lia).
    unfold gen_var_regularize, gen_var_scale, pooled_cov, vscal, vshift.
    destruct (Qeq_bool o 0) eqn:Eo.
    + rewrite Ha, <- Hm, Hn. field. split; intro Hc; clear - Hq Hc; lra.
    + unfold reg. rewrite Ha, <- Hm, Hn. field. repeat split; intro Hc; clear - Hq Hc Ho; lra.
Qed.

Theorem cov_finalize_pooled o scale l0 ls : 0 <= o -> l0 <> [] ->
  let all := l0 ++ concat ls in
  match cov_finalize o scale (map cov_chain (l0 :: ls)) with
  | None => (length all < 2)%nat
  | Some v => (2 <= length all)%nat /\ forall i j, v i j == pooled_cov i j all * (qn (length all) / (o + qn (length all)))
                                                          + (if Nat.eqb i j then scale * (o / (o + qn (length all))) else 0)
  end.
Proof.
  intros Ho Hne all. unfold cov_finalize. cbn [map].
  assert (Hl0 : (0 < length l0)%nat) by (destruct l0; [congruence| cbn; lia]).
  pose proof (fold_cov_merge ls (cov_chain l0) l0 (cov_chain_repr l0) Hl0) as R. fold all in R. clearbody all.
  destruct (fold_left cov_merge (map cov_chain ls) (cov_chain l0)) as [[n m] a]. destruct R as [Hn [Hm Ha]].
  destruct (ltb2 n) eqn:E.
  - apply ltb2_spec in E. rewrite Hn in E. apply qn_lt2. exact E.
  - assert (Hge : (2 <= length all)%nat).
    { destruct (le_lt_dec 2 (length all)); [assumption|]. exfalso. assert (ltb2 n = true); [|congruence]. apply ltb2_spec. rewrite Hn. apply qn_lt2. assumption. }
    split; [exact Hge|]. intros i j.
    assert (Hq : 2 <= qn (length all)) by (unfold qn; replace 2 with (inject_Z 2) by reflexivity; rewrite <- Zle_Qle; lia).
    unfold gen_cov_regularize, gen_cov_scale, pooled_cov, mscal', mshift.
    destruct (Nat.eqb i j); rewrite (Ha i j), <- (Hm i), <- (Hm j), Hn; field; repeat split; intro Hc; clear - Hq Hc Ho; lra.
Qed.

(* the result depends only on the multiset of all positions: any split into (non-empty) chains, any order of chains and of
   positions gives the same metric *)
Lemma pooled_cov_perm i j a b : Permutation a b -> pooled_cov i j a == pooled_cov i j b.
Proof. intros H. unfold pooled_cov. rewrite (P_perm i j a b H), (S1_perm i a b H), (S1_perm j a b H), (Permutation_length H). reflexivity. Qed.

Theorem var_finalize_split_independent o scale l0 ls l0' ls' v v' : 0 <= o -> l0 <> [] -> l0' <> [] ->
  Permutation (l0 ++ concat ls) (l0' ++ concat ls') ->
  var_finalize o scale (map var_chain (l0 :: ls)) = Some v -> var_finalize o scale (map var_chain (l0' :: ls')) = Some v' ->
  forall i, v i == v' i.
Proof.
  intros Ho H0 H0' HP E E' i.
  pose proof (var_finalize_pooled o scale l0 ls Ho H0) as A. pose proof (var_finalize_pooled o scale l0' ls' Ho H0') as A'.
  cbv zeta in A, A'. rewrite E in A. rewrite E' in A'. destruct A as [_ A]. destruct A' as [_ A'].
  rewrite (A i), (A' i). rewrite (Permutation_length HP). destruct (Qeq_bool o 0); [|unfold reg]; rewrite (pooled_cov_perm i i _ _ HP); reflexivity.
Qed.
Theorem cov_finalize_split_independent o scale l0 ls l0' ls' v v' : 0 <= o -> l0 <> [] -> l0' <> [] ->
  Permutation (l0 ++ concat ls) (l0' ++ concat ls') ->
  cov_finalize o scale (map cov_chain (l0 :: ls)) = Some v -> cov_finalize o scale (map cov_chain (l0' :: ls')) = Some v' ->
  forall i j, v i j == v' i j.
Proof.
  intros Ho H0 H0' HP E E' i j.
  pose proof (cov_finalize_pooled o scale l0 ls Ho H0) as A. pose proof (cov_finalize_pooled o scale l0' ls' Ho H0') as A'.
  cbv zeta in A, A'. rewrite E in A. rewrite E' in A'. destruct A as [_ A]. destruct A' as [_ A'].
  rewrite (A i j), (A' i j). rewrite (Permutation_length HP). rewrite (pooled_cov_perm i j _ _ HP). reflexivity.
Qed.
Print Assumptions var_finalize_split_independent.
Print Assumptions cov_finalize_split_independent.

(* ---------- dual averaging ---------- *)
Section DAP.
Variables (powf : Q -> Q -> Q) (expf logf : Q -> Q).
Variables (t0 delta kappa gamma : Q).
Hypothesis Ht0 : 0 <= t0.
Notation step := (da_step powf expf t0 delta kappa gamma).
Definition da_final (s : dstate) (l : list Q) : dstate := fold_left (fun s a => fst (step s a)) l s.
Lemma da_run_final l : forall s, fst (da_run powf expf t0 delta kappa gamma s l) = da_final s l.
Proof.
  induction l as [|a r IH]; intros s; cbn [da_run da_final fold_left]; [reflexivity|].
  destruct (step s a) as [s' e] eqn:E. specialize (IH s'). destruct (da_run powf expf t0 delta kappa gamma s' r) as [s'' es]. cbn [fst] in *. exact IH.
Qed.

(* the documented recursion (Hoffman & Gelman 2014, algorithm 5/6, with the adapter's parameter names):
     Hbar_m   = (1 - 1/(m + t0)) Hbar_{m-1} + (delta - a_m)/(m + t0)
     log eps_m = mu - sqrt(m)/gamma Hbar_m
     log epsbar_m = m^-kappa log eps_m + (1 - m^-kappa) log epsbar_{m-1}                                              *)
Definition spec_step (s : dstate) (a : Q) : dstate * Q :=
  let '(it, hbar, sm, mu) := s in
  let m := it + 1 in
  let hbar' := (1 - 1 / (m + t0)) * hbar + (delta - a) / (m + t0) in
  let logeps := mu - powf m (1 # 2) / gamma * hbar' in
  let eta := powf (1 / m) kappa in
  ((m, hbar', eta * logeps + (1 - eta) * sm, mu), logeps).

Hypothesis Hgamma : ~ gamma == 0.
Theorem da_step_is_documented_recursion it hbar sm mu a : 0 <= it ->
  let '((it1, h1, s1, m1), e1) := step (it, hbar, sm, mu) a in
  let '((it2, h2, s2, m2), le) := spec_step (it, hbar, sm, mu) a in
  it1 == it2 /\ h1 == h2 /\ s1 == s2 /\ m1 == m2 /\ exists le', e1 = expf le' /\ le' == le.
Proof.
  intros Hit. unfold da_step, gen_da_update, spec_step. cbv zeta.
  assert (Hd : ~ it + 1 + t0 == 0) by lra. assert (Hd' : ~ t0 + (it + 1) == 0) by lra.
  repeat split; try reflexivity.
  - field; repeat split; (assumption || lra).
  - field; repeat split; (assumption || lra).
  - eexists. split; [reflexivity|]. field; repeat split; (assumption || lra).
Qed.

(* closed form of the error statistic: (t0 + m) Hbar_m = sum_{i<=m} (delta - a_i); the iteration counter counts updates;
   the regularisation target never changes *)
Definition DAInv (mu0 : Q) (s : dstate) (pre : list Q) : Prop :=
  let '(it, err, sm, mu) := s in it == qn (length pre) /\ (t0 + it) * err == lsum (map (fun a => delta - a) pre) /\ mu = mu0.
Lemma lsum_snoc l x : lsum (l ++ [x]) == lsum l + x.
Proof. unfold lsum. induction l; cbn; [lra| rewrite IHl; lra]. Qed.
Lemma da_step_inv mu0 s pre a : DAInv mu0 s pre -> DAInv mu0 (fst (step s a)) (pre ++ [a]).
Proof.
  destruct s as [[[it err] sm] mu]. intros [Hit [He Hmu]]. unfold da_step, gen_da_update. cbv zeta. cbn [fst]. unfold DAInv.
  assert (Hp : 0 < t0 + (it + 1)) by (rewrite Hit; pose proof (qn_nonneg (length pre)); lra).
  split; [|split].
  - rewrite app_length; cbn [length]. rewrite Nat.add_1_r, qn_S, Hit. reflexivity.
  - rewrite map_app; cbn [map]. rewrite lsum_snoc, <- He. field. lra.
  - exact Hmu.
Qed.
Lemma da_final_inv mu0 l : forall s pre, DAInv mu0 s pre -> DAInv mu0 (da_final s l) (pre ++ l).
Proof.
  induction l as [|a r IH]; intros s pre H; cbn [da_final fold_left]. - rewrite app_nil_r; exact H.
  - replace (pre ++ a :: r) with ((pre ++ [a]) ++ r) by (rewrite <- app_assoc; reflexivity). apply IH. apply da_step_inv. exact H.
Qed.
Theorem da_error_closed_form target eps0 l :
  let '(it, err, sm, mu) := da_final (da_init logf target eps0) l in
  it == qn (length l) /\ (t0 + qn (length l)) * err == lsum (map (fun a => delta - a) l)
  /\ mu = match target with None => logf (10 * eps0) | Some t => t end.
Proof.
  pose proof (da_final_inv (match target with None => logf (10 * eps0) | Some t => t end) l (da_init logf target eps0) []) as H.
  cbn [app] in H. destruct (da_final (da_init logf target eps0) l) as [[[it err] sm] mu].
  assert (I : DAInv (match target with None => logf (10 * eps0) | Some t => t end) (da_init logf target eps0) []).
  { unfold DAInv, da_init, gen_da_init, qn, lsum. cbn. repeat split; try lra. }
  destruct (H I) as [A [B C]]. split; [exact A|]. split; [|exact C]. rewrite <- A. exact B.
Qed.

(* every step size the adapter sets is exp(something): positive as soon as exp is; the smoothed iterate is a convex
   combination of the previous smoothed value and the current log step size, and the first update forgets the start value *)
Theorem da_step_size_positive s a : (forall x, 0 < expf x) -> 0 < snd (step s a).
Proof. intros H. destruct s as [[[it err] sm] mu]. unfold da_step, gen_da_update. cbv zeta. cbn [snd]. apply H. Qed.
Theorem da_smoothing_is_weighted_average it err sm mu a : 0 <= it ->
  let w := powf (1 / (it + 1)) kappa in
  let '((_, err', sm', _), _) := step (it, err, sm, mu) a in
  sm' == (1 - w) * sm + w * (mu - err' * powf (it + 1) (1 # 2) / gamma).
Proof. intros Hit. unfold da_step, gen_da_update. cbv zeta. field. split; [lra| exact Hgamma]. Qed.
Theorem da_smoothing_bounded it err sm mu a lo hi : 0 <= it ->
  let w := powf (1 / (it + 1)) kappa in 0 <= w <= 1 ->
  let '((_, err', sm', _), _) := step (it, err, sm, mu) a in
  lo <= sm <= hi -> lo <= mu - err' * powf (it + 1) (1 # 2) / gamma <= hi -> lo <= sm' <= hi.
Proof.
  intros Hit w Hw. unfold da_step, gen_da_update. cbv zeta. fold w. intros Hs Hx.
  set (x := mu - _ / gamma) in *. clearbody x. nra.
Qed.
Theorem da_first_update_forgets_start target eps0 a : powf 1 kappa == 1 ->
  let '((_, err', sm', mu), _) := step (da_init logf target eps0) a in
  sm' == mu - err' * powf 1 (1 # 2) / gamma.
Proof.
  intros H1. unfold da_init, gen_da_init, da_step, gen_da_update. cbv zeta.
  replace (1 / (0 + 1)) with 1 by reflexivity. replace (0 + 1) with 1 by reflexivity. rewrite H1. field. split; [lra| exact Hgamma].
Qed.
End DAP.
Print Assumptions da_step_is_documented_recursion.
Print Assumptions da_error_closed_form.

(* ---------- reducers ---------- *)
Lemma fold_min_le l : forall x, fold_left Qmin l x <= x.
Proof. induction l as [|y l IH]; intros x; cbn. lra. eapply Qle_trans; [apply IH|]. apply Q.le_min_l. Qed.
Lemma fold_min_in l : forall x, fold_left Qmin l x == x \/ exists y, In y l /\ fold_left Qmin l x == y.
Proof.
  induction l as [|y l IH]; intros x; cbn [fold_left]. left; reflexivity.
  destruct (IH (Qmin x y)) as [H|[z [Hz H]]].
  - destruct (Q.min_dec x y) as [E|E]; [left; rewrite H; exact E| right; exists y; split; [left; reflexivity| rewrite H; exact E]].
  - right. exists z. split; [right; exact Hz| exact H].
Qed.
Lemma fold_min_lb l : forall x y, In y l -> fold_left Qmin l x <= y.
Proof.
  induction l as [|z l IH]; intros x y Hy; [destruct Hy|]. cbn [fold_left]. destruct Hy as [<-|Hy].
  - eapply Qle_trans; [apply fold_min_le|]. apply Q.le_min_r.
  - apply IH. exact Hy.
Qed.
(* the minimum reducer returns the smallest per-chain step size: exp(min logs) is one of the exp(log)s and below all of them *)
Theorem min_reducer_is_minimum (expf : Q -> Q) l : l <> [] -> (forall a b, a <= b -> expf a <= expf b) -> (forall a b, a == b -> expf a == expf b) ->
  (exists x, In x l /\ gen_min_log_step_size_reducer expf l == expf x) /\ forall x, In x l -> gen_min_log_step_size_reducer expf l <= expf x.
Proof.
  intros Hne Hmono Hprop. destruct l as [|x0 r]; [congruence|]. unfold gen_min_log_step_size_reducer, lmin. split.
  - destruct (fold_min_in r x0) as [H|[y [Hy H]]].
    + exists x0. split; [left; reflexivity| apply Hprop; exact H].
    + exists y. split; [right; exact Hy| apply Hprop; exact H].
  - intros x [<-|Hx]; apply Hmono; [apply fold_min_le| apply fold_min_lb; exact Hx].
Qed.
Theorem mean_reducers (expf : Q -> Q) l :
  gen_arithmetic_mean_log_step_size_reducer expf l = lsum (map expf l) / llen l
  /\ gen_geometric_mean_log_step_size_reducer expf l = expf (lsum l / llen l).
Proof. split; reflexivity. Qed.
Print Assumptions min_reducer_is_minimum.

(* ---------- initial step-size search ---------- *)
Section SearchP.
Variable out : Q -> outcome.
Definition SInv (eps : Q) (tb : bool) : Prop :=
  if tb then exists p, eps = p / 2 /\ out p <> Below else exists p, eps = p * 2 /\ out p = Below.
Definition Crossing (eps : Q) : Prop :=
  (out eps = Below /\ exists p, eps = p / 2 /\ out p <> Below) \/ (out eps = Above /\ exists p, eps = p * 2 /\ out p = Below).

Lemma search_inv fuel : forall eps tb r, SInv eps tb -> search out fuel false eps tb = Some r -> Crossing r.
Proof.
  induction fuel as [|f IH]; intros eps tb r HI H; cbn [search] in H; [discriminate|].
  destruct (out eps) eqn:O.
  - (* Below *) destruct tb; cbn in H.
    + injection H as <-. left. split; [exact O| exact HI].
    + apply (IH (eps * 2) false r); [|exact H]. exists eps. split; [reflexivity| exact O].
  - (* Above *) destruct tb; cbn in H.
    + apply (IH (eps / 2) true r); [|exact H]. exists eps. split; [reflexivity| rewrite O; discriminate].
    + injection H as <-. right. split; [exact O| exact HI].
  - (* NaN *) cbn in H. apply (IH (eps / 2) true r); [|exact H]. exists eps. split; [reflexivity| rewrite O; discriminate].
  - (* Failed *) apply (IH (eps / 2) true r); [|exact H]. exists eps. split; [reflexivity| rewrite O; discriminate].
Qed.

Theorem init_step_size_crosses_threshold max_iters r : find_init_step_size out max_iters = Some r -> Crossing r.
Proof.
  unfold find_init_step_size. destruct max_iters as [|f]; cbn [search]; [discriminate|].
  destruct (out gen_search_init) eqn:O; cbn; intros H.
  - apply (search_inv f (gen_search_init * 2) false r); [|exact H]. exists gen_search_init. split; [reflexivity| exact O].
  - apply (search_inv f (gen_search_init / 2) true r); [|exact H]. exists gen_search_init. split; [reflexivity| rewrite O; discriminate].
  - apply (search_inv f (gen_search_init / 2) true r); [|exact H]. exists gen_search_init. split; [reflexivity| rewrite O; discriminate].
  - apply (search_inv f (gen_search_init / 2) true r); [|exact H]. exists gen_search_init. split; [reflexivity| rewrite O; discriminate].
Qed.
End SearchP.
Print Assumptions init_step_size_crosses_threshold.
