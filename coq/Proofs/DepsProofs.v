(* From a sound dependency table (decided by computation on the generated tables) to the hypotheses of the cache theorem. *)
From Coq Require Import List String Bool Arith Lia.
Require Import Mici.Model.Deps Mici.Model.StateCache Mici.Proofs.StateCacheProofs.
Import ListNotations.

Lemma subset_In a b : subset a b = true -> forall x, In x a -> In x b.
Proof.
  unfold subset. rewrite forallb_forall. intros H x Hx. specialize (H x Hx). apply existsb_exists in H as [y [Hy E]].
  apply Nat.eqb_eq in E. subst. exact Hy.
Qed.
Lemma nth_sound t k : table_sound t = true -> meth_sound (nth k t dflt) = true.
Proof.
  unfold table_sound. rewrite forallb_forall. intros H. destruct (Nat.lt_ge_cases k (List.length t)).
  - apply H, nth_In; auto.
  - rewrite nth_overflow by lia. reflexivity.
Qed.
Lemma sound_self_of t : table_sound t = true -> forall k x, In x (reads_of t k) -> In x (decl_of t k).
Proof.
  intros H k x Hx. pose proof (nth_sound t k H) as S. unfold meth_sound in S. apply andb_prop in S as [S _].
  eapply subset_In; eauto.
Qed.
Lemma sound_aux_of t : table_sound t = true -> aux_closed t = true ->
  forall m a x, In a (aux_of t m) -> In x (reads_of t a) -> In x (decl_of t m).
Proof.
  intros H C m a x Ha Hx. pose proof (nth_sound t m H) as S. unfold meth_sound in S. apply andb_prop in S as [_ S].
  unfold aux_of in Ha. apply in_flat_map in Ha as [p [Hp Hi]].
  destruct (index_of (fst p) t) as [i|] eqn:E; [|destruct Hi]. destruct Hi as [<-|[]].
  rewrite forallb_forall in S. specialize (S p Hp). unfold decl_of. eapply subset_In; [exact S|].
  (* the table's record of the aux method's reads is within what the entry lists *)
  unfold aux_closed in C. rewrite forallb_forall in C.
  destruct (Nat.lt_ge_cases m (List.length t)) as [Hm|Hm].
  - specialize (C (nth m t dflt) (nth_In _ _ Hm)). rewrite forallb_forall in C. specialize (C p Hp). rewrite E in C.
    eapply subset_In; eauto.
  - rewrite nth_overflow in Hp by lia. destruct Hp.
Qed.

(* the cache theorem for the methods of one generated table: for any interpretation of the methods as functions of the
   state variables they (transitively) read, any history of assignments, copies, pickles and calls *)
Theorem table_transparent (V R : Type) (t : list cmeth) (eval : key -> (var -> V) -> R) (droppable : key -> bool) :
  table_sound t = true -> aux_closed t = true ->
  (forall k s s', (forall x, In x (reads_of t k) -> s x = s' x) -> eval k s = eval k s') ->
  forall v0 ops i s m wa,
    let h := runs V R (decl_of t) (aux_of t) eval droppable (heap0 V R v0) ops in
    sts V R h i = Some s ->
    snd (step V R (decl_of t) (aux_of t) eval droppable h (Call V i m wa)) = Some (eval m (vars V R s)).
Proof.
  intros Hs Hc Hext v0 ops i s m wa h Hi.
  eapply (history_transparent V R (decl_of t) (reads_of t) (aux_of t) eval droppable Hext (sound_self_of t Hs) (sound_aux_of t Hs Hc)).
  - apply (inv_heap0 V R (reads_of t) eval v0).
  - exact Hi.
Qed.
