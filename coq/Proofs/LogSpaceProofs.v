(* Proofs about the functions generated from src/mici/utils.py (Gen/LogSpaceGen.v). *)
From Coq Require Import Reals QArith Qreals List Bool Lra.
Require Import Mici.Model.LogSpace Mici.Gen.LogSpaceGen.
Import ListNotations.
Open Scope R_scope.

Lemma Q2R_0' : Q2R (0 # 1) = 0. Proof. unfold Q2R; simpl; lra. Qed.
Lemma ln2_pos : 0 < ln 2. Proof. rewrite <- ln_1. apply ln_increasing; lra. Qed.
Lemma exp_lt_1 v : v < 0 -> exp v < 1. Proof. intros H. rewrite <- exp_0. apply exp_increasing; auto. Qed.
Lemma ln_1p_exp v : v + ln (1 + exp (- v)) = ln (1 + exp v).
Proof.
  assert (H: 1 + exp v = exp v * (1 + exp (- v))).
  { rewrite Rmult_plus_distr_l, Rmult_1_r, <- exp_plus. replace (v + - v) with 0 by lra. rewrite exp_0. lra. }
  rewrite H, ln_mult, ln_exp; try lra. apply exp_pos. pose proof (exp_pos (- v)). lra.
Qed.
Lemma ln_sum_shift x y : x + ln (1 + exp (y - x)) = ln (exp x + exp y).
Proof.
  assert (H: exp x + exp y = exp x * (1 + exp (y - x))).
  { rewrite Rmult_plus_distr_l, Rmult_1_r, <- exp_plus. replace (x + (y - x)) with y by lra. reflexivity. }
  rewrite H, ln_mult, ln_exp; try lra. apply exp_pos. pose proof (exp_pos (y - x)); lra.
Qed.
Lemma ln_diff_shift a b : b < a -> a + ln (1 - exp (b - a)) = ln (exp a - exp b).
Proof.
  intros H.
  assert (E : exp a - exp b = exp a * (1 - exp (b - a))).
  { rewrite Rmult_minus_distr_l, Rmult_1_r, <- exp_plus. replace (a + (b - a)) with b by lra. reflexivity. }
  rewrite E, ln_mult, ln_exp; try lra. apply exp_pos. pose proof (exp_lt_1 (b - a)). lra.
Qed.


(* unfolding equations (cbn does not refold the mutual fixpoint) *)
Section Eqs.
  Variable env : nat -> xr.
  Lemma eR_Var n : evalR env (Var n) = env n. Proof. reflexivity. Qed.
  Lemma eR_Cst q : evalR env (Cst q) = Fin (Q2R q). Proof. reflexivity. Qed.
  Lemma eR_CLog2 : evalR env CLog2 = Fin (ln 2). Proof. reflexivity. Qed.
  Lemma eR_CNaN : evalR env CNaN = NaN. Proof. reflexivity. Qed.
  Lemma eR_CPInf : evalR env CPInf = PInf. Proof. reflexivity. Qed.
  Lemma eR_CNInf : evalR env CNInf = NInf. Proof. reflexivity. Qed.
  Lemma eR_CErr : evalR env CErr = Err. Proof. reflexivity. Qed.
  Lemma eR_Neg a : evalR env (Neg a) = xneg (evalR env a). Proof. reflexivity. Qed.
  Lemma eR_Add a b : evalR env (Add a b) = xadd (evalR env a) (evalR env b). Proof. reflexivity. Qed.
  Lemma eR_Sub a b : evalR env (Sub a b) = xsub (evalR env a) (evalR env b). Proof. reflexivity. Qed.
  Lemma eR_Mul a b : evalR env (Mul a b) = xmul (evalR env a) (evalR env b). Proof. reflexivity. Qed.
  Lemma eR_Div a b : evalR env (Div a b) = xdiv (evalR env a) (evalR env b). Proof. reflexivity. Qed.
  Lemma eR_Prim p a : evalR env (Prim p a) = xprim p (evalR env a). Proof. reflexivity. Qed.
  Lemma eR_If c t f : evalR env (If c t f) = if evalC env c then evalR env t else evalR env f. Proof. reflexivity. Qed.
  Lemma eC_Gt a b : evalC env (Gt a b) = xlt (evalR env b) (evalR env a). Proof. reflexivity. Qed.
  Lemma eC_Ge a b : evalC env (Ge a b) = xle (evalR env b) (evalR env a). Proof. reflexivity. Qed.
  Lemma eC_Lt a b : evalC env (Lt a b) = xlt (evalR env a) (evalR env b). Proof. reflexivity. Qed.
  Lemma eC_Le a b : evalC env (Le a b) = xle (evalR env a) (evalR env b). Proof. reflexivity. Qed.
  Lemma eC_Eq a b : evalC env (Eq a b) = xeq (evalR env a) (evalR env b). Proof. reflexivity. Qed.
  Lemma eC_Ne a b : evalC env (Ne a b) = negb (xeq (evalR env a) (evalR env b)). Proof. reflexivity. Qed.
  Lemma eC_And c d : evalC env (And c d) = evalC env c && evalC env d. Proof. reflexivity. Qed.
  Lemma eP_PL e : evalP env (PL e) = RL (evalR env e). Proof. reflexivity. Qed.
  Lemma eP_PF e : evalP env (PF e) = match evalR env e with Err => RErr | x => RF x end. Proof. reflexivity. Qed.
  Lemma eP_PB c : evalP env (PB c) = RB (evalC env c). Proof. reflexivity. Qed.
  Lemma eP_PIf c a b : evalP env (PIf c a b) = if evalC env c then evalP env a else evalP env b. Proof. reflexivity. Qed.
End Eqs.
#[export] Hint Rewrite eR_Var eR_Cst eR_CLog2 eR_CNaN eR_CPInf eR_CNInf eR_CErr eR_Neg eR_Add eR_Sub eR_Mul eR_Div eR_Prim eR_If
  eC_Gt eC_Ge eC_Lt eC_Le eC_Eq eC_Ne eC_And eP_PL eP_PF eP_PB eP_PIf : ev.

(* destruct every decision appearing in the goal *)
Ltac dec :=
  repeat match goal with
  | |- context [Rlt_dec ?a ?b] => destruct (Rlt_dec a b)
  | |- context [Req_EM_T ?a ?b] => destruct (Req_EM_T a b)
  end.
Ltac xs := autorewrite with ev; unfold xle, xsub; cbn [env1 env2 xneg xadd xsub xlt xle xeq xprim xmul xdiv xisnan andb orb negb wval valid_w].
Ltac red_gen := unfold gen_log_diff_exp, gen_log_sum_exp, gen_log1m_exp, gen_log1p_exp, gen_LogRepFloat_val,
  gen_LogRepFloat_init_val; xs; rewrite ?Q2R_0'.

(* ---- log1p_exp --------------------------------------------------------------------------- *)
Lemma gen_log1p_exp_fin env e v : evalR env e = Fin v -> evalR env (gen_log1p_exp e) = Fin (ln (1 + exp v)).
Proof.
  intros He. red_gen. rewrite !He. xs. rewrite ?Q2R_0'. pose proof (exp_pos v). pose proof (exp_pos (- v)).
  dec; xs; dec; unfold log1p; try lra; try (f_equal; apply ln_1p_exp); reflexivity.
Qed.
Lemma gen_log1p_exp_ninf env e : evalR env e = NInf -> evalR env (gen_log1p_exp e) = Fin 0.
Proof.
  intros He. red_gen. rewrite !He. xs. dec; try lra. unfold log1p. f_equal. rewrite Rplus_0_r. apply ln_1.
Qed.

(* ---- log1m_exp --------------------------------------------------------------------------- *)
Lemma gen_log1m_exp_neg env e v : evalR env e = Fin v -> v < 0 -> evalR env (gen_log1m_exp e) = Fin (ln (1 - exp v)).
Proof.
  intros He Hv. red_gen. rewrite !He. xs. rewrite ?Q2R_0'. pose proof (exp_lt_1 v Hv). pose proof (exp_pos v).
  unfold expm1, log1p.
  dec; xs; dec; try lra; f_equal; f_equal; lra.
Qed.
Lemma gen_log1m_exp_nonneg env e v : evalR env e = Fin v -> 0 <= v -> evalR env (gen_log1m_exp e) = NaN.
Proof.
  intros He Hv. red_gen. rewrite !He. xs. rewrite ?Q2R_0'. dec; xs; dec; try lra; reflexivity.
Qed.
Lemma gen_log1m_exp_ninf env e : evalR env e = NInf -> evalR env (gen_log1m_exp e) = Fin 0.
Proof.
  intros He. red_gen. rewrite !He. xs. dec; try lra. unfold log1p. f_equal.
  replace (1 + - 0) with 1 by lra. apply ln_1.
Qed.

(* ---- log_sum_exp ------------------------------------------------------------------------- *)
Lemma gen_lse_spec env e1 e2 a b x y :
  evalR env e1 = a -> evalR env e2 = b -> wval a = Some x -> wval b = Some y ->
  let r := evalR env (gen_log_sum_exp e1 e2) in valid_w r /\ wval r = Some (x + y).
Proof.
  intros H1 H2 Ha Hb r. subst r.
  destruct a as [a| | | |]; try discriminate; destruct b as [b| | | |]; try discriminate;
    cbn [wval] in Ha, Hb; injection Ha as <-; injection Hb as <-.
  - (* both finite *)
    unfold gen_log_sum_exp. autorewrite with ev. rewrite H1, H2. cbn [xeq andb xlt].
    destruct (Rlt_dec b a).
    + autorewrite with ev. rewrite (gen_log1p_exp_fin env (Sub e2 e1) (b - a)) by (autorewrite with ev; rewrite H1, H2; reflexivity).
      rewrite ?H1, ?H2. xs. split; [exact I|]. f_equal. rewrite ln_sum_shift. apply exp_ln.
      pose proof (exp_pos a); pose proof (exp_pos b); lra.
    + autorewrite with ev. rewrite (gen_log1p_exp_fin env (Sub e1 e2) (a - b)) by (autorewrite with ev; rewrite H1, H2; reflexivity).
      rewrite ?H1, ?H2. xs. split; [exact I|]. f_equal. rewrite ln_sum_shift. rewrite Rplus_comm. apply exp_ln.
      pose proof (exp_pos a); pose proof (exp_pos b); lra.
  - (* a finite, b zero weight *)
    unfold gen_log_sum_exp. autorewrite with ev. rewrite H1, H2. cbn [xeq andb xlt].
    autorewrite with ev. rewrite (gen_log1p_exp_ninf env (Sub e2 e1)) by (autorewrite with ev; rewrite H1, H2; reflexivity).
    rewrite ?H1, ?H2. xs. split; [exact I|]. f_equal. rewrite ?Rplus_0_r, ?Rminus_0_r; lra.
  - unfold gen_log_sum_exp. autorewrite with ev. rewrite H1, H2. cbn [xeq andb xlt].
    autorewrite with ev. rewrite (gen_log1p_exp_ninf env (Sub e1 e2)) by (autorewrite with ev; rewrite H1, H2; reflexivity).
    rewrite ?H1, ?H2. xs. split; [exact I|]. f_equal. rewrite ?Rplus_0_r, ?Rminus_0_r; lra.
  - unfold gen_log_sum_exp. autorewrite with ev. rewrite H1, H2. xs. split; [exact I|]. f_equal; lra.
Qed.

(* ---- log_diff_exp ------------------------------------------------------------------------ *)
Lemma gen_lde_spec env e1 e2 a b x y :
  evalR env e1 = a -> evalR env e2 = b -> wval a = Some x -> wval b = Some y -> y <= x ->
  let r := evalR env (gen_log_diff_exp e1 e2) in valid_w r /\ wval r = Some (x - y).
Proof.
  intros H1 H2 Ha Hb Hle r. subst r.
  destruct a as [a| | | |]; try discriminate; destruct b as [b| | | |]; try discriminate;
    cbn [wval] in Ha, Hb; injection Ha as <-; injection Hb as <-.
  - unfold gen_log_diff_exp. autorewrite with ev. rewrite H1, H2. cbn [xeq andb xlt].
    assert (Hba : b <= a).
    { destruct (Rle_lt_dec b a); auto. exfalso. assert (exp a < exp b) by (apply exp_increasing; auto). lra. }
    destruct (Rlt_dec a b); [lra|]. destruct (Req_EM_T a b) as [->|Hne].
    + xs. split; [exact I|]. f_equal; lra.
    + autorewrite with ev. rewrite (gen_log1m_exp_neg env (Sub e2 e1) (b - a)) by (autorewrite with ev; rewrite ?H1, ?H2; try reflexivity; lra).
      rewrite ?H1, ?H2. xs. split; [exact I|]. f_equal. rewrite ln_diff_shift by lra. apply exp_ln.
      assert (exp b < exp a) by (apply exp_increasing; lra). lra.
  - unfold gen_log_diff_exp. autorewrite with ev. rewrite H1, H2. cbn [xeq andb xlt].
    autorewrite with ev. rewrite (gen_log1m_exp_ninf env (Sub e2 e1)) by (autorewrite with ev; rewrite H1, H2; reflexivity).
    rewrite ?H1, ?H2. xs. split; [exact I|]. f_equal. rewrite ?Rplus_0_r, ?Rminus_0_r; lra.
  - pose proof (exp_pos b). lra.
  - unfold gen_log_diff_exp. autorewrite with ev. rewrite H1, H2. xs. split; [exact I|]. f_equal; lra.
Qed.
Lemma gen_lde_nan env e1 e2 a b :
  evalR env e1 = Fin a -> evalR env e2 = Fin b -> a < b -> evalR env (gen_log_diff_exp e1 e2) = NaN.
Proof.
  intros H1 H2 H. unfold gen_log_diff_exp. autorewrite with ev. rewrite H1, H2. cbn [xeq andb xlt].
  destruct (Rlt_dec a b); [reflexivity|lra].
Qed.

(* ---- constructor ------------------------------------------------------------------------- *)
Lemma gen_init_spec env e v : evalR env e = Fin v -> 0 <= v ->
  let r := evalR env (gen_LogRepFloat_init_val e) in valid_w r /\ wval r = Some v.
Proof.
  intros He Hv. red_gen. rewrite !He. xs. rewrite ?Q2R_0'. dec; xs; dec; try lra.
  - split; [exact I|]. f_equal. apply exp_ln; lra.
  - split; [exact I|]. f_equal. lra.
Qed.
Lemma gen_init_neg env e v : evalR env e = Fin v -> v < 0 -> evalR env (gen_LogRepFloat_init_val e) = Err.
Proof. intros He Hv. red_gen. rewrite !He. xs. rewrite ?Q2R_0'. dec; xs; dec; try lra; reflexivity. Qed.
Lemma gen_val_spec env e l x : evalR env e = l -> wval l = Some x -> evalR env (gen_LogRepFloat_val e) = Fin x.
Proof. intros He Hx. red_gen. rewrite He. destruct l; try discriminate; cbn [wval xprim] in *; congruence. Qed.

(* ------------------------------------------------------------------ LogRepFloat methods *)
Definition rvalue (r : rv) : option R :=
  match r with RL l => wval l | RF (Fin x) => Some x | _ => None end.
Definition is_L (r : rv) := match r with RL l => valid_w l | _ => False end.
Definition is_F (r : rv) := match r with RF (Fin _) => True | _ => False end.

Ltac meth := unfold gen_LogRepFloat__add__, gen_LogRepFloat__radd__, gen_LogRepFloat__iadd__, gen_LogRepFloat__sub__,
  gen_LogRepFloat__rsub__, gen_LogRepFloat__mul__, gen_LogRepFloat__rmul__, gen_LogRepFloat__truediv__,
  gen_LogRepFloat__rtruediv__, gen_LogRepFloat__neg__, gen_LogRepFloat__eq__, gen_LogRepFloat__ne__,
  gen_LogRepFloat__lt__, gen_LogRepFloat__gt__, gen_LogRepFloat__le__, gen_LogRepFloat__ge__; autorewrite with ev.

Lemma val_self_gen a b x : wval a = Some x -> evalR (env2 a b) (gen_LogRepFloat_val (Var 0)) = Fin x.
Proof. intros Ha. apply (gen_val_spec (env2 a b) (Var 0) a); auto. Qed.

Section Methods.
  Variables (a b : xr) (x y : R).
  Hypothesis Ha : wval a = Some x.
  Notation envL := (env2 a b).
  Notation self := (Var 0).
  Notation other := (Var 1).

  Lemma val_self : evalR envL (gen_LogRepFloat_val self) = Fin x.
  Proof. apply (gen_val_spec envL self a); auto. Qed.
  Lemma x_nonneg : 0 <= x.
  Proof. destruct a; try discriminate; cbn in Ha; injection Ha as <-; [left; apply exp_pos | lra]. Qed.

  (* --- both operands are LogRepFloat --- *)
  Section LL.
    Hypothesis Hb : wval b = Some y.
    Lemma val_other : evalR envL (gen_LogRepFloat_val other) = Fin y.
    Proof. apply (gen_val_spec envL other b); auto. Qed.
    Lemma y_nonneg : 0 <= y.
    Proof. destruct b; try discriminate; cbn in Hb; injection Hb as <-; [left; apply exp_pos | lra]. Qed.

    Lemma add_LL : let r := evalP envL (gen_LogRepFloat__add__ self (PL other)) in is_L r /\ rvalue r = Some (x + y).
    Proof. meth. apply (gen_lse_spec envL self other a b); auto. Qed.
    Lemma iadd_LL : let r := evalP envL (gen_LogRepFloat__iadd__ self (PL other)) in is_L r /\ rvalue r = Some (x + y).
    Proof. meth. apply (gen_lse_spec envL self other a b); auto. Qed.
    Lemma sub_LL_ge : y <= x ->
      let r := evalP envL (gen_LogRepFloat__sub__ self (PL other)) in is_L r /\ rvalue r = Some (x - y).
    Proof.
      intros Hle. meth. cbn [env2].
      assert (Hc : xlt b a || xeq b a = true).
      { destruct a as [ra| | | |]; try discriminate; destruct b as [rb| | | |]; try discriminate;
          cbn in Ha, Hb; injection Ha as <-; injection Hb as <-; cbn; auto.
        - destruct (Rlt_dec rb ra); auto. destruct (Req_EM_T rb ra); auto. exfalso.
          assert (exp ra < exp rb) by (apply exp_increasing; lra). lra.
        - pose proof (exp_pos rb). lra. }
      unfold xle. rewrite Hc. autorewrite with ev. apply (gen_lde_spec envL self other a b); auto.
    Qed.
    Lemma sub_LL_lt : x < y -> evalP envL (gen_LogRepFloat__sub__ self (PL other)) = RF (Fin (x - y)).
    Proof.
      intros Hlt. meth. cbn [env2].
      assert (Hc : xlt b a || xeq b a = false).
      { destruct a as [ra| | | |]; try discriminate; destruct b as [rb| | | |]; try discriminate;
          cbn in Ha, Hb; injection Ha as <-; injection Hb as <-; cbn; auto.
        - assert (ra < rb). { destruct (Rlt_le_dec ra rb); auto. exfalso.
            destruct r; [assert (exp rb < exp ra) by (apply exp_increasing; auto); lra | subst; lra]. }
          destruct (Rlt_dec rb ra); [lra|]. destruct (Req_EM_T rb ra); [lra|]. reflexivity.
        - pose proof (exp_pos ra). lra.
        - lra. }
      unfold xle. rewrite Hc. autorewrite with ev. rewrite val_self, val_other. reflexivity.
    Qed.
    Lemma mul_LL : let r := evalP envL (gen_LogRepFloat__mul__ self (PL other)) in is_L r /\ rvalue r = Some (x * y).
    Proof.
      meth. cbn [env2]. destruct a as [ra| | | |]; try discriminate; destruct b as [rb| | | |]; try discriminate;
        cbn in Ha, Hb; injection Ha as <-; injection Hb as <-; cbn; split; auto; f_equal; try lra. apply exp_plus.
    Qed.
    Lemma div_LL : 0 < y -> let r := evalP envL (gen_LogRepFloat__truediv__ self (PL other)) in is_L r /\ rvalue r = Some (x / y).
    Proof.
      intros Hy. meth. cbn [env2]. destruct a as [ra| | | |]; try discriminate; destruct b as [rb| | | |]; try discriminate;
        cbn in Ha, Hb; injection Ha as <-; injection Hb as <-; cbn; try lra; split; auto; f_equal.
      - unfold Rdiv. rewrite <- exp_Ropp, <- exp_plus. reflexivity.
      - unfold Rdiv; lra.
    Qed.

    (* order isomorphism: comparisons of representations are comparisons of the represented reals *)
    Lemma lt_iff : xlt a b = true <-> x < y.
    Proof.
      destruct a as [ra| | | |]; try discriminate; destruct b as [rb| | | |]; try discriminate;
        cbn in Ha, Hb; injection Ha as <-; injection Hb as <-; cbn.
      - destruct (Rlt_dec ra rb); split; intros; auto; try discriminate.
        + apply exp_increasing; auto.
        + exfalso. apply n. apply exp_lt_inv; auto.
      - split; [discriminate|]. pose proof (exp_pos ra). lra.
      - split; auto. intros _. apply exp_pos.
      - split; [discriminate|lra].
    Qed.
    Lemma eq_iff : xeq a b = true <-> x = y.
    Proof.
      destruct a as [ra| | | |]; try discriminate; destruct b as [rb| | | |]; try discriminate;
        cbn in Ha, Hb; injection Ha as <-; injection Hb as <-; cbn.
      - destruct (Req_EM_T ra rb); split; intros; auto; try discriminate; subst; auto.
        exfalso. apply n. apply exp_inv; auto.
      - split; [discriminate|]. pose proof (exp_pos ra). lra.
      - split; [discriminate|]. pose proof (exp_pos rb). lra.
      - split; auto.
    Qed.
  End LL.

  (* --- the other operand is a plain number y --- *)
  Section LF.
    Notation envF := (env2 a (Fin y)).
    Let val_selfF : evalR envF (gen_LogRepFloat_val self) = Fin x := val_self_gen a (Fin y) x Ha.
    Lemma add_LF : evalP envF (gen_LogRepFloat__add__ self (PF other)) = RF (Fin (x + y)).
    Proof. meth. rewrite val_selfF. cbn [env2]. reflexivity. Qed.
    Lemma radd_LF : evalP envF (gen_LogRepFloat__radd__ self (PF other)) = RF (Fin (x + y)).
    Proof. meth. rewrite val_selfF. cbn [env2]. reflexivity. Qed.
    Lemma sub_LF : evalP envF (gen_LogRepFloat__sub__ self (PF other)) = RF (Fin (x - y)).
    Proof. meth. rewrite val_selfF. cbn [env2]. reflexivity. Qed.
    Lemma rsub_LF : evalP envF (gen_LogRepFloat__rsub__ self (PF other)) = RF (Fin (y - x)).
    Proof. meth. rewrite val_selfF. cbn [env2]. reflexivity. Qed.
    Lemma mul_LF : evalP envF (gen_LogRepFloat__mul__ self (PF other)) = RF (Fin (x * y)).
    Proof. meth. rewrite val_selfF. cbn [env2]. reflexivity. Qed.
    Lemma rmul_LF : evalP envF (gen_LogRepFloat__rmul__ self (PF other)) = RF (Fin (x * y)).
    Proof. meth. rewrite val_selfF. cbn [env2]. reflexivity. Qed.
    Lemma div_LF : y <> 0 -> evalP envF (gen_LogRepFloat__truediv__ self (PF other)) = RF (Fin (x / y)).
    Proof. intros Hy. meth. rewrite val_selfF. cbn [env2]. cbn. destruct (Req_EM_T y 0); [contradiction|reflexivity]. Qed.
    Lemma rdiv_LF : x <> 0 -> evalP envF (gen_LogRepFloat__rtruediv__ self (PF other)) = RF (Fin (y / x)).
    Proof. intros Hx. meth. rewrite val_selfF. cbn [env2]. cbn. destruct (Req_EM_T x 0); [contradiction|reflexivity]. Qed.
    Lemma iadd_LF : 0 <= y ->
      let r := evalP envF (gen_LogRepFloat__iadd__ self (PF other)) in is_L r /\ rvalue r = Some (x + y).
    Proof.
      intros Hy. meth. cbn [env2]. cbn [xeq]. rewrite Q2R_0'. destruct (Req_EM_T y 0) as [->|Hne].
      - cbn. split; [destruct a; try discriminate; exact I | rewrite Ha; f_equal; lra].
      - assert (Hl : evalR envF (Prim PLog other) = Fin (ln y)).
        { autorewrite with ev. cbn [env2]. cbn. destruct (Rlt_dec 0 y); [reflexivity|lra]. }
        apply (gen_lse_spec envF self (Prim PLog other) a (Fin (ln y))); auto.
        cbn. f_equal. apply exp_ln. lra.
    Qed.
    Lemma cmp_LF : evalP envF (gen_LogRepFloat__lt__ self (PF other)) = RB (xlt (Fin x) (Fin y))
                /\ evalP envF (gen_LogRepFloat__gt__ self (PF other)) = RB (xlt (Fin y) (Fin x))
                /\ evalP envF (gen_LogRepFloat__le__ self (PF other)) = RB (xle (Fin x) (Fin y))
                /\ evalP envF (gen_LogRepFloat__ge__ self (PF other)) = RB (xle (Fin y) (Fin x))
                /\ evalP envF (gen_LogRepFloat__eq__ self (PF other)) = RB (xeq (Fin x) (Fin y))
                /\ evalP envF (gen_LogRepFloat__ne__ self (PF other)) = RB (negb (xeq (Fin x) (Fin y))).
    Proof. repeat split; meth; rewrite val_selfF; cbn [env2]; reflexivity. Qed.
  End LF.

  Lemma cmp_LL : evalP envL (gen_LogRepFloat__lt__ self (PL other)) = RB (xlt a b)
              /\ evalP envL (gen_LogRepFloat__gt__ self (PL other)) = RB (xlt b a)
              /\ evalP envL (gen_LogRepFloat__le__ self (PL other)) = RB (xle a b)
              /\ evalP envL (gen_LogRepFloat__ge__ self (PL other)) = RB (xle b a)
              /\ evalP envL (gen_LogRepFloat__eq__ self (PL other)) = RB (xeq a b)
              /\ evalP envL (gen_LogRepFloat__ne__ self (PL other)) = RB (negb (xeq a b)).
  Proof. repeat split; meth; reflexivity. Qed.
  Lemma neg_L : evalP envL (gen_LogRepFloat__neg__ self) = RF (Fin (- x)).
  Proof. meth. rewrite val_self. reflexivity. Qed.
End Methods.

(* ------------------------------------------------------------------ in-place accumulation of any sequence *)
Inductive operand := OL (l : xr) | OF (r : R).
Definition op_value (o : operand) : option R := match o with OL l => wval l | OF r => if Rle_dec 0 r then Some r else None end.
Definition iadd_sem (l : xr) (o : operand) : rv :=
  match o with
  | OL m => evalP (env2 l m) (gen_LogRepFloat__iadd__ (Var 0) (PL (Var 1)))
  | OF r => evalP (env2 l (Fin r)) (gen_LogRepFloat__iadd__ (Var 0) (PF (Var 1)))
  end.
Fixpoint accumulate (l : xr) (ws : list operand) : option xr :=
  match ws with
  | [] => Some l
  | w :: ws => match iadd_sem l w with RL l' => accumulate l' ws | _ => None end
  end.
Fixpoint total (ws : list operand) : option R :=
  match ws with
  | [] => Some 0
  | w :: ws => match op_value w, total ws with Some v, Some t => Some (v + t) | _, _ => None end
  end.
Lemma iadd_sequence_proof ws : forall l x t, wval l = Some x -> total ws = Some t ->
  exists l', accumulate l ws = Some l' /\ valid_w l' /\ wval l' = Some (x + t).
Proof.
  induction ws as [|w ws IH]; intros l x t Hl Ht.
  - cbn in *. injection Ht as <-. exists l. repeat split; auto.
    + destruct l; try discriminate; exact I.
    + rewrite Hl. f_equal. lra.
  - cbn [total] in Ht. destruct (op_value w) as [v|] eqn:Hv; [|discriminate].
    destruct (total ws) as [t'|] eqn:Ht'; [|discriminate]. injection Ht as <-.
    cbn [accumulate]. destruct w as [m|r]; cbn [op_value] in Hv.
    + destruct (iadd_LL l m x v Hl Hv) as [HL HV]. cbn [iadd_sem].
      destruct (evalP _ _) as [l'| | |]; cbn in HL; try contradiction.
      destruct (IH l' (x + v) t' HV eq_refl) as (l'' & A & B & C). exists l''. repeat split; auto.
      rewrite C. f_equal. lra.
    + destruct (Rle_dec 0 r) as [Hr|]; [|discriminate]. injection Hv as <-.
      destruct (iadd_LF l x r Hl Hr) as [HL HV]. cbn [iadd_sem].
      destruct (evalP _ _) as [l'| | |]; cbn in HL; try contradiction.
      destruct (IH l' (x + r) t' HV eq_refl) as (l'' & A & B & C). exists l''. repeat split; auto.
      rewrite C. f_equal. lra.
Qed.

(* ------------------------------------------------------------------ conditioning of log(1 - exp v) *)
(* kappaB v : amplification of a relative error of exp v in  log1p(-exp v);
   kappaA v : amplification of a relative error of expm1 v in ln(-expm1 v);
   both relative to the size of the result |ln(1 - exp v)|. *)
Definition kappaB (v : R) := exp v / ((1 - exp v) * - ln (1 - exp v)).
Definition kappaA (v : R) := 1 / - ln (1 - exp v).
Definition leafA := Prim PLog (Neg (Prim PExpm1 (Var 0))).
Definition leafB := Prim PLog1p (Neg (Prim PExp (Var 0))).
Definition amplification (leaf : ex) (v : R) : option R :=
  match leaf with
  | Prim PLog (Neg (Prim PExpm1 (Var 0))) => Some (kappaA v)
  | Prim PLog1p (Neg (Prim PExp (Var 0))) => Some (kappaB v)
  | _ => None
  end.

Lemma ln_1m_le x : 0 < x < 1 -> ln (1 - x) <= - x.
Proof.
  intros [H0 H1]. destruct (Rle_lt_dec (ln (1 - x)) (- x)); auto. exfalso.
  assert (exp (- x) < exp (ln (1 - x))) by (apply exp_increasing; auto).
  rewrite exp_ln in H by lra. pose proof (exp_ineq1_le (- x)). lra.
Qed.
Lemma branchB_ok v : v <= - ln 2 -> kappaB v <= 2.
Proof.
  intros Hv. unfold kappaB.
  assert (Hp : 0 < exp v) by apply exp_pos.
  assert (Hh : exp v <= / 2).
  { rewrite <- (exp_ln (/ 2)) by lra. rewrite ln_Rinv by lra.
    destruct Hv as [Hv|Hv]; [left; apply exp_increasing; auto | right; rewrite Hv; reflexivity]. }
  assert (Hl : ln (1 - exp v) <= - exp v) by (apply ln_1m_le; lra).
  assert (D : 0 < (1 - exp v) * - ln (1 - exp v)) by (apply Rmult_lt_0_compat; lra).
  apply (Rmult_le_reg_r ((1 - exp v) * - ln (1 - exp v))); auto.
  unfold Rdiv. rewrite Rmult_assoc, Rinv_l by lra. rewrite Rmult_1_r.
  assert ((1 - exp v) * - ln (1 - exp v) >= (/2) * exp v).
  { apply Rle_ge. apply Rmult_le_compat; lra. }
  lra.
Qed.
Lemma ln2_ge_half : / 2 < ln 2.
Proof.
  assert (H : exp (/ 2) < 2).
  { destruct (Rlt_le_dec (exp (/2)) 2); auto. exfalso.
    assert (E : exp 1 = exp (/2) * exp (/2)) by (rewrite <- exp_plus; f_equal; lra).
    pose proof exp_le_3. assert (2 * 2 <= exp (/2) * exp (/2)) by (apply Rmult_le_compat; lra). lra. }
  rewrite <- (ln_exp (/2)). apply ln_increasing; auto. apply exp_pos.
Qed.
Lemma branchA_ok v : - ln 2 < v < 0 -> kappaA v <= 2.
Proof.
  intros [H1 H2]. unfold kappaA.
  assert (Hp : 0 < exp v) by apply exp_pos. pose proof (exp_lt_1 v H2) as He.
  assert (Hh : / 2 < exp v).
  { rewrite <- (exp_ln (/ 2)) by lra. rewrite ln_Rinv by lra. apply exp_increasing; auto. }
  pose proof ln2_pos as L2. pose proof ln2_ge_half as L3.
  assert (ln (1 - exp v) < - ln 2).
  { rewrite <- ln_Rinv by lra. apply ln_increasing; lra. }
  unfold Rdiv. rewrite Rmult_1_l.
  apply Rle_trans with (/ ln 2); [apply Rinv_le_contravar; lra|].
  apply Rle_trans with (/ (/ 2)); [apply Rinv_le_contravar; lra | rewrite Rinv_inv; lra].
Qed.
(* the branch not taken near zero would be unboundedly ill-conditioned there *)
Lemma branchB_unbounded : forall K, 0 < K -> exists v, v < 0 /\ - ln 2 < v /\ K < exp v / (1 - exp v).
Proof.
  intros K HK. set (e := (K + 1) / (K + 2)).
  assert (He : / 2 < e < 1).
  { unfold e. split.
    - apply (Rmult_lt_reg_r (K + 2)); [lra|]. unfold Rdiv. rewrite Rmult_assoc, Rinv_l by lra. lra.
    - apply (Rmult_lt_reg_r (K + 2)); [lra|]. unfold Rdiv. rewrite Rmult_assoc, Rinv_l by lra. lra. }
  exists (ln e). rewrite exp_ln by lra. repeat split.
  - rewrite <- ln_1. apply ln_increasing; lra.
  - rewrite <- ln_Rinv by lra. apply ln_increasing; lra.
  - assert (E : e / (1 - e) = K + 1) by (unfold e; field; lra). rewrite E. lra.
Qed.

Lemma log1m_exp_conditioned_proof v : v < 0 ->
  exists k, amplification (selectR (env1 (Fin v)) (gen_log1m_exp (Var 0))) v = Some k /\ k <= 2.
Proof.
  intros Hv. unfold gen_log1m_exp. cbn [selectR]. autorewrite with ev. unfold xle, env1.
  cbn [xlt xeq xneg]. rewrite Q2R_0'.
  destruct (Rlt_dec 0 v); [lra|]. destruct (Req_EM_T 0 v); [lra|]. cbn [orb].
  destruct (Rlt_dec (- ln 2) v).
  - cbn [selectR]. eexists; split; [reflexivity|]. apply branchA_ok; lra.
  - cbn [selectR]. eexists; split; [reflexivity|]. apply branchB_ok; lra.
Qed.
