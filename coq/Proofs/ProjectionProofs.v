From Coq Require Import QArith Qabs Lia Lqa List Bool Setoid Morphisms.
Require Import Mici.Lib.QMat Mici.Lib.Wood Mici.Model.Matrices Mici.Model.Projection.
Import ListNotations.
Open Scope Q_scope.

Lemma fz_eq n m A : meq n m (fz n m A) A.
Proof.
  intros i j Hi Hj. unfold fz, of_list.
  rewrite (nth_indep _ [] (map (fun j0 => Qred (A 0%nat j0)) (seq 0 m))) by (rewrite map_length, seq_length; exact Hi).
  rewrite (map_nth (fun i0 => map (fun j0 => Qred (A i0 j0)) (seq 0 m)) (seq 0 n) 0%nat i).
  rewrite seq_nth by exact Hi. cbn [Nat.add].
  rewrite (nth_indep _ 0 (Qred (A i 0%nat))) by (rewrite map_length, seq_length; exact Hj).
  rewrite (map_nth (fun j0 => Qred (A i j0)) (seq 0 m) 0%nat j).
  rewrite seq_nth by exact Hj. cbn [Nat.add]. apply Qred_correct.
Qed.

Lemma ltb_lt a b : ltb a b = true -> a < b.
Proof. unfold ltb. destruct (a ?= b) eqn:E; try discriminate. intros _. apply Qlt_alt. exact E. Qed.

Lemma mmul_m0_r n k m A : meq n m (mmul k A m0) m0.
Proof. intros i j _ _. unfold mmul, m0. apply sumn_zero. intros; lra. Qed.

Section P.
Variables d k : nat.
Variable c : mat -> mat.
Variable norm : mat -> Q.
Variables Jp Dpos Dmom : mat.
Variable gsolve : mat -> mat -> mat.
Variables ctol ptol dtol sgn : Q.
Variable max_ls : nat.
Variable sh : shape.
Hypothesis OK : shape_ok sh = true.
Variables pos0 mom0 : mat.

Notation JT := (mtr Jp).
Definition Inv (pos mu : mat) : Prop :=
  exists lam, meq d 1 mu (mmul k JT lam) /\ meq d 1 pos (msub pos0 (mmul d Dpos mu)).

Lemma inv_init : Inv pos0 m0.
Proof.
  exists m0. split. symmetry. apply mmul_m0_r.
  intros i j Hi Hj. unfold msub. rewrite (mmul_m0_r d d 1 Dpos i j Hi Hj). unfold m0. lra.
Qed.

Lemma inv_step pos mu a x pos' mu' :
  Inv pos mu ->
  meq d 1 mu' (madd mu (mscal a (mmul k JT x))) ->
  meq d 1 pos' (msub pos (mscal a (mmul d Dpos (mmul k JT x)))) ->
  Inv pos' mu'.
Proof.
  intros [lam [Hmu Hpos]] Hm Hp. exists (madd lam (mscal a x)). split.
  - rewrite Hm. rewrite (mmul_add_r d k 1 JT). rewrite (mmul_scal_r d k 1 a JT). rewrite Hmu. reflexivity.
  - rewrite Hp. rewrite Hm. rewrite (mmul_add_r d d 1 Dpos). rewrite (mmul_scal_r d d 1 a Dpos). rewrite Hpos.
    intros i j Hi Hj. unfold msub, madd, mscal. lra.
Qed.

(* facts read off shape_ok *)
Lemma ok_parts : (is_err_con (sh_conv_a sh) = true) /\ sh_dpos_lin sh = LDpos /\ sh_mom_lin sh = LDmom /\ sh_mom_sub sh = true /\ sh_mom_sign sh = true
  /\ (if sh_ls sh then sh_dpos_neg sh = true /\ sh_pos_sub sh = false /\ sh_mu_step sh = true /\ sh_resync sh = true
      else xorb (sh_dpos_neg sh) (sh_pos_sub sh) = true /\ sh_mu_step sh = false).
Proof.
  pose proof OK as H. unfold shape_ok in H.
  destruct (andb_prop _ _ H) as [H1 H6]. destruct (andb_prop _ _ H1) as [H2 H5]. destruct (andb_prop _ _ H2) as [H3 H4].
  destruct (andb_prop _ _ H3) as [H7 H8]. destruct (andb_prop _ _ H7) as [H9 H10].
  repeat split; auto.
  - destruct (sh_dpos_lin sh); try discriminate; reflexivity.
  - destruct (sh_mom_lin sh); try discriminate; reflexivity.
  - destruct (sh_ls sh).
    + destruct (andb_prop _ _ H6) as [A1 A2]. destruct (andb_prop _ _ A1) as [A3 A4]. destruct (andb_prop _ _ A3) as [A5 A6].
      repeat split; auto. destruct (sh_pos_sub sh); [discriminate|reflexivity].
    + destruct (andb_prop _ _ H6) as [A1 A2]. split; auto. destruct (sh_mu_step sh); [discriminate|reflexivity].
Qed.

Lemma conv_err first err dpos sdpos : conv norm ctol ptol dtol sh first err dpos sdpos = true -> err < ctol.
Proof.
  destruct ok_parts as [Ha _]. unfold conv, cmp. intros H. destruct (andb_prop _ _ H) as [H1 _].
  destruct (sh_conv_a sh) as [q t]. destruct q, t; try discriminate. cbn [fst snd qval tol] in H1. apply ltb_lt. exact H1.
Qed.

Lemma finish_form mu lam : meq d 1 mu (mmul k JT lam) ->
  meq d 1 (finish d Dpos Dmom sgn sh mom0 mu) (msub mom0 (mscal sgn (mmul d Dmom (mmul k JT lam)))).
Proof.
  destruct ok_parts as [_ [_ [Hl [Hs [Hg _]]]]]. intros Hmu. unfold finish. etransitivity; [apply fz_eq|]. rewrite Hl, Hs, Hg. cbn [linop sgnb].
  rewrite Hmu. intros i j Hi Hj. unfold madd, msub, mscal. lra.
Qed.

Definition Post (r : mat * mat * nat) : Prop :=
  let '(pos, mom, _) := r in
  exists lam, meq d 1 pos (msub pos0 (mmul d Dpos (mmul k JT lam)))
              /\ meq d 1 mom (msub mom0 (mscal sgn (mmul d Dmom (mmul k JT lam))))
              /\ norm (c pos) < ctol.

Lemma inv_post pos mu i first dp sdp : Inv pos mu -> conv norm ctol ptol dtol sh first (norm (c pos)) dp sdp = true ->
  Post (pos, finish d Dpos Dmom sgn sh mom0 mu, i).
Proof.
  intros [lam [Hmu Hpos]] Hc. exists lam. split; [|split].
  - rewrite Hpos. rewrite Hmu. reflexivity.
  - apply finish_form. exact Hmu.
  - eapply conv_err. exact Hc.
Qed.

Lemma nloop_post fuel : sh_ls sh = false -> forall i pos mu r, Inv pos mu ->
  nloop d k c norm Jp Dpos Dmom gsolve ctol ptol dtol sgn sh fuel i pos mu mom0 = Some r -> Post r.
Proof.
  intros Hls. destruct ok_parts as [_ [Hl [_ [_ [_ Hk]]]]]. rewrite Hls in Hk. destruct Hk as [Hx Hms].
  induction fuel as [|f IH]; intros i pos mu r HI H; cbn [nloop] in H; [discriminate|].
  destruct (diverged _ _ _ _ _ _ _ _ _) eqn:Ed; [discriminate|].
  destruct (conv _ _ _ _ _ _ _ _ _) eqn:Ec.
  - inversion H; subst r. eapply inv_post; eauto.
  - eapply IH; [|exact H].
    eapply (inv_step pos mu 1 (fz k 1 (gsolve pos (c pos)))); [exact HI| |].
    + rewrite (fz_eq d 1). unfold dmu_of. rewrite (fz_eq d 1). intros a b Ha Hb. unfold madd, mscal. lra.
    + rewrite (fz_eq d 1). unfold dpos_of, dmu_of. rewrite (fz_eq d 1). rewrite (fz_eq d 1). rewrite Hl. cbn [linop].
      assert (E : sgnb (sh_pos_sub sh) * sgnb (sh_dpos_neg sh) == -1).
      { destruct (sh_dpos_neg sh), (sh_pos_sub sh); cbn in Hx; try discriminate; cbn [sgnb]; lra. }
      intros a b Ha Hb. unfold madd, msub, mscal.
      transitivity (pos a b + (sgnb (sh_pos_sub sh) * sgnb (sh_dpos_neg sh)) * mmul d Dpos (mmul k JT (fz k 1 (gsolve pos (c pos)))) a b); [lra|].
      rewrite E. lra.
Qed.

Lemma backtrack_form : sh_resync sh = true -> forall tries pos_curr dpos err step last p s,
  backtrack d c norm sh tries pos_curr dpos err step last = (p, s) -> meq d 1 p (madd pos_curr (mscal s dpos)).
Proof.
  intros Hr. induction tries as [|t IH]; intros pos_curr dpos err step last p s H; cbn [backtrack] in H.
  - rewrite Hr in H. inversion H; subst. apply fz_eq.
  - destruct (ltb _ _).
    + inversion H; subst. apply fz_eq.
    + eapply IH. exact H.
Qed.

Lemma lsloop_post fuel : sh_ls sh = true -> forall i pos mu dp sdp r, Inv pos mu ->
  lsloop d k c norm Jp Dpos Dmom gsolve ctol ptol dtol sgn max_ls sh fuel i pos mu mom0 dp sdp = Some r -> Post r.
Proof.
  intros Hls. destruct ok_parts as [_ [Hl [_ [_ [_ Hk]]]]]. rewrite Hls in Hk. destruct Hk as [Hn [Hps [Hms Hrs]]].
  induction fuel as [|f IH]; intros i pos mu dp sdp r HI H; cbn [lsloop] in H; [discriminate|].
  destruct (diverged _ _ _ _ _ _ _ _ _) eqn:Ed; [discriminate|].
  destruct (conv _ _ _ _ _ _ _ _ _) eqn:Ec.
  - inversion H; subst r. eapply inv_post; eauto.
  - destruct (backtrack _ _ _ _ _ _ _ _ _ _) as [p step] eqn:Eb.
    eapply IH; [|exact H].
    pose proof (backtrack_form Hrs _ _ _ _ _ _ _ _ Eb) as Hp.
    eapply (inv_step pos mu step (fz k 1 (gsolve pos (c pos)))); [exact HI| |].
    + rewrite (fz_eq d 1). rewrite Hms. unfold dmu_of. rewrite (fz_eq d 1). reflexivity.
    + rewrite Hp. unfold dpos_of, dmu_of. rewrite (fz_eq d 1). rewrite (fz_eq d 1). rewrite Hl, Hn. cbn [linop sgnb].
      intros a b Ha Hb. unfold madd, msub, mscal. lra.
Qed.

Theorem solve_post n r : solve d k c norm Jp Dpos Dmom gsolve ctol ptol dtol sgn max_ls sh n pos0 mom0 = Some r -> Post r.
Proof.
  unfold solve. destruct (sh_ls sh) eqn:E; intros H.
  - eapply lsloop_post; eauto. apply inv_init.
  - eapply nloop_post; eauto. apply inv_init.
Qed.
End P.
Print Assumptions solve_post.

(* ---------- the constrained step ---------- *)
Require Import Mici.Lib.Proj.
Section StepP.
Variables d k : nat.
Variable c : mat -> mat.
Variable norm rnorm : mat -> Q.
Variable jac : mat -> mat.
Variable Mi : mat.
Variable ginv : mat -> mat.
Variable inv_k : mat -> mat.
Variable kick : Q -> mat -> mat -> mat.
Variable flow : Q -> mat -> mat -> mat * mat.
Variable dflow : Q -> mat * mat.
Variables ctol ptol dtol rtol : Q.
Variables max_ls max_iters : nat.
Variable sh : shape.
Variable pexp : mexp.
Hypothesis OK : shape_ok sh = true.
Hypothesis Hpexp : pexp = proj_canonical.
Hypothesis HG : forall q, is_inv k (mmul d (jac q) (mmul d Mi (mtr (jac q)))) (ginv q).

Definition OnMan (s : cst) : Prop := norm (c (pos s)) < ctol.
Definition Cot (s : cst) : Prop := meq k 1 (mmul d (jac (pos s)) (mmul d Mi (mom s))) m0.
Notation exec1 := (cexec1 d k c norm rnorm jac Mi ginv inv_k kick flow dflow ctol ptol dtol rtol max_ls max_iters sh pexp).
Notation exec := (cexec d k c norm rnorm jac Mi ginv inv_k kick flow dflow ctol ptol dtol rtol max_ls max_iters sh pexp).

Lemma retract_onman dt q p qprev q' p' i :
  retract d k c norm jac inv_k flow dflow ctol ptol dtol max_ls max_iters sh dt q p qprev = Some (q', p', i) -> norm (c q') < ctol.
Proof.
  unfold retract. destruct (flow dt q p) as [q1 p1]. destruct (dflow (Qabs dt)) as [Dp Dm]. intros H.
  pose proof (solve_post d k c norm (jac qprev) Dp Dm _ ctol ptol dtol (qsign dt) max_ls sh OK _ _ _ _ H) as [lam [_ [_ Hc]]].
  exact Hc.
Qed.

Lemma exec1_onman t dt o s s' : OnMan s -> exec1 t dt o s = Some s' -> OnMan s'.
Proof.
  unfold OnMan. intros Hs H. destruct o; cbn [cexec1] in H.
  - inversion H; subst; exact Hs.
  - inversion H; subst; exact Hs.
  - inversion H; subst; exact Hs.
  - destruct (retract _ _ _ _ _ _ _ _ _ _ _ _ _ _ _ _ _ _) as [[[q p] i]|] eqn:E; [|discriminate].
    inversion H; subst; cbn [pos]. eapply retract_onman. exact E.
  - destruct (retract _ _ _ _ _ _ _ _ _ _ _ _ _ _ _ _ _ _) as [[[q p] i]|] eqn:E; [|discriminate].
    destruct (ltb _ _); [discriminate|]. inversion H; subst; exact Hs.
  - inversion H; subst; exact Hs.
Qed.

Lemma proj_cot q p : meq k 1 (mmul d (jac q) (mmul d Mi (fz d 1 (proj_mom d k jac Mi ginv pexp q p)))) m0.
Proof.
  rewrite (fz_eq d 1). unfold proj_mom. rewrite Hpexp. cbn [meval proj_canonical].
  exact (cotangent_projection d k Mi (jac q) _ (ginv q) (meq_refl _ _ _) (HG q) p).
Qed.

(* does the momentum lie in the cotangent space after the operations, given whether it did before *)
Definition cot_flag (o : cop) (b : bool) : bool :=
  match o with CKick _ => false | CProj => true | CFlowSolve => false | CCopy | CRevCheck | CNote => b end.
Definition cot_after (ops : list cop) (b : bool) : bool := fold_left (fun b o => cot_flag o b) ops b.

Lemma exec1_cot t dt o s s' b : (b = true -> Cot s) -> exec1 t dt o s = Some s' -> cot_flag o b = true -> Cot s'.
Proof.
  intros Hb H F. destruct o; cbn [cot_flag] in F; try discriminate; cbn [cexec1] in H.
  - injection H as <-. unfold Cot; cbn [pos mom]. apply proj_cot.
  - injection H as <-. unfold Cot in *; cbn [pos mom]. apply Hb; exact F.
  - destruct (retract _ _ _ _ _ _ _ _ _ _ _ _ _ _ _ _ _ _) as [[[q p] i]|]; [|discriminate].
    destruct (ltb _ _); [discriminate|]. injection H as <-. apply Hb; exact F.
  - injection H as <-. apply Hb; exact F.
Qed.

Lemma exec_sound t dt ops : forall s s' b, OnMan s -> (b = true -> Cot s) -> exec t dt ops s = Some s' ->
  OnMan s' /\ (cot_after ops b = true -> Cot s').
Proof.
  induction ops as [|o r IH]; intros s s' b Hm Hb H; cbn [cexec] in H.
  - inversion H; subst. split; [exact Hm| exact Hb].
  - destruct (exec1 t dt o s) as [s1|] eqn:E; [|discriminate].
    apply (IH s1 s' (cot_flag o b)); [eapply exec1_onman; eauto| |exact H].
    intros F. eapply exec1_cot; eauto.
Qed.

Lemma cot_after_app x y b : cot_after (x ++ y) b = cot_after y (cot_after x b).
Proof. unfold cot_after. apply fold_left_app. Qed.
End StepP.
Print Assumptions exec_sound.
