(* The stage lists produced by the generated stagers satisfy the side conditions of the sampler theorems. *)
From Coq Require Import ZArith QArith List Bool Arith Lia.
Require Import Mici.Model.Stagers Mici.Model.Sampler Mici.Gen.StagersGen Mici.Proofs.StagersProofs Mici.Proofs.SamplerProofs.
Import ListNotations.

Lemma warm_stage_ok a ht tw n : stage_ok ht (warm_stage a ht tw n).
Proof. unfold stage_ok, warm_stage. cbn. reflexivity. Qed.
Lemma main_stage_ok n ht : Forall (stage_ok ht) (main_stage n ht).
Proof. unfold main_stage. destruct (0 <? n)%Z; repeat constructor. Qed.

Lemma windowed_stage_ok s1 s2 s3 m n_warm n_main ht tw l :
  (0 <= n_warm)%Z -> (0 <= s2)%Z -> (0 <= s3)%Z -> (1 <= s1)%Z -> (1 <= m)%Q ->
  gen_WindowedWarmUpStager_stages s1 s2 s3 m n_warm n_main ht tw = Some l -> Forall (stage_ok ht) l.
Proof.
  intros Hw H2 H3 H1 Hm H. destruct (windowed_shape s1 s2 s3 m n_warm n_main ht tw Hw H2 H3 H1 Hm) as [A B].
  destruct (Z.eq_dec n_warm 0) as [->|Hne].
  - rewrite (B eq_refl) in H. injection H as <-. apply main_stage_ok.
  - destruct (A ltac:(lia)) as (nf & ws & nl & E & _). rewrite E in H. injection H as <-.
    constructor; [apply warm_stage_ok|]. apply Forall_app. split.
    + apply Forall_map. apply Forall_forall. intros x _. apply warm_stage_ok.
    + constructor; [apply warm_stage_ok|]. apply main_stage_ok.
Qed.
Lemma warmup_stage_ok n_warm n_main ht tw l :
  gen_WarmUpStager_stages n_warm n_main ht tw = Some l -> Forall (stage_ok ht) l.
Proof.
  rewrite warmup_shape. intros H. injection H as <-. apply Forall_app. split; [|apply main_stage_ok].
  destruct (0 <? n_warm)%Z; repeat constructor.
Qed.

Lemma rows_total_recorded l : Forall (fun s => 0 <= n_iter s)%Z l -> Z.of_nat (rows_total l) = recorded l.
Proof.
  intros H. induction H as [|s l Hs Hl IH]; [reflexivity|]. cbn [rows_total]. rewrite recorded_cons, <- IH. unfold rows_of.
  destruct (stats s); lia.
Qed.
