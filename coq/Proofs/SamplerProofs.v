(* Proofs about the sampler bookkeeping model (Model/Sampler.v). *)
From Coq Require Import ZArith List Bool Arith Lia.
Require Import Mici.Model.Stagers Mici.Model.Sampler.
Import ListNotations.
Local Open Scope nat_scope.

Section P.
  Variables St Rng Par Ast Stat V : Type.
  Variable init_ad : adapters -> Par -> St -> Ast * Par.
  Variable iter_fn : adapters -> Par -> Ast -> St -> Rng -> St * Stat * Rng * Ast * Par.
  Variable fin_ad : adapters -> Par -> list Ast -> list (St * Rng) -> Par * list (St * Rng).
  Variable tr : St -> V.
  Variable ast0 : Ast.
  Variable nchain : nat.

  Notation world := (world St Rng Par Ast Stat V).
  Notation stepI := (step St Rng Par Ast Stat V init_ad iter_fn fin_ad tr ast0 nchain).
  Notation step0 := (stepI None).
  Notation runI := (run St Rng Par Ast Stat V init_ad iter_fn fin_ad tr ast0 nchain).
  Notation whist := (w_hist St Rng Par Ast Stat V).
  Notation wstop := (w_stop St Rng Par Ast Stat V).
  Notation wst := (w_st St Rng Par Ast Stat V).
  Notation wtr := (w_tr St Rng Par Ast Stat V).
  Notation wpar := (w_par St Rng Par Ast Stat V).
  Notation wparlog := (w_parlog St Rng Par Ast Stat V).
  Notation wchain := (w_chain St Rng Par Ast Stat V).

  (* ---- once interrupted, nothing else happens ---------------------------------------------------- *)
  Lemma step_stopped intr (w : world) t : wstop w = true -> stepI intr w t = w.
  Proof. intros H. unfold step. rewrite H. reflexivity. Qed.
  Lemma fold_stopped intr l : forall w : world, wstop w = true -> fold_left (stepI intr) l w = w.
  Proof. induction l as [|t l IH]; intros w H; cbn; [reflexivity|]. rewrite step_stopped by exact H. apply IH, H. Qed.

  (* without an interrupt schedule the run never stops *)
  Lemma step0_nostop (w : world) t : wstop w = false -> wstop (step0 w t) = false.
  Proof.
    intros H. unfold step. rewrite H. destruct t as [a c|a c row trd sts|a].
    - cbn [raises]; rewrite andb_false_r; destruct (match a with NoAd => (ast0, _) | _ => _ end). reflexivity.
    - cbn [raises]. destruct (w_chain _ _ _ _ _ _ w c) as [s r]. destruct (iter_fn a _ _ s r) as [[[[s' stat] r'] ast'] p'].
      rewrite andb_false_r. reflexivity.
    - destruct (match a with NoAd => _ | _ => _ end). reflexivity.
  Qed.
  Lemma fold0_nostop l : forall w : world, wstop w = false -> wstop (fold_left step0 l w) = false.
  Proof. induction l as [|t l IH]; intros w H; cbn; [exact H|]. apply IH, step0_nostop, H. Qed.

  (* a step that does not raise is the uninterrupted step *)
  Lemma step_same intr (w : world) t : wstop (stepI intr w t) = false -> stepI intr w t = step0 w t.
  Proof.
    unfold step. destruct (wstop w) eqn:Hs; [intros H; rewrite H in Hs; discriminate|].
    destruct t as [a c|a c row trd sts|a]; try reflexivity.
    { destruct ((match a with NoAd => false | _ => true end) && raises intr (w_k _ _ _ _ _ _ w)) eqn:R0; [cbn; discriminate|].
      cbn [raises]. rewrite andb_false_r. reflexivity. }
    cbn [raises]. destruct (raises intr (w_k _ _ _ _ _ _ w)) eqn:R1; [cbn; discriminate|].
    destruct (w_chain _ _ _ _ _ _ w c) as [s r]. destruct (iter_fn a _ _ s r) as [[[[s' stat] r'] ast'] p'].
    destruct (trd && raises intr (S (w_k _ _ _ _ _ _ w))) eqn:R2; [cbn; discriminate|].
    rewrite andb_false_r. reflexivity.
  Qed.

  (* an interrupted run = the uninterrupted run on a prefix of the tasks, then one partial step *)
  Lemma run_decomp intr l : forall w : world, wstop w = false ->
    (fold_left (stepI intr) l w = fold_left step0 l w /\ wstop (fold_left (stepI intr) l w) = false)
    \/ exists pre t post, l = pre ++ t :: post /\
         fold_left (stepI intr) l w = stepI intr (fold_left step0 pre w) t /\
         wstop (stepI intr (fold_left step0 pre w) t) = true.
  Proof.
    induction l as [|t l IH]; intros w H.
    - left. cbn. auto.
    - cbn [fold_left]. destruct (wstop (stepI intr w t)) eqn:E.
      + right. exists [], t, l. cbn. rewrite fold_stopped by exact E. auto.
      + pose proof (step_same intr w t E) as Es. rewrite Es in E. rewrite Es.
        destruct (IH (step0 w t) E) as [[A B]|(pre & t' & post & A & B & C)].
        * left. auto.
        * right. exists (t :: pre), t', post. cbn. subst l. auto.
  Qed.

  (* ---- histories only grow ----------------------------------------------------------------------- *)
  Lemma step0_hist (w : world) t c : exists ext, whist (step0 w t) c = whist w c ++ ext.
  Proof.
    unfold step. destruct (wstop w); [exists []; rewrite app_nil_r; reflexivity|].
    destruct t as [a c0|a c0 row trd sts|a].
    - cbn [raises]; rewrite andb_false_r; destruct (match a with NoAd => (ast0, _) | _ => _ end). exists []. rewrite app_nil_r. reflexivity.
    - cbn [raises]. destruct (w_chain _ _ _ _ _ _ w c0) as [s r]. destruct (iter_fn a _ _ s r) as [[[[s' stat] r'] ast'] p'].
      rewrite andb_false_r. cbn [w_hist]. destruct sts; [|exists []; rewrite app_nil_r; reflexivity].
      unfold upd. destruct (Nat.eqb_spec c c0) as [->|]; [eexists; reflexivity | exists []; rewrite app_nil_r; reflexivity].
    - destruct (match a with NoAd => _ | _ => _ end). exists []. rewrite app_nil_r. reflexivity.
  Qed.
  Lemma fold0_hist l : forall (w : world) c, exists ext, whist (fold_left step0 l w) c = whist w c ++ ext.
  Proof.
    induction l as [|t l IH]; intros w c; cbn; [exists []; rewrite app_nil_r; reflexivity|].
    destruct (IH (step0 w t) c) as [e1 H1]. destruct (step0_hist w t c) as [e2 H2]. exists (e2 ++ e1). rewrite H1, H2, app_assoc. reflexivity.
  Qed.
  Lemma step0_parlog (w : world) t : exists ext, wparlog (step0 w t) = wparlog w ++ ext.
  Proof.
    unfold step. destruct (wstop w); [exists []; rewrite app_nil_r; reflexivity|].
    destruct t as [a c0|a c0 row trd sts|a].
    - cbn [raises]; rewrite andb_false_r; destruct (match a with NoAd => (ast0, _) | _ => _ end). exists []. rewrite app_nil_r. reflexivity.
    - cbn [raises]. destruct (w_chain _ _ _ _ _ _ w c0) as [s r]. destruct (iter_fn a _ _ s r) as [[[[s' stat] r'] ast'] p'].
      rewrite andb_false_r. cbn [w_parlog]. eexists; reflexivity.
    - destruct (match a with NoAd => _ | _ => _ end). exists []. rewrite app_nil_r. reflexivity.
  Qed.
  Lemma fold0_parlog l : forall (w : world), exists ext, wparlog (fold_left step0 l w) = wparlog w ++ ext.
  Proof.
    induction l as [|t l IH]; intros w; cbn; [exists []; rewrite app_nil_r; reflexivity|].
    destruct (IH (step0 w t)) as [e1 H1]. destruct (step0_parlog w t) as [e2 H2]. exists (e2 ++ e1). rewrite H1, H2, app_assoc. reflexivity.
  Qed.

  (* ---- rows are the history (index arithmetic) ------------------------------------------------------ *)
  (* Dense w: in every chain, statistics row r holds the statistics of the r-th completed recorded iteration and, when
     tracing, trace row r holds the trace of the state after it; rows beyond the history hold the fill value *)
  Variable ht : bool.    (* trace functions were supplied *)
  Definition Dense (w : world) : Prop :=
    forall c r, wst w c r = option_map snd (nth_error (whist w c) r)
             /\ wtr w c r = if ht then option_map (fun x => tr (fst x)) (nth_error (whist w c) r) else None.

  Definition task_ok (lens : nat -> nat) (t : task) : Prop :=
    match t with
    | TIter a c row trd sts => trd = sts && ht /\ (sts = true -> row = lens c)
    | _ => True
    end.
  Definition lens_after (lens : nat -> nat) (t : task) : nat -> nat :=
    match t with TIter a c row trd true => upd lens c (S (lens c)) | _ => lens end.
  Fixpoint tasks_ok (lens : nat -> nat) (l : list task) : Prop :=
    match l with [] => True | t :: l => task_ok lens t /\ tasks_ok (lens_after lens t) l end.

  Lemma nth_error_snoc {A} (l : list A) x r :
    nth_error (l ++ [x]) r = if Nat.eqb r (length l) then Some x else nth_error l r.
  Proof.
    destruct (Nat.eqb_spec r (length l)) as [->|Hne].
    - rewrite nth_error_app2 by lia. rewrite Nat.sub_diag. reflexivity.
    - destruct (Nat.lt_ge_cases r (length l)).
      + apply nth_error_app1; auto.
      + rewrite nth_error_app2 by lia. destruct (r - length l) as [|k] eqn:E; [lia|].
        cbn. destruct k; cbn; symmetry; apply nth_error_None; lia.
  Qed.

  Lemma upd_same {A} (f : nat -> A) i a : upd f i a i = a.
  Proof. unfold upd. rewrite Nat.eqb_refl. reflexivity. Qed.
  Lemma upd_other {A} (f : nat -> A) i a j : j <> i -> upd f i a j = f j.
  Proof. intros H. unfold upd. destruct (Nat.eqb_spec j i); [contradiction|reflexivity]. Qed.

  Lemma step0_dense (w : world) t :
    wstop w = false -> Dense w -> task_ok (fun c => length (whist w c)) t ->
    Dense (step0 w t) /\ (forall c, length (whist (step0 w t) c) = lens_after (fun c => length (whist w c)) t c).
  Proof.
    intros Hs HD Hok. unfold Dense in *. unfold step. rewrite Hs. destruct t as [a c0|a c0 row trd sts|a].
    - cbn [raises]; rewrite andb_false_r; destruct (match a with NoAd => (ast0, _) | _ => _ end). split; [exact HD | reflexivity].
    - cbn [raises]. destruct (w_chain _ _ _ _ _ _ w c0) as [s r] eqn:Ec. destruct (iter_fn a _ _ s r) as [[[[s' stat] r'] ast'] p'].
      rewrite andb_false_r. destruct Hok as [Htrd Hrow]. cbn [lens_after].
      destruct sts.
      + specialize (Hrow eq_refl). subst row. cbn [andb] in Htrd. split.
        * intros c r0. cbn [w_st w_tr w_hist]. destruct (Nat.eq_dec c c0) as [->|Hne].
          -- rewrite !upd_same. rewrite nth_error_snoc. split.
             ++ destruct (Nat.eqb_spec r0 (length (whist w c0))) as [->|Hr]; [rewrite upd_same; reflexivity | rewrite upd_other by exact Hr; apply HD].
             ++ subst trd. destruct ht.
                ** rewrite upd_same. destruct (Nat.eqb_spec r0 (length (whist w c0))) as [->|Hr]; [rewrite upd_same; reflexivity | rewrite upd_other by exact Hr; apply HD].
                ** apply (HD c0 r0).
          -- rewrite !(upd_other _ _ _ c) by exact Hne. split; [apply HD|]. subst trd. destruct ht; [rewrite upd_other by exact Hne|]; apply HD.
        * intros c. cbn [w_hist]. destruct (Nat.eq_dec c c0) as [->|Hne]; [rewrite !upd_same, app_length; cbn; lia | rewrite !upd_other by exact Hne; reflexivity].
      + cbn [andb] in Htrd. subst trd. split; [|reflexivity]. intros c r0. cbn [w_st w_tr w_hist]. apply HD.
    - destruct (match a with NoAd => _ | _ => _ end). split; [exact HD | reflexivity].
  Qed.

  Lemma tasks_ok_ext lens lens' l : (forall c, lens c = lens' c) -> tasks_ok lens l -> tasks_ok lens' l.
  Proof.
    revert lens lens'. induction l as [|t l IH]; intros lens lens' E H; [exact I|]. destruct H as [H1 H2]. split.
    - destruct t as [| a c row trd sts |]; auto. destruct H1 as [A B]. split; auto. rewrite <- E. exact B.
    - apply (IH (lens_after lens t)); auto. intros c. destruct t as [| a c0 row trd sts |]; cbn; auto. destruct sts; auto.
      unfold upd. rewrite !E. destruct (Nat.eqb c c0); auto.
  Qed.

  Lemma fold0_dense l : forall (w : world),
    wstop w = false -> Dense w -> tasks_ok (fun c => length (whist w c)) l -> Dense (fold_left step0 l w).
  Proof.
    induction l as [|t l IH]; intros w Hs HD Hok; cbn; [exact HD|]. destruct Hok as [H1 H2].
    destruct (step0_dense w t Hs HD H1) as [D L]. apply IH; auto using step0_nostop.
    eapply tasks_ok_ext; [|exact H2]. intros c. symmetry. apply L.
  Qed.

  (* ---- the rows the loop nest writes are exactly the next free rows ------------------------------------ *)
  Definition lens_fold (lens : nat -> nat) (l : list task) : nat -> nat := fold_left lens_after l lens.
  Lemma tasks_ok_app l1 : forall lens l2, tasks_ok lens (l1 ++ l2) <-> tasks_ok lens l1 /\ tasks_ok (lens_fold lens l1) l2.
  Proof.
    induction l1 as [|t l1 IH]; intros lens l2; cbn [app tasks_ok lens_fold fold_left]; [tauto|].
    rewrite IH. unfold lens_fold. tauto.
  Qed.
  Lemma lens_fold_app lens l1 l2 : lens_fold lens (l1 ++ l2) = lens_fold (lens_fold lens l1) l2.
  Proof. unfold lens_fold. apply fold_left_app. Qed.
  Lemma lens_fold_ext l : forall f g, (forall c, f c = g c) -> forall c, lens_fold f l c = lens_fold g l c.
  Proof.
    induction l as [|t l IH]; intros f g E c; cbn; [apply E|]. apply IH. intros c'.
    destruct t as [| a c0 row trd sts |]; cbn; auto. destruct sts; auto. unfold upd. rewrite !E. destruct (c' =? c0); auto.
  Qed.

  Definition iters a c off trd sts i0 n := map (fun i => TIter a c (off + i) trd sts) (seq i0 n).
  Lemma iter_block a c off trd sts n : forall i0 lens, trd = sts && ht -> (sts = true -> lens c = off + i0) ->
    tasks_ok lens (iters a c off trd sts i0 n) /\
    forall c', lens_fold lens (iters a c off trd sts i0 n) c' = if sts && (c' =? c) then lens c' + n else lens c'.
  Proof.
    unfold iters. induction n as [|n IH]; intros i0 lens Ht Hl; cbn [seq map tasks_ok lens_fold fold_left].
    - split; [exact I|]. intros c'. destruct (sts && (c' =? c)); lia.
    - destruct sts.
      + specialize (Hl eq_refl). destruct (IH (S i0) (upd lens c (S (lens c))) Ht) as [A B].
        { intros _. rewrite upd_same. lia. }
        split; [split; [split; auto|exact A]|]. intros c'. fold (lens_fold (lens_after lens (TIter a c (off + i0) trd true))
           (map (fun i => TIter a c (off + i) trd true) (seq (S i0) n))). cbn [lens_after]. rewrite B. cbn [andb].
        destruct (Nat.eqb_spec c' c) as [->|Hne]; [rewrite upd_same; lia | rewrite upd_other by exact Hne; reflexivity].
      + destruct (IH (S i0) lens Ht ltac:(discriminate)) as [A B].
        split; [split; [split; [auto|discriminate]|exact A]|]. intros c'. cbn [lens_after]. apply B.
  Qed.

  Definition chain_block a off trd sts n c := TInit a c :: iters a c off trd sts 0 n.
  Lemma chains_block a off trd sts n : forall k c0 lens, trd = sts && ht ->
    (forall c, c0 <= c < c0 + k -> lens c = off) ->
    tasks_ok lens (flat_map (chain_block a off trd sts n) (seq c0 k)) /\
    forall c', lens_fold lens (flat_map (chain_block a off trd sts n) (seq c0 k)) c'
               = if sts && (c0 <=? c') && (c' <? c0 + k) then lens c' + n else lens c'.
  Proof.
    induction k as [|k IH]; intros c0 lens Ht Hl; cbn [seq flat_map].
    - split; [exact I|]. intros c'. cbn [lens_fold fold_left].
      destruct (Nat.leb_spec c0 c'), (Nat.ltb_spec c' (c0 + 0)); rewrite ?andb_false_r, ?andb_true_r; try reflexivity. lia.
    - unfold chain_block at 1. cbn [app]. destruct (iter_block a c0 off trd sts n 0 lens Ht) as [A B].
      { intros _. rewrite (Hl c0) by lia. lia. }
      set (lens1 := lens_fold lens (iters a c0 off trd sts 0 n)).
      destruct (IH (S c0) lens1 Ht) as [C D].
      { intros c Hc. unfold lens1. rewrite B. destruct (Nat.eqb_spec c c0); [lia|]. rewrite andb_false_r. apply Hl. lia. }
      split.
      + cbn [tasks_ok]. split; [exact I|]. cbn [lens_after]. apply tasks_ok_app. split; [exact A|exact C].
      + intros c'. cbn [lens_fold fold_left lens_after]. fold (lens_fold lens (iters a c0 off trd sts 0 n ++ flat_map (chain_block a off trd sts n) (seq (S c0) k))).
        rewrite lens_fold_app. fold lens1. rewrite D. unfold lens1. rewrite B.
        destruct sts; cbn [andb]; [|reflexivity].
        destruct (Nat.eqb_spec c' c0) as [->|Hne].
        * replace (S c0 <=? c0) with false by (symmetry; apply Nat.leb_gt; lia). cbn [andb].
          replace (c0 <=? c0) with true by (symmetry; apply Nat.leb_le; lia). replace (c0 <? c0 + S k) with true by (symmetry; apply Nat.ltb_lt; lia). reflexivity.
        * destruct (S c0 <=? c') eqn:E1, (c' <? S c0 + k) eqn:E2, (c0 <=? c') eqn:E3, (c' <? c0 + S k) eqn:E4; cbn [andb]; try reflexivity;
            repeat match goal with H : (_ <=? _) = true |- _ => apply Nat.leb_le in H | H : (_ <=? _) = false |- _ => apply Nat.leb_gt in H
                   | H : (_ <? _) = true |- _ => apply Nat.ltb_lt in H | H : (_ <? _) = false |- _ => apply Nat.ltb_ge in H end; lia.
  Qed.

  Definition stage_ok (s : stage) : Prop := traced s = stats s && ht.
  Definition rows_of (s : stage) : nat := if stats s then Z.to_nat (n_iter s) else 0.
  Fixpoint rows_total (l : list stage) : nat := match l with [] => 0 | s :: l => rows_of s + rows_total l end.

  Lemma stage_tasks_eq off s :
    stage_tasks nchain off s =
      if Nat.eqb (Z.to_nat (n_iter s)) 0 then [] else
      flat_map (chain_block (ads s) off (traced s) (stats s) (Z.to_nat (n_iter s))) (seq 0 nchain) ++ [TFin (ads s)].
  Proof. reflexivity. Qed.

  Lemma stage_block off s lens : stage_ok s -> (forall c, c < nchain -> lens c = off) ->
    tasks_ok lens (stage_tasks nchain off s) /\
    (forall c, c < nchain -> lens_fold lens (stage_tasks nchain off s) c = off + rows_of s) /\
    next_off off s = off + rows_of s.
  Proof.
    intros Hok Hl. assert (Hn : next_off off s = off + rows_of s).
    { unfold next_off, rows_of. red in Hok. rewrite Hok. destruct (stats s), ht; cbn; lia. }
    rewrite stage_tasks_eq. destruct (Nat.eqb_spec (Z.to_nat (n_iter s)) 0) as [E|E].
    - split; [exact I|]. split; [|exact Hn]. intros c Hc. cbn. unfold rows_of. rewrite E. rewrite (Hl c Hc). destruct (stats s); lia.
    - destruct (chains_block (ads s) off (traced s) (stats s) (Z.to_nat (n_iter s)) nchain 0 lens Hok) as [A B].
      { intros c Hc. apply Hl. lia. }
      split; [apply tasks_ok_app; split; [exact A| cbn; auto]|]. split; [|exact Hn].
      intros c Hc. rewrite lens_fold_app. cbn [lens_fold fold_left lens_after]. fold (lens_fold lens (flat_map (chain_block (ads s) off (traced s) (stats s) (Z.to_nat (n_iter s))) (seq 0 nchain))).
      rewrite B. cbn [Nat.leb]. replace (c <? 0 + nchain) with true by (symmetry; apply Nat.ltb_lt; lia). rewrite andb_true_r.
      unfold rows_of. rewrite (Hl c Hc). destruct (stats s); cbn; lia.
  Qed.

  Lemma run_tasks_ok l : forall off lens, Forall stage_ok l -> (forall c, c < nchain -> lens c = off) ->
    tasks_ok lens (run_tasks nchain off l) /\
    forall c, c < nchain -> lens_fold lens (run_tasks nchain off l) c = off + rows_total l.
  Proof.
    induction l as [|s l IH]; intros off lens Hok Hl; cbn [run_tasks rows_total].
    - split; [exact I|]. intros c Hc. cbn. rewrite (Hl c Hc). lia.
    - inversion Hok as [|? ? Hs Hrest]; subst. destruct (stage_block off s lens Hs Hl) as (A & B & C).
      destruct (IH (next_off off s) (lens_fold lens (stage_tasks nchain off s)) Hrest) as [D E].
      { intros c Hc. rewrite B by exact Hc. lia. }
      split; [apply tasks_ok_app; split; assumption|]. intros c Hc. rewrite lens_fold_app, E by exact Hc. lia.
  Qed.

  Lemma fold0_lens l : forall (w : world), wstop w = false -> Dense w -> tasks_ok (fun c => length (whist w c)) l ->
    forall c, length (whist (fold_left step0 l w) c) = lens_fold (fun c => length (whist w c)) l c.
  Proof.
    induction l as [|t l IH]; intros w Hs HD Hok c; cbn; [reflexivity|]. destruct Hok as [H1 H2].
    destruct (step0_dense w t Hs HD H1) as [D L].
    rewrite IH; auto using step0_nostop.
    - apply lens_fold_ext. intros c'. apply L.
    - eapply tasks_ok_ext; [|exact H2]. intros c'. symmetry. apply L.
  Qed.

  (* C13: after a completed run every row below the number of recorded iterations holds the state / statistics of that
     iteration, every row beyond holds the fill value *)
  Theorem run_rows_are_history l (w0 : world) :
    Forall stage_ok l -> wstop w0 = false -> (forall c, whist w0 c = []) -> (forall c r, wst w0 c r = None /\ wtr w0 c r = None) ->
    let w := runI None l w0 in
    Dense w /\ forall c, c < nchain -> length (whist w c) = rows_total l.
  Proof.
    intros Hok Hs Hh Ha w. assert (D0 : Dense w0).
    { intros c r. rewrite Hh. destruct (Ha c r) as [A B]. rewrite A, B. destruct r; cbn; destruct ht; auto. }
    destruct (run_tasks_ok l 0 (fun c => length (whist w0 c)) Hok) as [A B].
    { intros c _. rewrite Hh. reflexivity. }
    split; [apply fold0_dense; assumption|]. intros c Hc. unfold w, run. rewrite fold0_lens by assumption. rewrite B by exact Hc. lia.
  Qed.

  (* C15: shape of the step in which the interrupt is raised *)
  Lemma interrupted_step k (wp : world) t :
    wstop wp = false -> wstop (stepI (Some k) wp t) = true ->
    let wk := stepI (Some k) wp t in
    (forall c, whist wk c = whist wp c) /\
    (forall c r, wtr wk c r = wtr wp c r) /\
    ((forall c r, wst wk c r = wst wp c r) /\ wparlog wk = wparlog wp
     \/ (forall c r, wst wk c r = wst (step0 wp t) c r) /\ wparlog wk = wparlog (step0 wp t)).
  Proof.
    intros Sp. unfold step. rewrite Sp. destruct t as [a c0|a c0 row trd sts|a].
    - destruct ((match a with NoAd => false | _ => true end) && raises (Some k) (w_k _ _ _ _ _ _ wp)) eqn:R0.
      + intros _. cbn. auto.
      + destruct (match a with NoAd => (ast0, _) | _ => _ end). cbn [w_stop]. intros Hf; discriminate Hf.
    - destruct (raises (Some k) (w_k _ _ _ _ _ _ wp)) eqn:R1.
      + intros _. cbn. auto.
      + destruct (w_chain _ _ _ _ _ _ wp c0) as [s r]. destruct (iter_fn a _ _ s r) as [[[[s' stat] r'] ast'] p'].
        destruct (trd && raises (Some k) (S (w_k _ _ _ _ _ _ wp))) eqn:R; [|cbn [w_stop]; intros Hf; discriminate Hf].
        intros _. cbn [raises]. rewrite andb_false_r. cbn. auto.
    - destruct (match a with NoAd => _ | _ => _ end). cbn [w_stop]. intros Hf; discriminate Hf.
  Qed.

  (* C15: an interrupted run is a consistent prefix of the uninterrupted run *)
  Theorem run_interrupt_prefix k l (w0 : world) :
    Forall stage_ok l -> wstop w0 = false -> (forall c, whist w0 c = []) -> (forall c r, wst w0 c r = None /\ wtr w0 c r = None) ->
    let wk := runI (Some k) l w0 in let winf := runI None l w0 in
    (* completed iterations are recorded exactly as in the uninterrupted run, in the same order *)
    (forall c, exists ext, whist winf c = whist wk c ++ ext) /\
    (* every row is either still the fill value or equal to the uninterrupted run's row *)
    (forall c r, (wst wk c r = None \/ wst wk c r = wst winf c r) /\ (wtr wk c r = None \/ wtr wk c r = wtr winf c r)) /\
    (* rows of completed iterations are all there *)
    (forall c r, r < length (whist wk c) -> wst wk c r = wst winf c r /\ wtr wk c r = wtr winf c r) /\
    (* the transition calls made are a prefix of those of the uninterrupted run: later stages are not started *)
    (exists ext, wparlog winf = wparlog wk ++ ext).
  Proof.
    intros Hok Hs Hh Ha wk winf.
    destruct (run_rows_are_history l w0 Hok Hs Hh Ha) as [Dinf _]. fold winf in Dinf.
    assert (D0 : Dense w0).
    { intros c r. rewrite Hh. destruct (Ha c r) as [A B]. rewrite A, B. destruct r; cbn; destruct ht; auto. }
    destruct (run_tasks_ok l 0 (fun c => length (whist w0 c)) Hok) as [Tok _].
    { intros c _. rewrite Hh. reflexivity. }
    destruct (run_decomp (Some k) (run_tasks nchain 0 l) w0 Hs) as [[E _]|(pre & t & post & El & Ek & Estop)].
    - (* the interrupt index is beyond the end of the run *)
      assert (H : wk = winf) by exact E. rewrite H. repeat split; auto; try (exists []; rewrite app_nil_r; reflexivity).
    - set (wp := fold_left step0 pre w0) in *.
      assert (Hwk : wk = stepI (Some k) wp t) by exact Ek.
      assert (Hinf : winf = fold_left step0 post (step0 wp t)).
      { unfold winf, run. rewrite El, fold_left_app. reflexivity. }
      assert (Sp : wstop wp = false) by (apply fold0_nostop; exact Hs).
      rewrite El in Tok. apply tasks_ok_app in Tok. destruct Tok as [Tpre Tpost].
      assert (Dp : Dense wp) by (apply fold0_dense; assumption).
      destruct (interrupted_step k wp t Sp Estop) as (Hh_k & Htr_k & Hst_k). rewrite <- Hwk in Hh_k, Htr_k, Hst_k.
      (* history of the uninterrupted run extends that of the prefix *)
      assert (Hext : forall c, exists ext, whist winf c = whist wp c ++ ext).
      { intros c. rewrite Hinf. destruct (fold0_hist post (step0 wp t) c) as [e1 H1]. destruct (step0_hist wp t c) as [e2 H2].
        exists (e2 ++ e1). rewrite H1, H2, app_assoc. reflexivity. }
      assert (Hrow : forall c r, r < length (whist wp c) -> wst wp c r = wst winf c r /\ wtr wp c r = wtr winf c r).
      { intros c r Hr. destruct (Hext c) as [ext He]. destruct (Dp c r) as [A B]. destruct (Dinf c r) as [A' B'].
        rewrite A, B, A', B', He. rewrite nth_error_app1 by exact Hr. auto. }
      assert (Hfill : forall c r, length (whist wp c) <= r -> wst wp c r = None /\ wtr wp c r = None).
      { intros c r Hr. destruct (Dp c r) as [A B]. rewrite A, B. replace (nth_error (whist wp c) r) with (@None (St * Stat)) by (symmetry; apply nth_error_None; exact Hr).
        destruct ht; auto. }
      assert (Dstep : Dense (step0 wp t) /\ forall c r, wst (step0 wp t) c r = None \/ wst (step0 wp t) c r = wst winf c r).
      { cbn [tasks_ok] in Tpost. destruct Tpost as [Tt Tpost'].
        assert (Tt' : task_ok (fun c => length (whist wp c)) t).
        { eapply (tasks_ok_ext _ _ [t]); [|cbn; split; [exact Tt|exact I]]. intros c. symmetry. unfold wp. apply fold0_lens; assumption. }
        destruct (step0_dense wp t Sp Dp Tt') as [D1 L1]. split; [exact D1|].
        intros c r. destruct (Nat.lt_ge_cases r (length (whist (step0 wp t) c))) as [Hr|Hr].
        - right. destruct (fold0_hist post (step0 wp t) c) as [e1 H1]. destruct (D1 c r) as [A _]. destruct (Dinf c r) as [A' _].
          rewrite A, A', Hinf, H1. rewrite nth_error_app1 by exact Hr. reflexivity.
        - left. destruct (D1 c r) as [A _]. rewrite A. replace (nth_error (whist (step0 wp t) c) r) with (@None (St * Stat)) by (symmetry; apply nth_error_None; exact Hr). reflexivity. }
      destruct Dstep as [D1 Hst1].
      repeat split.
      + intros c. rewrite Hh_k. apply Hext.
      + destruct Hst_k as [[A _]|[A _]]; rewrite A.
        * destruct (Nat.lt_ge_cases r (length (whist wp c))) as [Hr|Hr]; [right; apply Hrow, Hr | left; apply Hfill, Hr].
        * apply Hst1.
      + rewrite Htr_k. destruct (Nat.lt_ge_cases r (length (whist wp c))) as [Hr|Hr]; [right; apply Hrow, Hr | left; apply Hfill, Hr].
      + rewrite Hh_k in H. destruct Hst_k as [[A _]|[A _]]; rewrite A.
        * apply Hrow, H.
        * destruct (D1 c r) as [B _]. destruct (Dinf c r) as [B' _]. destruct (step0_hist wp t c) as [e2 H2].
          destruct (fold0_hist post (step0 wp t) c) as [e1 H1]. rewrite B, B', Hinf, H1, H2.
          rewrite <- app_assoc. rewrite !nth_error_app1 by exact H. reflexivity.
      + rewrite Htr_k. rewrite Hh_k in H. apply Hrow, H.
      + destruct Hst_k as [[_ A]|[_ A]]; rewrite A.
        * rewrite Hinf. destruct (fold0_parlog post (step0 wp t)) as [e1 H1]. destruct (step0_parlog wp t) as [e2 H2].
          exists (e2 ++ e1). rewrite H1, H2, app_assoc. reflexivity.
        * rewrite Hinf. apply fold0_parlog.
  Qed.

  (* ---- C16: parameters ------------------------------------------------------------------------------------ *)
  (* a stage without iterations contributes no task at all: it changes nothing, whatever its adapters *)
  Lemma empty_stage_noop off s : (n_iter s <= 0)%Z -> stage_tasks nchain off s = [] /\ next_off off s = off.
  Proof.
    intros H. unfold stage_tasks, next_off. replace (Z.to_nat (n_iter s)) with 0 by lia. cbn. split; [reflexivity|].
    destruct (traced s || stats s); lia.
  Qed.
  Lemma run_skips_empty_stages l : forall off,
    run_tasks nchain off (filter (fun s => (0 <? n_iter s)%Z) l) = run_tasks nchain off l.
  Proof.
    induction l as [|s l IH]; intros off; cbn [filter run_tasks]; [reflexivity|].
    destruct (Z.ltb_spec 0 (n_iter s)) as [Hp|Hn].
    - cbn [run_tasks]. rewrite IH. reflexivity.
    - destruct (empty_stage_noop off s Hn) as [A B]. rewrite A, B, IH. reflexivity.
  Qed.

  (* with no adapter active nothing assigns a transition parameter *)
  Hypothesis iter_noad : forall p ast s r, snd (iter_fn NoAd p ast s r) = p.
  Definition noad_task (t : task) : Prop :=
    match t with TInit a _ | TFin a => a = NoAd | TIter a _ _ _ _ => a = NoAd end.
  Lemma step0_noad (w : world) t : noad_task t ->
    wpar (step0 w t) = wpar w /\ exists ext, wparlog (step0 w t) = wparlog w ++ ext /\ Forall (fun e => e = (NoAd, wpar w)) ext.
  Proof.
    intros Ht. unfold step. destruct (wstop w); [split; [reflexivity|exists []; rewrite app_nil_r; auto]|].
    destruct t as [a c0|a c0 row trd sts|a]; cbn in Ht; subst a.
    - cbn [andb]. split; [reflexivity|exists []; rewrite app_nil_r; auto].
    - cbn [raises]. destruct (w_chain _ _ _ _ _ _ w c0) as [s r]. pose proof (iter_noad (wpar w) (w_ast _ _ _ _ _ _ w c0) s r) as Hp.
      destruct (iter_fn NoAd _ _ s r) as [[[[s' stat] r'] ast'] p']. cbn in Hp. subst p'. rewrite andb_false_r. cbn [w_par w_parlog].
      split; [reflexivity|]. eexists; split; [reflexivity|]. constructor; auto.
    - split; [reflexivity|exists []; rewrite app_nil_r; auto].
  Qed.
  Lemma fold0_noad l : forall (w : world), Forall noad_task l ->
    wpar (fold_left step0 l w) = wpar w /\ exists ext, wparlog (fold_left step0 l w) = wparlog w ++ ext /\ Forall (fun e => e = (NoAd, wpar w)) ext.
  Proof.
    induction l as [|t l IH]; intros w Hl; cbn [fold_left]; [split; [reflexivity|exists []; rewrite app_nil_r; auto]|].
    inversion Hl as [|? ? Ht Hr]; subst. destruct (step0_noad w t Ht) as [P1 (e1 & L1 & F1)].
    destruct (IH (step0 w t) Hr) as [P2 (e2 & L2 & F2)]. rewrite P1 in *. split; [exact P2|].
    exists (e1 ++ e2). rewrite L2, L1, app_assoc. split; [reflexivity|]. apply Forall_app; auto.
  Qed.
  Lemma stage_tasks_noad off s : ads s = NoAd -> Forall noad_task (stage_tasks nchain off s).
  Proof.
    intros Ha. unfold stage_tasks. destruct (Z.to_nat (n_iter s) =? 0); [constructor|]. rewrite Ha.
    apply Forall_app. split; [|repeat constructor].
    apply Forall_flat_map. apply Forall_forall. intros c _. constructor; [reflexivity|]. apply Forall_map. apply Forall_forall. intros i _. reflexivity.
  Qed.

  (* C16: during a stage without adapters (the main stage) no parameter changes, and every transition call of that stage
     sees the parameters left by the stages before it *)
  Theorem main_stage_params l main (w0 : world) :
    ads main = NoAd ->
    let wl := runI None l w0 in
    let w := runI None (l ++ [main]) w0 in
    wpar w = wpar wl /\ exists ext, wparlog w = wparlog wl ++ ext /\ Forall (fun e => e = (NoAd, wpar wl)) ext.
  Proof.
    intros Ha wl w. unfold w, wl, run.
    assert (E : forall off l1 l2, run_tasks nchain off (l1 ++ l2) = run_tasks nchain off l1 ++ run_tasks nchain (fold_left next_off l1 off) l2).
    { intros off l1. revert off. induction l1 as [|s l1 IH]; intros off l2; cbn [app run_tasks fold_left]; [reflexivity|]. rewrite IH, app_assoc. reflexivity. }
    rewrite E, fold_left_app. cbn [run_tasks]. rewrite app_nil_r. apply fold0_noad, stage_tasks_noad, Ha.
  Qed.
End P.
