From Coq Require Import List String Bool.
Require Import Mici.Model.MatValue.
Import ListNotations.

Section P.
  Variable Val : Type.
  Variable val_eqb : Val -> Val -> bool.
  Hypothesis val_eqb_eq : forall a b, val_eqb a b = true -> a = b.
  Variable H : list Val -> nat.
  (* equal objects hash equal when every hash field is an equality field *)
  Lemma eq_implies_hash_proof (es hs : list string) (f g : fields Val) :
    (forall h, In h hs -> In h es) -> eqb_on Val val_eqb es f g = true -> hash_on Val H hs f = hash_on Val H hs g.
  Proof.
    intros Hsub He. unfold hash_on. f_equal. apply map_ext_in. intros a Ha. apply val_eqb_eq.
    unfold eqb_on in He. rewrite forallb_forall in He. apply He, Hsub, Ha.
  Qed.
  (* lazily computed attributes: whatever was requested before, in whatever order, a request returns compute(fields) *)
  Variable Attr : Type.
  Variable attr_eqb : Attr -> Attr -> bool.
  Hypothesis attr_eqb_eq : forall a b, attr_eqb a b = true <-> a = b.
  Variable compute : fields Val -> Attr -> Val.
  Notation request := (request Val Attr attr_eqb compute).
  Notation requests := (requests Val Attr attr_eqb compute).
  Definition good (f : fields Val) (c : cache Val Attr) := forall a v, c a = Some v -> v = compute f a.
  Lemma request_good f c a : good f c -> good f (fst (request f c a)) /\ snd (request f c a) = compute f a.
  Proof.
    intros G. unfold MatValue.request. destruct (c a) as [v|] eqn:E; cbn [fst snd].
    - split; [exact G| apply G; exact E].
    - split; [|reflexivity]. intros b v Hb. destruct (attr_eqb b a) eqn:Eb.
      + apply attr_eqb_eq in Eb. subst. inversion Hb; reflexivity.
      + apply G; exact Hb.
  Qed.
  Lemma lazy_order_irrelevant_proof f l : forall c, good f c -> forall a, snd (request f (requests f c l) a) = compute f a.
  Proof.
    induction l as [|b r IH]; intros c G a; cbn [MatValue.requests].
    - apply request_good; exact G.
    - apply IH. apply request_good; exact G.
  Qed.
End P.
