(* Generic consequences of the computed consistency check (abstract tables: nothing is computed here). *)
From Coq Require Import QArith List String Bool.
Require Import Mici.Model.Systems.
Import ListNotations.
Open Scope string_scope.

Lemma oeqb_ceq x y a b : oeqb x y = true -> x = Some a -> y = Some b -> ceq a b.
Proof. intros H -> ->. cbn in H. apply ceqb_ceq, H. Qed.

Opaque val.
Section S.
  Variable mro : list (string * list string).
  Variable bodies : list (string * string * expr).
  Variable hd : bool.
  Variable c : string.
  Hypothesis H : class_consistent mro bodies hd c = true.
  Notation v := (val mro bodies hd c).
  Lemma consistent_parts :
       oeqb (v "h") (oadd (v "h1") (v "h2")) = true
    /\ oeqb (v "dh1_dpos") (omap Dq (v "h1")) = true
    /\ oeqb (v "dh2_dpos") (omap Dq (v "h2")) = true
    /\ oeqb (v "dh2_dmom") (omap Dp (v "h2")) = true
    /\ oeqb (v "dh_dpos") (omap Dq (v "h")) = true
    /\ oeqb (v "dh_dmom") (omap Dp (v "h")) = true
    /\ oeqb (v "dh_dpos") (oadd (v "dh1_dpos") (v "dh2_dpos")) = true.
  Proof.
    pose proof H as H0. unfold class_consistent in H0.
    destruct (andb_prop _ _ H0) as [H1 A8]. destruct (andb_prop _ _ H1) as [H2 A7]. destruct (andb_prop _ _ H2) as [H3 A6].
    destruct (andb_prop _ _ H3) as [H4 A5]. destruct (andb_prop _ _ H4) as [H5 A4]. destruct (andb_prop _ _ H5) as [H6 A3].
    destruct (andb_prop _ _ H6) as [A1 A2].
    exact (conj A1 (conj A2 (conj A3 (conj A4 (conj A5 (conj A6 A7)))))).
  Qed.
  (* under any valuation of the atoms a derivative method takes the value of the derivative of its component *)
  Lemma method_value (rho : atom -> Q) (m n : string) (D : comb -> comb) x y :
    oeqb (v m) (omap D (v n)) = true -> v m = Some x -> omap D (v n) = Some y -> interp rho x == interp rho y.
  Proof. intros E A B. apply interp_ext. eapply oeqb_ceq; eauto. Qed.
End S.
