From Coq Require Import List Arith Lia Permutation Sorted.
Require Import Mici.Model.Parallel.
Import ListNotations.

Section P.
  Variable A : Type.
  Notation insert := (insert A). Notation isort := (isort A).
  Definition keys (l : list (nat * A)) := map fst l.
  Lemma insert_perm x l : Permutation (x :: l) (insert x l).
  Proof. induction l as [|y r IH]; cbn; [auto|]. destruct (fst x <=? fst y); [auto|]. rewrite perm_swap. auto. Qed.
  Lemma isort_perm l : Permutation l (isort l).
  Proof. induction l as [|x r IH]; cbn; [auto|]. rewrite <- insert_perm. auto. Qed.
  Definition sortedk (l : list (nat * A)) := StronglySorted (fun a b => fst a <= fst b) l.
  Lemma insert_sorted x l : sortedk l -> sortedk (insert x l).
  Proof.
    induction 1 as [|y r Hr IH Hy]; cbn; [repeat constructor|]. destruct (fst x <=? fst y) eqn:E.
    - apply Nat.leb_le in E. constructor; [constructor; auto|]. constructor; [exact E|]. eapply Forall_impl; [|exact Hy]. cbn. intros; lia.
    - apply Nat.leb_gt in E. constructor; [exact IH|]. eapply Permutation_Forall; [apply insert_perm|]. constructor; [lia|exact Hy].
  Qed.
  Lemma isort_sorted l : sortedk (isort l).
  Proof. induction l; cbn; [constructor| apply insert_sorted; auto]. Qed.
  (* a list sorted by key with distinct keys is determined by its set of elements *)
  Lemma sorted_unique l : forall l', sortedk l -> sortedk l' -> NoDup (keys l) -> Permutation l l' -> l = l'.
  Proof.
    induction l as [|x r IH]; intros l' S S' ND P.
    - apply Permutation_nil in P. auto.
    - destruct l' as [|y r']; [apply Permutation_sym, Permutation_nil in P; discriminate|].
      inversion S as [|? ? Sr Hx]; subst. inversion S' as [|? ? Sr' Hy]; subst. inversion ND as [|? ? Hnin NDr]; subst.
      assert (x = y).
      { assert (Ix : In x (y :: r')) by (eapply Permutation_in; [exact P| left; auto]).
        assert (Iy : In y (x :: r)) by (eapply Permutation_in; [apply Permutation_sym; exact P| left; auto]).
        destruct Ix as [->|Ix]; [reflexivity|]. destruct Iy as [->|Iy]; [reflexivity|].
        rewrite Forall_forall in Hx, Hy. pose proof (Hx _ Iy). pose proof (Hy _ Ix).
        (* same key, both in the list with distinct keys *)
        exfalso. apply Hnin. assert (fst x = fst y) by lia. unfold keys. rewrite H1. apply in_map. exact Iy. }
      subst y. f_equal. apply IH; auto. eapply Permutation_cons_inv; eauto.
  Qed.
  (* the collated result does not depend on the order in which workers return the chains *)
  Theorem collate_order_independent l l' : Permutation l l' -> NoDup (keys l) -> collate A l = collate A l'.
  Proof.
    intros P ND. unfold collate. f_equal. apply sorted_unique; auto using isort_sorted.
    - eapply Permutation_NoDup; [|exact ND]. unfold keys. apply Permutation_map. apply isort_perm.
    - rewrite <- (isort_perm l), <- (isort_perm l'). exact P.
  Qed.
  (* ... and equals the outputs in chain order *)
  Theorem collate_in_chain_order (outs : list A) : collate A (combine (seq 0 (length outs)) outs) = outs.
  Proof.
    unfold collate. assert (G : forall k l, isort (combine (seq k (length l)) l) = combine (seq k (length l)) l).
    { intros k l. revert k. induction l as [|a l IH]; intros k; cbn; [reflexivity|]. rewrite IH.
      destruct l as [|b l]; cbn; [reflexivity|]. replace (k <=? S k) with true by (symmetry; apply Nat.leb_le; lia). reflexivity. }
    rewrite G. clear G. generalize 0. induction outs as [|a l IH]; intros k; cbn; [reflexivity|]. rewrite IH. reflexivity.
  Qed.
End P.

(* streams: threading the position never replays a draw, distinct chains never share one; restarting replays *)
Lemma consumed_ge c sizes : forall pos s, In s (consumed c pos sizes) -> fst s = c /\ pos <= snd s.
Proof.
  induction sizes as [|n r IH]; intros pos s H; cbn in H; [destruct H|]. apply in_app_or in H as [H|H].
  - apply in_map_iff in H as (k & <- & Hk). cbn. split; [auto|lia].
  - destruct (IH _ _ H). split; auto. lia.
Qed.
Lemma nodup_app {T} (a b : list T) : NoDup a -> NoDup b -> (forall x, In x a -> ~ In x b) -> NoDup (a ++ b).
Proof.
  induction a as [|x a IH]; intros Ha Hb H; cbn; [exact Hb|]. inversion Ha; subst. constructor.
  - intros Hin. apply in_app_or in Hin as [Hin|Hin]; [contradiction| apply (H x); [left; auto|exact Hin]].
  - apply IH; auto. intros y Hy. apply H. right; auto.
Qed.
Theorem threaded_never_replays c sizes : forall pos, NoDup (consumed c pos sizes).
Proof.
  induction sizes as [|n r IH]; intros pos; cbn; [constructor|].
  apply nodup_app.
  - apply FinFun.Injective_map_NoDup; [|apply seq_NoDup]. intros a b H. inversion H. lia.
  - apply IH.
  - intros s H1 H2. apply in_map_iff in H1 as (k & <- & Hk). apply in_seq in Hk. apply consumed_ge in H2. cbn in H2. lia.
Qed.
Theorem chains_never_share c d sizes sizes' pos pos' : c <> d ->
  forall s, In s (consumed c pos sizes) -> ~ In s (consumed d pos' sizes').
Proof. intros Hne s H1 H2. apply consumed_ge in H1. apply consumed_ge in H2. destruct H1, H2. congruence. Qed.
Theorem restart_replays c n m r : 0 < n -> 0 < m -> ~ NoDup (consumed_restart c (n :: m :: r)).
Proof.
  intros Hn Hm ND. cbn in ND. destruct n as [|n]; [lia|]. destruct m as [|m]; [lia|]. cbn in ND.
  inversion ND as [|? ? Hnin _]; subst. apply Hnin. apply in_or_app. right. left. reflexivity.
Qed.
