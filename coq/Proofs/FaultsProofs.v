From Coq Require Import QArith List String Bool.
Require Import Mici.Model.Faults.
Import ListNotations.
Open Scope string_scope.

Section P.
  Variable X : Type.
  Variable bases : list (string * list string).
  Variable handlers : list string.
  Variable F : nat -> X -> fout X.
  Variables tol div_tol : Q.
  Notation solve := (solve X bases handlers "ConvergenceError" F tol div_tol).
  (* for EVERY fault schedule: a returned value is a converged iterate (error below the tolerance and not above the
     divergence threshold); any error is ConvergenceError or an exception of the callback that no handler class covers *)
  Theorem solver_result_shape iters : forall i x0,
    match solve iters i x0 with
    | Ok _ x => exists j y e, F j y = Val X x e /\ (e < tol)%Q /\ (e <= div_tol)%Q
    | Err _ e => e = "ConvergenceError" \/ exists j y, F j y = Raise X e /\ caught bases handlers e = false
    end.
  Proof.
    induction iters as [|k IH]; intros i x0; cbn [Faults.solve]; [left; reflexivity|].
    destruct (F i x0) as [x e| |e] eqn:E.
    - destruct (Qle_bool e div_tol) eqn:D; [|left; reflexivity].
      destruct (Qle_bool tol e) eqn:T; cbn [negb]; [apply IH|].
      exists i, x0, e. repeat split; auto.
      + apply Qnot_le_lt. intros H. apply Qle_bool_iff in H. congruence.
      + apply Qle_bool_iff; auto.
    - left; reflexivity.
    - destruct (caught bases handlers e) eqn:C; [left; reflexivity|]. right. exists i, x0. auto.
  Qed.
  (* hence with handlers covering the fault classes, nothing but ConvergenceError comes out *)
  Corollary no_foreign_exception iters i x0 :
    (forall j y e, F j y = Raise X e -> caught bases handlers e = true) ->
    match solve iters i x0 with Ok _ _ => True | Err _ e => e = "ConvergenceError" end.
  Proof.
    intros H. pose proof (solver_result_shape iters i x0) as S. destruct (solve iters i x0); auto.
    destruct S as [S|(j & y & A & B)]; auto. rewrite (H _ _ _ A) in B. discriminate.
  Qed.
End P.
