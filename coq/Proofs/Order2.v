(* Second-order accuracy of symmetric consistent splitting schedules, in the free (non-commutative) algebra of the two
   component vector fields truncated at degree 3 in t (Lie-series form of exact flows). *)
From Coq Require Import QArith List Bool Arith Lia Lqa.
Require Import Mici.Model.Integrators Mici.Proofs.IntegratorsProofs.
Import ListNotations.
Open Scope Q_scope.

(* Truncated free (non-commutative) algebra over generators X1, X2, modulo degree 3 in t:
   x = x0 + t (a1 X1 + a2 X2) + t^2 (b11 X1X1 + b12 X1X2 + b21 X2X1 + b22 X2X2).            *)
Record ser := { s0 : Q; a1 : Q; a2 : Q; b11 : Q; b12 : Q; b21 : Q; b22 : Q }.
Definition seq (x y : ser) : Prop :=
  s0 x == s0 y /\ a1 x == a1 y /\ a2 x == a2 y /\ b11 x == b11 y /\ b12 x == b12 y /\ b21 x == b21 y /\ b22 x == b22 y.
Definition mul (x y : ser) : ser :=
  {| s0 := s0 x * s0 y;
     a1 := s0 x * a1 y + a1 x * s0 y; a2 := s0 x * a2 y + a2 x * s0 y;
     b11 := s0 x * b11 y + b11 x * s0 y + a1 x * a1 y;
     b12 := s0 x * b12 y + b12 x * s0 y + a1 x * a2 y;
     b21 := s0 x * b21 y + b21 x * s0 y + a2 x * a1 y;
     b22 := s0 x * b22 y + b22 x * s0 y + a2 x * a2 y |}.
Definition one : ser := {| s0 := 1; a1 := 0; a2 := 0; b11 := 0; b12 := 0; b21 := 0; b22 := 0 |}.
(* exp(c t X_i) truncated; comp = false for the h1 flow (X1), true for the h2 flow (X2) *)
Definition flow (comp : bool) (c : Q) : ser :=
  if comp then {| s0 := 1; a1 := 0; a2 := c; b11 := 0; b12 := 0; b21 := 0; b22 := c * c / 2 |}
          else {| s0 := 1; a1 := c; a2 := 0; b11 := c * c / 2; b12 := 0; b21 := 0; b22 := 0 |}.
Definition bsched := list (bool * Q).
Fixpoint prod (l : bsched) : ser := match l with [] => one | (i, c) :: r => mul (flow i c) (prod r) end.
(* exp(t (X1 + X2)) truncated *)
Definition exact : ser := {| s0 := 1; a1 := 1; a2 := 1; b11 := 1#2; b12 := 1#2; b21 := 1#2; b22 := 1#2 |}.

(* order-reversing anti-automorphism *)
Definition rv (x : ser) : ser := {| s0 := s0 x; a1 := a1 x; a2 := a2 x; b11 := b11 x; b12 := b21 x; b21 := b12 x; b22 := b22 x |}.
Lemma rv_mul x y : seq (rv (mul x y)) (mul (rv y) (rv x)).
Proof. unfold seq, rv, mul; cbn. repeat split; ring. Qed.
Lemma rv_flow i c : rv (flow i c) = flow i c. Proof. destruct i; reflexivity. Qed.
Lemma mul_compat x x' y y' : seq x x' -> seq y y' -> seq (mul x y) (mul x' y').
Proof. intros (A0&A1&A2&A3&A4&A5&A6) (B0&B1&B2&B3&B4&B5&B6). unfold seq, mul; cbn. rewrite A0,A1,A2,A3,A4,A5,A6,B0,B1,B2,B3,B4,B5,B6. repeat split; reflexivity. Qed.
Lemma seq_refl x : seq x x. Proof. unfold seq; repeat split; reflexivity. Qed.
Lemma seq_trans x y z : seq x y -> seq y z -> seq x z.
Proof. intros (A0&A1&A2&A3&A4&A5&A6) (B0&B1&B2&B3&B4&B5&B6). unfold seq. rewrite A0,A1,A2,A3,A4,A5,A6. repeat split; auto. Qed.
Lemma mul_assoc x y z : seq (mul (mul x y) z) (mul x (mul y z)).
Proof. unfold seq, mul; cbn. repeat split; ring. Qed.
Lemma mul_one_r x : seq (mul x one) x. Proof. unfold seq, mul, one; cbn. repeat split; ring. Qed.
Lemma mul_one_l x : seq (mul one x) x. Proof. unfold seq, mul, one; cbn. repeat split; ring. Qed.
Lemma prod_app l1 l2 : seq (prod (l1 ++ l2)) (mul (prod l1) (prod l2)).
Proof.
  induction l1 as [|[i c] l1 IH]; cbn [app prod].
  - unfold seq, mul, one; cbn. repeat split; ring.
  - eapply seq_trans; [apply mul_compat; [apply seq_refl| apply IH]|]. unfold seq, mul; cbn. repeat split; ring.
Qed.
Lemma seq_sym x y : seq x y -> seq y x.
Proof. intros (A0&A1&A2&A3&A4&A5&A6). unfold seq. repeat split; symmetry; auto. Qed.
Lemma rv_prod l : seq (rv (prod l)) (prod (rev l)).
Proof.
  induction l as [|[i c] l IH]; cbn [prod rev]. apply seq_refl.
  eapply seq_trans; [apply rv_mul|]. rewrite rv_flow.
  eapply seq_trans; [apply mul_compat; [apply IH| apply seq_refl]|].
  apply seq_sym. eapply seq_trans; [apply prod_app|]. cbn [prod].
  apply mul_compat; [apply seq_refl| apply mul_one_r].
Qed.

Fixpoint suma (comp : bool) (l : bsched) : Q :=
  match l with [] => 0 | (i, c) :: r => (if Bool.eqb i comp then c else 0) + suma comp r end.
Definition grouplike (x : ser) : Prop :=
  s0 x == 1 /\ 2 * b11 x == a1 x * a1 x /\ 2 * b22 x == a2 x * a2 x /\ b12 x + b21 x == a1 x * a2 x.
Lemma prod_grouplike l : grouplike (prod l) /\ a1 (prod l) == suma false l /\ a2 (prod l) == suma true l.
Proof.
  induction l as [|[i c] l (G & A1 & A2)]; cbn [prod suma].
  - unfold grouplike, one; cbn. repeat split; ring.
  - destruct G as (G0 & G1 & G2 & G3). destruct i; unfold grouplike, mul, flow; cbn [s0 a1 a2 b11 b12 b21 b22 Bool.eqb].
    + repeat split.
      * rewrite G0; ring.
      * rewrite G0. transitivity (2 * b11 (prod l)); [field| rewrite G1; ring].
      * rewrite G0. transitivity (2 * b22 (prod l) + c * c + 2 * c * a2 (prod l)); [field| rewrite G2; ring].
      * rewrite G0. transitivity (b12 (prod l) + b21 (prod l) + c * a1 (prod l)); [ring| rewrite G3; ring].
      * rewrite G0, A1. ring.
      * rewrite G0, A2. ring.
    + repeat split.
      * rewrite G0; ring.
      * rewrite G0. transitivity (2 * b11 (prod l) + c * c + 2 * c * a1 (prod l)); [field| rewrite G1; ring].
      * rewrite G0. transitivity (2 * b22 (prod l)); [field| rewrite G2; ring].
      * rewrite G0. transitivity (b12 (prod l) + b21 (prod l) + c * a2 (prod l)); [ring| rewrite G3; ring].
      * rewrite G0, A1. ring.
      * rewrite G0, A2. ring.
Qed.

Theorem symmetric_consistent_order2 (l : bsched) :
  rev l = l -> suma false l == 1 -> suma true l == 1 -> seq (prod l) exact.
Proof.
  intros Hpal S1 S2.
  destruct (prod_grouplike l) as ((G0 & G1 & G2 & G3) & A1 & A2).
  pose proof (rv_prod l) as R. rewrite Hpal in R. destruct R as (_ & _ & _ & _ & R12 & _ & _). cbn [rv b12] in R12.
  rewrite S1 in A1. rewrite S2 in A2. rewrite A1, A2 in *.
  unfold seq, exact; cbn [s0 a1 a2 b11 b12 b21 b22]. repeat split; auto; try lra.
Qed.

(* ---- bridge to the integrator schedules: H1 is generator X1 (false), H2 is X2 (true) ---------------------------- *)
Definition to_b (l : sched) : bsched := flat_map (fun p => match fst p with H1 => [(false, snd p)] | H2 => [(true, snd p)] | _ => [] end) l.
Definition explicit (l : sched) : bool := forallb (fun p => match fst p with H1 | H2 => true | _ => false end) l.
Lemma to_b_rev l : to_b (rev l) = rev (to_b l).
Proof.
  unfold to_b. induction l as [|[c a] l IH]; [reflexivity|]. cbn [rev flat_map]. rewrite flat_map_app, IH. cbn [flat_map fst snd].
  destruct c; cbn [app rev]; rewrite ?app_nil_r; reflexivity.
Qed.
Lemma suma_weight l : suma false (to_b l) == weight H1 l /\ suma true (to_b l) == weight H2 l.
Proof.
  induction l as [|[c a] l [I1 I2]]; [cbn; split; reflexivity|]. unfold to_b in *. cbn [flat_map fst snd weight].
  destruct c; cbn [app suma comp_eqb Bool.eqb]; rewrite ?I1, ?I2; split; ring.
Qed.
Theorem explicit_schedule_order2 (l : sched) :
  rev l = l -> weight H1 l == 1 -> weight H2 l == 1 -> seq (prod (to_b l)) exact.
Proof.
  intros Hp W1 W2. destruct (suma_weight l) as [S1 S2]. apply symmetric_consistent_order2.
  - rewrite <- to_b_rev, Hp. reflexivity.
  - rewrite S1. exact W1.
  - rewrite S2. exact W2.
Qed.

(* weights of a symmetric composition are the sums of the even / odd coefficients *)
Lemma weight_alternate a b (Hab : comp_eqb a b = false) (Hba : comp_eqb b a = false) (Haa : comp_eqb a a = true) (Hbb : comp_eqb b b = true) :
  forall n cs, length cs = (2 * n + 1)%nat ->
  weight a (combine (alternate n a b ++ [a]) cs) == sumq (evens cs) /\ weight b (combine (alternate n a b ++ [a]) cs) == sumq (odds cs).
Proof.
  induction n as [|n IH]; intros cs L.
  - destruct cs as [|x [|y cs]]; cbn in L; try lia. cbn. rewrite ?Haa, ?Hba, ?Hab. unfold sumq; cbn. split; ring.
  - destruct cs as [|x [|y cs]]; cbn in L; try lia. destruct (IH cs ltac:(lia)) as [A B].
    cbn [alternate app combine weight evens odds]. rewrite ?Haa, ?Hab, ?Hba, ?Hbb, A, B. unfold sumq. cbn [fold_right]. split; ring.
Qed.
Theorem sym_schedule_weights ih free : weight H1 (sym_schedule ih free) == 1 /\ weight H2 (sym_schedule ih free) == 1.
Proof.
  unfold sym_schedule, flows. destruct (coefficients_consistent free) as [E O].
  pose proof (coefficients_length free) as L. replace (2 * length free + 3)%nat with (2 * S (length free) + 1)%nat in L by lia.
  destruct ih.
  - destruct (weight_alternate H1 H2 eq_refl eq_refl eq_refl eq_refl _ _ L) as [A B]. rewrite A, B. auto.
  - destruct (weight_alternate H2 H1 eq_refl eq_refl eq_refl eq_refl _ _ L) as [A B]. rewrite A, B. auto.
Qed.
Theorem sym_schedule_order2 ih free : seq (prod (to_b (sym_schedule ih free))) exact.
Proof.
  destruct (sym_schedule_weights ih free) as [W1 W2].
  apply explicit_schedule_order2; auto using sym_schedule_palindrome.
Qed.
