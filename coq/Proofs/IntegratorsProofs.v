(* Proofs about integrator schedules (Model/Integrators.v). *)
From Coq Require Import QArith List Bool Arith Lia Lqa.
Require Import Mici.Model.Integrators.
Import ListNotations.
Open Scope Q_scope.

(* ---- coefficients of symmetric compositions ------------------------------------------------------------------ *)
Lemma rev_tl_rev {A} (l : list A) (x : A) : rev (tl (rev (l ++ [x]))) = l.
Proof. rewrite rev_app_distr. cbn. apply rev_involutive. Qed.
Lemma half_coeffs_snoc free : exists l x, half_coeffs free = l ++ [x].
Proof.
  unfold half_coeffs. exists (free ++ [(1 # 2) - sumq (slice2 (length free) free)]), (1 - 2 * sumq (slice2 (S (length free)) free)).
  rewrite <- app_assoc. reflexivity.
Qed.
Theorem coefficients_palindrome free : rev (coefficients free) = coefficients free.
Proof.
  unfold coefficients. destruct (half_coeffs_snoc free) as (l & x & E). rewrite E.
  rewrite rev_app_distr. rewrite rev_tl_rev. rewrite rev_app_distr. cbn [rev app tl]. rewrite <- app_assoc. reflexivity.
Qed.
Lemma coefficients_length free : length (coefficients free) = (2 * length free + 3)%nat.
Proof.
  unfold coefficients. destruct (half_coeffs_snoc free) as (l & x & E).
  assert (L : length (half_coeffs free) = (length free + 2)%nat) by (unfold half_coeffs; rewrite !app_length; cbn; lia).
  rewrite E in *. rewrite rev_app_distr. cbn [rev app tl]. rewrite !app_length, rev_length in *. cbn in *. lia.
Qed.

Lemma alternate_snoc n a b : alternate n a b ++ [a; b] = alternate (S n) a b.
Proof. induction n as [|n IH]; cbn; [reflexivity|]. cbn in IH. rewrite IH. reflexivity. Qed.
Lemma rev_alternate n a b : rev (alternate n a b) = alternate n b a.
Proof.
  induction n as [|n IH]; [reflexivity|]. cbn [alternate rev]. rewrite IH. rewrite <- app_assoc. cbn [app]. apply alternate_snoc.
Qed.
Lemma alternate_shift n a b : alternate n a b ++ [a] = a :: alternate n b a.
Proof. induction n as [|n IH]; cbn; [reflexivity|]. rewrite IH. reflexivity. Qed.
Lemma alternate_length n a b : length (alternate n a b) = (2 * n)%nat.
Proof. induction n; cbn; lia. Qed.
Theorem flows_palindrome ih n : rev (flows ih n) = flows ih n.
Proof. unfold flows. rewrite rev_app_distr. cbn [rev app]. rewrite rev_alternate. symmetry. apply alternate_shift. Qed.
Lemma flows_length ih n : length (flows ih n) = (2 * n + 3)%nat.
Proof. unfold flows. rewrite app_length, alternate_length. cbn. lia. Qed.

Lemma rev_combine {A B} (l1 : list A) : forall (l2 : list B), length l1 = length l2 -> rev (combine l1 l2) = combine (rev l1) (rev l2).
Proof.
  induction l1 as [|a l1 IH]; intros [|b l2] H; try discriminate; [reflexivity|]. cbn [combine rev]. rewrite IH by (cbn in H; lia).
  assert (L : length (rev l1) = length (rev l2)) by (rewrite !rev_length; cbn in H; lia).
  clear - L. revert L. generalize (rev l1) (rev l2). intros x. induction x as [|u x IHx]; intros [|v y] L; try discriminate; cbn; [reflexivity|].
  f_equal. apply IHx. cbn in L. lia.
Qed.
Theorem sym_schedule_palindrome ih free : rev (sym_schedule ih free) = sym_schedule ih free.
Proof.
  unfold sym_schedule. rewrite rev_combine by (rewrite flows_length, coefficients_length; reflexivity).
  rewrite flows_palindrome, coefficients_palindrome. reflexivity.
Qed.

(* ---- consistency: the a- and the b-coefficients each sum to one ------------------------------------------------- *)
Lemma sumq_app a b : sumq (a ++ b) == sumq a + sumq b.
Proof. unfold sumq. induction a; cbn [app fold_right]; [lra| rewrite IHa; lra]. Qed.
Lemma even_S n : Nat.even (S n) = negb (Nat.even n).
Proof. induction n; cbn in *; auto. rewrite IHn. destruct (Nat.even n); reflexivity. Qed.
Lemma evens_odds_app : forall a b, evens (a ++ b) = evens a ++ (if Nat.even (length a) then evens b else odds b)
                               /\ odds (a ++ b) = odds a ++ (if Nat.even (length a) then odds b else evens b).
Proof.
  induction a as [|x a IH]; intros b; [cbn; auto|].
  destruct (IH b) as [E O]. cbn [app evens odds length]. rewrite even_S. rewrite E, O.
  destruct (Nat.even (length a)); cbn [negb]; split; reflexivity.
Qed.
Lemma evens_odds_rev l :
  sumq (evens (rev l)) == (if Nat.even (length l) then sumq (odds l) else sumq (evens l)) /\
  sumq (odds (rev l)) == (if Nat.even (length l) then sumq (evens l) else sumq (odds l)).
Proof.
  induction l as [|x l [IE IO]]; [cbn; split; reflexivity|].
  cbn [rev length]. destruct (evens_odds_app (rev l) [x]) as [E O]. rewrite E, O, rev_length, even_S, !sumq_app.
  destruct (Nat.even (length l)) eqn:P; cbn [negb evens odds]; rewrite IE, IO; unfold sumq; cbn; split; lra.
Qed.
Lemma split_sum l : sumq l == sumq (evens l) + sumq (odds l).
Proof.
  assert (G : forall l, sumq l == sumq (evens l) + sumq (odds l) /\ forall x, sumq (x :: l) == sumq (evens (x :: l)) + sumq (odds (x :: l))).
  { induction l0 as [|y l0 [A B]]; [split; [cbn; lra| intros x; cbn; lra]|]. split; [apply B|]. intros x. cbn [evens odds].
    unfold sumq in *. cbn [fold_right] in *. specialize (B y). cbn [evens odds fold_right] in B. lra. }
  apply G.
Qed.
(* the list is free ++ [x; y; x] ++ rev free with x, y as computed by __init__ *)
Lemma coefficients_shape free :
  coefficients free = free ++ [(1#2) - sumq (slice2 (length free) free); 1 - 2 * sumq (slice2 (S (length free)) free);
                               (1#2) - sumq (slice2 (length free) free)] ++ rev free.
Proof.
  unfold coefficients, half_coeffs. rewrite !rev_app_distr. cbn [rev app tl]. rewrite <- !app_assoc. reflexivity.
Qed.
Lemma sumq_cons a l : sumq (a :: l) == a + sumq l.
Proof. unfold sumq. cbn. reflexivity. Qed.
Theorem coefficients_consistent free : sumq (evens (coefficients free)) == 1 /\ sumq (odds (coefficients free)) == 1.
Proof.
  rewrite coefficients_shape. set (x := (1#2) - sumq (slice2 (length free) free)). set (y := 1 - 2 * sumq (slice2 (S (length free)) free)).
  destruct (evens_odds_app free ([x; y; x] ++ rev free)) as [E O]. rewrite E, O. clear E O.
  destruct (evens_odds_rev free) as [RE RO].
  unfold x, y, slice2. rewrite even_S. destruct (Nat.even (length free)) eqn:P; cbn [negb app evens odds];
    rewrite !sumq_app, !sumq_cons, ?RE, ?RO; split; lra.
Qed.

(* ---- explicit schedules: reversibility ------------------------------------------------------------------------ *)
Section R.
  Variable St : Type.
  Variable fl : comp -> Q -> St -> St.
  Hypothesis fl_proper : forall c t t' s, t == t' -> fl c t s = fl c t' s.
  Hypothesis fl_inv : forall c t s, fl c (- t) (fl c t s) = s.
  Notation run := (run St fl). Notation steps := (steps St fl).
  Lemma run_app l1 l2 t s : run (l1 ++ l2) t s = run l2 t (run l1 t s).
  Proof. revert s; induction l1 as [|[c a] l1 IH]; intros s; cbn [app Integrators.run]; auto. Qed.
  Lemma run_rev_undo l t s : run (rev l) (- t) (run l t s) = s.
  Proof.
    revert s; induction l as [|[c a] l IH]; intros s; cbn [rev Integrators.run]; auto.
    rewrite run_app. rewrite IH. cbn [Integrators.run]. rewrite (fl_proper c (a * - t) (- (a * t))) by ring. apply fl_inv.
  Qed.
  Theorem palindrome_reversible l t s : rev l = l -> run l (- t) (run l t s) = s.
  Proof. intros H. rewrite <- H at 1. apply run_rev_undo. Qed.
  Lemma steps_snoc n l t s : steps (S n) l t s = run l t (steps n l t s).
  Proof. revert s; induction n; intros s; [reflexivity|]. change (steps (S (S n)) l t s) with (steps (S n) l t (run l t s)). rewrite IHn. reflexivity. Qed.
  Theorem n_step_reversible n l t s : rev l = l -> steps n l (- t) (steps n l t s) = s.
  Proof.
    intros H. revert s; induction n; intros s; [reflexivity|].
    rewrite (steps_snoc n l t s). cbn [Integrators.steps]. rewrite palindrome_reversible by auto. apply IHn.
  Qed.
End R.

(* ---- implicit schedules: reversibility from the placement of the checks ----------------------------------------- *)
Section I.
  Variables Pos Mom : Type.
  Variable pos_eqb : Pos -> Pos -> bool.
  Variable mom_eqb : Mom -> Mom -> bool.
  Hypothesis pos_eqb_eq : forall a b, pos_eqb a b = true <-> a = b.
  Hypothesis mom_eqb_eq : forall a b, mom_eqb a b = true <-> a = b.
  Variable kick : Q -> Pos -> Mom -> Mom.
  Variable explB : Q -> Pos -> Mom -> Mom.
  Variable explC : Q -> Pos -> Mom -> Pos.
  Variable solveB : Q -> Pos -> Mom -> res Mom.
  Variable solveC : Q -> Mom -> Pos -> res Pos.
  Variable explM : Q -> st Pos Mom -> st Pos Mom.
  Variable solveM : Q -> st Pos Mom -> res (st Pos Mom).
  Variable proj : Pos -> Mom -> Mom.
  Variable retract : Q -> st Pos Mom -> res (st Pos Mom).
  Variable n_inner : nat.
  Variable tdiv : Q -> nat -> Q.
  (* times are used up to Qeq *)
  Hypothesis kick_proper : forall t t' q p, t == t' -> kick t q p = kick t' q p.
  Hypothesis explB_proper : forall t t' q p, t == t' -> explB t q p = explB t' q p.
  Hypothesis explC_proper : forall t t' q p, t == t' -> explC t q p = explC t' q p.
  Hypothesis solveB_proper : forall t t' q p, t == t' -> solveB t q p = solveB t' q p.
  Hypothesis solveC_proper : forall t t' p q, t == t' -> solveC t p q = solveC t' p q.
  Hypothesis explM_proper : forall t t' z, t == t' -> explM t z = explM t' z.
  Hypothesis solveM_proper : forall t t' z, t == t' -> solveM t z = solveM t' z.
  (* the h1 flow is undone by the negative time; a returned solve is an exact fixed point (tolerance 0) *)
  Hypothesis kick_inv : forall t q p, kick (- t) q (kick t q p) = p.
  Hypothesis solveB_ok : forall t q p p', solveB t q p = Ok p' -> explB (- t) q p' = p.
  Hypothesis solveC_ok : forall t p q q', solveC t p q = Ok q' -> explC (- t) q' p = q.
  Hypothesis solveM_ok : forall t z z', solveM t z = Ok z' -> explM (- t) z' = z.

  Notation sem := (sem Pos Mom pos_eqb mom_eqb kick explB explC solveB solveC explM solveM proj retract n_inner tdiv).
  Notation runr := (runr Pos Mom pos_eqb mom_eqb kick explB explC solveB solveC explM solveM proj retract n_inner tdiv).

  Lemma eqb_refl_pos q : pos_eqb q q = true. Proof. apply pos_eqb_eq; reflexivity. Qed.
  Lemma eqb_refl_mom p : mom_eqb p p = true. Proof. apply mom_eqb_eq; reflexivity. Qed.

  (* generalised leapfrog A B C C* B* A with equal fractions *)
  Theorem implicit_leapfrog_reversible (a : Q) t s s' :
    let l := [(H1, a); (Bfwd, a); (Cfwd, a); (Cadj, a); (Badj, a); (H1, a)] in
    runr l t s = Ok s' -> runr l (- t) s' = Ok s.
  Proof.
    intros l. destruct s as [q0 p0]. unfold l. cbn [Integrators.runr Integrators.sem bind fst snd].
    assert (N : a * - t == - (a * t)) by ring. set (u := a * t) in *.
    set (p1 := kick u q0 p0).
    destruct (solveB u q0 p1) as [p2| |] eqn:B1; cbn [bind fst snd]; try discriminate.
    set (q1 := explC u q0 p2).
    destruct (solveC (- u) p2 q1) as [qb| |] eqn:C1; try discriminate.
    destruct (pos_eqb qb q0) eqn:EC1; try discriminate. apply pos_eqb_eq in EC1. subst qb. cbn [bind fst snd].
    destruct (solveC u p2 q1) as [q2| |] eqn:C2; cbn [bind fst snd]; try discriminate.
    set (p3 := explB u q2 p2).
    destruct (solveB (- u) q2 p3) as [pb| |] eqn:B2; try discriminate.
    destruct (mom_eqb pb p2) eqn:EB2; try discriminate. apply mom_eqb_eq in EB2. subst pb. cbn [bind fst snd].
    intros H. inversion H; subst s'; clear H. cbn [fst snd].
    (* reverse run *)
    rewrite (kick_proper (a * - t) (- u)) by exact N. rewrite kick_inv.
    rewrite (solveB_proper (a * - t) (- u)) by exact N. fold p3. rewrite B2. cbn [bind fst snd].
    rewrite (explC_proper (a * - t) (- u)) by exact N.
    rewrite (solveC_proper (- (a * - t)) u) by (unfold u; ring).
    rewrite (solveC_ok _ _ _ _ C2). rewrite C2. rewrite eqb_refl_pos. cbn [bind fst snd].
    rewrite (solveC_proper (a * - t) (- u)) by exact N. rewrite C1. cbn [bind fst snd].
    rewrite (explB_proper (a * - t) (- u)) by exact N.
    rewrite (solveB_proper (- (a * - t)) u) by (unfold u; ring).
    rewrite (solveB_ok _ _ _ _ B1). rewrite B1. rewrite eqb_refl_mom. cbn [bind fst snd].
    rewrite (kick_proper (a * - t) (- u)) by exact N. unfold p1. rewrite kick_inv. reflexivity.
  Qed.

  (* implicit midpoint: implicit Euler then explicit Euler with reverse check, equal fractions *)
  Theorem implicit_midpoint_reversible (a : Q) t s s' :
    let l := [(Mfwd, a); (Madj, a)] in
    runr l t s = Ok s' -> runr l (- t) s' = Ok s.
  Proof.
    intros l. unfold l. cbn [Integrators.runr Integrators.sem bind].
    assert (N : a * - t == - (a * t)) by ring. set (u := a * t) in *.
    destruct (solveM u s) as [z1| |] eqn:M1; cbn [bind]; try discriminate.
    set (z2 := explM u z1).
    destruct (solveM (- u) z2) as [zb| |] eqn:M2; try discriminate.
    destruct (pos_eqb (fst zb) (fst z1) && mom_eqb (snd zb) (snd z1)) eqn:E; try discriminate.
    apply andb_prop in E as [E1 E2]. apply pos_eqb_eq in E1. apply mom_eqb_eq in E2.
    assert (zb = z1) by (destruct zb, z1; cbn in *; congruence). subst zb.
    intros H. inversion H; subst s'; clear H.
    rewrite (solveM_proper (a * - t) (- u)) by exact N. rewrite M2. cbn [bind].
    rewrite (explM_proper (a * - t) (- u)) by exact N. rewrite (solveM_ok _ _ _ M1).
    rewrite (solveM_proper (- (a * - t)) u) by (unfold u; ring). rewrite M1.
    rewrite eqb_refl_pos, eqb_refl_mom. reflexivity.
  Qed.

  (* constrained leapfrog: h1 kick + projection, inner loop of checked retractions, h1 kick + projection.
     Geometric facts about the projection / retraction (C04) enter as hypotheses on states of the cotangent bundle. *)
  Variable cot : st Pos Mom -> Prop.                       (* on the manifold with momentum in the cotangent space *)
  Hypothesis tdiv_neg : forall t n, tdiv (- t) n == - tdiv t n.
  Hypothesis tdiv_proper : forall t t' n, t == t' -> tdiv t n == tdiv t' n.
  Hypothesis retract_proper : forall t t' z, t == t' -> retract t z = retract t' z.
  (* kick + projection is undone by the negative time on the bundle and stays on it *)
  Hypothesis ca_inv : forall t q p, cot (q, p) -> proj q (kick (- t) q (proj q (kick t q p))) = p.
  Hypothesis ca_cot : forall t q p, cot (q, p) -> cot (q, proj q (kick t q p)).
  (* a retraction whose reverse retraction returns to the start position (the check) is undone, momentum included,
     by that reverse retraction followed by the projection (Lagrange-multiplier form of both corrections) *)
  Hypothesis retract_back : forall t z z1 zb, cot z -> retract t z = Ok z1 ->
    retract (- t) (fst z1, proj (fst z1) (snd z1)) = Ok zb -> fst zb = fst z ->
    proj (fst zb) (snd zb) = snd z /\ cot (fst z1, proj (fst z1) (snd z1)).

  Notation c_inner := (c_inner Pos Mom pos_eqb proj retract).
  Notation c_loop := (c_loop Pos Mom pos_eqb proj retract).
  Lemma c_inner_reversible t z z' : cot z -> c_inner t z = Ok z' -> c_inner (- t) z' = Ok z /\ cot z'.
  Proof.
    intros Hc. unfold Integrators.c_inner. destruct (retract t z) as [z1| |] eqn:R1; cbn [bind]; try discriminate.
    set (z2 := (fst z1, proj (fst z1) (snd z1))).
    destruct (retract (- t) z2) as [zb| |] eqn:R2; try discriminate.
    destruct (pos_eqb (fst zb) (fst z)) eqn:E; try discriminate. apply pos_eqb_eq in E.
    intros H. inversion H; subst z'; clear H.
    destruct (retract_back t z z1 zb Hc R1 R2 E) as [Hp Hc2]. split; [|exact Hc2].
    rewrite R2. cbn [bind]. cbv zeta. rewrite Hp, E.
    replace (fst z, snd z) with z by (destruct z; reflexivity).
    rewrite (retract_proper (- - t) t) by ring. rewrite R1. fold z2. cbn [fst]. rewrite eqb_refl_pos. reflexivity.
  Qed.
  Lemma c_loop_reversible n : forall t z z', cot z -> c_loop n t z = Ok z' -> c_loop n (- t) z' = Ok z /\ cot z'.
  Proof.
    induction n as [|n IH]; intros t z z' Hc H; cbn [Integrators.c_loop] in *.
    - inversion H; subst. auto.
    - destruct (c_inner t z) as [z1| |] eqn:E1; cbn [bind] in H; try discriminate.
      destruct (c_inner_reversible t z z1 Hc E1) as [B1 C1].
      destruct (IH t z1 z' C1 H) as [B2 C2]. split; [|exact C2].
      (* the reverse loop undoes the inner steps last-to-first: n reverse steps from z' *)
      clear IH H. revert z z1 z' Hc E1 B1 C1 B2 C2. induction n as [|m IHm]; intros z z1 z' Hc E1 B1 C1 B2 C2.
      + cbn [Integrators.c_loop] in *. inversion B2; subst z1. rewrite B1. reflexivity.
      + cbn [Integrators.c_loop] in B2 |- *. destruct (c_inner (- t) z') as [w| |] eqn:Ew; cbn [bind] in *; try discriminate.
        (* c_loop m (-t) w = Ok z1, then one more reverse inner step reaches z *)
        assert (G : forall k a b c, c_loop k (- t) a = Ok b -> c_inner (- t) b = Ok c -> c_loop (S k) (- t) a = Ok c).
        { clear. induction k as [|k IHk]; intros a b c Hl Hi; cbn [Integrators.c_loop] in *.
          - inversion Hl; subst. rewrite Hi. reflexivity.
          - destruct (c_inner (- t) a) as [a1| |]; cbn [bind] in *; try discriminate. apply (IHk a1 b c Hl Hi). }
        apply (G m w z1 z B2 B1).
  Qed.

  Theorem constrained_leapfrog_reversible (a : Q) t s s' : cot s ->
    let l := [(CA, a); (CB, 1); (CA, a)] in
    runr l t s = Ok s' -> runr l (- t) s' = Ok s.
  Proof.
    intros Hc l. destruct s as [q0 p0]. unfold l. cbn [Integrators.runr Integrators.sem bind fst snd].
    assert (N : a * - t == - (a * t)) by ring. set (u := a * t) in *.
    set (z1 := (q0, proj q0 (kick u q0 p0))).
    assert (C1 : cot z1) by (apply ca_cot; exact Hc).
    destruct (c_loop n_inner (tdiv (1 * t) n_inner) z1) as [z2| |] eqn:L; cbn [bind]; try discriminate.
    intros H. inversion H; subst s'; clear H. cbn [fst snd].
    destruct (c_loop_reversible n_inner _ z1 z2 C1 L) as [LB C2].
    destruct z2 as [q2 p2]. cbn [fst snd].
    rewrite (kick_proper (a * - t) (- u)) by exact N.
    rewrite (ca_inv u q2 p2 C2).
    assert (T : tdiv (1 * - t) n_inner == - tdiv (1 * t) n_inner) by (rewrite <- tdiv_neg; apply tdiv_proper; ring).
    assert (LP : forall k z, c_loop k (tdiv (1 * - t) n_inner) z = c_loop k (- tdiv (1 * t) n_inner) z).
    { induction k as [|k IHk]; intros z; cbn [Integrators.c_loop]; [reflexivity|]. unfold Integrators.c_inner.
      rewrite (retract_proper _ _ z T).
      destruct (retract (- tdiv (1 * t) n_inner) z) as [w| |]; cbn [bind]; try reflexivity.
      rewrite (retract_proper (- tdiv (1 * - t) n_inner) (- - tdiv (1 * t) n_inner)) by (rewrite T; reflexivity).
      destruct (retract (- - tdiv (1 * t) n_inner) (fst w, proj (fst w) (snd w))) as [wb| |]; try reflexivity.
      destruct (pos_eqb (fst wb) (fst z)); [apply IHk|reflexivity]. }
    rewrite LP, LB. cbn [bind fst snd]. unfold z1. cbn [fst snd].
    rewrite (kick_proper (a * - t) (- u)) by exact N. rewrite (ca_inv u q0 p0 Hc). reflexivity.
  Qed.
End I.
