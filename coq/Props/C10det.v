(* C10, determinant part -- the |det| identity behind every class's log_abs_det formula, for all sizes over any real field
   (MathComp style; proofs in Lib/Det.v).  Which identity a class uses is the table Gen/LogDetGen.v regenerated from
   src/mici/matrices.py by translator T9 (pinned in Props/C10.v); that the arrays a class holds realise the matrices of its
   identity is checked by the dense-reference search.                                                                      *)
From mathcomp Require Import all_ssreflect all_fingroup all_algebra.
Require Import Mici.Lib.Det.
Set Implicit Arguments.
Unset Strict Implicit.
Unset Printing Implicit Defensive.
Import GRing.Theory Num.Theory.
Local Open Scope ring_scope.

Section Statements.
Variable F : realFieldType.

Theorem logdet_product n (A B : 'M[F]_n) : adet (A *m B) = adet A * adet B.
Proof. exact: adet_product. Qed.
Theorem logdet_transpose_inverse n (A : 'M[F]_n) : adet A^T = adet A /\ adet (invmx A) = (adet A)^-1.
Proof. split; [exact: adet_transpose | exact: adet_inverse]. Qed.
Theorem logdet_identity_scaled n (s : F) (A : 'M[F]_n) :
  adet (1%:M : 'M[F]_n) = 1 /\ adet (s%:M : 'M[F]_n) = `|s| ^+ n /\ adet (s *: A) = `|s| ^+ n * adet A.
Proof. split; [exact: adet_identity | split; [exact: adet_scaled_identity | exact: adet_scale]]. Qed.
Theorem logdet_triangular_diagonal n (A : 'M[F]_n) (d : 'rV[F]_n) :
  (is_trig_mx A -> adet A = \prod_i `|A i i|) /\ adet (diag_mx d) = \prod_i `|d 0 i|.
Proof. split; [exact: adet_triangular | exact: adet_diagonal]. Qed.
Theorem logdet_orthogonal_eigendecomposed n (Q : 'M[F]_n) (l : 'rV[F]_n) : Q *m Q^T = 1%:M ->
  adet Q = 1 /\ adet (Q *m diag_mx l *m Q^T) = \prod_i `|l 0 i|.
Proof. move=> H; split; [exact: adet_orthogonal | exact: adet_eigendecomposed]. Qed.
Theorem logdet_triangular_factored n (s : F) (L : 'M[F]_n) : `|s| = 1 -> adet (s *: (L *m L^T)) = adet L * adet L.
Proof. exact: adet_trifactored. Qed.
Theorem logdet_lu n (A L U : 'M[F]_n) (p : 'S_n) :
  perm_mx p *m A = L *m U -> is_trig_mx L -> (forall i, L i i = 1) -> is_trig_mx U^T -> adet A = \prod_i `|U i i|.
Proof. exact: adet_lu. Qed.
Theorem logdet_block_diagonal n k (A : 'M[F]_n) (D : 'M[F]_k) : adet (block_mx A 0 0 D) = adet A * adet D.
Proof. exact: adet_block_diag. Qed.
(* matrix determinant lemma with the SIGNED capacitance matrix the code forms, every scalar s (update s = 1, downdate s = -1) *)
Theorem logdet_low_rank_update n k (A : 'M[F]_n) (U : 'M[F]_(n, k)) (C : 'M[F]_k) (V : 'M[F]_(k, n)) (s : F) :
  A \in unitmx -> C \in unitmx ->
  adet (A + s *: (U *m C *m V)) = adet (invmx C + s *: (V *m invmx A *m U)) * adet C * adet A.
Proof. exact: adet_lowrank_update. Qed.
End Statements.
Print Assumptions logdet_product.
Print Assumptions logdet_transpose_inverse.
Print Assumptions logdet_identity_scaled.
Print Assumptions logdet_triangular_diagonal.
Print Assumptions logdet_orthogonal_eigendecomposed.
Print Assumptions logdet_triangular_factored.
Print Assumptions logdet_lu.
Print Assumptions logdet_block_diagonal.
Print Assumptions logdet_low_rank_update.
