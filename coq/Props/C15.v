(* C15 -- Interrupting sampling returns a consistent prefix of the run.
   About Model/Sampler.v (tied to src/mici/samplers.py by the correspondence check, which raises KeyboardInterrupt at the
   k-th call of a user callback in the real sample_chains).  Statements only; proofs in Proofs/SamplerProofs.v. *)
From Coq Require Import ZArith List Bool Arith Lia.
Require Import Mici.Model.Stagers Mici.Model.Sampler Mici.Proofs.SamplerProofs.
Import ListNotations.
Local Open Scope nat_scope.

Section C15.
  Variables St Rng Par Ast Stat V : Type.
  Variable init_ad : adapters -> Par -> St -> Ast * Par.
  Variable iter_fn : adapters -> Par -> Ast -> St -> Rng -> St * Stat * Rng * Ast * Par.
  Variable fin_ad : adapters -> Par -> list Ast -> list (St * Rng) -> Par * list (St * Rng).
  Variable tr : St -> V.
  Variable ast0 : Ast.
  Variable nchain : nat.
  Variable ht : bool.
  Notation runI := (run St Rng Par Ast Stat V init_ad iter_fn fin_ad tr ast0 nchain).
  Notation fresh w0 := (w_stop _ _ _ _ _ _ w0 = false /\ (forall c, w_hist _ _ _ _ _ _ w0 c = [])
                        /\ (forall c r, w_st _ _ _ _ _ _ w0 c r = None /\ w_tr _ _ _ _ _ _ w0 c r = None)).

  (* For EVERY callback-call index k at which the interrupt is raised (inside a transition or inside a trace function, in any
     iteration of any chain of any stage), any transition / adapters / stage list: the iterations completed before the
     interrupt are recorded exactly as in the uninterrupted run (same order, same values); every row is either such a row or
     still holds the fill value -- except that the statistics row of an iteration interrupted in its trace function already
     holds that iteration's statistics, equal to the uninterrupted run's; and the transition calls made are a prefix of the
     uninterrupted run's calls (no later iteration, chain or stage is started). *)
  Theorem interrupt_prefix : forall k l w0, Forall (stage_ok ht) l -> fresh w0 ->
    let wk := runI (Some k) l w0 in let winf := runI None l w0 in
    (forall c, exists ext, w_hist _ _ _ _ _ _ winf c = w_hist _ _ _ _ _ _ wk c ++ ext) /\
    (forall c r, (w_st _ _ _ _ _ _ wk c r = None \/ w_st _ _ _ _ _ _ wk c r = w_st _ _ _ _ _ _ winf c r)
              /\ (w_tr _ _ _ _ _ _ wk c r = None \/ w_tr _ _ _ _ _ _ wk c r = w_tr _ _ _ _ _ _ winf c r)) /\
    (forall c r, r < length (w_hist _ _ _ _ _ _ wk c) ->
                 w_st _ _ _ _ _ _ wk c r = w_st _ _ _ _ _ _ winf c r /\ w_tr _ _ _ _ _ _ wk c r = w_tr _ _ _ _ _ _ winf c r) /\
    (exists ext, w_parlog _ _ _ _ _ _ winf = w_parlog _ _ _ _ _ _ wk ++ ext).
  Proof. intros k l w0 Hok (A & B & C). exact (run_interrupt_prefix St Rng Par Ast Stat V init_ad iter_fn fin_ad tr ast0 nchain ht k l w0 Hok A B C). Qed.

  (* an interrupted run is the uninterrupted run on a prefix of the loop nest's tasks followed by the step that raised;
     after it nothing else runs (in particular no adapter is finalized and no later stage starts) *)
  Theorem interrupt_stops_everything : forall k tasks (w : world St Rng Par Ast Stat V), w_stop _ _ _ _ _ _ w = false ->
    let stepk := step St Rng Par Ast Stat V init_ad iter_fn fin_ad tr ast0 nchain (Some k) in
    let step0 := step St Rng Par Ast Stat V init_ad iter_fn fin_ad tr ast0 nchain None in
    (fold_left stepk tasks w = fold_left step0 tasks w /\ w_stop _ _ _ _ _ _ (fold_left stepk tasks w) = false)
    \/ exists pre t post, tasks = pre ++ t :: post /\ fold_left stepk tasks w = stepk (fold_left step0 pre w) t
                          /\ w_stop _ _ _ _ _ _ (stepk (fold_left step0 pre w) t) = true.
  Proof. intros k tasks w H. exact (run_decomp St Rng Par Ast Stat V init_ad iter_fn fin_ad tr ast0 nchain (Some k) tasks w H). Qed.
End C15.
Print Assumptions interrupt_prefix.
Print Assumptions interrupt_stops_everything.

Require Import Mici.Model.SamplerInst.
(* non-vacuity: interrupt at callback call 3 (second iteration's transition) of a one-chain, one-stage run of 3 iterations *)
Example interrupt_instance :
  let l := [{| n_iter := 3; ads := NoAd; traced := true; stats := true |}] in
  Forall (stage_ok true) l /\
  fst (fst (fst (fst (fst (run_inst [[1; 2; 3; 4]%Z] l 1%nat (Some 3%nat) [5%Z] (3, 4)%Z 3%nat))))) = [[379; -1; -1]%Z].
Proof. split; [repeat constructor|]. vm_compute. reflexivity. Qed.
