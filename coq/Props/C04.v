(* C04 -- Constrained dynamics never leave the constraint manifold or its cotangent space.
   About the solver shapes, the operation list of ConstrainedLeapfrogIntegrator._step and the body of
   project_onto_cotangent_space REGENERATED from src/mici/{solvers,integrators,systems}.py (Gen/ProjectionGen.v, translator T7)
   and the executable model Model/Projection.v.  Statements only; proofs are in Lib/Proj.v and Proofs/ProjectionProofs.v.
   Exact rational arithmetic: "to solver tolerance" is the strict inequality the solver itself tests; the cotangent condition
   holds exactly (in floating point: to rounding error, which the search measures on the implementation).                    *)
From Coq Require Import QArith Qabs List Bool.
Require Import Mici.Lib.QMat Mici.Lib.Wood Mici.Lib.Proj Mici.Model.Matrices Mici.Model.Projection Mici.Gen.ProjectionGen Mici.Proofs.ProjectionProofs.
Import ListNotations.
Open Scope Q_scope.

(* the closed-form projection lands in the cotangent space  J M^-1 p = 0  and is idempotent: for every dimension, number of
   constraints, Jacobian, metric (G = J M^-1 J^T invertible) *)
Theorem momentum_projection_in_cotangent_space : forall d c Mi J G Gi,
  meq c c G (mmul d J (mmul d Mi (mtr J))) -> is_inv c G Gi ->
  forall p, meq c 1 (mmul d J (mmul d Mi (meval d c J Gi Mi p gen_proj_exp))) m0.
Proof. intros d c Mi J G Gi HG HGi p. exact (cotangent_projection d c Mi J G Gi HG HGi p). Qed.
Print Assumptions momentum_projection_in_cotangent_space.

Theorem momentum_projection_idempotent : forall d c Mi J G Gi,
  meq c c G (mmul d J (mmul d Mi (mtr J))) -> is_inv c G Gi ->
  forall p, meq d 1 (meval d c J Gi Mi (meval d c J Gi Mi p gen_proj_exp) gen_proj_exp) (meval d c J Gi Mi p gen_proj_exp).
Proof. intros d c Mi J G Gi HG HGi p. exact (projection_idempotent d c Mi J G Gi HG HGi p). Qed.
Print Assumptions momentum_projection_idempotent.

(* the three generated solver shapes satisfy what the Lagrange-form argument needs *)
Theorem generated_shapes_ok : shape_ok gen_shape_quasi_newton = true /\ shape_ok gen_shape_newton = true /\ shape_ok gen_shape_newton_ls = true.
Proof. repeat split; reflexivity. Qed.
Print Assumptions generated_shapes_ok.

(* each projection solver, for every constraint function, norm, linear-solve oracle, tolerances, iteration budget and start:
   it returns ONLY a state (pos, mom) with  |c(pos)| < constraint_tol  and
      pos = pos_in - Dpos J_prev^T lam ,   mom = mom_in - sign(dt) Dmom J_prev^T lam    for ONE multiplier vector lam;
   every other outcome is None = ConvergenceError *)
Theorem solver_returns_only_converged_lagrange_form : forall sh, In sh [gen_shape_quasi_newton; gen_shape_newton; gen_shape_newton_ls] ->
  forall d k c norm Jp Dpos Dmom gsolve ctol ptol dtol sgn max_ls max_iters pos0 mom0 pos' mom' it,
  solve d k c norm Jp Dpos Dmom gsolve ctol ptol dtol sgn max_ls sh max_iters pos0 mom0 = Some (pos', mom', it) ->
  exists lam, meq d 1 pos' (msub pos0 (mmul d Dpos (mmul k (mtr Jp) lam)))
              /\ meq d 1 mom' (msub mom0 (mscal sgn (mmul d Dmom (mmul k (mtr Jp) lam))))
              /\ norm (c pos') < ctol.
Proof.
  intros sh Hin d k c norm Jp Dpos Dmom gsolve ctol ptol dtol sgn max_ls max_iters pos0 mom0 pos' mom' it H.
  assert (OK : shape_ok sh = true) by (destruct Hin as [<-|[<-|[<-|[]]]]; reflexivity).
  exact (solve_post d k c norm Jp Dpos Dmom gsolve ctol ptol dtol sgn max_ls sh OK pos0 mom0 max_iters (pos', mom', it) H).
Qed.
Print Assumptions solver_returns_only_converged_lagrange_form.

(* one step of the constrained integrator (the generated operation list  A(t/2) B(t/N)^N A(t/2)), for every number of inner
   steps, every solver, every h1 / h2 flow, time step and start on the manifold: a successful step ends on the manifold (to
   the solver tolerance) with its momentum in the cotangent space at the new position *)
Theorem constrained_step_stays_on_bundle : forall sh, In sh [gen_shape_quasi_newton; gen_shape_newton; gen_shape_newton_ls] ->
  forall d k c norm rnorm jac Mi ginv inv_k kick flow dflow ctol ptol dtol rtol max_ls max_iters,
  (forall q, is_inv k (mmul d (jac q) (mmul d Mi (mtr (jac q)))) (ginv q)) ->
  forall n t dt s s',
  norm (c (pos s)) < ctol ->
  cexec d k c norm rnorm jac Mi ginv inv_k kick flow dflow ctol ptol dtol rtol max_ls max_iters sh gen_proj_exp t dt (gen_cstep n) s = Some s' ->
  norm (c (pos s')) < ctol /\ meq k 1 (mmul d (jac (pos s')) (mmul d Mi (mom s'))) m0.
Proof.
  intros sh Hin d k c norm rnorm jac Mi ginv inv_k kick flow dflow ctol ptol dtol rtol max_ls max_iters HG n t dt s s' Hs H.
  assert (OK : shape_ok sh = true) by (destruct Hin as [<-|[<-|[<-|[]]]]; reflexivity).
  destruct (exec_sound d k c norm rnorm jac Mi ginv inv_k kick flow dflow ctol ptol dtol rtol max_ls max_iters sh gen_proj_exp OK eq_refl HG
              t dt (gen_cstep n) s s' false Hs (fun e => False_ind _ (Bool.diff_false_true e)) H) as [Hm Hc].
  split; [exact Hm|]. apply Hc.
  unfold gen_cstep. rewrite !cot_after_app. reflexivity.
Qed.
Print Assumptions constrained_step_stays_on_bundle.

(* the re-synchronisation after an exhausted backtracking search matters: without it the line-search shape fails shape_ok
   (this is the defect repaired by the fix commit 4f98ad5; see Example below for the 1-D witness in design/prototypes/c04) *)
Example shape_ok_is_sensitive :
  shape_ok {| sh_quasi := false; sh_ls := true; sh_conv_a := (QErr, TCon); sh_conv_b := (QNormStepDpos, TPos); sh_first_free := true;
              sh_div_skip0 := true; sh_div := (QErr, TDiv); sh_dpos_lin := LDpos; sh_dpos_neg := true; sh_pos_sub := false;
              sh_mu_step := true; sh_resync := false; sh_shrink := (1 # 2); sh_mom_lin := LDmom; sh_mom_sub := true; sh_mom_sign := true |} = false
  /\ shape_ok {| sh_quasi := false; sh_ls := false; sh_conv_a := (QErr, TPos); sh_conv_b := (QNormDpos, TCon); sh_first_free := false;
              sh_div_skip0 := false; sh_div := (QErr, TDiv); sh_dpos_lin := LDpos; sh_dpos_neg := false; sh_pos_sub := true;
              sh_mu_step := false; sh_resync := false; sh_shrink := (1 # 2); sh_mom_lin := LDmom; sh_mom_sub := true; sh_mom_sign := true |} = false.
Proof. split; reflexivity. Qed.
