(* C20 -- Log-space arithmetic matches real arithmetic.
   Every statement is about the functions GENERATED from src/mici/utils.py (Gen/LogSpaceGen.v)
   under the real-number semantics evalR of Model/LogSpace.v.  Statements only; proofs are in
   Proofs/LogSpaceProofs.v. *)
From Coq Require Import Reals List.
Require Import Mici.Model.LogSpace Mici.Gen.LogSpaceGen Mici.Proofs.LogSpaceProofs.
Import ListNotations.
Open Scope R_scope.

(* helper functions: every finite argument *)
Theorem log1p_exp_spec : forall v, evalR (env1 (Fin v)) (gen_log1p_exp (Var 0)) = Fin (ln (1 + exp v)).
Proof. intros v. exact (gen_log1p_exp_fin (env1 (Fin v)) (Var 0) v eq_refl). Qed.
Print Assumptions log1p_exp_spec.

Theorem log1m_exp_spec : forall v, v < 0 -> evalR (env1 (Fin v)) (gen_log1m_exp (Var 0)) = Fin (ln (1 - exp v)).
Proof. intros v. exact (gen_log1m_exp_neg (env1 (Fin v)) (Var 0) v eq_refl). Qed.
Print Assumptions log1m_exp_spec.

Theorem log1m_exp_outside_domain : forall v, 0 <= v -> evalR (env1 (Fin v)) (gen_log1m_exp (Var 0)) = NaN.
Proof. intros v. exact (gen_log1m_exp_nonneg (env1 (Fin v)) (Var 0) v eq_refl). Qed.
Print Assumptions log1m_exp_outside_domain.

(* sums and differences of weights, zero weights (log value -inf) included; the result is a
   valid log-weight (never NaN) representing exactly the sum / difference *)
Theorem log_sum_exp_weights : forall a b x y, wval a = Some x -> wval b = Some y ->
  let r := evalR (env2 a b) (gen_log_sum_exp (Var 0) (Var 1)) in valid_w r /\ wval r = Some (x + y).
Proof. intros a b x y. exact (gen_lse_spec (env2 a b) (Var 0) (Var 1) a b x y eq_refl eq_refl). Qed.
Print Assumptions log_sum_exp_weights.

Theorem log_diff_exp_weights : forall a b x y, wval a = Some x -> wval b = Some y -> y <= x ->
  let r := evalR (env2 a b) (gen_log_diff_exp (Var 0) (Var 1)) in valid_w r /\ wval r = Some (x - y).
Proof. intros a b x y. exact (gen_lde_spec (env2 a b) (Var 0) (Var 1) a b x y eq_refl eq_refl). Qed.
Print Assumptions log_diff_exp_weights.

Theorem log_diff_exp_negative_is_nan : forall a b, a < b ->
  evalR (env2 (Fin a) (Fin b)) (gen_log_diff_exp (Var 0) (Var 1)) = NaN.
Proof. intros a b. exact (gen_lde_nan (env2 (Fin a) (Fin b)) (Var 0) (Var 1) a b eq_refl eq_refl). Qed.
Print Assumptions log_diff_exp_negative_is_nan.

(* the representation: constructor and plain value *)
Theorem logrep_init_value : forall v, 0 <= v ->
  let r := evalR (env1 (Fin v)) (gen_LogRepFloat_init_val (Var 0)) in valid_w r /\ wval r = Some v.
Proof. intros v. exact (gen_init_spec (env1 (Fin v)) (Var 0) v eq_refl). Qed.
Print Assumptions logrep_init_value.

(* homomorphism: LogRepFloat (+, +=, -, *, /) LogRepFloat *)
Theorem logrep_add : forall a b x y, wval a = Some x -> wval b = Some y ->
  let r := evalP (env2 a b) (gen_LogRepFloat__add__ (Var 0) (PL (Var 1))) in is_L r /\ rvalue r = Some (x + y).
Proof. exact add_LL. Qed.
Print Assumptions logrep_add.
Theorem logrep_iadd : forall a b x y, wval a = Some x -> wval b = Some y ->
  let r := evalP (env2 a b) (gen_LogRepFloat__iadd__ (Var 0) (PL (Var 1))) in is_L r /\ rvalue r = Some (x + y).
Proof. exact iadd_LL. Qed.
Print Assumptions logrep_iadd.
Theorem logrep_sub : forall a b x y, wval a = Some x -> wval b = Some y -> y <= x ->
  let r := evalP (env2 a b) (gen_LogRepFloat__sub__ (Var 0) (PL (Var 1))) in is_L r /\ rvalue r = Some (x - y).
Proof. exact sub_LL_ge. Qed.
Print Assumptions logrep_sub.
Theorem logrep_sub_negative_is_plain : forall a b x y, wval a = Some x -> wval b = Some y -> x < y ->
  evalP (env2 a b) (gen_LogRepFloat__sub__ (Var 0) (PL (Var 1))) = RF (Fin (x - y)).
Proof. exact sub_LL_lt. Qed.
Print Assumptions logrep_sub_negative_is_plain.
Theorem logrep_mul : forall a b x y, wval a = Some x -> wval b = Some y ->
  let r := evalP (env2 a b) (gen_LogRepFloat__mul__ (Var 0) (PL (Var 1))) in is_L r /\ rvalue r = Some (x * y).
Proof. exact mul_LL. Qed.
Print Assumptions logrep_mul.
Theorem logrep_div : forall a b x y, wval a = Some x -> wval b = Some y -> 0 < y ->
  let r := evalP (env2 a b) (gen_LogRepFloat__truediv__ (Var 0) (PL (Var 1))) in is_L r /\ rvalue r = Some (x / y).
Proof. exact div_LL. Qed.
Print Assumptions logrep_div.

(* mixed operations with plain numbers *)
Theorem logrep_mixed : forall a x y, wval a = Some x ->
     evalP (env2 a (Fin y)) (gen_LogRepFloat__add__ (Var 0) (PF (Var 1))) = RF (Fin (x + y))
  /\ evalP (env2 a (Fin y)) (gen_LogRepFloat__radd__ (Var 0) (PF (Var 1))) = RF (Fin (x + y))
  /\ evalP (env2 a (Fin y)) (gen_LogRepFloat__sub__ (Var 0) (PF (Var 1))) = RF (Fin (x - y))
  /\ evalP (env2 a (Fin y)) (gen_LogRepFloat__rsub__ (Var 0) (PF (Var 1))) = RF (Fin (y - x))
  /\ evalP (env2 a (Fin y)) (gen_LogRepFloat__mul__ (Var 0) (PF (Var 1))) = RF (Fin (x * y))
  /\ evalP (env2 a (Fin y)) (gen_LogRepFloat__rmul__ (Var 0) (PF (Var 1))) = RF (Fin (x * y))
  /\ (y <> 0 -> evalP (env2 a (Fin y)) (gen_LogRepFloat__truediv__ (Var 0) (PF (Var 1))) = RF (Fin (x / y)))
  /\ (x <> 0 -> evalP (env2 a (Fin y)) (gen_LogRepFloat__rtruediv__ (Var 0) (PF (Var 1))) = RF (Fin (y / x)))
  /\ evalP (env2 a (Fin y)) (gen_LogRepFloat__neg__ (Var 0)) = RF (Fin (- x)).
Proof.
  intros a x y Ha. repeat split; intros;
    first [ exact (add_LF a x y Ha) | exact (radd_LF a x y Ha) | exact (sub_LF a x y Ha) | exact (rsub_LF a x y Ha)
          | exact (mul_LF a x y Ha) | exact (rmul_LF a x y Ha) | apply (div_LF a x y Ha); assumption
          | apply (rdiv_LF a x y Ha); assumption | exact (neg_L a (Fin y) x Ha) ].
Qed.
Print Assumptions logrep_mixed.
Theorem logrep_iadd_plain : forall a x y, wval a = Some x -> 0 <= y ->
  let r := evalP (env2 a (Fin y)) (gen_LogRepFloat__iadd__ (Var 0) (PF (Var 1))) in is_L r /\ rvalue r = Some (x + y).
Proof. exact iadd_LF. Qed.
Print Assumptions logrep_iadd_plain.

(* in-place accumulation of ANY sequence of weights and non-negative plain numbers *)
Theorem logrep_iadd_sequence : forall ws l x t, wval l = Some x -> total ws = Some t ->
  exists l', accumulate l ws = Some l' /\ valid_w l' /\ wval l' = Some (x + t).
Proof. exact iadd_sequence_proof. Qed.
Print Assumptions logrep_iadd_sequence.

(* order isomorphism *)
Theorem logrep_order_iso : forall a b x y, wval a = Some x -> wval b = Some y ->
     evalP (env2 a b) (gen_LogRepFloat__lt__ (Var 0) (PL (Var 1))) = RB (xlt a b)
  /\ evalP (env2 a b) (gen_LogRepFloat__gt__ (Var 0) (PL (Var 1))) = RB (xlt b a)
  /\ evalP (env2 a b) (gen_LogRepFloat__le__ (Var 0) (PL (Var 1))) = RB (xlt a b || xeq a b)
  /\ evalP (env2 a b) (gen_LogRepFloat__ge__ (Var 0) (PL (Var 1))) = RB (xlt b a || xeq b a)
  /\ evalP (env2 a b) (gen_LogRepFloat__eq__ (Var 0) (PL (Var 1))) = RB (xeq a b)
  /\ evalP (env2 a b) (gen_LogRepFloat__ne__ (Var 0) (PL (Var 1))) = RB (negb (xeq a b))
  /\ (xlt a b = true <-> x < y) /\ (xlt b a = true <-> y < x) /\ (xeq a b = true <-> x = y).
Proof.
  intros a b x y Ha Hb. pose proof (cmp_LL a b) as C. unfold xle in C.
  repeat split; try apply C; try (apply (lt_iff a b x y Ha Hb)); try (apply (lt_iff b a y x Hb Ha));
    try (apply (eq_iff a b x y Ha Hb)).
Qed.
Print Assumptions logrep_order_iso.
Theorem logrep_order_plain : forall a x y, wval a = Some x ->
     evalP (env2 a (Fin y)) (gen_LogRepFloat__lt__ (Var 0) (PF (Var 1))) = RB (xlt (Fin x) (Fin y))
  /\ evalP (env2 a (Fin y)) (gen_LogRepFloat__gt__ (Var 0) (PF (Var 1))) = RB (xlt (Fin y) (Fin x))
  /\ evalP (env2 a (Fin y)) (gen_LogRepFloat__le__ (Var 0) (PF (Var 1))) = RB (xle (Fin x) (Fin y))
  /\ evalP (env2 a (Fin y)) (gen_LogRepFloat__ge__ (Var 0) (PF (Var 1))) = RB (xle (Fin y) (Fin x))
  /\ evalP (env2 a (Fin y)) (gen_LogRepFloat__eq__ (Var 0) (PF (Var 1))) = RB (xeq (Fin x) (Fin y))
  /\ evalP (env2 a (Fin y)) (gen_LogRepFloat__ne__ (Var 0) (PF (Var 1))) = RB (negb (xeq (Fin x) (Fin y))).
Proof. exact cmp_LF. Qed.
Print Assumptions logrep_order_plain.

(* precision: for every negative argument the formula log1m_exp selects amplifies a relative error of
   its inner primitive by at most 2 (relative to the result), i.e. the expm1 branch is taken exactly
   where log1p(-exp v) would be ill-conditioned; that other branch is unboundedly ill-conditioned there *)
Theorem log1m_exp_conditioned : forall v, v < 0 ->
  exists k, amplification (selectR (env1 (Fin v)) (gen_log1m_exp (Var 0))) v = Some k /\ k <= 2.
Proof. exact log1m_exp_conditioned_proof. Qed.
Print Assumptions log1m_exp_conditioned.
Theorem log1p_branch_unbounded_near_zero : forall K, 0 < K -> exists v, v < 0 /\ - ln 2 < v /\ K < exp v / (1 - exp v).
Proof. exact branchB_unbounded. Qed.
Print Assumptions log1p_branch_unbounded_near_zero.

(* non-vacuity: concrete weights meeting the hypotheses *)
Example weights_exist : wval (Fin (-1000)) = Some (exp (-1000)) /\ wval NInf = Some 0 /\ total [OL NInf; OF 2; OL (Fin 700)] = Some (0 + (2 + (exp 700 + 0))).
Proof. repeat split. cbn. destruct (Rle_dec 0 2); [reflexivity|exfalso; apply n; Lra.lra]. Qed.
