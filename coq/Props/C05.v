(* C05 -- Hamiltonian values and derivative methods of every system are consistent.
   About the method bodies and class hierarchy REGENERATED from src/mici/systems.py (Gen/DepsGen.v, Gen/SystemsGen.v)
   in the symbolic model Model/Systems.v.  Statements only. *)
From Coq Require Import QArith List String Bool.
Require Import Mici.Model.Systems Mici.Gen.DepsGen Mici.Gen.SystemsGen Mici.Proofs.SystemsProofs.
Import ListNotations.
Open Scope string_scope.

(* for every concrete system class (method resolution along the generated MRO), under both density conventions:
   h = h1 + h2, dh1_dpos = Dq h1, dh2_dpos = Dq h2, dh2_dmom = Dp h2, dh_dpos = Dq h = dh1_dpos + dh2_dpos, dh_dmom = Dp h,
   as identities between linear combinations of uninterpreted atoms *)
Theorem systems_consistent :
  forallb (fun c => class_consistent gen_mro gen_bodies true c && class_consistent gen_mro gen_bodies false c) gen_concrete = true.
Proof. vm_compute. reflexivity. Qed.
Print Assumptions systems_consistent.

(* hence under EVERY interpretation of the user functions / metric quantities (valuation of the atoms) each derivative
   method takes the value of the true derivative of the corresponding Hamiltonian component *)
Theorem derivative_methods_correct : forall c hd, In c gen_concrete -> forall (rho : atom -> Q) x y,
  let v := val gen_mro gen_bodies hd c in
  (v "dh_dpos" = Some x -> omap Dq (v "h") = Some y -> interp rho x == interp rho y) /\
  (v "dh_dmom" = Some x -> omap Dp (v "h") = Some y -> interp rho x == interp rho y) /\
  (v "dh1_dpos" = Some x -> omap Dq (v "h1") = Some y -> interp rho x == interp rho y) /\
  (v "dh2_dpos" = Some x -> omap Dq (v "h2") = Some y -> interp rho x == interp rho y) /\
  (v "dh2_dmom" = Some x -> omap Dp (v "h2") = Some y -> interp rho x == interp rho y).
Proof.
  intros c hd Hc rho x y v.
  pose proof systems_consistent as S. rewrite forallb_forall in S. specialize (S c Hc).
  apply andb_prop in S as [St Sf].
  assert (Sc : class_consistent gen_mro gen_bodies hd c = true) by (destruct hd; [exact St|exact Sf]).
  destruct (consistent_parts gen_mro gen_bodies hd c Sc) as (_ & A1 & A2 & A3 & A4 & A5 & _).
  split; [intros E1 E2; exact (method_value gen_mro gen_bodies hd c rho "dh_dpos" "h" Dq x y A4 E1 E2)|].
  split; [intros E1 E2; exact (method_value gen_mro gen_bodies hd c rho "dh_dmom" "h" Dp x y A5 E1 E2)|].
  split; [intros E1 E2; exact (method_value gen_mro gen_bodies hd c rho "dh1_dpos" "h1" Dq x y A1 E1 E2)|].
  split; [intros E1 E2; exact (method_value gen_mro gen_bodies hd c rho "dh2_dpos" "h2" Dq x y A2 E1 E2)|].
  intros E1 E2; exact (method_value gen_mro gen_bodies hd c rho "dh2_dmom" "h2" Dp x y A3 E1 E2).
Qed.
Print Assumptions derivative_methods_correct.

(* the documented Hamiltonians *)
Definition expect (l : list atom) : option comb := Some (fold_right (fun a x => cadd (at1 a) x) c0 l).
Theorem documented_hamiltonians :
     oeqb (val gen_mro gen_bodies true "EuclideanMetricSystem" "h") (expect [aL; aK]) = true
  /\ oeqb (val gen_mro gen_bodies true "GaussianEuclideanMetricSystem" "h") (expect [aL; aG; aK]) = true
  /\ oeqb (val gen_mro gen_bodies true "DenseConstrainedEuclideanMetricSystem" "h") (expect [aL; aK]) = true
  /\ oeqb (val gen_mro gen_bodies false "DenseConstrainedEuclideanMetricSystem" "h") (expect [aL; aGR; aK]) = true
  /\ oeqb (val gen_mro gen_bodies true "GaussianDenseConstrainedEuclideanMetricSystem" "h") (expect [aL; aG; aK]) = true
  /\ oeqb (val gen_mro gen_bodies false "GaussianDenseConstrainedEuclideanMetricSystem" "h") (expect [aL; aGR; aG; aK]) = true
  /\ forallb (fun c => oeqb (val gen_mro gen_bodies true c "h") (expect [aL; aLD; aKR]))
       ["RiemannianMetricSystem"; "ScalarRiemannianMetricSystem"; "DiagonalRiemannianMetricSystem";
        "CholeskyFactoredRiemannianMetricSystem"; "DenseRiemannianMetricSystem"; "SoftAbsRiemannianMetricSystem"] = true.
Proof. vm_compute. repeat split; reflexivity. Qed.
Print Assumptions documented_hamiltonians.
