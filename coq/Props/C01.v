(* C01 -- Integration transitions leave the canonical distribution exactly invariant.
   About the transition models Mici.C01.Model (dynamic multinomial / slice, a constructor-for-constructor rendering of
   _build_tree / sample in src/mici/transitions.py with every `rng.uniform() < p` a Flip node) and Mici.C01M.Metro
   (Metropolis), tied to the code by exhaustive enumeration of every outcome of the random draws of the real transition
   classes on the same orbits (tie/c01.py).  Statements only; proofs in C01/*.v, C01M/*.v. *)
From Coq Require Import QArith Qminmax ZArith List Bool.
Require Import Mici.C01.Lib Mici.C01.Model Mici.C01.Final Mici.C01.Reindex Mici.C01.Main Mici.C01.Slice.
Require Mici.C01M.Lib Mici.C01M.Metro.
Import ListNotations.
Open Scope Q_scope.

(* Dynamic transitions.  For EVERY orbit: selection weights w >= 0 (multinomial: exp(-h); slice at level u: [u <= exp(-h)]),
   any set of failing integrator edges, any termination criterion (a table on pairs of orbit indices), sub-tree checks on
   or off, divergence flags that never hit a state of positive weight, every depth limit D and every end state j:
   summing target weight times exact transition probability over all starts reproduces the weight of j. *)
Theorem dynamic_invariant : forall (Ob : orbit) (slice extra : bool) (w0 : Q),
  (forall i, 0 <= wfun Ob i) -> (forall i, ~ wfun Ob i == 0 -> dvg Ob i = false) ->
  forall maxd j,
  wsum (j - pw maxd + 1)%Z (Z.to_nat (2 * pw maxd - 1))
       (fun i => wfun Ob i * ex (sample Ob slice extra w0 maxd i) (fun o => dlt j (next o))) == wfun Ob j.
Proof. exact Main.dynamic_invariant. Qed.
Print Assumptions dynamic_invariant.

(* Slice variant at a fixed slice level u, with the divergence threshold shared through the slice variable
   (a state is divergent iff exp(max_delta_h) * exp(-h) < u): invariant for every max_delta_h >= 0 *)
Theorem slice_level_invariant : forall (wt : Z -> Q) (okE : Z -> bool) (crit : Z -> Z -> bool) (cdiv : Q),
  1 <= cdiv -> (forall i, 0 <= wt i) -> forall extra w0 u maxd j, 0 < u ->
  wsum (j - pw maxd + 1)%Z (Z.to_nat (2 * pw maxd - 1))
       (fun i => ind_le u (wt i) * ex (sample (orbit_at wt okE crit cdiv u) true extra w0 maxd i) (fun o => dlt j (next o)))
  == ind_le u (wt j).
Proof. intros wt okE crit cdiv H1 H2 extra w0 u maxd j Hu. exact (Slice.slice_level_invariant wt okE crit cdiv H1 H2 extra w0 u maxd j Hu). Qed.
Print Assumptions slice_level_invariant.

(* ... and integrated over the slice level (u | start i uniform on (0, exp(-h_i)]): the kernel is a step function of u, so
   the integral is the finite sum over any increasing list of breakpoints containing exp(-h_j) *)
Theorem slice_integrated : forall (wt : Z -> Q) (okE : Z -> bool) (crit : Z -> Z -> bool) (cdiv : Q),
  1 <= cdiv -> (forall i, 0 <= wt i) -> forall extra w0 maxd j bps, increasing 0 bps -> among (wt j) 0 bps ->
  integral 0 bps (fun u =>
     wsum (j - pw maxd + 1)%Z (Z.to_nat (2 * pw maxd - 1))
          (fun i => ind_le u (wt i) * ex (sample (orbit_at wt okE crit cdiv u) true extra w0 maxd i) (fun o => dlt j (next o)))) == wt j.
Proof. intros wt okE crit cdiv H1 H2 extra w0 maxd j bps. exact (Slice.slice_integrated wt okE crit cdiv H1 H2 extra w0 maxd j bps). Qed.
Print Assumptions slice_integrated.

(* Metropolis transitions (fixed length n >= 1; a random length independent of the state is a mixture of these): on every
   orbit with positive weights and any failing edges, the only two sources of the extended state (j, e) -- the accepted move
   from (j -/+ n, e) and the rejected or failed move from (j, not e) -- carry total weight w_j *)
Theorem metropolis_invariant : forall (wt : Z -> Q) (okE : Z -> bool), (forall i, 0 < wt i) ->
  forall (n : nat) (j : Z) (e : bool),
  let i := if e then (j - Z.of_nat n)%Z else (j + Z.of_nat n)%Z in
  (0 < n)%nat ->
  wt i * Metro.P wt okE n (Metro.st i e) (Metro.st j e) + wt j * Metro.P wt okE n (Metro.st j (negb e)) (Metro.st j e) == wt j.
Proof. exact Metro.metropolis_invariant. Qed.
Print Assumptions metropolis_invariant.

(* non-vacuity: a concrete 3-state orbit, depth 1: the inflow into state 0 equals its weight *)
Example tiny_orbit :
  let ob := {| wt := fun z => if Z.eqb z 0 then 2 else 1; okE := fun _ => true; dvg := fun _ => false; crit := fun _ _ => false;
               wfun := fun z => if Z.eqb z 0 then 2 else 1 |} in
  wsum (0 - pw 1 + 1)%Z (Z.to_nat (2 * pw 1 - 1)) (fun i => wfun ob i * ex (sample ob false true 1 1 i) (fun o => dlt 0 (next o))) == 2.
Proof. vm_compute. reflexivity. Qed.
