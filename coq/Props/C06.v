(* C06 -- A step of size eps approximates the exact flow over time eps to second order.
   About the schedules REGENERATED from src/mici/integrators.py (Gen/SchedulesGen.v).  Statements only;
   proofs in Proofs/IntegratorsProofs.v and Proofs/Order2.v. *)
From Coq Require Import QArith List Bool.
Require Import Mici.Model.Integrators Mici.Gen.SchedulesGen Mici.Proofs.IntegratorsProofs Mici.Proofs.Order2.
Import ListNotations.
Open Scope Q_scope.

(* symmetric compositions built from ANY free coefficients are consistent and palindromic *)
Theorem coefficients_consistent_and_palindromic : forall free,
  sumq (evens (coefficients free)) == 1 /\ sumq (odds (coefficients free)) == 1 /\ rev (coefficients free) = coefficients free.
Proof. intros free. destruct (coefficients_consistent free). auto using coefficients_palindrome. Qed.
Print Assumptions coefficients_consistent_and_palindromic.
Theorem symmetric_composition_consistent : forall ih free,
  weight H1 (sym_schedule ih free) == 1 /\ weight H2 (sym_schedule ih free) == 1 /\ rev (sym_schedule ih free) = sym_schedule ih free.
Proof. intros ih free. destruct (sym_schedule_weights ih free). auto using sym_schedule_palindrome. Qed.
Print Assumptions symmetric_composition_consistent.

(* every integrator's schedule gives each Hamiltonian component a total fraction of exactly one time step and is
   self-adjoint (a palindrome after exchanging each implicit sub-step with its adjoint) *)
Definition adjoint (c : comp) : comp :=
  match c with Bfwd => Badj | Badj => Bfwd | Cfwd => Cadj | Cadj => Cfwd | Mfwd => Madj | Madj => Mfwd | c => c end.
Definition self_adjoint (l : sched) : bool :=
  forallb (fun p => comp_eqb (fst (fst p)) (adjoint (fst (snd p))) && Qeq_bool (snd (fst p)) (snd (snd p))) (combine l (rev l)).
Theorem schedules_consistent :
     (weight H1 gen_sched_LeapfrogIntegrator == 1 /\ weight H2 gen_sched_LeapfrogIntegrator == 1 /\ self_adjoint gen_sched_LeapfrogIntegrator = true)
  /\ (weight H1 gen_sched_ImplicitLeapfrogIntegrator == 1
      /\ weight Bfwd gen_sched_ImplicitLeapfrogIntegrator + weight Badj gen_sched_ImplicitLeapfrogIntegrator == 1
      /\ weight Cfwd gen_sched_ImplicitLeapfrogIntegrator + weight Cadj gen_sched_ImplicitLeapfrogIntegrator == 1
      /\ self_adjoint gen_sched_ImplicitLeapfrogIntegrator = true)
  /\ (weight Mfwd gen_sched_ImplicitMidpointIntegrator + weight Madj gen_sched_ImplicitMidpointIntegrator == 1
      /\ self_adjoint gen_sched_ImplicitMidpointIntegrator = true)
  /\ (weight CA gen_sched_ConstrainedLeapfrogIntegrator == 1 /\ weight CB gen_sched_ConstrainedLeapfrogIntegrator == 1
      /\ self_adjoint gen_sched_ConstrainedLeapfrogIntegrator = true).
Proof. vm_compute. repeat split; reflexivity. Qed.
Print Assumptions schedules_consistent.

(* second order: in the free algebra of the two component vector fields modulo t^3 (Lie-series form of exact flows), the
   product of the sub-flows of a palindromic consistent schedule equals exp(t (X1 + X2)) -- local error O(t^3) *)
Theorem leapfrog_order2 : seq (prod (to_b gen_sched_LeapfrogIntegrator)) exact.
Proof. apply explicit_schedule_order2; vm_compute; reflexivity. Qed.
Print Assumptions leapfrog_order2.
Theorem symmetric_composition_order2 : forall ih free, seq (prod (to_b (sym_schedule ih free))) exact.
Proof. exact sym_schedule_order2. Qed.
Print Assumptions symmetric_composition_order2.

(* non-vacuity / regression witness: doubling the h1 fractions (the defect fixed in 432e4eb) is not consistent *)
Example doubled_is_inconsistent : ~ seq (prod [(false, 1); (true, 1); (false, 1)]) exact.
Proof. intros (_ & H & _). cbn in H. Lqa.lra. Qed.
