(* C16 -- Adaptation is confined to warm-up and stages partition the iterations exactly.
   Part 1: the stagers, about the functions GENERATED from src/mici/stagers.py (Gen/StagersGen.v).
   Part 2: the stage loop of the sampler (Model/Sampler.v, tied to samplers.py by correspondence).
   Statements only; proofs in Proofs/StagersProofs.v and Proofs/SamplerProofs.v. *)
From Coq Require Import ZArith QArith List Bool Lia.
Require Import Mici.Model.Stagers Mici.Gen.StagersGen Mici.Proofs.StagersProofs.
Import ListNotations.
Open Scope Z_scope.

(* WindowedWarmUpStager, all settings with initial slow window >= 1, fast stage lengths >= 0 and window
   multiplier >= 1, all requested counts >= 0: the loop terminates (fuel never runs out) and the result is
   [fast nf] ++ [all w1 .. all wk] ++ [fast nl] ++ [main]  with  nf + w1 + .. + wk + nl = n_warm_up_iter,
   every length >= 0, the main stage present iff n_main_iter > 0, carrying no adapters, always traced/recorded;
   warm-up stages traced iff trace_warm_up. *)
Theorem windowed_partition : forall s1 s2 s3 m n_warm n_main ht tw,
  0 <= n_warm -> 0 <= s2 -> 0 <= s3 -> 1 <= s1 -> (1 <= m)%Q ->
  (0 < n_warm ->
   exists nf ws nl,
    gen_WindowedWarmUpStager_stages s1 s2 s3 m n_warm n_main ht tw =
      Some (warm_stage Fast ht tw nf :: map (warm_stage All ht tw) ws ++ [warm_stage Fast ht tw nl] ++ main_stage n_main ht)
    /\ 0 <= nf /\ 0 <= nl /\ Forall (fun x => 0 <= x) ws /\ nf + sumz ws + nl = n_warm)
  /\ (n_warm = 0 -> gen_WindowedWarmUpStager_stages s1 s2 s3 m n_warm n_main ht tw = Some (main_stage n_main ht)).
Proof. exact windowed_shape. Qed.
Print Assumptions windowed_partition.

Theorem warmup_stager_partition : forall n_warm n_main ht tw,
  gen_WarmUpStager_stages n_warm n_main ht tw =
    Some ((if 0 <? n_warm then [warm_stage All ht tw n_warm] else []) ++ main_stage n_main ht).
Proof. exact warmup_shape. Qed.
Print Assumptions warmup_stager_partition.

(* number of recorded rows = n_main (+ n_warm when warm-up is traced): what C13 needs for "no fill value survives" *)
Theorem windowed_recorded_total : forall s1 s2 s3 m n_warm n_main ht tw l,
  0 <= n_warm -> 0 <= n_main -> 0 <= s2 -> 0 <= s3 -> 1 <= s1 -> (1 <= m)%Q ->
  gen_WindowedWarmUpStager_stages s1 s2 s3 m n_warm n_main ht tw = Some l ->
  recorded l = (if tw then n_warm else 0) + n_main /\ sumz (map n_iter (warm l)) = n_warm.
Proof.
  intros s1 s2 s3 m n_warm n_main ht tw l Hw Hm H2 H3 H1 Hmm H.
  destruct (windowed_shape s1 s2 s3 m n_warm n_main ht tw Hw H2 H3 H1 Hmm) as [A B].
  destruct (Z.eq_dec n_warm 0) as [->|Hne].
  - rewrite (B eq_refl) in H. injection H as <-. rewrite recorded_main by lia. rewrite warm_main. destruct tw; cbn; lia.
  - destruct (A ltac:(lia)) as (nf & ws & nl & E & Hnf & Hnl & Hws & Hs). rewrite E in H. injection H as <-.
    split.
    + rewrite recorded_cons, recorded_app, recorded_warm, recorded_cons, recorded_main by lia.
      cbn [stats n_iter warm_stage]. destruct tw; lia.
    + rewrite warm_cons, warm_app, warm_map, warm_cons, warm_main by discriminate.
      cbn [is_warm ads warm_stage]. cbn [map]. rewrite map_app, niter_map. cbn [map n_iter warm_stage].
      cbn [sumz fold_right]. fold (sumz (ws ++ [nl])). rewrite sumz_app. cbn. lia.
Qed.
Print Assumptions windowed_recorded_total.

(* ---- Part 2: the stage loop of the sampler (Model/Sampler.v) ---------------------------------------------- *)
Require Import Mici.Model.Sampler Mici.Proofs.SamplerProofs.
Section StageLoop.
  Variables St Rng Par Ast Stat V : Type.
  Variable init_ad : adapters -> Par -> St -> Ast * Par.
  Variable iter_fn : adapters -> Par -> Ast -> St -> Rng -> St * Stat * Rng * Ast * Par.
  Variable fin_ad : adapters -> Par -> list Ast -> list (St * Rng) -> Par * list (St * Rng).
  Variable tr : St -> V.
  Variable ast0 : Ast.
  Variable nchain : nat.
  Notation run := (run St Rng Par Ast Stat V init_ad iter_fn fin_ad tr ast0 nchain None).

  (* a stage without iterations changes nothing: the run over any stage list equals the run over the list with the empty
     stages removed (whatever adapters they carry: they are neither initialized nor finalized) *)
  Theorem empty_stages_change_nothing : forall l w0,
    run (filter (fun s => 0 <? n_iter s) l) w0 = run l w0.
  Proof. intros l w0. unfold Sampler.run. rewrite (run_skips_empty_stages nchain l 0%nat). reflexivity. Qed.

  (* during a stage without adapters (the main stage) no transition parameter changes, and every transition call of that stage
     sees exactly the parameters left by the stages before it (i.e. those finalized by the last warm-up stage that ran),
     provided nothing but adapters assigns parameters *)
  Theorem main_stage_params_constant :
    (forall p ast s r, snd (iter_fn NoAd p ast s r) = p) ->
    forall l main w0, ads main = NoAd ->
    let wl := run l w0 in let w := run (l ++ [main]) w0 in
    w_par _ _ _ _ _ _ w = w_par _ _ _ _ _ _ wl /\
    exists ext, w_parlog _ _ _ _ _ _ w = w_parlog _ _ _ _ _ _ wl ++ ext /\ Forall (fun e => e = (NoAd, w_par _ _ _ _ _ _ wl)) ext.
  Proof. intros H l main w0 Ha. exact (main_stage_params St Rng Par Ast Stat V init_ad iter_fn fin_ad tr ast0 nchain H l main w0 Ha). Qed.
End StageLoop.
Print Assumptions empty_stages_change_nothing.
Print Assumptions main_stage_params_constant.

(* non-vacuity and a regression witness: the default settings on a short warm-up (fallback 15/75/10) *)
Example windowed_default_1000 :
  option_map (map n_iter) (gen_WindowedWarmUpStager_stages 25 75 50 (2 # 1) 1000 500 true false)
  = Some [75; 25; 50; 100; 200; 500; 50; 500].
Proof. vm_compute. reflexivity. Qed.
Example windowed_short_7 :
  option_map (map n_iter) (gen_WindowedWarmUpStager_stages 25 75 50 (2 # 1) 7 3 true false) = Some [1; 6; 0; 3].
Proof. vm_compute. reflexivity. Qed.
