(* C03 -- Integrator steps are symplectic maps.
   Jacobians as block matrices [[A,B],[C,D]] over the rationals, any dimension (Lib/Sympl.v, Lib/Sympl2.v); symplecticity as
   preservation of the canonical form omega((q1,p1),(q2,p2)) = q1.p2 - p1.q2 by the block action (equivalent to J^T Omega J =
   Omega).  The schedules are those REGENERATED from src/mici/integrators.py (Gen/SchedulesGen.v).  Statements only. *)
From Coq Require Import QArith List.
Require Import Mici.Lib.QMat Mici.Lib.Sympl Mici.Lib.Sympl2 Mici.Model.Integrators Mici.Gen.SchedulesGen.
Import ListNotations.
Open Scope Q_scope.

(* the Jacobian of an h1 sub-step is a kick block [[I,0],[-tS,I]] with S the (symmetric) Hessian of h1 at the current point,
   that of a Euclidean h2 sub-step a drift block [[I,tW],[0,I]] with W the (symmetric) inverse metric: both preserve the form *)
Theorem kick_symplectic : forall n t S, msym n S -> pres n (kick t S).
Proof. exact kick_pres. Qed.
Print Assumptions kick_symplectic.
Theorem drift_symplectic : forall n t W, msym n W -> pres n (drift t W).
Proof. exact drift_pres. Qed.
Print Assumptions drift_symplectic.
(* the equivalent three block conditions A^T C, B^T D symmetric and A^T D - C^T B = I *)
Theorem kick_block_conditions : forall n t S, msym n S -> sympl n (kick t S).
Proof. exact Sympl.kick_symplectic. Qed.
Print Assumptions kick_block_conditions.

(* the Jacobian of a step of an explicit splitting integrator is the product of the Jacobians of its sub-steps (chain rule),
   each a kick or drift block whose symmetric matrix may differ from sub-step to sub-step (non-linear targets): for EVERY
   schedule -- leapfrog, symmetric compositions with any coefficients, any number of steps -- the product is symplectic *)
Definition block_of (S W : nat -> mat) (k : nat) (e : comp * Q) (eps : Q) : blk :=
  match fst e with H1 => kick (snd e * eps) (S k) | _ => drift (snd e * eps) (W k) end.
Fixpoint blocks (S W : nat -> mat) (k : nat) (l : sched) (eps : Q) : list blk :=
  match l with [] => [] | e :: r => block_of S W k e eps :: blocks S W (Datatypes.S k) r eps end.
Theorem explicit_step_symplectic : forall n (S W : nat -> mat) (l : sched) eps k,
  (forall i, msym n (S i)) -> (forall i, msym n (W i)) -> pres n (bprod n (blocks S W k l eps)).
Proof.
  intros n S W l eps k HS HW. apply schedule_pres. revert k. induction l as [|e r IH]; intros k J HJ; cbn in HJ; [destruct HJ|].
  destruct HJ as [<-|HJ]; [|eapply IH; eauto]. unfold block_of. destruct (fst e); auto using kick_pres, drift_pres.
Qed.
Print Assumptions explicit_step_symplectic.
Corollary leapfrog_step_symplectic : forall n S W eps, (forall i, msym n (S i)) -> (forall i, msym n (W i)) ->
  pres n (bprod n (blocks S W 0 gen_sched_LeapfrogIntegrator eps)).
Proof. intros. apply explicit_step_symplectic; auto. Qed.
Print Assumptions leapfrog_step_symplectic.

(* one eigen-mode of the Gaussian-split h2 flow is an area-preserving rotation (c^2 + s^2 = 1) *)
Theorem rotation_mode_symplectic : forall c s w q1 p1 q2 p2, ~ w == 0 -> c * c + s * s == 1 ->
  (c * q1 + s * w * p1) * (c * p2 - s / w * q2) - (c * p1 - s / w * q1) * (c * q2 + s * w * p2) == q1 * p2 - p1 * q2.
Proof.
  intros c s w q1 p1 q2 p2 Hw H. transitivity ((c * c + s * s) * (q1 * p2 - p1 * q2)); [field; exact Hw | rewrite H; ring].
Qed.
Print Assumptions rotation_mode_symplectic.

(* ------------------------------------------------------------------------------------------------------------------------------
   Implicit and constrained integrators, on tangent vectors.  A sub-step defined by an implicit equation maps a tangent vector to
   one related to it by the linearised equation (implicit differentiation; Lib/Sympl3.v, Lib/Sympl4.v state the relations next to
   the code they linearise).  For EVERY generated schedule -- generalised leapfrog, implicit midpoint, constrained leapfrog with
   any number of inner steps, as well as the explicit ones -- and every pair of tangent vectors related through the whole step,
   the canonical two-form is unchanged: no invertibility or smallness assumption, any dimension, any symmetric second-derivative
   blocks (they may differ from sub-step to sub-step), any mixed block, any constraint Jacobians / multiplier-weighted constraint
   Hessians, any symplectic linear h2 flow (drift or Gaussian rotation).                                                        *)
Require Import Mici.Lib.Sympl3 Mici.Lib.Sympl4 Mici.Proofs.ImplicitSympl.
Theorem generated_schedules_are_read_completely :
  supported gen_sched_LeapfrogIntegrator = true /\ supported gen_sched_ImplicitLeapfrogIntegrator = true
  /\ supported gen_sched_ImplicitMidpointIntegrator = true /\ supported gen_sched_ConstrainedLeapfrogIntegrator = true.
Proof. repeat split; reflexivity. Qed.
Print Assumptions generated_schedules_are_read_completely.

Theorem every_generated_step_preserves_the_two_form :
  forall n (S W K : nat -> mat) eps nc n_inner (Jc Jc' GL GM : nat -> mat) (Fl : nat -> blk),
  (forall k, msym n (S k)) -> (forall k, msym n (W k)) -> (forall k, msym n (GL k)) -> (forall k, msym n (GM k)) -> (forall k, Sympl2.pres n (Fl k)) ->
  forall l, In l [gen_sched_LeapfrogIntegrator; gen_sched_ImplicitLeapfrogIntegrator; gen_sched_ImplicitMidpointIntegrator; gen_sched_ConstrainedLeapfrogIntegrator] ->
  forall k, rpres n (srel n S W K eps nc n_inner Jc Jc' GL GM Fl l k).
Proof. intros n S W K eps nc n_inner Jc Jc' GL GM Fl HS HW HGL HGM HFl l _ k. exact (srel_pres n S W K eps nc n_inner Jc Jc' GL GM Fl HS HW HGL HGM HFl l k). Qed.
Print Assumptions every_generated_step_preserves_the_two_form.

(* the three implicit building blocks on their own *)
Theorem implicit_substeps_preserve_the_two_form : forall n S W K t, msym n S -> msym n W ->
  rpres n (SE n S W K t) /\ rpres n (SEadj n S W K t) /\ rpres n (MID n S W K t).
Proof. intros n S W K t HS HW. split; [|split]; [exact (SE_pres n S W K t HS HW) | exact (SEadj_pres n S W K t HS HW) | exact (MID_pres n S W K t HS HW)]. Qed.
Print Assumptions implicit_substeps_preserve_the_two_form.
Theorem constrained_substeps_preserve_the_two_form_on_the_bundle : forall n c J J' GL GM Sh Fl t,
  msym n GL -> msym n GM -> msym n Sh -> Sympl2.pres n Fl ->
  rpres n (CArel n c J GM Sh t) /\ rpres n (CBrel n c J J' GL GM Fl).
Proof. intros n c J J' GL GM Sh Fl t HGL HGM HSh HFl. split; [exact (CArel_pres n c J GM Sh t HGM HSh) | exact (CBrel_pres n c J J' GL GM Fl HGL HGM HFl)]. Qed.
Print Assumptions constrained_substeps_preserve_the_two_form_on_the_bundle.
