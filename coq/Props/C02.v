(* C02 -- Every integrator step is time-reversible or fails loudly.
   About the schedules REGENERATED from src/mici/integrators.py (Gen/SchedulesGen.v; translator T3 also checks that each
   implicit / constrained sub-step has the body the component semantics of Model/Integrators.v describe).
   Statements only; proofs in Proofs/IntegratorsProofs.v. *)
From Coq Require Import QArith List Bool.
Require Import Mici.Model.Integrators Mici.Gen.SchedulesGen Mici.Proofs.IntegratorsProofs.
Import ListNotations.
Open Scope Q_scope.

(* explicit integrators: for ANY exact component flows (undone by the negative time), any number of steps n, any step size:
   n steps, flip the direction, n steps return to the start *)
Theorem leapfrog_reversible : forall (St : Type) (fl : comp -> Q -> St -> St),
  (forall c t t' s, t == t' -> fl c t s = fl c t' s) -> (forall c t s, fl c (- t) (fl c t s) = s) ->
  forall n t s, steps St fl n gen_sched_LeapfrogIntegrator (- t) (steps St fl n gen_sched_LeapfrogIntegrator t s) = s.
Proof. intros St fl Hp Hi n t s. apply (n_step_reversible St fl Hp Hi). reflexivity. Qed.
Print Assumptions leapfrog_reversible.

(* symmetric compositions with ANY free coefficients (any stage count, either initial flow), in particular BCSS 2/3/4 *)
Theorem symmetric_composition_reversible : forall (St : Type) (fl : comp -> Q -> St -> St),
  (forall c t t' s, t == t' -> fl c t s = fl c t' s) -> (forall c t s, fl c (- t) (fl c t s) = s) ->
  forall ih free n t s, steps St fl n (sym_schedule ih free) (- t) (steps St fl n (sym_schedule ih free) t s) = s.
Proof. intros St fl Hp Hi ih free n t s. apply (n_step_reversible St fl Hp Hi). apply sym_schedule_palindrome. Qed.
Print Assumptions symmetric_composition_reversible.
Theorem coefficient_derivation_palindromic : forall free, rev (coefficients free) = coefficients free.
Proof. exact coefficients_palindrome. Qed.
Print Assumptions coefficient_derivation_palindromic.

(* implicit integrators with a deterministic solver oracle returning exact fixed points (tolerance 0) or an error:
   a step that returns a state can be reversed exactly; otherwise it returns ConvErr / NonRev (an IntegratorError) *)
Section Implicit.
  Variables Pos Mom : Type.
  Variable pos_eqb : Pos -> Pos -> bool.
  Variable mom_eqb : Mom -> Mom -> bool.
  Hypothesis pos_eqb_eq : forall a b, pos_eqb a b = true <-> a = b.
  Hypothesis mom_eqb_eq : forall a b, mom_eqb a b = true <-> a = b.
  Variable kick : Q -> Pos -> Mom -> Mom.
  Variable explB : Q -> Pos -> Mom -> Mom.
  Variable explC : Q -> Pos -> Mom -> Pos.
  Variable solveB : Q -> Pos -> Mom -> res Mom.
  Variable solveC : Q -> Mom -> Pos -> res Pos.
  Variable explM : Q -> st Pos Mom -> st Pos Mom.
  Variable solveM : Q -> st Pos Mom -> res (st Pos Mom).
  Variable proj : Pos -> Mom -> Mom.
  Variable retract : Q -> st Pos Mom -> res (st Pos Mom).
  Variable n_inner : nat.
  Variable tdiv : Q -> nat -> Q.
  Hypothesis kick_proper : forall t t' q p, t == t' -> kick t q p = kick t' q p.
  Hypothesis explB_proper : forall t t' q p, t == t' -> explB t q p = explB t' q p.
  Hypothesis explC_proper : forall t t' q p, t == t' -> explC t q p = explC t' q p.
  Hypothesis solveB_proper : forall t t' q p, t == t' -> solveB t q p = solveB t' q p.
  Hypothesis solveC_proper : forall t t' p q, t == t' -> solveC t p q = solveC t' p q.
  Hypothesis explM_proper : forall t t' z, t == t' -> explM t z = explM t' z.
  Hypothesis solveM_proper : forall t t' z, t == t' -> solveM t z = solveM t' z.
  Hypothesis kick_inv : forall t q p, kick (- t) q (kick t q p) = p.
  Hypothesis solveB_ok : forall t q p p', solveB t q p = Ok p' -> explB (- t) q p' = p.
  Hypothesis solveC_ok : forall t p q q', solveC t p q = Ok q' -> explC (- t) q' p = q.
  Hypothesis solveM_ok : forall t z z', solveM t z = Ok z' -> explM (- t) z' = z.
  Notation runr := (runr Pos Mom pos_eqb mom_eqb kick explB explC solveB solveC explM solveM proj retract n_inner tdiv).

  Theorem implicit_leapfrog_step_reversible : forall t s s',
    runr gen_sched_ImplicitLeapfrogIntegrator t s = Ok s' -> runr gen_sched_ImplicitLeapfrogIntegrator (- t) s' = Ok s.
  Proof.
    intros t s s'. exact (implicit_leapfrog_reversible Pos Mom pos_eqb mom_eqb pos_eqb_eq mom_eqb_eq kick explB explC solveB solveC
      explM solveM proj retract n_inner tdiv kick_proper explB_proper explC_proper solveB_proper solveC_proper kick_inv solveB_ok solveC_ok (1#2) t s s').
  Qed.
  Theorem implicit_midpoint_step_reversible : forall t s s',
    runr gen_sched_ImplicitMidpointIntegrator t s = Ok s' -> runr gen_sched_ImplicitMidpointIntegrator (- t) s' = Ok s.
  Proof.
    intros t s s'. exact (implicit_midpoint_reversible Pos Mom pos_eqb mom_eqb pos_eqb_eq mom_eqb_eq kick explB explC solveB solveC
      explM solveM proj retract n_inner tdiv explM_proper solveM_proper solveM_ok (1#2) t s s').
  Qed.

  (* constrained leapfrog, ANY inner step count: on the cotangent bundle, given the geometric facts about the projection and
     the retraction that C04 is about (stated as hypotheses here) *)
  Variable cot : st Pos Mom -> Prop.
  Hypothesis tdiv_neg : forall t n, tdiv (- t) n == - tdiv t n.
  Hypothesis tdiv_proper : forall t t' n, t == t' -> tdiv t n == tdiv t' n.
  Hypothesis retract_proper : forall t t' z, t == t' -> retract t z = retract t' z.
  Hypothesis ca_inv : forall t q p, cot (q, p) -> proj q (kick (- t) q (proj q (kick t q p))) = p.
  Hypothesis ca_cot : forall t q p, cot (q, p) -> cot (q, proj q (kick t q p)).
  Hypothesis retract_back : forall t z z1 zb, cot z -> retract t z = Ok z1 ->
    retract (- t) (fst z1, proj (fst z1) (snd z1)) = Ok zb -> fst zb = fst z ->
    proj (fst zb) (snd zb) = snd z /\ cot (fst z1, proj (fst z1) (snd z1)).
  Theorem constrained_leapfrog_step_reversible : forall t s s', cot s ->
    runr gen_sched_ConstrainedLeapfrogIntegrator t s = Ok s' -> runr gen_sched_ConstrainedLeapfrogIntegrator (- t) s' = Ok s.
  Proof.
    intros t s s' Hc. unfold gen_sched_ConstrainedLeapfrogIntegrator.
    apply (constrained_leapfrog_reversible Pos Mom pos_eqb mom_eqb) with (cot := cot) (a := 1#2); assumption.
  Qed.
End Implicit.
Print Assumptions implicit_leapfrog_step_reversible.
Print Assumptions implicit_midpoint_step_reversible.
Print Assumptions constrained_leapfrog_step_reversible.

(* non-vacuity: the generated BCSS schemes are instances of sym_schedule with palindromic coefficient lists *)
Example bcss_instances : map (fun p => Nat.eqb (length (sym_schedule (fst p) (snd p))) (2 * length (snd p) + 3)) gen_bcss = [true; true; true].
Proof. vm_compute. reflexivity. Qed.
