(* C19 -- Matrix objects behave as immutable values.
   Value model Model/MatValue.v; the equality / hash field tables are REGENERATED from src/mici/matrices.py by translator
   T5 (Gen/MatFieldsGen.v).  Statements only; proofs in Proofs/MatValueProofs.v. *)
From Coq Require Import List String Bool.
Require Import Mici.Model.MatValue Mici.Gen.MatFieldsGen Mici.Proofs.MatValueProofs.
Import ListNotations.
Open Scope string_scope.

(* for every matrix class, every attribute read by its hash is (an alias of) an attribute compared by its equality *)
Theorem hash_fields_within_eq_fields :
  forallb (fun r => let '(_, es, hs) := r in subset_mod gen_aliases hs es) gen_fields = true.
Proof. vm_compute. reflexivity. Qed.
Print Assumptions hash_fields_within_eq_fields.

(* hence, in the value model, objects of the same class that compare equal hash equal (any values, any hash function) *)
Theorem eq_implies_hash : forall (Val : Type) (val_eqb : Val -> Val -> bool), (forall a b, val_eqb a b = true -> a = b) ->
  forall (H : list Val -> nat) (es hs : list string) (f g : fields Val),
  (forall h, In h hs -> In h es) -> eqb_on Val val_eqb es f g = true -> hash_on Val H hs f = hash_on Val H hs g.
Proof. exact eq_implies_hash_proof. Qed.
Print Assumptions eq_implies_hash.

(* lazily computed attributes are functions of the immutable fields: after ANY sequence of earlier requests, in any order,
   a request returns the same value *)
Theorem lazy_order_irrelevant : forall (Val Attr : Type) (attr_eqb : Attr -> Attr -> bool), (forall a b, attr_eqb a b = true <-> a = b) ->
  forall (compute : fields Val -> Attr -> Val) f l a,
  snd (request Val Attr attr_eqb compute f (requests Val Attr attr_eqb compute f (fun _ => None) l) a) = compute f a.
Proof.
  intros Val Attr attr_eqb He compute f l a. apply (lazy_order_irrelevant_proof Val Attr attr_eqb He compute f l).
  intros b v Hb. discriminate.
Qed.
Print Assumptions lazy_order_irrelevant.
