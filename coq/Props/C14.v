(* C14 -- Sampling is reproducible and independent of process scheduling.
   About Model/Parallel.v (collation of worker outputs; per-chain random streams), tied to src/mici/samplers.py by the
   schedule-perturbing correspondence / search of tie/c14.py.  Statements only; proofs in Proofs/ParallelProofs.v. *)
From Coq Require Import List Arith Permutation.
Require Import Mici.Model.Parallel Mici.Proofs.ParallelProofs.
Import ListNotations.

(* whatever the assignment of chains to workers and the order in which chains finish (any permutation of the returned
   (chain index, output) pairs, indices distinct), the collated result is the same ... *)
Theorem schedule_independent : forall (A : Type) (l l' : list (nat * A)),
  Permutation l l' -> NoDup (map fst l) -> collate A l = collate A l'.
Proof. exact collate_order_independent. Qed.
Print Assumptions schedule_independent.
(* ... namely the outputs in chain order, i.e. what the sequential loop produces *)
Theorem collated_is_chain_order : forall (A : Type) (outs : list A), collate A (combine (seq 0 (length outs)) outs) = outs.
Proof. exact collate_in_chain_order. Qed.
Print Assumptions collated_is_chain_order.

(* with the generator state threaded from stage to stage a chain never consumes the same draw twice, for any stage sizes;
   distinct chains (distinct jumped streams) never share a draw *)
Theorem stream_never_replayed : forall c sizes pos, NoDup (consumed c pos sizes).
Proof. exact threaded_never_replays. Qed.
Print Assumptions stream_never_replayed.
Theorem streams_distinct : forall c d sizes sizes' pos pos', c <> d ->
  forall s, In s (consumed c pos sizes) -> ~ In s (consumed d pos' sizes').
Proof. exact chains_never_share. Qed.
Print Assumptions streams_distinct.
(* restarting every stage from the initial generator state (multi-process mode before fix f20ff0f) replays draws as soon
   as two stages have iterations *)
Theorem restart_would_replay : forall c n m r, 0 < n -> 0 < m -> ~ NoDup (consumed_restart c (n :: m :: r)).
Proof. exact restart_replays. Qed.
Print Assumptions restart_would_replay.

Example collate_example : collate nat [(2, 30); (0, 10); (1, 20)] = [10; 20; 30].
Proof. reflexivity. Qed.
