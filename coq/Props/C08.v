(* C08 -- Momentum updates leave the Gaussian momentum law exactly invariant.
   Second-moment / linearity statements over rational matrices of any size (Lib/QMat.v, Lib/Cov.v, Lib/Proj.v); the tie to
   src/mici/systems.py and transitions.py is the basis-vector correspondence of tie/c08.py.  Statements only. *)
From Coq Require Import QArith Lqa.
Require Import Mici.Lib.QMat Mici.Lib.Wood Mici.Lib.Proj Mici.Lib.Cov Mici.Lib.MatId.
Open Scope Q_scope.

(* a momentum drawn as L z is an exactly linear image of the normal draws *)
Theorem momentum_linear : forall n k L z1 z2 a, meq n 1 (mmul k L (madd (mscal a z1) z2)) (madd (mscal a (mmul k L z1)) (mmul k L z2)).
Proof. intros n k L z1 z2 a. rewrite (mmul_add_r n k 1 L). rewrite (mmul_scal_r n k 1 a L). reflexivity. Qed.
Print Assumptions momentum_linear.

(* constrained systems: projecting L z (L L^T = M) onto the cotangent space gives covariance P M P^T = M - J^T G^-1 J,
   G = J M^-1 J^T: the conditional law the Hamiltonian implies; the projected momentum lies in the cotangent space *)
Theorem projected_covariance : forall d c M Mi J G Gi, is_inv d M Mi -> meq c c G (mmul d J (mmul d Mi (mtr J))) -> is_inv c G Gi ->
  meq c c (mtr Gi) Gi ->
  meq d d (mmul d (msub mI (mmul d (mmul c (mtr J) (mmul c Gi J)) Mi)) (mmul d M (msub mI (mmul d Mi (mmul c (mtr J) (mmul c Gi J))))))
          (msub M (mmul c (mtr J) (mmul c Gi J))).
Proof. intros d c M Mi J G Gi HM HG HGi Hs. apply Cov.projected_covariance with (G := G); assumption. Qed.
Print Assumptions projected_covariance.
Theorem projected_momentum_in_cotangent_space : forall d c Mi J G Gi p, meq c c G (mmul d J (mmul d Mi (mtr J))) -> is_inv c G Gi ->
  meq c 1 (mmul d J (mmul d Mi (proj d c Mi J Gi p))) m0.
Proof. intros d c Mi J G Gi p HG HGi. apply cotangent_projection with (G := G); assumption. Qed.
Print Assumptions projected_momentum_in_cotangent_space.

(* partial refreshment p' = a p + c n with a^2 + c^2 = 1 and n an independent draw with the same covariance S keeps the
   covariance: a^2 S + c^2 S = S, for every coefficient; c = 1 and c = 0 reduce to full refreshment and no change *)
Theorem partial_refresh_covariance : forall n S a c, a * a + c * c == 1 -> meq n n (madd (mscal (a * a) S) (mscal (c * c) S)) S.
Proof. intros n S a c H i j _ _. unfold madd, mscal. transitivity ((a * a + c * c) * S i j); [ring | rewrite H; ring]. Qed.
Print Assumptions partial_refresh_covariance.
(* square-root factors of eigendecomposed (incl. SoftAbs) metrics: S S^T = M *)
Theorem eigendecomposed_sqrt_factor : forall n V l m, (forall i, (i < n)%nat -> m i * m i == l i) ->
  meq n n (mmul n (mmul n V (mdiag m)) (mtr (mmul n V (mdiag m)))) (eig n V l).
Proof. exact eig_sqrt. Qed.
Print Assumptions eigendecomposed_sqrt_factor.
