(* C13 -- Sampler outputs record exactly the post-iteration chain states.
   About Model/Sampler.v (tied to src/mici/samplers.py by the correspondence check tie/sampler_corr.py) and the
   stagers generated from src/mici/stagers.py.  Statements only; proofs in Proofs/SamplerProofs.v. *)
From Coq Require Import ZArith QArith List Bool Arith Lia.
Require Import Mici.Model.Stagers Mici.Model.Sampler Mici.Gen.StagersGen Mici.Proofs.StagersProofs Mici.Proofs.SamplerProofs
  Mici.Proofs.SamplerStagers.
Import ListNotations.
Local Open Scope nat_scope.

Section C13.
  Variables St Rng Par Ast Stat V : Type.
  Variable init_ad : adapters -> Par -> St -> Ast * Par.
  Variable iter_fn : adapters -> Par -> Ast -> St -> Rng -> St * Stat * Rng * Ast * Par.
  Variable fin_ad : adapters -> Par -> list Ast -> list (St * Rng) -> Par * list (St * Rng).
  Variable tr : St -> V.
  Variable ast0 : Ast.
  Variable nchain : nat.
  Variable ht : bool.
  Notation run := (run St Rng Par Ast Stat V init_ad iter_fn fin_ad tr ast0 nchain None).
  Notation fresh w0 := (w_stop _ _ _ _ _ _ w0 = false /\ (forall c, w_hist _ _ _ _ _ _ w0 c = [])
                        /\ (forall c r, w_st _ _ _ _ _ _ w0 c r = None /\ w_tr _ _ _ _ _ _ w0 c r = None)).

  (* For ANY transition, adapters, trace function, number of chains and stage list whose stages trace only when they record
     (which both stagers guarantee, below): after a completed run, in every chain, row r of the statistics array holds the
     statistics of the r-th recorded iteration and row r of the trace array the trace of the state after it; exactly
     rows_total rows are written and all other rows keep the fill value. *)
  Theorem rows_are_states : forall l w0, Forall (stage_ok ht) l -> fresh w0 ->
    let w := run l w0 in
    (forall c r, w_st _ _ _ _ _ _ w c r = option_map snd (nth_error (w_hist _ _ _ _ _ _ w c) r)
              /\ w_tr _ _ _ _ _ _ w c r = if ht then option_map (fun x => tr (fst x)) (nth_error (w_hist _ _ _ _ _ _ w c) r) else None)
    /\ forall c, c < nchain -> length (w_hist _ _ _ _ _ _ w c) = rows_total l.
  Proof. intros l w0 Hok (A & B & C). exact (run_rows_are_history St Rng Par Ast Stat V init_ad iter_fn fin_ad tr ast0 nchain ht l w0 Hok A B C). Qed.

  (* Array lengths: sample_chains allocates n_main (+ n_warm_up when warm-up is traced) rows; that is exactly the number of
     rows the stages produced by either stager record, so no fill value survives a completed run. *)
  Theorem windowed_no_fill_survives : forall s1 s2 s3 m n_warm n_main tw l,
    (0 <= n_warm)%Z -> (0 <= n_main)%Z -> (0 <= s2)%Z -> (0 <= s3)%Z -> (1 <= s1)%Z -> (1 <= m)%Q ->
    gen_WindowedWarmUpStager_stages s1 s2 s3 m n_warm n_main ht tw = Some l ->
    Forall (stage_ok ht) l /\ Z.of_nat (rows_total l) = ((if tw then n_warm else 0) + n_main)%Z.
  Proof.
    intros s1 s2 s3 m n_warm n_main tw l Hw Hm H2 H3 H1 Hmm H. split; [exact (windowed_stage_ok s1 s2 s3 m n_warm n_main ht tw l Hw H2 H3 H1 Hmm H)|].
    destruct (windowed_shape s1 s2 s3 m n_warm n_main ht tw Hw H2 H3 H1 Hmm) as [A B].
    assert (Hn : Forall (fun s => 0 <= n_iter s)%Z l).
    { destruct (Z.eq_dec n_warm 0) as [->|Hne].
      - rewrite (B eq_refl) in H. injection H as <-. unfold main_stage. destruct (0 <? n_main)%Z; repeat constructor; cbn; lia.
      - destruct (A ltac:(lia)) as (nf & ws & nl & E & Hnf & Hnl & Hws & _). rewrite E in H. injection H as <-.
        constructor; [cbn; lia|]. apply Forall_app. split.
        + apply Forall_map. eapply Forall_impl; [|exact Hws]. cbn. auto.
        + constructor; [cbn; lia|]. unfold main_stage. destruct (0 <? n_main)%Z; repeat constructor; cbn; lia. }
    rewrite (rows_total_recorded l Hn).
    destruct (Z.eq_dec n_warm 0) as [->|Hne].
    - rewrite (B eq_refl) in H. injection H as <-. rewrite recorded_main by lia. destruct tw; lia.
    - destruct (A ltac:(lia)) as (nf & ws & nl & E & Hnf & Hnl & Hws & Hs). rewrite E in H. injection H as <-.
      rewrite recorded_cons, recorded_app, recorded_warm, recorded_cons, recorded_main by lia.
      cbn [stats n_iter warm_stage]. destruct tw; lia.
  Qed.
End C13.
Print Assumptions rows_are_states.
Print Assumptions windowed_no_fill_survives.

(* non-vacuity: the executable instance run on a 2-stage list meets the hypotheses and fills both recorded rows *)
Require Import Mici.Model.SamplerInst.
Example rows_instance :
  let l := [{| n_iter := 1; ads := All; traced := false; stats := false |}; {| n_iter := 2; ads := NoAd; traced := true; stats := true |}] in
  Forall (stage_ok true) l /\ rows_total l = 2%nat /\
  fst (fst (fst (fst (fst (run_inst [[1; 2; 3; 4]%Z] l 1%nat None [5%Z] (3, 4)%Z 3%nat))))) = [[33497; 1038767; -1]%Z].
Proof. split; [repeat constructor|]. split; vm_compute; reflexivity. Qed.
