(* C11 -- Differentiable matrices report the true parameter gradients.
   Dual matrices (A, A') with (A,A')(B,B') = (AB, AB' + A'B): the second component of a rational matrix expression is its exact
   directional derivative (Lib/Dual.v).  Which formula each class reports is tied by tie/c11.py.  Statements only. *)
From Coq Require Import QArith Lia.
Require Import Mici.Lib.QMat Mici.Lib.Dual Mici.Lib.DualGrad.
Open Scope Q_scope.

(* the dual inverse (Xi, -Xi X' Xi) really is the inverse: derivative of the matrix inverse in any direction, all sizes *)
Theorem dual_inverse_correct : forall n X Xi, is_inv n (re X) Xi -> deq n n (dmul n X (dinv n X Xi)) dI.
Proof. exact dinv_correct. Qed.
Print Assumptions dual_inverse_correct.

(* triangular-factored definite matrices M = s L L^T, s = +-1, any size, any vector v, any direction D of change of the
   factor: the directional derivative of v^T M^-1 v, i.e. -v^T M^-1 (s (D L^T + L D^T)) M^-1 v, equals <-2 u w^T, D> with
   u = M^-1 v, w = L^-1 v -- the gradient the class reports (no extra sign factor: the defect fixed in a06f2df) *)
Theorem trifactor_grad_qf_correct : forall d L Li s v D, s * s == 1 -> is_inv d L Li ->
  meq 1 1 (dquad d L Li s v D) (grad_dot d Li s v D).
Proof. exact Dual.trifactor_grad_qf_correct. Qed.
Print Assumptions trifactor_grad_qf_correct.

(* ---- every rational parametrisation of the differentiable classes (Lib/DualGrad.v) ----
   dqf n X Xi v is v^T X^-1 v computed in dual-number arithmetic (X = M + eps M', Xi = M^-1, which dual_inverse_correct shows is
   the dual inverse); its second component at (0,0) is the exact directional derivative.  contract G D = sum_ij G_ij D_ij is
   what a reported gradient G predicts for the direction D.  All sizes, vectors, directions; M symmetric and invertible. *)

(* factor-type parameters, M' = c (D K F^T + F K D^T) with K symmetric: TriangularFactoredDefiniteMatrix (F = L, K = I, c = sign),
   DensePositiveDefiniteProductMatrix (F = rect_matrix, K = pos_def_matrix, c = 1), PositiveDefiniteLowRankUpdateMatrix with
   respect to its factor matrix (K = inner_pos_def_matrix, c = sign): reported gradient  -2 c outer(M^-1 v, K F^T M^-1 v) *)
Theorem factor_param_grad_qf_correct : forall n k M Mi F K D v c, is_inv n M Mi -> meq n n (mtr M) M -> meq k k (mtr K) K ->
  du (dqf n {| re := M; du := mscal c (madd (mmul k D (mmul k K (mtr F))) (mmul k F (mmul k K (mtr D)))) |} Mi v) 0%nat 0%nat
  == contract n k (factor_grad n k Mi F K v c) D.
Proof. intros n k M Mi F K D v c Hi Hm HK. apply factor_grad_qf_correct; [exact (inv_sym n M Mi Hi Hm)|exact HK]. Qed.
Print Assumptions factor_param_grad_qf_correct.

(* the matrix is the parameter (DenseDefiniteMatrix, DensePositiveDefiniteMatrix): reported gradient  - outer(M^-1 v, M^-1 v) *)
Theorem dense_param_grad_qf_correct : forall n M Mi D v, is_inv n M Mi -> meq n n (mtr M) M ->
  du (dqf n {| re := M; du := D |} Mi v) 0%nat 0%nat == contract n n (dense_grad n Mi v) D.
Proof. intros n M Mi D v Hi Hm. apply dense_grad_qf_correct. exact (inv_sym n M Mi Hi Hm). Qed.
Print Assumptions dense_param_grad_qf_correct.

(* diagonal parameters (DiagonalMatrix, PositiveDiagonalMatrix): reported gradient  - (M^-1 v)^2  elementwise *)
Theorem diagonal_param_grad_qf_correct : forall n M Mi v dl, is_inv n M Mi -> meq n n (mtr M) M ->
  du (dqf n {| re := M; du := mdiag dl |} Mi v) 0%nat 0%nat == sumn n (fun i => diag_grad n Mi v i * dl i).
Proof. intros n M Mi v dl Hi Hm. apply diag_grad_qf_correct. exact (inv_sym n M Mi Hi Hm). Qed.
Print Assumptions diagonal_param_grad_qf_correct.

(* scalar parameter (ScaledIdentityMatrix, PositiveScaledIdentityMatrix), M = s I with s <> 0 (either sign): - sum(v^2) / s^2 *)
Theorem scaled_identity_grad_qf_correct : forall n v s ds, ~ s == 0 ->
  is_inv n (mscal s mI) (mscal (/ s) mI) /\
  du (dqf n {| re := mscal s mI; du := mscal ds mI |} (mscal (/ s) mI) v) 0%nat 0%nat == scaled_grad n v s * ds.
Proof. intros n v s ds Hs. split; [exact (scaled_is_inv n s Hs)|exact (scaled_grad_qf_correct n v s ds Hs)]. Qed.
Print Assumptions scaled_identity_grad_qf_correct.

(* the evaluator the correspondence check runs (it materialises intermediate matrices) computes that second component *)
Theorem fast_evaluator_is_dual_derivative : forall n M Mi dM v, meq n n (mtr Mi) Mi ->
  du (dqf n {| re := M; du := dM |} Mi v) 0%nat 0%nat == dqf_du_fast n Mi dM v.
Proof. exact dqf_du_fast_correct. Qed.
Print Assumptions fast_evaluator_is_dual_derivative.
Theorem fast_contraction_is_reported_gradient : forall n k Mi F K v c D,
  contract n k (factor_grad n k Mi F K v c) D == factor_contract_fast n k Mi F K v c D.
Proof. exact factor_contract_fast_correct. Qed.
Print Assumptions fast_contraction_is_reported_gradient.

(* the hypotheses of the parametrisation theorems are satisfiable: a symmetric 2x2 matrix that is not diagonal and its inverse *)
Definition M2 : mat := fun i j => match i, j with 0%nat, 0%nat => 2 | 1%nat, 1%nat => 1 | 0%nat, 1%nat => 1 | 1%nat, 0%nat => 1 | _, _ => 0 end.
Definition M2i : mat := fun i j => match i, j with 0%nat, 0%nat => 1 | 1%nat, 1%nat => 2 | 0%nat, 1%nat => -1 | 1%nat, 0%nat => -1 | _, _ => 0 end.
Example hypotheses_satisfiable : is_inv 2 M2 M2i /\ meq 2 2 (mtr M2) M2.
Proof.
  repeat split; intros i j Hi Hj; destruct i as [|[|i]]; try lia; destruct j as [|[|j]]; try lia; vm_compute; reflexivity.
Qed.
