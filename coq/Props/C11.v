(* C11 -- Differentiable matrices report the true parameter gradients.
   Dual matrices (A, A') with (A,A')(B,B') = (AB, AB' + A'B): the second component of a rational matrix expression is its exact
   directional derivative (Lib/Dual.v).  Which formula each class reports is tied by tie/c11.py.  Statements only. *)
From Coq Require Import QArith.
Require Import Mici.Lib.QMat Mici.Lib.Dual.
Open Scope Q_scope.

(* the dual inverse (Xi, -Xi X' Xi) really is the inverse: derivative of the matrix inverse in any direction, all sizes *)
Theorem dual_inverse_correct : forall n X Xi, is_inv n (re X) Xi -> deq n n (dmul n X (dinv n X Xi)) dI.
Proof. exact dinv_correct. Qed.
Print Assumptions dual_inverse_correct.

(* triangular-factored definite matrices M = s L L^T, s = +-1, any size, any vector v, any direction D of change of the
   factor: the directional derivative of v^T M^-1 v, i.e. -v^T M^-1 (s (D L^T + L D^T)) M^-1 v, equals <-2 u w^T, D> with
   u = M^-1 v, w = L^-1 v -- the gradient the class reports (no extra sign factor: the defect fixed in a06f2df) *)
Theorem trifactor_grad_qf_correct : forall d L Li s v D, s * s == 1 -> is_inv d L Li ->
  meq 1 1 (dquad d L Li s v D) (grad_dot d Li s v D).
Proof. exact Dual.trifactor_grad_qf_correct. Qed.
Print Assumptions trifactor_grad_qf_correct.
