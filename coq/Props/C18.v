(* C18 -- Memoisation delivers its efficiency contract.
   Statements only; proofs in Proofs/StateCacheProofs.v; the leapfrog count is about Model/GradCount.v. *)
From Coq Require Import List Bool Arith Lia.
Require Import Mici.Model.StateCache Mici.Proofs.StateCacheProofs Mici.Model.GradCount.
Import ListNotations.

Section C18.
  Variables V R : Type.
  Variable decl : key -> list var.
  Variable aux : key -> list key.
  Variable eval : key -> (var -> V) -> R.
  Variable droppable : key -> bool.
  Notation step := (step V R decl aux eval droppable).
  Notation ev := (call_evaluates V R).

  (* in ANY heap: calling a cached method again on the same state evaluates nothing *)
  Theorem second_call_free : forall h i m wa s, sts V R h i = Some s -> ev (fst (step h (Call V i m wa))) i m = false.
  Proof. exact (StateCacheProofs.second_call_free V R decl aux eval droppable). Qed.
  (* when a method returned its lower-order values (auxiliary outputs), later requests for them evaluate nothing *)
  Theorem aux_outputs_free : forall h i m s a, sts V R h i = Some s -> (forall r, cache V R s m <> Val R r) ->
    In a (aux m) -> ev (fst (step h (Call V i m true))) i a = false.
  Proof. intros h i m s a Hs Hn Ha. apply (StateCacheProofs.aux_outputs_free V R decl aux eval droppable h i m s a Hs); auto. Qed.
  (* a copy (read-only or not) inherits every cached value, and the original keeps its own *)
  Theorem copy_call_free : forall h i r s m v, sts V R h i = Some s -> cache V R s m = Val R v ->
    ev (fst (step h (Copy V i r))) (nst V R h) m = false /\ (i < nst V R h -> ev (fst (step h (Copy V i r))) i m = false).
  Proof.
    intros h i r s m v Hs Hc. split; [exact (StateCacheProofs.copy_call_free V R decl aux eval droppable h i r s m v Hs Hc)|].
    exact (StateCacheProofs.copy_keeps_original V R decl aux eval droppable h i r s m v Hs Hc).
  Qed.
  (* after ANY history: assigning a variable that no method producing the key declares leaves the cached value usable *)
  Theorem assign_unrelated_free : forall v0 ops i x v s k r,
    let h := runs V R decl aux eval droppable (heap0 V R v0) ops in
    sts V R h i = Some s -> ro V R s = false -> cache V R s k = Val R r ->
    (forall m, In k (m :: aux m) -> ~ In x (decl m)) ->
    ev (fst (step h (Assign V i x v))) i k = false.
  Proof.
    intros v0 ops i x v s k r h Hs Hro Hc Hx.
    apply (StateCacheProofs.assign_unrelated_free V R decl aux eval droppable h i x v s k r); auto.
    apply regdecl_runs, regdecl_heap0.
  Qed.
End C18.
Print Assumptions second_call_free.
Print Assumptions aux_outputs_free.
Print Assumptions copy_call_free.
Print Assumptions assign_unrelated_free.

(* a leapfrog trajectory of n >= 1 steps evaluates the gradient n + 1 times from a cold state and n times from a state whose
   gradient is already cached (e.g. produced by a previous accepted transition), for every n *)
Theorem leapfrog_grad_count : forall n s c, (0 < n)%nat -> snd (lf_steps n s c) = (if has_g s then n else S n).
Proof. exact GradCount.leapfrog_grad_count. Qed.
Print Assumptions leapfrog_grad_count.

(* both time directions grown from one initial state (dynamic transitions): from a state whose gradient is cached the count is
   exactly one per new position, for every nf, nb *)
Theorem bidirectional_warm_count : forall nf nb s c, has_g s = true -> grow_both nf nb s c = (nf + nb)%nat.
Proof. intros nf nb s c H. rewrite GradCount.grow_both_count, H. reflexivity. Qed.
Print Assumptions bidirectional_warm_count.
(* from a COLD state each direction that is grown pays the gradient at the start position again, because Integrator.step caches
   it in its own copy of the edge state only: nf + nb + [nf > 0] + [nb > 0] evaluations *)
Theorem bidirectional_cold_count : forall nf nb s c, has_g s = false ->
  grow_both nf nb s c = (nf + nb + Nat.min 1 nf + Nat.min 1 nb)%nat.
Proof. intros nf nb s c H. rewrite GradCount.grow_both_count, H. reflexivity. Qed.
Print Assumptions bidirectional_cold_count.
(* hence "at most once per distinct position" (nf + nb + 1 positions) is FALSE of the faithful model whenever a cold start grows
   both directions: the formal statement of known finding G15; the witness is replayed on the implementation by tie/c18.py *)
Theorem once_per_position_refuted : exists nf nb s c, has_g s = false /\ (grow_both nf nb s c > nf + nb + 1)%nat.
Proof. exists 1%nat, 1%nat, {| pv := 0; mv := 0; cg := None; cvv := None |}, 0%nat. split; [reflexivity|vm_compute; lia]. Qed.
Print Assumptions once_per_position_refuted.
