(* C10 -- Structured matrix expressions agree with dense linear algebra.
   The identities behind the structured classes of src/mici/matrices.py, for ALL sizes and all parameter values over the
   rationals (matrices as functions on the index box, Lib/QMat.v).  Which identity each class relies on, and that the
   implementation computes it, is tied by the correspondence / expression-tree search of tie/c10.py.  Statements only. *)
From Coq Require Import QArith.
Require Import Mici.Lib.QMat Mici.Lib.Wood Mici.Lib.MatId.
Open Scope Q_scope.

(* low-rank update classes, update (s = +1) and downdate (s = -1, also what .inv of an update is): Woodbury with the
   signed capacitance matrix C = K^-1 + s V A^-1 U *)
Theorem woodbury_signed : forall n k (A X U C Ci V : mat) (s : Q), s * s == 1 -> is_inv n A X -> is_inv k C Ci ->
  forall K, is_inv k (madd Ci (mscal s (mmul n V (mmul n X U)))) K ->
  meq n n (mmul n (madd A (mscal s (mmul k U (mmul k C V)))) (msub X (mscal s (mmul n X (mmul k U (mmul k K (mmul n V X))))))) mI.
Proof. intros n k A X U C Ci V s s2 HA HC K HK. exact (Wood.woodbury_signed n k A X U C Ci V s s2 HA HC K HK). Qed.
Print Assumptions woodbury_signed.
(* products, non-zero scalar multiples / divisions / negation, transposes *)
Theorem inverse_of_product : forall n A Ai B Bi, is_inv n A Ai -> is_inv n B Bi -> is_inv n (mmul n A B) (mmul n Bi Ai).
Proof. exact inv_product. Qed.
Print Assumptions inverse_of_product.
Theorem inverse_of_scalar_multiple : forall n c A Ai, ~ c == 0 -> is_inv n A Ai -> is_inv n (mscal c A) (mscal (/ c) Ai).
Proof. exact inv_scalar. Qed.
Print Assumptions inverse_of_scalar_multiple.
Theorem inverse_of_transpose : forall n A Ai, is_inv n A Ai -> is_inv n (mtr A) (mtr Ai).
Proof. exact inv_transpose. Qed.
Print Assumptions inverse_of_transpose.
Theorem transpose_of_product : forall n k m A B, meq m n (mtr (mmul k A B)) (mmul k (mtr B) (mtr A)).
Proof. exact mtr_mul. Qed.
Print Assumptions transpose_of_product.
(* diagonal, eigendecomposed (incl. SoftAbs: any eigenvalue map) and triangular-factored classes *)
Theorem diagonal_inverse : forall n d, (forall i, (i < n)%nat -> ~ d i == 0) -> is_inv n (mdiag d) (mdiag (fun i => / d i)).
Proof. exact inv_diagonal. Qed.
Print Assumptions diagonal_inverse.
Theorem eigendecomposed_inverse : forall n V l, meq n n (mmul n (mtr V) V) mI -> meq n n (mmul n V (mtr V)) mI ->
  (forall i, (i < n)%nat -> ~ l i == 0) -> is_inv n (eig n V l) (eig n V (fun i => / l i)).
Proof. exact eig_inverse. Qed.
Print Assumptions eigendecomposed_inverse.
Theorem eigendecomposed_sqrt : forall n V l m, (forall i, (i < n)%nat -> m i * m i == l i) ->
  meq n n (mmul n (mmul n V (mdiag m)) (mtr (mmul n V (mdiag m)))) (eig n V l).
Proof. exact eig_sqrt. Qed.
Print Assumptions eigendecomposed_sqrt.
Theorem triangular_factored_inverse : forall n L Li s, s * s == 1 -> is_inv n L Li ->
  is_inv n (mscal s (mmul n L (mtr L))) (mscal s (mmul n (mtr Li) Li)).
Proof. exact trifactor_inverse. Qed.
Print Assumptions triangular_factored_inverse.

(* log|det|: which |det| identity each class's log_abs_det formula uses, as regenerated from src/mici/matrices.py by translator T9;
   the identities are proved for all sizes over any real field in Props/C10det.v / Lib/Det.v (MathComp).  A changed formula changes
   this table (or makes T9 fail closed) and the dense-reference search then looks for the matrix on which log_abs_det is wrong. *)
Require Import Mici.Model.LogDet Mici.Gen.LogDetGen.
From Coq Require Import String List.
Import ListNotations.
Open Scope string_scope.
Theorem logdet_formulas_use_the_proved_identities :
  gen_logdet = [("SquareMatrixProduct", LProduct); ("SymmetricMatrix", LEigen); ("IdentityMatrix", LZero); ("ScaledIdentityMatrix", LScaled);
                ("TriangularMatrix", LDiagonalOfTriangular); ("InverseTriangularMatrix", LNegInverse); ("_BaseTriangularFactoredDefiniteMatrix", LTwiceFactor);
                ("DenseSquareMatrix", LDiagonalOfLU); ("InverseLUFactoredSquareMatrix", LNegDiagonalOfInverseLU); ("OrthogonalMatrix", LZero);
                ("ScaledOrthogonalMatrix", LScaled); ("SquareBlockDiagonalMatrix", LBlocks); ("SquareLowRankUpdateMatrix", LLowRank)].
Proof. reflexivity. Qed.
Print Assumptions logdet_formulas_use_the_proved_identities.
