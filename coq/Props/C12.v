(* C12 -- Numerical failures inside a trajectory are contained as rejections.
   Exception-flow part, about tables REGENERATED from src/mici/solvers.py, transitions.py, errors.py (Gen/ProtectGen.v)
   and the solver loop model Model/Faults.v.  Statements only. *)
From Coq Require Import QArith List String Bool.
Require Import Mici.Model.Faults Mici.Gen.ProtectGen Mici.Proofs.FaultsProofs.
Import ListNotations.
Open Scope string_scope.

(* every iterative solver wraps its iteration loop in a handler that catches value errors and linear-algebra errors (NumPy's
   and mici's) and converts them to ConvergenceError; ConvergenceError, NonReversibleStepError and HamiltonianDivergenceError
   are IntegratorErrors; every integrator.step call of the transitions sits under `except IntegratorError`; each of the three
   error classes sets its own statistics flag *)
Theorem handlers_cover_faults :
  forallb (fun s => let '(name, handlers, raises, _) := s in
                    caught gen_error_bases handlers "ValueError" && caught gen_error_bases handlers "numpy.linalg.LinAlgError"
                    && caught gen_error_bases handlers "LinAlgError" && String.eqb raises "ConvergenceError") gen_solvers = true
  /\ forallb (fun e => subclass gen_error_bases 8 e "IntegratorError") ["ConvergenceError"; "NonReversibleStepError"; "HamiltonianDivergenceError"] = true
  /\ forallb (fun s => caught gen_error_bases (snd s) "ConvergenceError" && caught gen_error_bases (snd s) "NonReversibleStepError"
                       && caught gen_error_bases (snd s) "HamiltonianDivergenceError") gen_step_sites = true
  /\ List.length gen_step_sites = 2%nat
  /\ gen_error_flags = [("HamiltonianDivergenceError", "diverging"); ("NonReversibleStepError", "non_reversible_step"); ("ConvergenceError", "convergence_error")].
Proof. vm_compute. repeat split; reflexivity. Qed.
Print Assumptions handlers_cover_faults.

(* the calls reaching system / user functions OUTSIDE the protected region are exactly these (pre-loop set-up of the
   projection solvers; a fault there surfaces as the callee's own exception -- known finding G13); anything new breaks this *)
Theorem unprotected_sites_listed :
  map (fun s => let '(name, _, _, u) := s in (name, u)) gen_solvers =
  [("solve_fixed_point_direct", []); ("solve_fixed_point_steffensen", []);
   ("solve_projection_onto_manifold_quasi_newton", ["system.dh2_flow_dmom"; "system.jacob_constr"; "system.jacob_constr_inner_product"]);
   ("solve_projection_onto_manifold_newton", ["system.dh2_flow_dmom"; "system.jacob_constr"]);
   ("solve_projection_onto_manifold_newton_with_line_search", ["system.dh2_flow_dmom"; "system.jacob_constr"])].
Proof. vm_compute. reflexivity. Qed.
Print Assumptions unprotected_sites_listed.

(* for EVERY fault schedule of the callbacks inside the loop (values, NaN-valued results, any exception at any call index):
   a solver returns only a converged iterate, and otherwise raises ConvergenceError or an exception no handler covers *)
Theorem solver_never_returns_unconverged : forall (X : Type) handlers (F : nat -> X -> fout X) tol div_tol iters i x0,
  match solve X gen_error_bases handlers "ConvergenceError" F tol div_tol iters i x0 with
  | Ok _ x => exists j y e, F j y = Val X x e /\ (e < tol)%Q /\ (e <= div_tol)%Q
  | Err _ e => e = "ConvergenceError" \/ exists j y, F j y = Raise X e /\ caught gen_error_bases handlers e = false
  end.
Proof. intros X handlers F tol div_tol iters i x0. exact (solver_result_shape X gen_error_bases handlers F tol div_tol iters i x0). Qed.
Print Assumptions solver_never_returns_unconverged.
Theorem solver_no_foreign_exception : forall (X : Type) (F : nat -> X -> fout X) tol div_tol iters i x0,
  (forall j y e, F j y = Raise X e -> In e ["ValueError"; "numpy.linalg.LinAlgError"; "LinAlgError"]) ->
  match solve X gen_error_bases ["ValueError"; "LinAlgError"] "ConvergenceError" F tol div_tol iters i x0 with
  | Ok _ _ => True | Err _ e => e = "ConvergenceError" end.
Proof.
  intros X F tol div_tol iters i x0 H. apply no_foreign_exception. intros j y e A. specialize (H j y e A).
  destruct H as [<-|[<-|[<-|[]]]]; vm_compute; reflexivity.
Qed.
Print Assumptions solver_no_foreign_exception.
