(* C07 -- Component flow maps are the exact flows of their Hamiltonian components.
   The closed forms of src/mici/systems.py per eigen-mode of the metric (the Gaussian-split h2 flow is a rotation in each
   mode) over Q with the trigonometric values as given numbers satisfying c^2 + s^2 = 1, and over R with the real cos / sin
   for all times (periods included).  Tie: tie/c07.py.  Statements and short proofs only. *)
From Coq Require Import QArith Lqa.
Open Scope Q_scope.

(* one eigen-mode of the Gaussian-split flow: q' = c q + s w p, p' = c p - (s / w) q, with w = 1/sqrt(lambda) *)
Definition rot (c s w : Q) (z : Q * Q) : Q * Q := (c * fst z + s * w * snd z, c * snd z - s / w * fst z).
(* h2 restricted to the mode: 1/2 q^2 + 1/2 w^2 p^2 *)
Definition energy (w : Q) (z : Q * Q) : Q := (1#2) * fst z * fst z + (1#2) * w * w * snd z * snd z.
Theorem rotation_conserves_energy : forall c s w z, ~ w == 0 -> c * c + s * s == 1 -> energy w (rot c s w z) == energy w z.
Proof.
  intros c s w [q p] Hw H. unfold energy, rot; cbn [fst snd].
  transitivity ((c * c + s * s) * ((1#2) * q * q + (1#2) * w * w * p * p)); [field; exact Hw | rewrite H; ring].
Qed.
Print Assumptions rotation_conserves_energy.
(* composing the rotations of two time intervals is the rotation of the sum (angle addition) *)
Theorem rotation_additive : forall c1 s1 c2 s2 w z, ~ w == 0 ->
  fst (rot c2 s2 w (rot c1 s1 w z)) == fst (rot (c1 * c2 - s1 * s2) (s1 * c2 + c1 * s2) w z) /\
  snd (rot c2 s2 w (rot c1 s1 w z)) == snd (rot (c1 * c2 - s1 * s2) (s1 * c2 + c1 * s2) w z).
Proof. intros c1 s1 c2 s2 w [q p] Hw. unfold rot; cbn [fst snd]. split; field; exact Hw. Qed.
Print Assumptions rotation_additive.
(* the negative time (c, -s) undoes the flow *)
Theorem rotation_inverse : forall c s w z, ~ w == 0 -> c * c + s * s == 1 ->
  fst (rot c (- s) w (rot c s w z)) == fst z /\ snd (rot c (- s) w (rot c s w z)) == snd z.
Proof.
  intros c s w [q p] Hw H. unfold rot; cbn [fst snd]. split.
  - transitivity ((c * c + s * s) * q); [field; exact Hw | rewrite H; ring].
  - transitivity ((c * c + s * s) * p); [field; exact Hw | rewrite H; ring].
Qed.
Print Assumptions rotation_inverse.
(* the flow is linear in the initial momentum with the blocks dh2_flow_dmom reports: d q'/d p = s w, d p'/d p = c *)
Theorem rotation_linear_in_momentum : forall c s w q p dp,
  fst (rot c s w (q, p + dp)) - fst (rot c s w (q, p)) == s * w * dp /\ snd (rot c s w (q, p + dp)) - snd (rot c s w (q, p)) == c * dp.
Proof. intros. unfold rot; cbn [fst snd]. split; ring. Qed.
Print Assumptions rotation_linear_in_momentum.

(* h1 flow (momentum kick by minus time times the gradient g, position unchanged) and Euclidean h2 flow (drift along v = M^-1 p) *)
Definition kick (t g : Q) (z : Q * Q) : Q * Q := (fst z, snd z - t * g).
Definition drift (t mi : Q) (z : Q * Q) : Q * Q := (fst z + t * mi * snd z, snd z).
Theorem kick_flow : forall t1 t2 g z, fst (kick t1 g z) == fst z /\ snd (kick t2 g (kick t1 g z)) == snd (kick (t1 + t2) g z) /\ snd (kick (- t1) g (kick t1 g z)) == snd z.
Proof. intros t1 t2 g [q p]. unfold kick; cbn [fst snd]. repeat split; ring. Qed.
Print Assumptions kick_flow.
Theorem drift_flow : forall t1 t2 mi z, snd (drift t1 mi z) == snd z /\ fst (drift t2 mi (drift t1 mi z)) == fst (drift (t1 + t2) mi z)
  /\ fst (drift (- t1) mi (drift t1 mi z)) == fst z /\ fst (drift t1 mi (fst z, snd z + 1)) - fst (drift t1 mi z) == t1 * mi.
Proof. intros t1 t2 mi [q p]. unfold drift; cbn [fst snd]. repeat split; ring. Qed.
Print Assumptions drift_flow.

(* the same with the real cosine and sine: for ALL times, longer than an oscillation period included *)
From Coq Require Import Reals Lra.
Open Scope R_scope.
Definition rotR (w t : R) (z : R * R) : R * R := (cos (t / w) * fst z + sin (t / w) * w * snd z, cos (t / w) * snd z - sin (t / w) / w * fst z).
Theorem real_rotation_additive : forall w t1 t2 z, w <> 0 -> rotR w t2 (rotR w t1 z) = rotR w (t1 + t2) z.
Proof.
  intros w t1 t2 [q p] Hw. unfold rotR; cbn [fst snd].
  replace ((t1 + t2) / w) with (t1 / w + t2 / w) by (field; exact Hw). rewrite cos_plus, sin_plus. f_equal; field; exact Hw.
Qed.
Print Assumptions real_rotation_additive.
Theorem real_rotation_energy : forall w t z, w <> 0 ->
  let z' := rotR w t z in fst z' * fst z' + w * w * (snd z' * snd z') = fst z * fst z + w * w * (snd z * snd z).
Proof.
  intros w t [q p] Hw. unfold rotR; cbn [fst snd]. pose proof (sin2_cos2 (t / w)) as H. unfold Rsqr in H.
  transitivity ((sin (t / w) * sin (t / w) + cos (t / w) * cos (t / w)) * (q * q + w * w * (p * p))); [field; exact Hw | rewrite H; ring].
Qed.
Print Assumptions real_rotation_energy.
