(* C17 -- Adapters compute the estimators they document for any history.
   About the arithmetic REGENERATED from src/mici/adapters.py by translator T8 (Gen/AdaptersGen.v) assembled into whole-history
   models in Model/AdaptersModel.v.  Exact rational arithmetic; exp / log / non-integer powers are arbitrary functions
   (hypotheses on them are stated where used).  Statements only; proofs in Proofs/AdaptersProofs.v.                        *)
From Coq Require Import QArith List Bool Permutation.
Require Import Mici.Model.Adapters Mici.Gen.AdaptersGen Mici.Model.AdaptersModel Mici.Proofs.AdaptersProofs.
Import ListNotations.
Open Scope Q_scope.

(* after ANY sequence of positions the variance / covariance adapter state holds the count, the mean and the centred sum of
   squares / products of exactly those positions (all coordinates) *)
Theorem online_state_is_batch_statistics : forall l : list vec,
  (let '(n, m, a) := var_chain l in n == qn (length l) /\ forall i, n * m i == S1 i l /\ a i == P i i l - n * m i * m i)
  /\ (let '(n, m, a) := cov_chain l in n == qn (length l) /\ (forall i, n * m i == S1 i l) /\ forall i j, a i j == P i j l - n * m i * m j).
Proof. intros l. split; [exact (var_chain_repr l) | exact (cov_chain_repr l)]. Qed.
Print Assumptions online_state_is_batch_statistics.

(* finalize over ANY number of chains with ANY (non-empty) histories: AdaptationError iff fewer than two positions in total,
   otherwise the estimate whose inverse becomes the metric is the regularised POOLED sample variance of all positions *)
Theorem variance_estimate_is_regularised_pooled_variance : forall o scale l0 ls, 0 <= o -> l0 <> [] ->
  let all := l0 ++ concat ls in
  match var_finalize o scale (map var_chain (l0 :: ls)) with
  | None => (length all < 2)%nat
  | Some v => (2 <= length all)%nat /\ forall i, v i == if Qeq_bool o 0 then pooled_cov i i all else reg o scale (qn (length all)) (pooled_cov i i all)
  end.
Proof. exact var_finalize_pooled. Qed.
Print Assumptions variance_estimate_is_regularised_pooled_variance.
Theorem covariance_estimate_is_regularised_pooled_covariance : forall o scale l0 ls, 0 <= o -> l0 <> [] ->
  let all := l0 ++ concat ls in
  match cov_finalize o scale (map cov_chain (l0 :: ls)) with
  | None => (length all < 2)%nat
  | Some v => (2 <= length all)%nat /\ forall i j, v i j == pooled_cov i j all * (qn (length all) / (o + qn (length all)))
                                                          + (if Nat.eqb i j then scale * (o / (o + qn (length all))) else 0)
  end.
Proof. exact cov_finalize_pooled. Qed.
Print Assumptions covariance_estimate_is_regularised_pooled_covariance.

(* ... and therefore independent of how the positions are split among chains and of the order of chains and positions *)
Theorem metric_estimates_independent_of_split_and_order : forall o scale l0 ls l0' ls', 0 <= o -> l0 <> [] -> l0' <> [] ->
  Permutation (l0 ++ concat ls) (l0' ++ concat ls') ->
  (forall v v', var_finalize o scale (map var_chain (l0 :: ls)) = Some v -> var_finalize o scale (map var_chain (l0' :: ls')) = Some v' -> forall i, v i == v' i)
  /\ (forall v v', cov_finalize o scale (map cov_chain (l0 :: ls)) = Some v -> cov_finalize o scale (map cov_chain (l0' :: ls')) = Some v' -> forall i j, v i j == v' i j).
Proof.
  intros o scale l0 ls l0' ls' Ho H0 H0' HP. split; intros v v' E E'.
  - exact (var_finalize_split_independent o scale l0 ls l0' ls' v v' Ho H0 H0' HP E E').
  - exact (cov_finalize_split_independent o scale l0 ls l0' ls' v v' Ho H0 H0' HP E E').
Qed.
Print Assumptions metric_estimates_independent_of_split_and_order.

(* dual averaging: one update is the documented recursion; for ANY history of statistics the error statistic has the closed
   form (t0 + m) Hbar_m = sum (delta - a_i), the counter counts updates, the regularisation target is the configured one
   (0 included) or log(10 eps0); every step size set is exp(.) hence positive; the smoothed iterate is the weighted average
   with weight m^-kappa, which forgets the start value at the first update and stays within the range of the iterates *)
Theorem dual_averaging_update_is_documented_recursion : forall powf expf t0 delta kappa gamma, 0 <= t0 -> ~ gamma == 0 ->
  forall it hbar sm mu a, 0 <= it ->
  let '((it1, h1, s1, m1), e1) := da_step powf expf t0 delta kappa gamma (it, hbar, sm, mu) a in
  let '((it2, h2, s2, m2), le) := spec_step powf t0 delta kappa gamma (it, hbar, sm, mu) a in
  it1 == it2 /\ h1 == h2 /\ s1 == s2 /\ m1 == m2 /\ exists le', e1 = expf le' /\ le' == le.
Proof. intros powf expf t0 delta kappa gamma H0 Hg. exact (da_step_is_documented_recursion powf expf t0 delta kappa gamma H0 Hg). Qed.
Print Assumptions dual_averaging_update_is_documented_recursion.
Theorem dual_averaging_error_closed_form : forall powf expf logf t0 delta kappa gamma, 0 <= t0 -> forall target eps0 l,
  let '(it, err, sm, mu) := da_final powf expf t0 delta kappa gamma (da_init logf target eps0) l in
  it == qn (length l) /\ (t0 + qn (length l)) * err == lsum (map (fun a => delta - a) l)
  /\ mu = match target with None => logf (10 * eps0) | Some t => t end.
Proof. intros powf expf logf t0 delta kappa gamma H0. exact (da_error_closed_form powf expf logf t0 delta kappa gamma H0). Qed.
Print Assumptions dual_averaging_error_closed_form.
Theorem dual_averaging_step_sizes_positive_and_smoothed : forall powf expf logf t0 delta kappa gamma, 0 <= t0 -> ~ gamma == 0 ->
  (forall s a, (forall x, 0 < expf x) -> 0 < snd (da_step powf expf t0 delta kappa gamma s a))
  /\ (forall it err sm mu a lo hi, 0 <= it -> 0 <= powf (1 / (it + 1)) kappa <= 1 ->
        let '((_, err', sm', _), _) := da_step powf expf t0 delta kappa gamma (it, err, sm, mu) a in
        lo <= sm <= hi -> lo <= mu - err' * powf (it + 1) (1 # 2) / gamma <= hi -> lo <= sm' <= hi)
  /\ (forall target eps0 a, powf 1 kappa == 1 ->
        let '((_, err', sm', mu), _) := da_step powf expf t0 delta kappa gamma (da_init logf target eps0) a in
        sm' == mu - err' * powf 1 (1 # 2) / gamma)
  /\ (forall sm, gen_da_finalize_single expf sm = expf sm).
Proof.
  intros powf expf logf t0 delta kappa gamma H0 Hg. split; [|split; [|split]].
  - intros s a. exact (da_step_size_positive powf expf t0 delta kappa gamma s a).
  - intros it err sm mu a lo hi. exact (da_smoothing_bounded powf expf t0 delta kappa gamma it err sm mu a lo hi).
  - intros target eps0 a. exact (da_first_update_forgets_start powf expf logf t0 delta kappa gamma H0 Hg target eps0 a).
  - reflexivity.
Qed.
Print Assumptions dual_averaging_step_sizes_positive_and_smoothed.

(* reducers over the per-chain smoothed log step sizes *)
Theorem reducers_compute_documented_statistics : forall expf l,
  gen_arithmetic_mean_log_step_size_reducer expf l = lsum (map expf l) / llen l
  /\ gen_geometric_mean_log_step_size_reducer expf l = expf (lsum l / llen l)
  /\ (l <> [] -> (forall a b, a <= b -> expf a <= expf b) -> (forall a b, a == b -> expf a == expf b) ->
      (exists x, In x l /\ gen_min_log_step_size_reducer expf l == expf x) /\ forall x, In x l -> gen_min_log_step_size_reducer expf l <= expf x).
Proof. intros expf l. split; [|split]; [reflexivity | reflexivity | exact (min_reducer_is_minimum expf l)]. Qed.
Print Assumptions reducers_compute_documented_statistics.

(* the initial search, for EVERY outcome function of the one-step trial (below / above log 2, NaN, integrator error) and
   every iteration budget: a returned step size sits at a crossing of the threshold -- its own energy change is on one side,
   that of the neighbouring trial (twice or half of it) on the other; otherwise AdaptationError (None) *)
Theorem initial_step_size_search_returns_a_crossing : forall out max_iters r,
  find_init_step_size out max_iters = Some r ->
  (out r = Below /\ exists p, r = p / 2 /\ out p <> Below) \/ (out r = Above /\ exists p, r = p * 2 /\ out p = Below).
Proof. exact init_step_size_crosses_threshold. Qed.
Print Assumptions initial_step_size_search_returns_a_crossing.

(* non-vacuity: concrete histories *)
Example finalize_three_unequal_chains :
  let x (a b : Q) : vec := fun i => match i with O => a | _ => b end in
  match var_finalize 5 (1 # 1000) (map var_chain [[x 1 2; x 3 1]; [x 0 0]; [x 2 2; x 5 1; x 4 7; x 1 1]]) with
  | Some v => Qred (v 0%nat) = Qred (reg 5 (1 # 1000) 7 (pooled_cov 0 0 [x 1 2; x 3 1; x 0 0; x 2 2; x 5 1; x 4 7; x 1 1])) | None => False end.
Proof. vm_compute. reflexivity. Qed.
Example search_example :
  find_init_step_size (fun e => if Qle_bool e (1 # 3) then Below else if Qle_bool e 3 then Above else Failed) 20 = Some (1 # 4).
Proof. vm_compute. reflexivity. Qed.
