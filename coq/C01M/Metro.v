From Coq Require Import QArith Qminmax ZArith List Bool Lia Lqa.
Require Import Mici.C01M.Lib.
Open Scope Q_scope.

(* Metropolis integration transition on an orbit; extended state (index, dir) *)
Section M.
Variable wt : Z -> Q.                 (* exp(-h) > 0 on usable states *)
Variable okE : Z -> bool.             (* edge i -- i+1 usable *)
Hypothesis wpos : forall i, 0 < wt i.
Record xs := { idx : Z; fwd : bool }.
(* integrate n steps from i in direction d; None if an edge fails *)
Fixpoint run (n : nat) (i : Z) (d : bool) : option Z :=
  match n with
  | O => Some i
  | S n' => let e := if d then i else (i - 1)%Z in
            if okE e then run n' (if d then (i + 1)%Z else (i - 1)%Z) d else None
  end.
Definition sample_n (n : nat) (s : xs) : ptree xs :=
  match run n (idx s) (fwd s) with
  | None => Ret {| idx := idx s; fwd := negb (fwd s) |}              (* error: reject, direction flipped *)
  | Some j =>
      (* proposal (j, -d); accept w.p. min(1, w_j / w_i); then flip direction again *)
      Flip (Qmin 1 (wt j / wt (idx s)))
           (Ret {| idx := j; fwd := fwd s |})
           (Ret {| idx := idx s; fwd := negb (fwd s) |})
  end.
Definition ind (a b : xs) : Q := if (Z.eqb (idx a) (idx b) && Bool.eqb (fwd a) (fwd b))%bool then 1 else 0.

(* reversibility of the orbit walk *)
Lemma run_shift n : forall i d, run n i d = Some (if d then (i + Z.of_nat n)%Z else (i - Z.of_nat n)%Z) \/ run n i d = None.
Proof.
  induction n; intros i d; cbn [run]. left. destruct d; f_equal; lia.
  destruct (okE _); [|right; reflexivity].
  destruct (IHn (if d then (i + 1)%Z else (i - 1)%Z) d) as [H|H]; rewrite H; [left|right; reflexivity].
  destruct d; f_equal; lia.
Qed.
Lemma run_rev n : forall i d j, run n i d = Some j -> run n j (negb d) = Some i.
Proof.
  induction n; intros i d j H; cbn [run] in *. inversion H; reflexivity.
  destruct (okE (if d then i else (i - 1)%Z)) eqn:E; [|discriminate].
  (* last edge of the reversed walk is the first edge of the forward walk *)
  assert (G : forall m a b dd, run m a dd = Some b -> forall c, run 1 b dd = Some c -> run (S m) a dd = Some c).
  { induction m; intros a b dd Hm c Hc; cbn [run] in Hm. inversion Hm; subst. exact Hc.
    cbn [run]. destruct (okE (if dd then a else (a - 1)%Z)); [|discriminate].
    apply (IHm _ _ _ Hm _ Hc). }
  pose proof (IHn _ _ _ H) as R.
  apply (G n j (if d then (i + 1)%Z else (i - 1)%Z) (negb d) R i).
  cbn [run]. destruct d; cbn [negb].
  - replace (i + 1 - 1)%Z with i by lia. rewrite E. reflexivity.
  - replace (i - 1 + 1)%Z with i by lia. replace (i - 1)%Z with (i - 1)%Z in E by lia. rewrite E. f_equal.
Qed.

Lemma run_none_rev (n : nat) (i : Z) (d : bool) (j : Z) : run n i d = None -> j = (if d then (i + Z.of_nat n)%Z else (i - Z.of_nat n)%Z) -> run n j (negb d) = None.
Proof.
  intros H Hj. destruct (run n j (negb d)) as [k|] eqn:E; [|reflexivity].
  apply run_rev in E. rewrite negb_involutive in E.
  destruct (run_shift n j (negb d)) as [S|S]; [|apply run_rev in E; congruence].
  (* k is i *)
  assert (k = i).
  { pose proof (run_rev _ _ _ _ E) as E'. rewrite E' in S. inversion S. subst j. destruct d; cbn [negb] in *; lia. }
  subst k. congruence.
Qed.

Definition st (i : Z) (d : bool) : xs := {| idx := i; fwd := d |}.
Definition P (n : nat) (a b : xs) : Q := ex (sample_n n a) (fun s => ind s b).

Theorem metropolis_invariant (n : nat) (j : Z) (e : bool) :
  let i := if e then (j - Z.of_nat n)%Z else (j + Z.of_nat n)%Z in
  (0 < n)%nat ->
  wt i * P n (st i e) (st j e) + wt j * P n (st j (negb e)) (st j e) == wt j.
Proof.
  intros i Hn. unfold P, sample_n, st. cbn [idx fwd].
  assert (Hij : j = (if e then (i + Z.of_nat n)%Z else (i - Z.of_nat n)%Z)) by (unfold i; destruct e; lia).
  assert (Hne : Z.eqb i j = false) by (apply Z.eqb_neq; unfold i; destruct e; lia).
  destruct (run n i e) as [j'|] eqn:R.
  - assert (Ej : j' = j).
    { destruct (run_shift n i e) as [S|S]; [|congruence]. rewrite R in S. inversion S. symmetry. exact Hij. }
    subst j'.
    rewrite (run_rev _ _ _ _ R). cbn [ex]. unfold ind. cbn [idx fwd].
    rewrite !Z.eqb_refl, Hne, negb_involutive, eqb_reflx. cbn [andb].
    pose proof (wpos i) as Pi. pose proof (wpos j) as Pj.
    assert (C1 : clip (Qmin 1 (wt j / wt i)) == Qmin 1 (wt j / wt i)).
    { apply clip_id. split. apply Q.min_glb; [lra| apply Qle_shift_div_l; lra]. apply Q.le_min_l. }
    assert (C2 : clip (Qmin 1 (wt i / wt j)) == Qmin 1 (wt i / wt j)).
    { apply clip_id. split. apply Q.min_glb; [lra| apply Qle_shift_div_l; lra]. apply Q.le_min_l. }
    rewrite C1, C2.
    destruct (Qlt_le_dec (wt i) (wt j)).
    + assert (1 <= wt j / wt i) by (apply Qle_shift_div_l; lra). assert (wt i / wt j <= 1) by (apply Qle_shift_div_r; lra).
      rewrite (Q.min_l 1 (wt j / wt i)) by lra. rewrite (Q.min_r 1 (wt i / wt j)) by lra. field; lra.
    + assert (wt j / wt i <= 1) by (apply Qle_shift_div_r; lra). assert (1 <= wt i / wt j) by (apply Qle_shift_div_l; lra).
      rewrite (Q.min_r 1 (wt j / wt i)) by lra. rewrite (Q.min_l 1 (wt i / wt j)) by lra. field; lra.
  - rewrite (run_none_rev n i e j R Hij). cbn [ex]. unfold ind. cbn [idx fwd].
    rewrite !Z.eqb_refl, Hne, negb_involutive, eqb_reflx. cbn [andb]. lra.
Qed.
End M.
Print Assumptions metropolis_invariant.
