From Coq Require Import QArith Qminmax ZArith List Bool Lia Lqa.
Import ListNotations.
Open Scope Q_scope.

(* ---------- finite sums over nat ranges ---------- *)
Fixpoint sumn (n : nat) (f : nat -> Q) : Q := match n with O => 0 | S m => sumn m f + f m end.
Lemma sumn_ext n f g : (forall k, (k < n)%nat -> f k == g k) -> sumn n f == sumn n g.
Proof. induction n; simpl; intros H; [lra|]. rewrite IHn, (H n) by (intros; try apply H; lia). lra. Qed.
Lemma sumn_plus n f g : sumn n (fun k => f k + g k) == sumn n f + sumn n g.
Proof. induction n; simpl; [lra| rewrite IHn; lra]. Qed.
Lemma sumn_scal n c f : sumn n (fun k => c * f k) == c * sumn n f.
Proof. induction n; simpl; [lra| rewrite IHn; lra]. Qed.
Lemma sumn_zero n f : (forall k, (k < n)%nat -> f k == 0) -> sumn n f == 0.
Proof. induction n; simpl; intros H; [lra|]. rewrite IHn, (H n) by (intros; try apply H; lia). lra. Qed.
Lemma sumn_add n m f : sumn (n + m) f == sumn n f + sumn m (fun k => f (n + k)%nat).
Proof. induction m; simpl. - rewrite Nat.add_0_r; lra. - rewrite Nat.add_succ_r. simpl. rewrite IHm. lra. Qed.
Lemma sumn_swap n m (f : nat -> nat -> Q) : sumn n (fun i => sumn m (fun j => f i j)) == sumn m (fun j => sumn n (fun i => f i j)).
Proof. induction n; simpl. - induction m; simpl; [lra| rewrite <- IHm; lra]. - rewrite IHn, <- sumn_plus. apply sumn_ext; intros; lra. Qed.
Lemma sumn_single n f k : (k < n)%nat -> (forall l, (l < n)%nat -> l <> k -> f l == 0) -> sumn n f == f k.
Proof.
  induction n; intros Hk H; [lia|]. simpl. destruct (Nat.eq_dec k n) as [->|Ne].
  - rewrite sumn_zero; [lra|]. intros l Hl. apply H; lia.
  - rewrite IHn by (try lia; intros; apply H; lia). rewrite (H n) by lia. lra.
Qed.
Lemma sumn_nonneg n f : (forall k, (k < n)%nat -> 0 <= f k) -> 0 <= sumn n f.
Proof. induction n; simpl; intros H; [lra|]. assert (0 <= sumn n f) by (apply IHn; intros; apply H; lia). specialize (H n ltac:(lia)). lra. Qed.

(* ---------- decision trees and expectation ---------- *)
Inductive ptree (A : Type) := Ret (a : A) | Flip (p : Q) (t f : ptree A).
Arguments Ret {A}. Arguments Flip {A}.
Fixpoint bind {A B} (m : ptree A) (k : A -> ptree B) : ptree B :=
  match m with Ret a => k a | Flip p t f => Flip p (bind t k) (bind f k) end.
Definition clip (p : Q) : Q := Qmax 0 (Qmin 1 p).
Lemma clip_range p : 0 <= clip p <= 1.
Proof. unfold clip. split. apply Q.le_max_l. apply Q.max_lub; [lra|apply Q.le_min_l]. Qed.
Lemma clip_id p : 0 <= p <= 1 -> clip p == p.
Proof. intros [H0 H1]. unfold clip. rewrite (Q.min_r 1 p) by lra. rewrite Q.max_r by lra. reflexivity. Qed.
Global Instance clip_proper : Proper (Qeq ==> Qeq) clip.
Proof. intros a b H. unfold clip. rewrite H. reflexivity. Qed.
Fixpoint ex {A} (m : ptree A) (g : A -> Q) : Q :=
  match m with Ret a => g a | Flip p t f => clip p * ex t g + (1 - clip p) * ex f g end.
Lemma ex_bind {A B} (m : ptree A) (k : A -> ptree B) g : ex (bind m k) g == ex m (fun a => ex (k a) g).
Proof. induction m; simpl; [lra| rewrite IHm1, IHm2; lra]. Qed.
Lemma ex_ext {A} (m : ptree A) g h : (forall a, g a == h a) -> ex m g == ex m h.
Proof. intros H. induction m; simpl; [apply H| rewrite IHm1, IHm2; lra]. Qed.
Lemma ex_scal {A} (m : ptree A) c g : ex m (fun a => c * g a) == c * ex m g.
Proof. induction m; simpl; [lra| rewrite IHm1, IHm2; lra]. Qed.
Lemma ex_plus {A} (m : ptree A) g h : ex m (fun a => g a + h a) == ex m g + ex m h.
Proof. induction m; simpl; [lra| rewrite IHm1, IHm2; lra]. Qed.
Lemma ex_const {A} (m : ptree A) c : ex m (fun _ => c) == c.
Proof. induction m; simpl; [lra| rewrite IHm1, IHm2; lra]. Qed.
Lemma ex_sumn {A} (m : ptree A) n (g : nat -> A -> Q) : ex m (fun a => sumn n (fun k => g k a)) == sumn n (fun k => ex m (g k)).
Proof. induction n; simpl. apply ex_const. rewrite ex_plus, IHn. lra. Qed.
Lemma ex_nonneg {A} (m : ptree A) g : (forall a, 0 <= g a) -> 0 <= ex m g.
Proof. intros H. induction m; simpl; [apply H|]. pose proof (clip_range p). nra. Qed.
