From Coq Require Import QArith Qminmax ZArith List Bool Lia Lqa.
Require Import Mici.C01.Lib Mici.C01.Model Mici.C01.Build Mici.C01.Sym Mici.C01.Loop Mici.C01.Path Mici.C01.Bal Mici.C01.Fin Mici.C01.Tree Mici.C01.Tree2 Mici.C01.Total Mici.C01.Final.
Import ListNotations.
Open Scope Q_scope.

(* ---- sums over integer windows: wsum a n f = sum_{s<n} f (a + s) ---- *)
Definition wsum (a : Z) (n : nat) (f : Z -> Q) : Q := sumn n (fun s => f (a + Z.of_nat s)%Z).
Lemma wsum_ext a n f g : (forall i, (a <= i < a + Z.of_nat n)%Z -> f i == g i) -> wsum a n f == wsum a n g.
Proof. intros H. apply sumn_ext; intros. apply H. lia. Qed.
Lemma wsum_zero a n f : (forall i, (a <= i < a + Z.of_nat n)%Z -> f i == 0) -> wsum a n f == 0.
Proof. intros H. apply sumn_zero; intros. apply H. lia. Qed.
Lemma wsum_split a n m f : wsum a (n + m) f == wsum a n f + wsum (a + Z.of_nat n) m f.
Proof. unfold wsum. rewrite sumn_add. apply Qplus_comp; [reflexivity|]. apply sumn_ext; intros. replace (a + Z.of_nat (n + k))%Z with (a + Z.of_nat n + Z.of_nat k)%Z by lia. reflexivity. Qed.
(* restriction to a sub-window outside of which f vanishes *)
Lemma wsum_restrict a n b m f : (a <= b)%Z -> (b + Z.of_nat m <= a + Z.of_nat n)%Z ->
  (forall i, (a <= i < a + Z.of_nat n)%Z -> ~ (b <= i < b + Z.of_nat m)%Z -> f i == 0) ->
  wsum a n f == wsum b m f.
Proof.
  intros Hab Hbm Hz.
  assert (Hp : exists p q, n = (p + (m + q))%nat /\ Z.of_nat p = (b - a)%Z).
  { exists (Z.to_nat (b - a)), (n - Z.to_nat (b - a) - m)%nat. split; lia. }
  destruct Hp as (p & q & Hn & Hp). subst n.
  rewrite wsum_split, wsum_split.
  assert (Z1 : wsum a p f == 0) by (apply wsum_zero; intros i Hi; apply Hz; lia).
  assert (Z2 : wsum (a + Z.of_nat p + Z.of_nat m) q f == 0) by (apply wsum_zero; intros i Hi; apply Hz; lia).
  rewrite Z1, Z2.
  replace (a + Z.of_nat p)%Z with b by lia. lra.
Qed.
Lemma wsum_bsum L m f : wsum L (Z.to_nat (pw m)) f == bsum L m f.
Proof.
  revert L; induction m; intros L; cbn [bsum pw].
  - unfold wsum. replace (Z.to_nat 1) with 1%nat by reflexivity. cbn [sumn]. replace (L + Z.of_nat 0)%Z with L by lia. lra.
  - pose proof (pw_pos m). replace (Z.to_nat (2 * pw m)) with (Z.to_nat (pw m) + Z.to_nat (pw m))%nat by lia.
    rewrite wsum_split, !IHm. replace (L + Z.of_nat (Z.to_nat (pw m)))%Z with (L + pw m)%Z by lia. reflexivity.
Qed.
Lemma wsum_swap_dsum a n m (g : Z -> list bool -> Q) :
  wsum a n (fun i => dsum m (fun ds => g i ds)) == dsum m (fun ds => wsum a n (fun i => g i ds)).
Proof.
  revert g; induction m; intros g; cbn [dsum]. reflexivity.
  unfold wsum in *. rewrite sumn_plus. rewrite (IHm (fun i ds => g i (true :: ds))), (IHm (fun i ds => g i (false :: ds))). reflexivity.
Qed.
Lemma wsum_swap_sumn a n k (g : Z -> nat -> Q) :
  wsum a n (fun i => sumn k (fun m => g i m)) == sumn k (fun m => wsum a n (fun i => g i m)).
Proof. unfold wsum. apply sumn_swap. Qed.

(* ---- offsets enumerate the block: sum over direction lists = sum over the block ---- *)
Lemma sumn_even_odd n h : sumn (n + n) h == sumn n (fun t => h (2 * t)%nat) + sumn n (fun t => h (2 * t + 1)%nat).
Proof.
  induction n; cbn [sumn plus]. lra.
  replace (n + S n)%nat with (S (n + n)) by lia. cbn [sumn]. rewrite IHn.
  replace (2 * n)%nat with (n + n)%nat by lia. replace (n + n + 1)%nat with (S (n + n)) by lia. lra.
Qed.
Lemma dsum_off_gen m : forall k c (g : Z -> Q),
  dsum m (fun ds => g (c + off k ds)%Z) == sumn (Z.to_nat (pw m)) (fun t => g (c + Z.of_nat t * pw k)%Z).
Proof.
  induction m; intros k c g; cbn [dsum].
  - cbn [off pw]. replace (Z.to_nat 1) with 1%nat by reflexivity. cbn [sumn]. replace (c + Z.of_nat 0 * pw k)%Z with (c + 0)%Z by lia. lra.
  - cbn [off].
    rewrite (dsum_ext m _ (fun ds => g (c + off (S k) ds)%Z)) by (intros; replace (c + (0 + off (S k) ds))%Z with (c + off (S k) ds)%Z by lia; reflexivity).
    rewrite (dsum_ext m (fun ds => g (c + (pw k + off (S k) ds))%Z) (fun ds => g (c + pw k + off (S k) ds)%Z)) by (intros; replace (c + (pw k + off (S k) ds))%Z with (c + pw k + off (S k) ds)%Z by lia; reflexivity).
    rewrite (IHm (S k) c g), (IHm (S k) (c + pw k)%Z g).
    pose proof (pw_pos m). cbn [pw]. replace (Z.to_nat (2 * pw m)) with (Z.to_nat (pw m) + Z.to_nat (pw m))%nat by lia.
    rewrite sumn_even_odd. apply Qplus_comp; apply sumn_ext; intros t _.
    + replace (c + Z.of_nat t * (2 * pw k))%Z with (c + Z.of_nat (2 * t) * pw k)%Z by lia. reflexivity.
    + replace (c + pw k + Z.of_nat t * (2 * pw k))%Z with (c + Z.of_nat (2 * t + 1) * pw k)%Z by lia. reflexivity.
Qed.
Lemma dsum_off m c (g : Z -> Q) : dsum m (fun ds => g (c + off 0 ds)%Z) == bsum c m g.
Proof.
  rewrite dsum_off_gen. rewrite <- wsum_bsum. unfold wsum. apply sumn_ext; intros. cbn [pw]. replace (Z.of_nat k * 1)%Z with (Z.of_nat k) by lia. reflexivity.
Qed.
Lemma dsum_off_neg m c (g : Z -> Q) : dsum m (fun ds => g (c - off 0 ds)%Z) == bsum (c - pw m + 1)%Z m g.
Proof.
  (* reverse the block *)
  pose proof (dsum_off m 0 (fun t => g (c - t)%Z)) as H. cbn beta in H.
  rewrite (dsum_ext m _ (fun ds => g (c - (0 + off 0 ds))%Z)) by (intros; replace (0 + off 0 ds)%Z with (off 0 ds) by lia; reflexivity).
  rewrite H. rewrite <- !wsum_bsum. unfold wsum.
  set (n := Z.to_nat (pw m)). pose proof (pw_pos m).
  assert (Rv : forall N (h : nat -> Q), sumn N h == sumn N (fun s => h (N - 1 - s)%nat)).
  { induction N; intros h. reflexivity.
    rewrite sumn_shift. cbn [sumn].
    replace (S N - 1 - N)%nat with 0%nat by lia.
    rewrite (sumn_ext N (fun s => h (S N - 1 - s)%nat) (fun s => h (S (N - 1 - s)))).
    - rewrite <- (IHN (fun u => h (S u))). lra.
    - intros s Hs. replace (S N - 1 - s)%nat with (S (N - 1 - s)) by lia. reflexivity. }
  rewrite (Rv n). apply sumn_ext; intros s Hs.
  replace (c - (0 + Z.of_nat (n - 1 - s)))%Z with (c - pw m + 1 + Z.of_nat s)%Z by (unfold n in *; lia). reflexivity.
Qed.
